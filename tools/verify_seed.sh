#!/bin/bash
# usage: verify_seed.sh <id> : confirms a seeded change in its scratch worktree /tmp/wt/<id>
#   build ok, root suite ok, tests suite ok (with patch), demo fails with patch, demo passes without.
id=$1; wt=/tmp/wt/$id; out=/tmp/seedout/$id
export GOFLAGS=-mod=mod GOPROXY=off GOSUMDB=off GOTOOLCHAIN=local; unset GOWORK
export TMPDIR=/tmp/seedtmp-$id; mkdir -p $TMPDIR
cd $wt || exit 2
git checkout -q -- . ; rm -f tests/zz_seed_demo_test.go zz_seed_demo_test.go
git apply $out/patch.diff || { echo "PATCH DOES NOT APPLY"; exit 2; }
pkg=$(head -5 $out/demo_test.go | grep '^package' | awk '{print $2}')
if [ "$pkg" = "tests_test" ]; then demodir=$wt/tests; else demodir=$wt; fi
echo "== build"; go build ./... && echo build-ok
echo "== root suite (with patch)"; go test -vet=off -count=1 ./... 2>&1 | grep -v "^ok\|no test files" | head -5; echo root-done
echo "== tests suite (with patch)"; (cd tests && go test -vet=off -count=1 ./... 2>&1 | tail -3)
cp $out/demo_test.go $demodir/zz_seed_demo_test.go
race=""; grep -q "race" $out/notes.md 2>/dev/null && grep -qi "\-race" $out/notes.md && race="-race"
echo "== demo WITH patch (must fail) $race"; (cd $demodir && go test $race -vet=off -count=1 -run "TestC[0-9]+|TestSeed|TestDemo" . 2>&1 | tail -6)
git apply -R $out/patch.diff
cp $out/demo_test.go $demodir/zz_seed_demo_test.go
echo "== demo WITHOUT patch (must pass)"; (cd $demodir && go test $race -vet=off -count=1 -run "TestC[0-9]+|TestSeed|TestDemo" . 2>&1 | tail -3)
rm -f $demodir/zz_seed_demo_test.go
git apply $out/patch.diff
rm -rf $TMPDIR
