#!/usr/bin/env python3
"""Regenerates section 9 of DESIGN.md (seed table) from /verif/seeded/*/meta.json.
The free-text 'Honest tally' paragraph is kept in tools/design_tally.md."""
import json,glob,os
V=os.path.dirname(os.path.dirname(os.path.abspath(__file__)))
rows=[json.load(open(f)) for f in sorted(glob.glob(V+'/seeded/*/meta.json'))]
out=["","## 9. Independently seeded changes and which checks catch them","",
"Each change below was written by a fresh sub-agent that saw only the text of one property and a",
"scratch worktree of `/repo` (nothing from `/verif`; round-2 agents were additionally told which place",
"the round-1 seed of their property had used, so that they pick a different mechanism).  Every one was",
"confirmed in a scratch worktree (`tools/verify_seed.sh`: builds, both pinned suites green with the",
"change, the agent's demonstration fails with it and passes without it) and is kept under",
"`/verif/seeded/<id>/` (patch, demonstration, meta.json).  `tools/try_seed.sh` applies a patch to",
"`/repo`, runs every claimed check and reverts.  The seeded patches are also part of the thorough-tier",
"battery of their property (they must keep firing the recorded rule).","",
"| seed | property | change (needs … to manifest) | caught by |","|---|---|---|---|"]
for m in rows:
    extra = ''
    if m.get('rebased'):
        extra += ' *Rebased:* ' + m['rebased']
    if m.get('superseded'):
        extra += ' *Superseded:* ' + m['superseded']
    out.append(f"| {m['id']} | {m['property']} | {m['what']} *Needs:* {m['needs_to_manifest']} | {'; '.join(m['caught_by'])}{extra} |")
out.append("")
out.append(open(V+'/tools/design_tally.md').read())
s=open(V+'/DESIGN.md').read()
if '\n## 9. Independently seeded' in s:
    s=s[:s.index('\n## 9. Independently seeded')]
open(V+'/DESIGN.md','w').write(s.rstrip('\n')+'\n'+'\n'.join(out))
print("seeds:",len(rows))
