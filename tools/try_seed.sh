#!/bin/bash
# usage: try_seed.sh <patch.diff> [property ...]   applies the patch to /repo, runs the checks, reverts.
patch=$1; shift
props=${@:-$(/verif/bin/gormverif list)}
cd /repo && git status --short | grep -v '^??' | grep -q . && { echo "/repo not clean"; exit 2; }
git -C /repo apply "$patch" || { echo "patch does not apply"; exit 2; }
trap 'git -C /repo checkout -- . ' EXIT
for p in $props; do
  out=$(/verif/bin/gormverif check $p --no-evidence 2>&1)
  rc=$?
  if [ $rc -ne 0 ]; then echo "== $p exit=$rc"; echo "$out" | grep -A3 "^VIOLATION\|^CHECKER-ERROR" | head -30; fi
done
echo "done"
