#!/bin/bash
# Consistency replay (documentation, not a registered check): runs every check against the ORIGINAL snapshot of
# /repo (the commit before all "fix:" commits) in a scratch worktree and lists the violations.  Every line must be
# one of the findings recorded in known_findings.json as "fixed:" - a fixed entry suppresses nothing, so the
# violation is reported again as soon as the defect is back.
export GOFLAGS=-mod=mod GOPROXY=off GOSUMDB=off GOTOOLCHAIN=local; unset GOWORK
V=$(cd "$(dirname "$0")/.." && pwd)
base=$(git -C /repo log --format=%H | tail -1)
wt=$(mktemp -d /tmp/gormverif-base-XXXX)
git -C /repo worktree add --detach "$wt" "$base" >/dev/null 2>&1 || exit 2
for p in C01 C02 C03 C04 C05 C06 C07 C08 C09 C10 C11 C12 C13 C14 C15 C16 C17 C18 C19 C20; do
  "$V/bin/gormverif" check $p --repo "$wt" --no-evidence 2>&1 | grep -E "^VIOLATION|^CHECKER-ERROR" | sed 's/replay=[^ ]* //'
done | sort
git -C /repo worktree remove --force "$wt"
