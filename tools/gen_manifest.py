#!/usr/bin/env python3
"""Regenerates /verif/MANIFEST.json from the table below (claimed checks) and
properties.jsonl (everything not claimed is listed under not_applicable)."""
import json, os

V = os.path.dirname(os.path.dirname(os.path.abspath(__file__)))

NOTE = ("Trusted base: Go type checker, go/cfg, go/ssa and VTA of golang.org/x/tools v0.29.0; the rule and exemption tables in "
        "/verif/checker; RegisterDefaultCallbacks is how pipelines are populated; user hooks/scopes/dialectors/ConnPools respect "
        "their interface contracts. The check decides the structural clauses named in level_claimed.text on every path/site of the "
        "current source; it does NOT decide the run-time behaviour (row sets, values, schedules) - see DESIGN.md section 4 'Not decided'.")

CLAIMED = {
 "C01": ("4 (C01)", "custom static analysis: SSA forward taint with local-cell tracking and parameter-to-sink summaries over static calls; who-writes check of Statement.Vars with must-pass pairing to BindVarTo; loop-iteration path enumeration for one-bind-per-element",
   "Static, all-functions of clause/gorm/callbacks: no flow from a value-role field, the AddVar variadic, BuildCondition args or a field.ValueOf result into a text sink (WriteString/WriteByte/WriteQuoted/QuoteTo, SQL-text or identifier fields) - values leave only through AddVar/BindVarTo; every writer of Statement.Vars is an append of one value followed on every path by BindVarTo of that value, a reset, an adoption, the NamedArg surplus arm or a scratch statement; every element-binding loop calls AddVar exactly once per iteration and empty-slice arms write NULL / bind nil. Placeholder/value alignment for every chain and third-party dialectors are NOT decided."),
 "C02": ("4 (C02)", "custom static analysis: SSA slice-contributor analysis (append/copy) of MergeClause results, sibling check of parenthesisation decision sites over raw-SQL unit types, shared empty-form rule",
   "Static, narrow: merging list-carrying clauses keeps both the earlier and the new units; every parenthesisation decision in package clause treats clause.Expr and clause.NamedExpr alike (found and fixed the NOT + named-argument defect); empty condition forms add no clause. The selected row set, three-valued logic and the AND/OR substring test itself are NOT decided."),
 "C04": ("4 (C04)", "custom static analysis: symbolic path enumeration of (*DB).Transaction and the Commit/Rollback/SavePoint/RollbackTo wrappers with per-node fact snapshots, go/cfg guard facts in the deferred closures, SSA flow of BeginTx results",
   "Static, all-paths: the user function of a Transaction block is called only after a deferred rollback of the begun handle (or of the save point just taken, same name) is registered and only when Begin/SavePoint succeeded; the rollback is conditioned on flag || named-result error with the flag cleared only after the function returned; success commits and returns Commit().Error through the named result, error paths never commit; Begin installs every transaction it begins as the derived handle's pool; Commit/Rollback forward or report ErrInvalidTransaction on every path; SavePoint/RollbackTo restore the prepared-statement pool on every path. What the database does on COMMIT/ROLLBACK is NOT decided."),
 "C05": ("4 (C05)", "custom static analysis: registration-sequence check, symbolic path enumeration of the transaction callbacks, go/cfg guard-fact dominance of every effect site (with SSA effect summaries), SSA error-flow discipline with a repository-specific sink list, SSA origin of nested-call receivers",
   "Static, all-paths/all-sites: begin-first/commit-last bracket of each write pipeline behind one predicate; exactly one of Commit/Rollback under the marker with the pool restored, pool+marker stored together only on a successful Begin; every effect site in every executor dominated by Error == nil; every error of a driver call, Rows.Scan/Close/Err, hook, save-point call or nested finisher reaches AddError / an Error field / the caller; nested writes run on a handle derived from the operation's own *DB; CreateInBatches wraps multi-batch writes in one transaction. Atomicity delivered by the database and driver-internal faults are NOT decided."),
 "C06": ("4 (C06)", "custom static analysis: SSA store/map-update/element-store enumeration with inter-procedural writes-through-parameter summaries, copy-obligation check of Statement.clone/getInstance, go/cfg guard facts with merge implications for Session, alias check of append/element stores in MergeClause/Build",
   "Static, all-methods/all-sites: no exported *DB method writes through its receiver (directly or via a callee); Statement.clone carries every per-chain field (maps deep, in-place-extended slices exact-length); getInstance keeps pool/context/SkipHooks with a fresh Clauses map; Session mutates a statement only after replacing it by a clone; MergeClause never appends onto or stores into a slice it did not create; Build/NegationBuild never store into slices reachable from receiver/parameters; Execute/Update/Count/AfterQuery reset or restore temporary state. Found and fixed three genuine upstream defects (known_findings.json). Necessary conditions only: equality of SQL/Vars with an isolated replay is not decided."),
 "C07": ("4 (C07)", "custom static analysis: go/cfg event-fact dominance on the schema cache protocol, lock-set data-flow (foreign relation map, statement cache), SSA who-writes for globals and callback registry, C06 immutability rules, loop-iteration path enumeration for the scan-value pool typestate",
   "Static, narrow: decides the synchronisation protocols the code relies on - wait-before-return / LoadOrStore-after-defer-close in the schema cache, lock held for writes to another schema's relation map, no unsynchronised package-level state, callback registry written only by registration code, no writes into memory shared by all chains of a handle (C06 rules), Get/Put typestate of pooled scan values, and the C14 lock rules. General data-race freedom and equality with a serial run are NOT decided."),
 "C08": ("4 (C08)", "custom static analysis: sibling check of all SQL-building sites with go/cfg event facts and merge implications ('applied whenever a schema is present'), SSA who-writes of Statement.Unscoped, guard facts and CFG reachability in the soft-delete modifiers",
   "Static, all-sites: every pipeline statement build is preceded by the application of the model's Query/Update/Delete clauses; relation joins and join-table association look-ups apply the joined model's query clauses; Statement.Unscoped becomes true only through the user API, is otherwise copied from the parent, library Unscoped() calls are guarded and nested sessions propagate it; the soft-delete query modifier regroups lone-OR conditions before adding its filter, only when not Unscoped and once, with the marker; the delete modifier rewrites to a filtered UPDATE and the delete executor does not rebuild over it. Database-side precedence and third-party plugins are NOT decided."),
 "C09": ("4 (C09)", "custom static analysis: go/cfg guard-fact dominance with call-induced kills + symbolic path enumeration of the guard function + sibling check of all WHERE-adding sites",
   "Static, all-paths: every UPDATE/DELETE driver call is dominated by the missing-WHERE guard and by an Error == nil test made after it; path enumeration over the guard shows it raises ErrMissingWhereClause on some path and that every non-raising path carries AllowGlobalUpdate, an earlier error, or 'WHERE present and (soft-delete marker absent or >1 expressions)'; every WHERE clause added from user conditions or model keys is guarded by non-emptiness / non-zero key and BuildCondition yields nothing for empty input; the soft-delete filter is always paired with the marker the guard reads. Necessary conditions only: whether a user condition is effective at run time is not decided."),
 "C10": ("4 (C10)", "custom static analysis: call-site flag check of SelectAndOmitColumns per kind of write, control-dependence of every column emission on a selection-map lookup (with guarded accumulators), go/cfg guard facts in SelectAndOmitColumns/ConvertToAssignments/Save, CFG reachability for ordering",
   "Static, all-sites: INSERT builders require create permission, the UPDATE builder update permission, the upsert expansion both, association savers (create, !create); every column emitted into VALUES/SET/DoUpdates is control-dependent on a lookup in the selection map (directly or through an accumulator filled only under such a lookup); permission tags override Select/Omit and are applied after them; update-time tracking is guarded by !SkipHooks and UpdateColumn(s) set SkipHooks; Save adds '*' only without a user selection. The cell-level write set and matching rows are NOT decided."),
 "C12": ("4 (C12)", "custom static analysis: classification of association-mode Delete calls by the model type their argument is built from, go/cfg guard facts, constant-nil check of detaching maps",
   "Static, narrow: in association mode a record of the related model is deleted only under Unscope; join-row deletions are link deletions; non-unscoped arms detach with all-nil foreign-key maps. Which links exist after a sequence of operations is NOT decided."),
 "C13": ("4 (C13)", "custom static analysis: table agreement over constants/switch labels/struct fields/interfaces/call sites, go/cfg guard facts at hook and callMethod sites, CFG reachability for order, loop-iteration path enumeration for once-per-element",
   "Static, all-sites: the six hook-name tables agree; each hook invocation sits in a closure handed to callMethod by an executor of the right pipeline on the right side of the statement, under its Schema flag, with callMethod guarded by !SkipHooks and Error == nil and the hook error recorded; BeforeSave first / AfterSave last inside a phase and hooks around the statement in the pipeline; callMethod hands hooks a session of the operation's handle, calls the hook exactly once per element with CurDestIndex bookkeeping and only when the whole value has no hook; UpdateColumn(s) set SkipHooks before executing. What a user hook does is NOT decided."),
 "C14": ("4 (C14)", "custom static analysis: lock-set data-flow on go/cfg (held/deferred states, joins), lock-state requirements for map accesses / blocking operations, event-fact dominance and must-pass on prepare, sibling check of the ErrBadConn arms and transaction wrappers",
   "Static, all-paths: Mux acquisitions are released exactly once on every path and never nested; no receive or driver call happens under the lock; every access to a Stmts map/field holds the lock (found and fixed the unlocked read in Session); the in-progress entry protocol of prepare (nil-map guard, deferred close on every exit after insertion, failure recorded and evicted, cache hits wait and check prepareErr); all four ErrBadConn arms evict and close; Close/Reset close entries after preparation and replace the map; transaction wrappers run only through Tx.StmtContext on the same cache. Linearizability, liveness of database/sql and the Session(PrepareStmt) generation split are NOT decided."),
 "C15": ("4 (C15)", "custom static analysis: SSA who-writes of RaiseErrorOnNotFound, guard facts and reachability at the ErrRecordNotFound raise site, sibling/loop-iteration check of rows.Scan vs RowsAffected++",
   "Static, narrow: only First/Take/Last arm not-found (each Limit(1) + query pipeline, First/Last ordered by primary key asc/desc); ErrRecordNotFound is raised only in gorm.Scan under RowsAffected == 0 && armed && no error, after the row loops; every rows.Scan under rows.Next() is paired with exactly one RowsAffected++ and the counter is reset first. Equality of the read paths' row sets, FindInBatches arithmetic and Limit merge rules are NOT decided."),
 "C16": ("4 (C16)", "custom static analysis: copy-obligation check (attrs/assigns), SSA static call-closure reachability to pipeline accessors, symbolic path enumeration of FirstOrCreate, go/cfg guard facts on Save",
   "Static, all-paths: attrs/assigns survive every statement derivation (clone) and are stored on the derived instance; FirstOrInit's static call closure in package gorm reaches only the query pipeline, whose executors issue only query-type driver calls; every path through FirstOrCreate performs at most one write, Create only when the lookup matched nothing and did not fail, Updates only for a found record with Assign values; Save's insert fallback is an OnConflict{UpdateAll} upsert guarded by no-error/no-rows/!DryRun/no-selection. Found and fixed the upstream defect that Session/WithContext dropped Attrs/Assign. Convergence of table contents is not decided."),
 "C18": ("4 (C18)", "custom static analysis: SSA backward value-origin of every driver-call context argument with recursive caller check, taint of context.Background/TODO results, who-writes Statement.Context, Session-literal check",
   "Static, all-sites: the context argument of every driver call derives (SSA value origin) from Statement.Context of the statement whose pool is called or from a merely forwarded context parameter whose callers do; context.Background/TODO results flow only into logger calls and Open's root statement; every Statement literal with a pool takes its parent's Context and the only other writer of Statement.Context is Session storing a non-nil Session.Context; library Session literals that set Context use the context of the handle they derive from; no context-less database/sql method is called. That database/sql honours a cancelled context is assumed."),
 "C20": ("4 (C20)", "custom static analysis: SSA call-closure reachability from AutoMigrate through static calls and in-tree gorm.Migrator implementations, constant-string scan for destructive SQL templates, go/cfg guard facts on the additive DDL calls",
   "Static, narrow: no destructive migrator method or destructive SQL template is reachable from AutoMigrate (DropConstraint via MigrateColumnUnique exempt); CreateTable/AddColumn/CreateConstraint/CreateIndex run only under the matching negative existence test of the same name and MigrateColumn only for a found column. Whether MigrateColumn decides 'no change', dialect migrators outside the tree and preservation of rows by ALTER are NOT decided."),
 "C19": ("4 (C19)", "custom static analysis: go/cfg guard-fact dominance + SSA value-origin + who-may-call over resolved callees",
   "Static, all-paths: every statement/prepare driver call in a registered executor is dominated by !DryRun; statement driver calls exist only in executors, pool wrappers and the transaction API; each executor sends exactly Statement.SQL.String()/Statement.Vars of its own statement; Execute keeps SQL/Vars after a dry run; sub-queries render on a DryRun session; ToSQL's session sets DryRun+SkipDefaultTransaction, Session propagates them and the implicit-transaction callbacks honour SkipDefaultTransaction. Necessary conditions only: equality of dry-run and executed text for data-dependent statements is not decided."),
}

NA_REASON = {
 "C03": "Round-trip equality of values through reflection-built setters/valuers chosen at run time, driver conversions and LastInsertId arithmetic; no clause is visible in the shape of the code (DESIGN.md section 5).",
 "C11": "Attachment is decided by comparing run-time key strings (utils.ToStringKey); correctness is injectivity of a string encoding and pairwise agreement of identically typed field lists, which no structural rule decides; its soft-delete and context clauses are decided under C08/C18 (DESIGN.md section 5).",
 "C17": "Outcome of a recursive, value-dependent insertion procedure (sortCallbacks) over arbitrary registration histories; the only structural facts are too weak to be a meaningful necessary condition (DESIGN.md section 5).",
}
PENDING = "check designed in DESIGN.md section 4 but not built yet in this round; not claimed until its checker exists"

props = [json.loads(l) for l in open(os.path.join(V, "properties.jsonl"))]
checks, na = [], []
for p in props:
    pid = p["id"]
    if pid in CLAIMED:
        ref, tech, text = CLAIMED[pid]
        checks.append({
            "property_id": pid,
            "quick_cmd": f"/verif/bin/gormverif check {pid} --tier quick",
            "thorough_cmd": f"/verif/bin/gormverif check {pid} --tier thorough",
            "evidence_file": f"/verif/evidence/{pid}.json",
            "replay_cmd_template": "/verif/bin/gormverif replay {path}",
            "engine": "gormverif",
            "level_claimed": {"category": "other", "text": text, "design_ref": "DESIGN.md section " + ref},
            "level_note": NOTE,
            "technique": tech,
        })
    else:
        na.append({"property_id": pid, "reason": NA_REASON.get(pid, PENDING)})

manifest = {
 "version": 1,
 "setup_cmd": "cd /verif/checker && env -u GOWORK GOFLAGS=-mod=vendor GOPROXY=off GOSUMDB=off GOTOOLCHAIN=local go build -o /verif/bin/gormverif . && /verif/bin/gormverif selftest",
 "hooks": {
   "guard": "verif",
   "enable": "none: static analysis needs no instrumentation; no hook commits exist and the build tag is unused",
   "baseline_off_cmd": "for m in $(cat /w/out/gomods.txt); do MF=$(cd /repo/$m && . /w/out/goenv.sh && gomodflag); (cd /repo/$m && go test $MF -json -vet=off -count=1 -timeout 25m ./...); done",
   "source_commits": [],
   "add_only": True,
 },
 "engines": [{"name": "gormverif", "path": "/verif/checker", "serves_properties": sorted(CLAIMED),
              "kind_free_text": "repository-specific static analyser (go/packages + typed AST + go/cfg guard facts + go/ssa value origins + VTA call graph), one rule set per property, obligations with non-vacuity floors, mutant self-test in the thorough tier"}],
 "checks": checks,
 "not_applicable": na,
 "notes": "Every check loads /repo's current working tree on each run (go/packages, no cache of verdicts). Exit 0 = all obligations ok (KNOWN-FINDING lines for listed findings); exit 1 + VIOLATION line = an unlisted violating construct; exit 2 + CHECKER-ERROR = no verdict (type error, unresolved anchor, undecided obligation, vacuous rule, surviving mutant).",
}
json.dump(manifest, open(os.path.join(V, "MANIFEST.json"), "w"), indent=1)
print("claimed:", sorted(CLAIMED), "not_applicable:", [x["property_id"] for x in na])
