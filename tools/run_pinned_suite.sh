#!/bin/bash
# Runs the pinned test suite (both modules) on a tree and compares with BASELINE.stable_pass.
# usage: run_pinned_suite.sh [repo-dir]   (default /repo)
repo=${1:-/repo}
export GOFLAGS=-mod=mod GOPROXY=off GOSUMDB=off GOTOOLCHAIN=local; unset GOWORK
export TMPDIR=$(mktemp -d /tmp/pinned-XXXX)
out=$TMPDIR/out.json; : > $out
for m in . tests; do (cd $repo/$m && go test -json -vet=off -count=1 -timeout 25m ./... >> $out 2>/dev/null); done
python3 - "$out" <<'PY'
import json,sys
base=json.load(open('/root/.vp/BASELINE.json'))
want=set(base['stable_pass'])
res={}
for l in open(sys.argv[1]):
    try: e=json.loads(l)
    except: continue
    if e.get('Action') in ('pass','fail','skip') and e.get('Test'):
        res[e['Package']+'::'+e['Test']]=e['Action']
missing=[t for t in want if res.get(t)!='pass']
print("stable tests:",len(want),"passing now:",len(want)-len(missing))
for t in sorted(missing)[:20]: print("  NOT PASSING:",t,res.get(t))
sys.exit(1 if missing else 0)
PY
rc=$?
rm -rf $TMPDIR
exit $rc
