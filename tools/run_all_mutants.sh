#!/bin/bash
# Runs the mutant battery of every claimed property; prints non-killed mutants.
cd /verif
fail=0
for p in $(./bin/gormverif list); do
  out=$(./bin/gormverif mutants $p 2>&1)
  n=$(echo "$out" | grep -c "^mutant ")
  k=$(echo "$out" | grep "^mutant " | grep -c " killed$")
  echo "$p mutants=$n killed=$k"
  if [ "$n" != "$k" ]; then echo "$out" | grep -A1 "^mutant " | grep -v " killed$" | head -20; fail=1; fi
done
exit $fail
