package main

import (
	"go/ast"
	"go/types"
	"strings"
)

// C01.named-dispatch: Raw and Exec hand SQL text that contains `@` to clause.NamedExpr whatever the arguments are:
// NamedExpr itself decides which arguments are name holders (sql.NamedArg, maps, structs, pointers to structs) and
// binds positional ones like Expr does.  A narrower dispatch leaves `@name` in the text and the holder's fields
// unbound.  Decided as a truth table: whenever the `@` test is true the NamedExpr arm is taken.
func checkC01NamedDispatch(c *Ctx) {
	p := c.P
	r := c.Rule("C01.named-dispatch", "Raw/Exec: SQL containing `@` is always built by clause.NamedExpr (it alone classifies the arguments)", 2)
	namedT := p.Named(pkgClause, "NamedExpr")
	for _, name := range []string{"Raw", "Exec"} {
		f := p.MethodDecl(pkgGorm, "DB", name)
		c.Touch(f)
		info := f.Pkg.TypesInfo
		n := 0
		ast.Inspect(f.Body, func(nd ast.Node) bool {
			ifs, ok := nd.(*ast.IfStmt)
			if !ok {
				return true
			}
			// the NamedExpr arm is the body (taken when the condition holds) or the else arm (taken when it does not)
			want := true
			if len(litsOfType(info, ifs.Body, namedT, false)) == 0 {
				if ifs.Else == nil || len(litsOfType(info, ifs.Else, namedT, false)) == 0 {
					return true
				}
				want = false
			}
			n++
			bf := boolTable(info, ifs.Cond)
			fixed := map[string]bool{}
			for _, a := range bf.atoms {
				if strings.HasPrefix(a, "strings.Contains(") {
					fixed[a] = true
				}
			}
			okc := false
			if len(fixed) == 1 {
				okc, _ = bf.forAll(fixed, want)
			}
			r.Check(okc, f.Name(), "named-argument dispatch", ifs.Pos(), "taken whenever the SQL contains `@`", "the NamedExpr arm of "+name+" depends on more than the `@` test: for the other argument shapes `@name` stays in the SQL text and the holder's values are never bound (the holder itself is sent as one value)")
			return false
		})
		if n == 0 {
			r.Bad(f.Name(), "named-argument dispatch", f.Body.Pos(), name+" no longer builds a clause.NamedExpr; rule lost its anchor")
		}
	}
}

// C03.bytes-arm: a byte slice is a scalar value: AddVar binds it in an arm of its own, before the generic
// slice arm that expands lists (and renders an empty list as (NULL)).  Without the arm an empty non-nil []byte is
// written as NULL and reads back nil.
func checkC03BytesArm(c *Ctx) {
	p := c.P
	r := c.Rule("C03.bytes-arm", "AddVar binds []byte as one value in an arm of its own (an empty blob is not the empty list)", 1)
	f := p.MethodDecl(pkgGorm, "Statement", "AddVar")
	c.Touch(f)
	info := f.Pkg.TypesInfo
	found := false
	pos := f.Body.Pos()
	ast.Inspect(f.Body, func(nd ast.Node) bool {
		cc, ok := nd.(*ast.CaseClause)
		if !ok {
			return true
		}
		for _, e := range cc.List {
			if sl, ok := info.TypeOf(e).(*types.Slice); ok {
				if b, ok := sl.Elem().(*types.Basic); ok && b.Kind() == types.Uint8 {
					// the arm binds: it appends to Vars and calls BindVarTo
					binds := false
					for _, st := range cc.Body {
						ast.Inspect(st, func(m ast.Node) bool {
							if ce, ok := m.(*ast.CallExpr); ok {
								if sel, ok := ce.Fun.(*ast.SelectorExpr); ok && sel.Sel.Name == "BindVarTo" {
									binds = true
								}
							}
							return true
						})
					}
					if binds {
						found, pos = true, cc.Pos()
					}
				}
			}
		}
		return true
	})
	r.Check(found, f.Name(), "[]byte arm", pos, "binds the slice as one value", "AddVar has no arm that binds a []byte as one value: byte slices fall into the list arm, an empty non-nil blob is rendered as (NULL) - the stored column is NULL and reads back nil (a NOT NULL column rejects the row)")
}

// C10.override-lookup: permissions are looked up by Go field name (SelectAndOmitColumns, map keys); when a field
// takes over a column from an embedded field of the same name, the by-name tables must point at the new field too,
// otherwise the overridden field's permissions are the ones applied.  Decided in ParseWithSpecialTableName: the
// block that stores FieldsByDBName[..] = field also stores FieldsByName[..] = field.
func checkC10OverrideLookup(c *Ctx) {
	p := c.P
	r := c.Rule("C10.override-lookup", "schema parse: a field that takes over a column is also the field found by its Go name (its permissions are the ones applied)", 1)
	f := p.FuncDecl(pkgSchema, "ParseWithSpecialTableName")
	c.Touch(f)
	info := f.Pkg.TypesInfo
	schemaT := p.Named(pkgSchema, "Schema")
	byDB, byName := p.Field(schemaT, "FieldsByDBName"), p.Field(schemaT, "FieldsByName")
	parents := parentMap(f.Body)
	storeOf := func(st ast.Stmt, fld *types.Var) (string, bool) {
		as, ok := st.(*ast.AssignStmt)
		if !ok || len(as.Lhs) != 1 || len(as.Rhs) != 1 {
			return "", false
		}
		ix, ok := unparen(as.Lhs[0]).(*ast.IndexExpr)
		if !ok {
			return "", false
		}
		sel, ok := unparen(ix.X).(*ast.SelectorExpr)
		if !ok || !fieldSel(info, sel, fld) {
			return "", false
		}
		return canon(info, as.Rhs[0]), true
	}
	n := 0
	ast.Inspect(f.Body, func(nd ast.Node) bool {
		st, ok := nd.(ast.Stmt)
		if !ok {
			return true
		}
		v, ok := storeOf(st, byDB)
		if !ok {
			return true
		}
		n++
		okc := false
		if blk, ok := parents[st].(*ast.BlockStmt); ok {
			for _, s2 := range blk.List {
				if v2, ok := storeOf(s2, byName); ok && v2 == v {
					okc = true
				}
			}
		}
		r.Check(okc, f.Name(), "column taken over by "+v, st.Pos(), "by-name table updated with it", "the field that takes over a column is not entered into FieldsByName in the same step: when it overrides an embedded field of the same Go name, look-ups by name still find the embedded field and ITS permission tags decide - a field whose tag denies create/update is written")
		return true
	})
	if n == 0 {
		r.Bad(f.Name(), "FieldsByDBName", f.Body.Pos(), "ParseWithSpecialTableName no longer fills FieldsByDBName; rule lost its anchor")
	}
}
