package main

// C17 (narrow): structural clauses of "callback registration honours Before/After and never disturbs the
// built-in order".  The outcome of sortCallbacks for an arbitrary registration history is an algorithmic,
// value-dependent property and is NOT decided (DESIGN.md section 5).  Decided are the parts of the protocol
// that are visible in the shape of callbacks.go:
//
//   register   Register / Remove / Replace record name (+ handler / remove / replace flag) on the callback,
//              append it to the processor's list and return the error of compile() on every path; the
//              processor-level methods delegate to a fresh callback bound to that processor
//   sides      Before(name) stores the name on the `before` side and After(name) on the `after` side, for the
//              processor-level constructors and the callback-level setters alike
//   compile    compile() returns the sorter's error through its named result, installs the sorted handlers,
//              and drops the callbacks whose name was removed
//   once       inside the sorter a name is added to the sorted list only when it is not in it yet, and every
//              successful return of sortCallback is preceded by the "append if still missing" fallback
//   conflict   the two conflict errors are symmetric: before-side `current > named`, after-side `current <
//              named`; a `before` insertion puts the name directly in front of the named callback
//   handlers   the executed handlers are taken from the sorted names, skipping removed callbacks

import (
	"go/ast"
	"go/token"
	"go/types"
	"strings"

	"golang.org/x/tools/go/types/typeutil"
)

func init() {
	register("C17", checkC17,
		"Narrow structural clauses of C17 decided on the current source of callbacks.go: (register) callback.Register/Remove/Replace set the name (and handler / remove / replace flag), append the callback to processor.callbacks and return processor.compile() on every path; processor.Register/Remove/Replace delegate to a fresh callback bound to the same processor; (sides) Before stores its argument in the before field and After in the after field at both levels; (compile) compile returns the sorter's error through its named result, assigns processor.fns from the sorter and filters removed names; (once) in sortCallbacks every extension of the sorted list is guarded by 'name not in sorted yet' and the final fallback precedes every successful return; (conflict) the conflict errors are `current > named` on the before side and `current < named` on the after side, and a before-insertion splices the name in at the index of the named callback; (handlers) the handler list is built from the sorted names, skipping removed callbacks. NOT decided: the order the recursive sorter produces for an arbitrary registration history, '*' handling beyond the guards above, stability for built-in callbacks.")
}

func checkC17(c *Ctx) {
	p := c.P
	cbT := p.Named(pkgGorm, "callback")
	procT := p.Named(pkgGorm, "processor")
	compileM := p.Method(procT, "compile")
	fieldOf := func(t *types.Named, n string) *types.Var { return p.Field(t, n) }
	callbacksF := fieldOf(procT, "callbacks")
	fnsF := fieldOf(procT, "fns")

	// ---- register ----
	rr := c.Rule("C17.register", "Register/Remove/Replace: record, append to the processor's list, return compile()'s error", 6)
	want := map[string][]string{"Register": {"name", "handler"}, "Remove": {"name", "remove"}, "Replace": {"name", "handler", "replace"}}
	for _, mname := range []string{"Register", "Remove", "Replace"} {
		f := p.MethodDecl(pkgGorm, "callback", mname)
		c.Touch(f)
		info := f.Pkg.TypesInfo
		recv := recvName(f)
		set := map[string]bool{}
		appended := false
		ast.Inspect(f.Body, func(n ast.Node) bool {
			as, ok := n.(*ast.AssignStmt)
			if !ok {
				return true
			}
			for i, l := range as.Lhs {
				if sel, ok := unparen(l).(*ast.SelectorExpr); ok {
					if id, ok := unparen(sel.X).(*ast.Ident); ok && id.Name == recv {
						set[sel.Sel.Name] = true
					}
					if fieldSel(info, sel, callbacksF) && i < len(as.Rhs) {
						if ce, ok := unparen(as.Rhs[i]).(*ast.CallExpr); ok && len(ce.Args) == 2 {
							if fid, ok := ce.Fun.(*ast.Ident); ok && fid.Name == "append" && canon(info, ce.Args[0]) == canon(info, l) && canon(info, ce.Args[1]) == recv {
								appended = true
							}
						}
					}
				}
			}
			return true
		})
		var missing []string
		for _, w := range want[mname] {
			if !set[w] {
				missing = append(missing, w)
			}
		}
		// every return is `return <recv>.processor.compile()`
		retOK, nRet := true, 0
		ast.Inspect(f.Body, func(n ast.Node) bool {
			if _, ok := n.(*ast.FuncLit); ok {
				return false
			}
			rs, ok := n.(*ast.ReturnStmt)
			if !ok {
				return true
			}
			nRet++
			good := false
			if len(rs.Results) == 1 {
				if ce, ok := unparen(rs.Results[0]).(*ast.CallExpr); ok {
					if fn, _ := typeutil.Callee(info, ce).(*types.Func); fn == compileM {
						good = true
					}
				}
			}
			if !good {
				retOK = false
			}
			return true
		})
		// the append happens on every path (a registration that takes another route - overwriting an entry in
		// place, returning early - drops the record the sorter needs, e.g. the Before/After of the replaced entry)
		// and nothing else writes the list
		{
			elemStore := false
			var appendNode ast.Node
			ast.Inspect(f.Body, func(n ast.Node) bool {
				as, ok := n.(*ast.AssignStmt)
				if !ok {
					return true
				}
				for i, l := range as.Lhs {
					if ix, ok := unparen(l).(*ast.IndexExpr); ok && fieldSel(info, ix.X, callbacksF) {
						elemStore = true
					}
					if sel, ok := unparen(l).(*ast.SelectorExpr); ok && fieldSel(info, sel, callbacksF) && i < len(as.Rhs) {
						if ce, ok := unparen(as.Rhs[i]).(*ast.CallExpr); ok {
							if fid, ok := ce.Fun.(*ast.Ident); ok && fid.Name == "append" {
								appendNode = as
								continue
							}
						}
						elemStore = true // the list is replaced by something that is not an append
					}
				}
				return true
			})
			everyPath := appendNode != nil
			if appendNode != nil {
				paths, okp := p.EnumPaths(f, nil, 2000)
				if !okp {
					everyPath = false
				}
				for _, pr := range paths {
					hit := false
					for _, nd := range pr.Nodes {
						if nd == appendNode || containsNode(nd, appendNode) {
							hit = true
						}
					}
					if !hit {
						everyPath = false
					}
				}
			}
			rr.Check(everyPath && !elemStore, f.Name(), "appends on every path", f.Body.Pos(), "the record is appended on every path, the list is not written otherwise", mname+" has a path that does not append the new record to the processor's list, or writes the list in another way: the registration (with the Before/After side of the entry it supersedes) is lost to the sorter")
		}
		rr.Check(len(missing) == 0 && appended && retOK && nRet > 0, f.Name(), "records, appends, compiles", f.Body.Pos(), "sets "+strings.Join(want[mname], "/")+", appends itself, returns compile()", mname+" does not follow the registration protocol (missing fields: "+strings.Join(missing, ",")+"; appended to the list: "+boolStr(appended)+"; every return is compile(): "+boolStr(retOK)+"): the callback is not registered, or a sort conflict is not reported")
		// processor-level delegate
		pf := p.MethodDecl(pkgGorm, "processor", mname)
		c.Touch(pf)
		pinfo := pf.Pkg.TypesInfo
		precv := recvName(pf)
		deleg := false
		for _, call := range callsIn(pf) {
			if fn, _ := typeutil.Callee(pinfo, call).(*types.Func); fn == f.Obj {
				for _, lit := range litsOfType(pinfo, call, cbT, false) {
					if v := compositeField(lit, "processor"); v != nil && canon(pinfo, v) == precv {
						deleg = true
					}
				}
			}
		}
		rr.Check(deleg, pf.Name(), "delegates to a fresh callback of this processor", pf.Body.Pos(), "(&callback{processor: p})."+mname, "processor."+mname+" does not register on its own pipeline")
	}

	// ---- sides ----
	rs := c.Rule("C17.sides", "Before stores on the before side, After on the after side (both levels)", 4)
	for _, side := range []string{"Before", "After"} {
		field := strings.ToLower(side)
		other := map[string]string{"before": "after", "after": "before"}[field]
		// callback-level setter
		f := p.MethodDecl(pkgGorm, "callback", side)
		c.Touch(f)
		info := f.Pkg.TypesInfo
		param := paramName(f, 0)
		okSet, wrong := false, false
		ast.Inspect(f.Body, func(n ast.Node) bool {
			if as, ok := n.(*ast.AssignStmt); ok && len(as.Lhs) == 1 && len(as.Rhs) == 1 {
				if sel, ok := unparen(as.Lhs[0]).(*ast.SelectorExpr); ok && canon(info, as.Rhs[0]) == param {
					if sel.Sel.Name == field {
						okSet = true
					}
					if sel.Sel.Name == other {
						wrong = true
					}
				}
			}
			return true
		})
		rs.Check(okSet && !wrong, f.Name(), "stores its argument in ."+field, f.Body.Pos(), "c."+field+" = name", "callback."+side+" stores the name on the wrong side: the callback runs on the opposite side of the one requested")
		// processor-level constructor
		pf := p.MethodDecl(pkgGorm, "processor", side)
		c.Touch(pf)
		pinfo := pf.Pkg.TypesInfo
		pparam := paramName(pf, 0)
		okLit := false
		for _, lit := range litsOfType(pinfo, pf.Body, cbT, false) {
			v, w := compositeField(lit, field), compositeField(lit, other)
			if v != nil && canon(pinfo, v) == pparam && w == nil {
				okLit = true
			}
		}
		rs.Check(okLit, pf.Name(), "constructs the callback with ."+field, pf.Body.Pos(), "&callback{"+field+": name, ...}", "processor."+side+" builds the callback with the name on the wrong side")
	}

	// ---- compile ----
	rc := c.Rule("C17.compile", "compile: sorter's error returned, fns installed, removed names filtered", 3)
	comp := p.MethodDecl(pkgGorm, "processor", "compile")
	c.Touch(comp)
	sortF := p.FuncDecl(pkgGorm, "sortCallbacks")
	remF := p.FuncDecl(pkgGorm, "removeCallbacks")
	{
		info := comp.Pkg.TypesInfo
		// named error result
		resName := ""
		if comp.Type.Results != nil {
			for _, fl := range comp.Type.Results.List {
				for _, nm := range fl.Names {
					resName = nm.Name
				}
			}
		}
		installs, errTaken, filters := false, false, false
		ast.Inspect(comp.Body, func(n ast.Node) bool {
			as, ok := n.(*ast.AssignStmt)
			if !ok || len(as.Rhs) != 1 {
				return true
			}
			ce, ok := unparen(as.Rhs[0]).(*ast.CallExpr)
			if !ok {
				return true
			}
			switch fn, _ := typeutil.Callee(info, ce).(*types.Func); fn {
			case sortF.Obj:
				if len(as.Lhs) == 2 {
					installs = fieldSel(info, as.Lhs[0], fnsF)
					if id, ok := as.Lhs[1].(*ast.Ident); ok && id.Name == resName && resName != "" {
						errTaken = true
					}
				}
			case remF.Obj:
				filters = true
			}
			return true
		})
		// no return statement overrides the named result with nil
		overrides := false
		ast.Inspect(comp.Body, func(n ast.Node) bool {
			if rs, ok := n.(*ast.ReturnStmt); ok && len(rs.Results) == 1 && isNilIdent(info, rs.Results[0]) {
				overrides = true
			}
			return true
		})
		rc.Check(installs, comp.Name(), "installs the sorted handlers", comp.Body.Pos(), "p.fns, err = sortCallbacks(..)", "compile does not install the handler list produced by the sorter")
		rc.Check(errTaken && !overrides, comp.Name(), "returns the sorter's error", comp.Body.Pos(), "named result assigned from sortCallbacks and not overridden", "a conflict detected by the sorter is not returned by compile (and so not by Register/Remove/Replace)")
		rc.Check(filters, comp.Name(), "filters removed names", comp.Body.Pos(), "removeCallbacks", "compile no longer drops the callbacks whose name was removed")
	}

	checkC17Sorter(c)
	checkC17ReplacePosition(c)
	checkC17CompilePurge(c)
	checkC17SideWriters(c)

	// ---- once / conflict / handlers ----
	ro := c.Rule("C17.once", "sorter: a name enters the sorted list only when absent; the fallback precedes every successful return", 4)
	rk := c.Rule("C17.conflict", "sorter: conflict errors `current > named` (before) and `current < named` (after); before-insertion at the named index", 3)
	rh := c.Rule("C17.handlers", "handlers are taken from the sorted names, skipping removed callbacks", 1)
	c.Touch(sortF)
	sinfo := sortF.Pkg.TypesInfo
	getR := p.FuncDecl(pkgGorm, "getRIndex").Obj
	var inner *FuncSrc
	for _, l := range p.AllLits(sortF) {
		// the recursive closure: takes a *callback and returns error
		if l.Type.Params != nil && len(l.Type.Params.List) == 1 && l.Type.Results != nil && len(l.Type.Results.List) == 1 {
			if tv, ok := sinfo.Types[l.Type.Params.List[0].Type]; ok && p.isNamedPtr(tv.Type, cbT) {
				inner = l
			}
		}
	}
	if inner == nil {
		ro.Bad(sortF.Name(), "recursive sorter", sortF.Body.Pos(), "sortCallbacks no longer has the recursive sortCallback closure; rule lost its anchor")
		return
	}
	c.Touch(inner)
	gs := p.Guards(inner, nil)
	cParam := paramName(inner, 0)
	// the sorted list: the variable appended with c.name
	isSortedExt := func(as *ast.AssignStmt) bool {
		if len(as.Lhs) != 1 || len(as.Rhs) != 1 {
			return false
		}
		id, ok := as.Lhs[0].(*ast.Ident)
		if !ok {
			return false
		}
		mentionsName := false
		ast.Inspect(as.Rhs[0], func(x ast.Node) bool {
			if se, ok := x.(*ast.SelectorExpr); ok && canon(sinfo, se) == cParam+".name" {
				mentionsName = true
			}
			return true
		})
		ce, ok := unparen(as.Rhs[0]).(*ast.CallExpr)
		if !ok {
			return false
		}
		fid, ok := ce.Fun.(*ast.Ident)
		return ok && fid.Name == "append" && mentionsName && id.Name != ""
	}
	absentFact := func(facts factSet, pos token.Pos) bool {
		for f := range facts {
			if strings.HasPrefix(f, "T:") && strings.HasSuffix(f, " == -1") {
				lhs := strings.TrimSuffix(f[2:], " == -1")
				if strings.HasPrefix(lhs, "getRIndex(") && strings.HasSuffix(lhs, ", "+cParam+".name)") {
					return true
				}
				if !strings.ContainsAny(lhs, " .(") {
					for _, d := range localDefs(inner, lhs, pos) {
						if ce, ok := unparen(d.rhs).(*ast.CallExpr); ok {
							if fn, _ := typeutil.Callee(sinfo, ce).(*types.Func); fn == getR && len(ce.Args) == 2 && canon(sinfo, ce.Args[1]) == cParam+".name" {
								return true
							}
						}
					}
				}
			}
		}
		return false
	}
	var exts []*ast.AssignStmt
	ast.Inspect(inner.Body, func(n ast.Node) bool {
		if as, ok := n.(*ast.AssignStmt); ok && isSortedExt(as) {
			exts = append(exts, as)
		}
		return true
	})
	for _, as := range exts {
		facts, live := gs.At(as.Pos())
		ro.Check(live && absentFact(facts, as.Pos()), inner.Name(), "name added only when absent", as.Pos(), "guarded by getRIndex(sorted, c.name) == -1", "a callback name is added to the sorted list without checking that it is not there yet: the callback runs twice")
	}
	if len(exts) < 4 {
		ro.Bad(inner.Name(), "extensions of the sorted list", inner.Body.Pos(), "fewer than four guarded extensions of the sorted list found")
	}
	// the fallback precedes every successful return
	var fallback *ast.AssignStmt
	if len(exts) > 0 {
		fallback = exts[len(exts)-1]
	}
	ast.Inspect(inner.Body, func(n ast.Node) bool {
		if _, ok := n.(*ast.FuncLit); ok && n != ast.Node(inner.Lit) {
			return false
		}
		rs, ok := n.(*ast.ReturnStmt)
		if !ok || len(rs.Results) != 1 || !isNilIdent(sinfo, rs.Results[0]) {
			return true
		}
		ro.Check(fallback != nil && fallback.End() < rs.Pos(), inner.Name(), "successful return after the fallback", rs.Pos(), "`append if still missing` comes first", "sortCallback can return successfully before the callback was added to the sorted list: a registered callback never runs")
		return true
	})

	// conflict errors
	nErr := 0
	ast.Inspect(inner.Body, func(n ast.Node) bool {
		rs, ok := n.(*ast.ReturnStmt)
		if !ok || len(rs.Results) != 1 {
			return true
		}
		ce, ok := unparen(rs.Results[0]).(*ast.CallExpr)
		if !ok {
			return true
		}
		if fn, _ := typeutil.Callee(sinfo, ce).(*types.Func); fn == nil || fn.FullName() != "fmt.Errorf" {
			return true
		}
		facts, _ := gs.At(rs.Pos())
		// which side: the enclosing `if c.before != ""` / `if c.after != ""`
		side := ""
		for f := range facts {
			if f == "F:"+cParam+`.before == ""` {
				side = "before"
			}
		}
		for f := range facts {
			if f == "F:"+cParam+`.after == ""` && side == "" {
				side = "after"
			}
		}
		if side == "" {
			return true // not a conflict test of the before/after arms (e.g. the recursion bound)
		}
		nErr++
		// the comparison fact between two getRIndex results
		cmp := ""
		for f := range facts {
			if strings.HasPrefix(f, "T:") && (strings.Contains(f, " > ") || strings.Contains(f, " < ")) && !strings.Contains(f, "len(") {
				cmp = f[2:]
			}
		}
		okc := false
		parts := strings.Fields(cmp)
		if len(parts) == 3 {
			cur := localIsIndexOf(inner, sinfo, getR, parts[0], rs.Pos(), cParam+".name")
			named := localIsIndexOf(inner, sinfo, getR, parts[2], rs.Pos(), cParam+"."+side)
			flipCur := localIsIndexOf(inner, sinfo, getR, parts[2], rs.Pos(), cParam+".name")
			flipNamed := localIsIndexOf(inner, sinfo, getR, parts[0], rs.Pos(), cParam+"."+side)
			switch side {
			case "before":
				okc = (cur && named && parts[1] == ">") || (flipCur && flipNamed && parts[1] == "<")
			case "after":
				okc = (cur && named && parts[1] == "<") || (flipCur && flipNamed && parts[1] == ">")
			}
		}
		rk.Check(okc, inner.Name(), "conflict on the "+side+" side", rs.Pos(), map[string]string{"before": "current > named", "after": "current < named"}[side], "the conflict test on the "+side+" side is `"+cmp+"`: a satisfiable Before/After request is rejected, or a contradictory one is accepted and the callback runs on the wrong side")
		return true
	})
	if nErr < 2 {
		rk.Bad(inner.Name(), "conflict errors", inner.Body.Pos(), "fewer than two conflict errors in sortCallback")
	}
	// before-insertion: sorted = append(sorted[:i], append([]string{c.name}, sorted[i:]...)...) with i the index of c.before
	spliced := false
	ast.Inspect(inner.Body, func(n ast.Node) bool {
		as, ok := n.(*ast.AssignStmt)
		if !ok || !isSortedExt(as) {
			return true
		}
		var idxs []string
		ast.Inspect(as.Rhs[0], func(x ast.Node) bool {
			if se, ok := x.(*ast.SliceExpr); ok {
				if se.High != nil && se.Low == nil {
					idxs = append(idxs, "hi:"+canon(sinfo, se.High))
				}
				if se.Low != nil && se.High == nil {
					idxs = append(idxs, "lo:"+canon(sinfo, se.Low))
				}
			}
			return true
		})
		if len(idxs) == 2 {
			a, b := strings.TrimPrefix(idxs[0], "hi:"), strings.TrimPrefix(idxs[1], "lo:")
			if strings.HasPrefix(idxs[0], "hi:") && strings.HasPrefix(idxs[1], "lo:") && a == b && localIsIndexOf(inner, sinfo, getR, a, as.Pos(), cParam+".before") {
				spliced = true
			}
		}
		return true
	})
	rk.Check(spliced, inner.Name(), "before-insertion position", inner.Body.Pos(), "sorted[:i] + name + sorted[i:] with i = index of the named callback", "a callback registered Before(x) is not spliced in directly in front of x")

	// handlers
	{
		okH := false
		ast.Inspect(sortF.Body, func(n ast.Node) bool {
			rg, ok := n.(*ast.RangeStmt)
			if !ok || p.EnclosingFunc(rg.Pos()) != sortF {
				return true
			}
			appends, skips := false, false
			ast.Inspect(rg.Body, func(x ast.Node) bool {
				switch y := x.(type) {
				case *ast.AssignStmt:
					if len(y.Rhs) == 1 {
						if ce, ok := unparen(y.Rhs[0]).(*ast.CallExpr); ok && len(ce.Args) == 2 {
							if fid, ok := ce.Fun.(*ast.Ident); ok && fid.Name == "append" && strings.HasSuffix(canon(sinfo, ce.Args[1]), ".handler") {
								appends = true
							}
						}
					}
				case *ast.UnaryExpr:
					if y.Op == token.NOT && strings.HasSuffix(canon(sinfo, y.X), ".remove") {
						skips = true
					}
				}
				return true
			})
			if appends && skips {
				okH = true
			}
			return true
		})
		rh.Check(okH, sortF.Name(), "handler list", sortF.Body.Pos(), "for name in sorted: if !removed: append handler", "the executed handler list is not built from the sorted names with removed callbacks skipped")
	}
}

// localIsIndexOf: the local `name` is defined (everywhere) as getRIndex(<list>, want).
func localIsIndexOf(f *FuncSrc, info *types.Info, getR *types.Func, name string, pos token.Pos, want string) bool {
	defs := localDefs(f, name, pos)
	if len(defs) == 0 {
		return false
	}
	for _, d := range defs {
		ce, ok := unparen(d.rhs).(*ast.CallExpr)
		if !ok {
			return false
		}
		if fn, _ := typeutil.Callee(info, ce).(*types.Func); fn != getR || len(ce.Args) != 2 || canon(info, ce.Args[1]) != want {
			return false
		}
	}
	return true
}
