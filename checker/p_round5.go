package main

// Rules added after seed round 5.

import (
	"go/ast"
	"go/token"
	"go/types"
	"strings"

	"golang.org/x/tools/go/ssa"
	"golang.org/x/tools/go/types/typeutil"
)

// checkPresizedAppend (C02.presized-append, shared with C01): a slice created with make([]T, n) (length n,
// no capacity argument) is filled by index.  Appending to it instead leaves n zero values in front - for the
// IN list built from a map's slice value that is `IN (NULL,..,NULL,a,b)`: harmless when selecting, but
// `NOT IN (NULL, ...)` matches nothing.  Expected count of violations is zero; a synthetic positive example
// is part of `gormverif selftest`.
func checkPresizedAppend(c *Ctx, r *Rule) {
	p := c.P
	n := 0
	for _, f := range p.FuncsOf(pkgGorm, pkgClause, pkgCallbacks, pkgSchema, pkgMigrator) {
		for _, v := range presizedAppends(f) {
			n++
			c.Touch(f)
			r.Bad(rootFunc(f).Name(), "append onto pre-sized "+v.name, v.pos, "the slice "+v.name+" is created with make(_, "+v.length+") and then extended with append: it starts with "+v.length+" zero values (an IN list gets leading NULLs - `NOT IN (NULL, ..)` selects nothing)")
		}
		if len(presizedMakes(f)) > 0 {
			c.Touch(f)
		}
	}
	total := 0
	for _, f := range p.FuncsOf(pkgGorm, pkgClause, pkgCallbacks, pkgSchema, pkgMigrator) {
		for _, m := range presizedMakes(f) {
			total++
			r.OK(rootFunc(f).Name(), "pre-sized "+m.name+" filled by index", m.pos, "no append onto it")
		}
	}
	_ = n
	if total == 0 {
		r.Bad("gorm", "pre-sized slices", 0, "no make([]T, n) found any more; rule lost its anchor")
	}
}

type presized struct {
	name, length string
	pos          token.Pos
	obj          types.Object
}

// presizedMakes: locals defined as make([]T, n) with exactly two arguments and n not the constant 0.
func presizedMakes(f *FuncSrc) []presized {
	info := f.Pkg.TypesInfo
	var out []presized
	ast.Inspect(f.Body, func(nd ast.Node) bool {
		if _, ok := nd.(*ast.FuncLit); ok {
			return false
		}
		as, ok := nd.(*ast.AssignStmt)
		if !ok || len(as.Lhs) != len(as.Rhs) {
			return true
		}
		for i, rhs := range as.Rhs {
			ce, ok := unparen(rhs).(*ast.CallExpr)
			if !ok || len(ce.Args) != 2 {
				continue
			}
			fid, ok := ce.Fun.(*ast.Ident)
			if !ok || fid.Name != "make" {
				continue
			}
			if _, isB := info.Uses[fid].(*types.Builtin); !isB {
				continue
			}
			if tv, ok := info.Types[ce.Args[0]]; !ok {
				continue
			} else if _, isSlice := tv.Type.Underlying().(*types.Slice); !isSlice {
				continue
			}
			if tv, ok := info.Types[ce.Args[1]]; ok && tv.Value != nil && tv.Value.String() == "0" {
				continue
			}
			id, ok := as.Lhs[i].(*ast.Ident)
			if !ok {
				continue
			}
			out = append(out, presized{id.Name, exprShort(ce.Args[1]), as.Pos(), info.ObjectOf(id)})
		}
		return true
	})
	return out
}

// presizedAppends: `x = append(x, ...)` where x is such a local and is never filled by index.
func presizedAppends(f *FuncSrc) []presized {
	info := f.Pkg.TypesInfo
	var out []presized
	for _, m := range presizedMakes(f) {
		// a slice that is (also) filled by index got its n elements; appending more afterwards is fine
		indexed := false
		ast.Inspect(f.Body, func(nd ast.Node) bool {
			if as, ok := nd.(*ast.AssignStmt); ok {
				for _, l := range as.Lhs {
					if ix, ok := unparen(l).(*ast.IndexExpr); ok {
						if root := rootIdentOf(ix.X); root != nil && info.ObjectOf(root) == m.obj {
							indexed = true
						}
					}
				}
			}
			return true
		})
		if indexed {
			continue
		}
		ast.Inspect(f.Body, func(nd ast.Node) bool {
			as, ok := nd.(*ast.AssignStmt)
			if !ok || len(as.Lhs) != 1 || len(as.Rhs) != 1 || as.Pos() <= m.pos {
				return true
			}
			id, ok := as.Lhs[0].(*ast.Ident)
			if !ok || info.ObjectOf(id) != m.obj {
				return true
			}
			ce, ok := unparen(as.Rhs[0]).(*ast.CallExpr)
			if !ok || len(ce.Args) < 2 {
				return true
			}
			fid, ok := ce.Fun.(*ast.Ident)
			if !ok || fid.Name != "append" {
				return true
			}
			if a0, ok := unparen(ce.Args[0]).(*ast.Ident); ok && info.ObjectOf(a0) == m.obj {
				out = append(out, presized{m.name, m.length, as.Pos(), m.obj})
			}
			return true
		})
	}
	return out
}

// C01.select-bind: Select(query, args...) with placeholders in the query binds args as values.  The decision
// compares two run-time numbers (placeholders in the text, arguments given); it is evaluated here on the
// three possible orderings (fewer, as many, more placeholders than arguments): whenever the text has at least
// as many placeholders as arguments (and there are arguments) the arguments must be bound - falling through
// would paste string arguments into the statement as column names.
func checkC01SelectBind(c *Ctx) {
	p := c.P
	r := c.Rule("C01.select-bind", "Select binds its arguments whenever the text has at least as many placeholders as arguments", 1)
	sel := p.MethodDecl(pkgGorm, "DB", "Select")
	c.Touch(sel)
	info := sel.Pkg.TypesInfo
	exprT := p.Named(pkgClause, "Expr")
	n := 0
	ast.Inspect(sel.Body, func(nd ast.Node) bool {
		ifs, ok := nd.(*ast.IfStmt)
		if !ok {
			return true
		}
		// the arm that builds clause.Expr{SQL: v, Vars: args} directly in its body
		binds := false
		for _, st := range ifs.Body.List {
			for _, lit := range litsOfType(info, st, exprT, false) {
				if compositeField(lit, "Vars") != nil {
					binds = true
				}
			}
		}
		if !binds {
			return true
		}
		bf := boolTable(info, ifs.Cond)
		// atoms comparing a placeholder count with len(args)
		type cmpAtom struct {
			name string
			op   token.Token
			flip bool
		}
		var cmps []cmpAtom
		var lenPos string
		for name, e := range bf.exprs {
			be, ok := unparen(e).(*ast.BinaryExpr)
			if !ok {
				continue
			}
			isCount := func(x ast.Expr) bool {
				return strings.HasPrefix(canon(info, x), "strings.Count(") && strings.Contains(canon(info, x), `"?"`)
			}
			isLen := func(x ast.Expr) bool { return isLenCall(info, x) }
			switch {
			case isCount(be.X) && isLen(be.Y):
				cmps = append(cmps, cmpAtom{name, be.Op, false})
			case isLen(be.X) && isCount(be.Y):
				cmps = append(cmps, cmpAtom{name, be.Op, true})
			case isLen(be.X) && isZeroLit(be.Y) && (be.Op == token.GTR || be.Op == token.NEQ):
				lenPos = name
			case isLen(be.X) && isZeroLit(be.Y) && be.Op == token.EQL:
				lenPos = "!" + name
			}
		}
		if len(cmps) == 0 {
			return true
		}
		n++
		holds := func(op token.Token, rel int) bool { // rel: -1 count<len, 0 equal, +1 count>len
			switch op {
			case token.EQL:
				return rel == 0
			case token.NEQ:
				return rel != 0
			case token.GTR:
				return rel > 0
			case token.GEQ:
				return rel >= 0
			case token.LSS:
				return rel < 0
			case token.LEQ:
				return rel <= 0
			}
			return false
		}
		var problems []string
		for _, rel := range []int{0, 1} {
			fixed := map[string]bool{}
			for _, ca := range cmps {
				r := rel
				if ca.flip {
					r = -rel
				}
				fixed[ca.name] = holds(ca.op, r)
			}
			if lenPos != "" {
				if strings.HasPrefix(lenPos, "!") {
					fixed[lenPos[1:]] = false
				} else {
					fixed[lenPos] = true
				}
			}
			if all, _ := bf.forAll(fixed, true); !all {
				problems = append(problems, map[int]string{0: "as many placeholders as arguments", 1: "more placeholders than arguments (e.g. a literal '?' in the text)"}[rel])
			}
		}
		r.Check(len(problems) == 0, sel.Name(), "arguments bound when the text has placeholders", ifs.Cond.Pos(), "Expr arm taken for count >= len(args) > 0", "Select does not bind its arguments when the text has "+strings.Join(problems, " / ")+": string arguments fall through and are written into the statement as column names, the remaining placeholders take the wrong values")
		return true
	})
	if n == 0 {
		r.Bad(sel.Name(), "placeholder decision", sel.Body.Pos(), "Select no longer decides between bound arguments and column names by comparing the placeholder count with len(args); rule lost its anchor")
	}
}

// C11.key-nonzero: a parent takes part in eager loading when ANY component of its key is non-zero; the
// flag is an accumulation over all key fields and is reset for every element of a slice.
func checkC11KeyNonZero(c *Ctx) {
	checkKeyNonZero(c, c.Rule("C11.key-nonzero", "identity keys: 'some component non-zero' accumulates over all fields and is reset per element", 2))
}

func checkKeyNonZero(c *Ctx, r *Rule) {
	p := c.P
	f := p.FuncDecl(pkgSchema, "GetIdentityFieldValuesMap")
	c.Touch(f)
	info := f.Pkg.TypesInfo
	fieldsParam := paramName(f, 2)
	n := 0
	ast.Inspect(f.Body, func(nd ast.Node) bool {
		rg, ok := nd.(*ast.RangeStmt)
		if !ok || canon(info, rg.X) != fieldsParam {
			return true
		}
		// the flag assigned in the loop from the zero result of ValueOf
		var zeroObj types.Object
		ast.Inspect(rg.Body, func(x ast.Node) bool {
			if as, ok := x.(*ast.AssignStmt); ok && len(as.Lhs) == 2 && len(as.Rhs) == 1 {
				if ce, ok := unparen(as.Rhs[0]).(*ast.CallExpr); ok {
					if se, ok := ce.Fun.(*ast.SelectorExpr); ok && se.Sel.Name == "ValueOf" {
						if id, ok := as.Lhs[1].(*ast.Ident); ok {
							zeroObj = info.ObjectOf(id)
						}
					}
				}
			}
			return true
		})
		if zeroObj == nil {
			return true
		}
		ast.Inspect(rg.Body, func(x ast.Node) bool {
			as, ok := x.(*ast.AssignStmt)
			if !ok || len(as.Lhs) != 1 || len(as.Rhs) != 1 {
				return true
			}
			flag, ok := as.Lhs[0].(*ast.Ident)
			if !ok || !isBoolType(info, as.Rhs[0]) || info.ObjectOf(flag) == zeroObj {
				return true
			}
			n++
			bf := boolTable(info, as.Rhs[0])
			zname := zeroObj.Name()
			acc := bf.has(flag.Name) && bf.has(zname)
			if acc {
				keep, _ := bf.forAll(map[string]bool{flag.Name: true}, true)
				set, _ := bf.forAll(map[string]bool{zname: false}, true)
				clr, _ := bf.forAll(map[string]bool{flag.Name: false, zname: true}, false)
				acc = keep && set && clr
			}
			r.Check(acc, f.Name(), "non-zero flag accumulates", as.Pos(), flag.Name+" = "+flag.Name+" || !"+zname, "the 'key is not all zero' flag is overwritten by the last key field instead of accumulating over all of them: a parent whose composite key ends in a zero component is dropped from eager loading (empty has-many, nil belongs-to) without an error")
			// reset per element when inside an element loop
			parents := parentMap(f.Body)
			var elemLoop *ast.ForStmt
			for cur := ast.Node(rg); cur != nil; cur = parents[cur] {
				if fs, ok := parents[cur].(*ast.ForStmt); ok {
					elemLoop = fs
				}
			}
			if elemLoop != nil {
				reset := false
				for _, st := range elemLoop.Body.List {
					if st.Pos() >= rg.Pos() {
						break
					}
					if ra, ok := st.(*ast.AssignStmt); ok && len(ra.Lhs) == 1 && len(ra.Rhs) == 1 {
						if id, ok := ra.Lhs[0].(*ast.Ident); ok && info.ObjectOf(id) == info.ObjectOf(flag) {
							if b, isC := constBool(info, ra.Rhs[0]); isC && !b {
								reset = true
							}
						}
					}
				}
				r.Check(reset, f.Name(), "non-zero flag reset per element", rg.Pos(), flag.Name+" = false before each element's fields", "the 'key is not all zero' flag is not reset for each element of the slice: an all-zero key after a non-zero one is kept (parents without key are queried and matched)")
			}
			return true
		})
		return true
	})
	if n < 2 {
		r.Bad(f.Name(), "flag assignments", f.Body.Pos(), "fewer than two 'key not zero' accumulations found (struct arm, slice arm)")
	}
}

// C05.scan-err: errors that surface while iterating rows (a constraint failure of INSERT .. RETURNING, a
// cancelled context) are reported by rows.Err(); gorm.Scan consults it before every exit that follows row
// iteration.  Exits after an error was already recorded, and the documented "more rows than records" exit,
// are accepted.
func checkC05ScanErr(c *Ctx, r *Rule) {
	p := c.P
	scan := p.FuncDecl(pkgGorm, "Scan")
	c.Touch(scan)
	info := scan.Pkg.TypesInfo
	rowsI := p.Iface(pkgGorm, "Rows")
	isRowsMethod := func(ce *ast.CallExpr, name string) bool {
		fn, _ := typeutil.Callee(info, ce).(*types.Func)
		if fn == nil || fn.Name() != name {
			return false
		}
		sig := fn.Type().(*types.Signature)
		return sig.Recv() != nil && types.Identical(sig.Recv().Type().Underlying(), rowsI)
	}
	var errCall *ast.CallExpr
	for _, call := range callsIn(scan) {
		if isRowsMethod(call, "Err") {
			errCall = call
		}
	}
	if errCall == nil {
		r.Bad(scan.Name(), "rows.Err()", scan.Body.Pos(), "gorm.Scan no longer consults rows.Err(): failures that surface during row iteration are lost")
		return
	}
	gs := p.Guards(scan, nil)
	n := 0
	ast.Inspect(scan.Body, func(nd ast.Node) bool {
		if _, ok := nd.(*ast.FuncLit); ok {
			return false
		}
		rs, ok := nd.(*ast.ReturnStmt)
		if !ok || rs.Pos() > errCall.Pos() {
			return true
		}
		n++
		facts, live := gs.At(rs.Pos())
		if !live {
			return true
		}
		// accepted: an error was just recorded (previous statement is AddError), or the cursor ran past the records
		okExit := false
		for f := range facts {
			if strings.HasPrefix(f, "T:") && strings.Contains(f, ".RowsAffected) >= ") && strings.HasSuffix(f, ".Len()") {
				okExit = true
			}
		}
		if prev := prevStmt(scan.Body, rs); prev != nil {
			if es, ok := prev.(*ast.ExprStmt); ok {
				if ce, ok := es.X.(*ast.CallExpr); ok {
					if fn, _ := typeutil.Callee(info, ce).(*types.Func); fn != nil && fn.Name() == "AddError" {
						okExit = true
					}
				}
			}
		}
		r.Check(okExit, scan.Name(), "early exit of Scan", rs.Pos(), "after AddError, or the documented cursor-exhausted exit", "gorm.Scan returns before consulting rows.Err(): an error that surfaces during row iteration (constraint failure of INSERT .. RETURNING, cancelled context) is lost, the operation reports success and its transaction commits")
		return true
	})
	r.OK(scan.Name(), "rows.Err() consulted at the end", errCall.Pos(), "reached by every other exit")
}

// prevStmt returns the statement preceding s in its enclosing block.
func prevStmt(root ast.Node, s ast.Stmt) ast.Stmt {
	var out ast.Stmt
	ast.Inspect(root, func(n ast.Node) bool {
		blk, ok := n.(*ast.BlockStmt)
		if !ok {
			if cc, ok := n.(*ast.CaseClause); ok {
				for i, st := range cc.Body {
					if st == s && i > 0 {
						out = cc.Body[i-1]
					}
				}
			}
			return true
		}
		for i, st := range blk.List {
			if st == s && i > 0 {
				out = blk.List[i-1]
			}
		}
		return true
	})
	return out
}

// C03.null-iff-nil: a serializer stores SQL NULL for a pointer field exactly when the pointer is nil: the
// read side (Scan) leaves a nil pointer for NULL, so a non-nil pointer to a zero value written as NULL does
// not read back equal.  The condition under which Value returns (nil, nil) in a pointer arm is evaluated on
// the three shapes of a pointer {nil, points to zero, points to non-zero} by interpreting its reflect atoms
// (v.IsNil(), v.IsZero() on the pointer itself, v.Elem().IsZero() / reflect.Indirect(v).IsZero() on the pointee).
func checkC03NullIffNil(c *Ctx) {
	p := c.P
	r := c.Rule("C03.null-iff-nil", "serializer Value methods return NULL for a pointer only when the pointer itself is nil", 1)
	serI := p.Iface(pkgSchema, "SerializerValuerInterface")
	n := 0
	for _, f := range p.FuncsOf(pkgSchema) {
		if f.Obj == nil || f.Obj.Name() != "Value" {
			continue
		}
		sig := f.Obj.Type().(*types.Signature)
		if sig.Recv() == nil || !(types.Implements(sig.Recv().Type(), serI) || types.Implements(types.NewPointer(sig.Recv().Type()), serI)) {
			continue
		}
		info := f.Pkg.TypesInfo
		parents := parentMap(f.Body)
		ast.Inspect(f.Body, func(nd ast.Node) bool {
			rs, ok := nd.(*ast.ReturnStmt)
			if !ok || len(rs.Results) != 2 || !isNilIdent(info, rs.Results[0]) || !isNilIdent(info, rs.Results[1]) {
				return true
			}
			// inside a type-switch clause that lists pointer types
			inPtrArm := false
			var cond ast.Expr
			for cur := ast.Node(rs); cur != nil; cur = parents[cur] {
				if ifs, ok := parents[cur].(*ast.IfStmt); ok && cur == ast.Node(ifs.Body) && cond == nil {
					cond = ifs.Cond
				}
				if cc, ok := cur.(*ast.CaseClause); ok {
					for _, te := range cc.List {
						if tv, ok := info.Types[te]; ok {
							if _, isPtr := tv.Type.(*types.Pointer); isPtr {
								inPtrArm = true
							}
						}
					}
				}
			}
			if !inPtrArm || cond == nil {
				return true
			}
			n++
			c.Touch(f)
			bf := boolTable(info, cond)
			atomTruth := func(e ast.Expr, shape string) (bool, bool) {
				ce, ok := unparen(e).(*ast.CallExpr)
				if !ok || len(ce.Args) != 0 {
					return false, false
				}
				sel, ok := ce.Fun.(*ast.SelectorExpr)
				if !ok {
					return false, false
				}
				onPointee := false
				switch x := unparen(sel.X).(type) {
				case *ast.CallExpr:
					if s2, ok := x.Fun.(*ast.SelectorExpr); ok && s2.Sel.Name == "Elem" {
						onPointee = true
					} else if fn, _ := typeutil.Callee(info, x).(*types.Func); fn != nil && fn.FullName() == "reflect.Indirect" {
						onPointee = true
					} else {
						return false, false
					}
				case *ast.Ident:
				default:
					return false, false
				}
				switch sel.Sel.Name {
				case "IsNil":
					if onPointee {
						return false, false
					}
					return shape == "nil", true
				case "IsZero":
					if onPointee {
						if shape == "nil" {
							return false, false // would panic / is not evaluated for nil in a short-circuit
						}
						return shape == "zero", true
					}
					return shape == "nil", true
				}
				return false, false
			}
			var problems []string
			for _, shape := range []string{"nil", "zero", "nonzero"} {
				fixed := map[string]bool{}
				for name, e := range bf.exprs {
					if v, ok := atomTruth(e, shape); ok {
						fixed[name] = v
					}
				}
				want := shape == "nil"
				if all, _ := bf.forAll(fixed, want); !all {
					if none, _ := bf.forAll(fixed, !want); none || shape != "nil" {
						switch shape {
						case "nil":
							problems = append(problems, "a nil pointer is not stored as NULL")
						case "zero":
							problems = append(problems, "a non-nil pointer to a zero value is stored as NULL and reads back as nil")
						default:
							problems = append(problems, "a non-nil pointer to a non-zero value can be stored as NULL")
						}
					}
				}
			}
			r.Check(len(problems) == 0, f.Name(), "NULL only for a nil pointer", rs.Pos(), "condition true for nil, false for pointers to zero / non-zero values", strings.Join(problems, "; ")+" (condition: "+exprStr(cond)+")")
			return true
		})
	}
	if n == 0 {
		r.Bad("schema serializers", "NULL arms", 0, "no serializer Value method returns NULL from a pointer arm any more; rule lost its anchor")
	}
}

// C10.emit-key: the column a write emits is the column the selection map was asked about.  For every
// `if v, ok := <selection map>[K]; ...` whose body builds a clause.Column{Name: N} (directly or inside an
// assignment), N and K must denote the same column: the same expression, or N is a single-definition local /
// range variable that K is derived from in the accepted ways listed below.
func checkC10EmitKey(c *Ctx) {
	p := c.P
	r := c.Rule("C10.emit-key", "the column emitted under a selection-map lookup is the column that was looked up", 6)
	colT := p.Named(pkgClause, "Column")
	stmtT := p.Named(pkgGorm, "Statement")
	saoc := p.Method(stmtT, "SelectAndOmitColumns")
	for _, f := range p.FuncsOf(pkgCallbacks, pkgGorm) {
		info := f.Pkg.TypesInfo
		// selection maps of this function (and of its parents, for literals)
		selMaps := map[types.Object]bool{}
		if f.Body == nil {
			continue
		}
		for cur := f; cur != nil && cur.Body != nil; cur = cur.Parent {
			ast.Inspect(cur.Body, func(n ast.Node) bool {
				var lhs []ast.Expr
				var rhs ast.Expr
				switch x := n.(type) {
				case *ast.AssignStmt:
					if len(x.Rhs) == 1 {
						lhs, rhs = x.Lhs, x.Rhs[0]
					}
				case *ast.ValueSpec:
					if len(x.Values) == 1 {
						for _, nm := range x.Names {
							lhs = append(lhs, nm)
						}
						rhs = x.Values[0]
					}
				}
				if rhs == nil || len(lhs) < 1 {
					return true
				}
				if ce, ok := unparen(rhs).(*ast.CallExpr); ok {
					if fn, _ := typeutil.Callee(cur.Pkg.TypesInfo, ce).(*types.Func); fn == saoc {
						if id, ok := lhs[0].(*ast.Ident); ok {
							selMaps[cur.Pkg.TypesInfo.ObjectOf(id)] = true
						}
					}
				}
				return true
			})
		}
		if len(selMaps) == 0 {
			continue
		}
		ast.Inspect(f.Body, func(n ast.Node) bool {
			if _, ok := n.(*ast.FuncLit); ok {
				return false
			}
			ifs, ok := n.(*ast.IfStmt)
			if !ok {
				return true
			}
			as, ok := ifs.Init.(*ast.AssignStmt)
			if !ok || len(as.Lhs) != 2 || len(as.Rhs) != 1 {
				return true
			}
			ix, ok := unparen(as.Rhs[0]).(*ast.IndexExpr)
			if !ok {
				return true
			}
			mid, ok := unparen(ix.X).(*ast.Ident)
			if !ok || !selMaps[info.Uses[mid]] {
				return true
			}
			key := canon(info, ix.Index)
			// Column literals with a Name in the then-branch, not below a nested selection lookup
			ast.Inspect(ifs.Body, func(x ast.Node) bool {
				if inner, ok := x.(*ast.IfStmt); ok && inner != ifs {
					if ias, ok := inner.Init.(*ast.AssignStmt); ok && len(ias.Rhs) == 1 {
						if iix, ok := unparen(ias.Rhs[0]).(*ast.IndexExpr); ok {
							if imid, ok := unparen(iix.X).(*ast.Ident); ok && selMaps[info.Uses[imid]] {
								return false
							}
						}
					}
				}
				lit, ok := x.(*ast.CompositeLit)
				if !ok {
					return true
				}
				if tv, ok := info.Types[lit]; !ok || !types.Identical(tv.Type, colT) {
					return true
				}
				nm := compositeField(lit, "Name")
				if nm == nil {
					return true
				}
				c.Touch(f)
				name := canon(info, nm)
				same := name == key
				// N is a local defined from K's field (name := field.DBName; lookup by field.DBName) or vice versa
				if !same {
					if id, ok := unparen(nm).(*ast.Ident); ok {
						if ds := localDefs(f, id.Name, id.Pos()); len(ds) == 1 && ds[0].rhs != nil && canon(info, ds[0].rhs) == key {
							same = true
						}
					}
					if id, ok := unparen(ix.Index).(*ast.Ident); ok && !same {
						if ds := localDefs(f, id.Name, id.Pos()); len(ds) == 1 && ds[0].rhs != nil && canon(info, ds[0].rhs) == name {
							same = true
						}
					}
				}
				r.Check(same, rootFunc(f).Name(), "emits the looked-up column", lit.Pos(), "clause.Column{Name: "+key+"}", "the selection map is asked about `"+key+"` but the column written is `"+name+"`: Select, Omit and permission tags are evaluated for a different name than the column that is emitted (e.g. a field-name map key vs. its column), so denied or omitted columns are written")
				return true
			})
			return true
		})
	}
}

// C20.ddl-table: constraints of the model being migrated live on the statement's table.  RunWithValue fills
// Statement.Table (honouring Table(), TableName() with a schema qualifier, dynamic names); Schema.Table is only
// the parsed base name.  GuessConstraintInterfaceAndTable - whose result is the table CreateConstraint,
// DropConstraint and HasConstraint act on - returns Statement.Table for the model's own CHECK / UNIQUE
// constraints, like every other DDL of the migrator does through CurrentTable.
func checkC20DDLTable(c *Ctx) {
	p := c.P
	r := c.Rule("C20.ddl-table", "the model's own CHECK/UNIQUE constraints are looked up and created on Statement.Table", 4)
	f := p.MethodDecl(pkgMigrator, "Migrator", "GuessConstraintInterfaceAndTable")
	c.Touch(f)
	info := f.Pkg.TypesInfo
	stmtT := p.Named(pkgGorm, "Statement")
	tableF := p.Field(stmtT, "Table")
	chkT := p.Named(pkgSchema, "CheckConstraint")
	uniT := p.Named(pkgSchema, "UniqueConstraint")
	n := 0
	ast.Inspect(f.Body, func(nd ast.Node) bool {
		if _, ok := nd.(*ast.FuncLit); ok {
			return false
		}
		rs, ok := nd.(*ast.ReturnStmt)
		if !ok || len(rs.Results) != 2 || isNilIdent(info, rs.Results[0]) {
			return true
		}
		// first result: address of a CheckConstraint / UniqueConstraint value
		u, ok := unparen(rs.Results[0]).(*ast.UnaryExpr)
		if !ok || u.Op != token.AND {
			return true
		}
		tv, ok := info.Types[u.X]
		if !ok || !(types.Identical(tv.Type, chkT) || types.Identical(tv.Type, uniT)) {
			return true
		}
		n++
		tbl := unparen(rs.Results[1])
		if id, ok := tbl.(*ast.Ident); ok {
			if ds := localDefs(f, id.Name, id.Pos()); len(ds) == 1 && ds[0].rhs != nil {
				tbl = unparen(ds[0].rhs)
			}
		}
		r.Check(fieldSel(info, tbl, tableF), f.Name(), "own constraint on the statement's table", rs.Pos(), "returns Statement.Table", "a CHECK/UNIQUE constraint of the migrated model is attributed to `"+exprShort(rs.Results[1])+"` instead of Statement.Table: for models whose table name is overridden or schema-qualified the constraint is looked up / created on another name, AutoMigrate re-runs fail or skip the constraint")
		return true
	})
	if n < 4 {
		r.Bad(f.Name(), "constraint returns", f.Body.Pos(), "fewer than four returns of the model's own CHECK/UNIQUE constraints found")
	}
}

// checkDoNothingScanMode (C16/C03): RETURNING rows of an upsert are matched with the in-memory records position
// by position; only for ON CONFLICT DO NOTHING rows may be missing (records that hit the conflict return no
// row) and the scanner is told to skip records that already have values.  Telling it so for any other
// conflict rule (DO UPDATE returns a row for EVERY record) shifts the returned keys onto the wrong records.
func checkDoNothingScanMode(c *Ctx, r *Rule) {
	p := c.P
	mode := p.Lookup(pkgGorm, "ScanOnConflictDoNothing")
	ocT := p.Named(pkgClause, "OnConflict")
	doNothingF := p.Field(ocT, "DoNothing")
	n := 0
	for _, f := range p.FuncsOf(pkgCallbacks) {
		info := f.Pkg.TypesInfo
		parents := parentMap(f.Body)
		ast.Inspect(f.Body, func(nd ast.Node) bool {
			if _, ok := nd.(*ast.FuncLit); ok {
				return false
			}
			as, ok := nd.(*ast.AssignStmt)
			if !ok || len(as.Rhs) != 1 {
				return true
			}
			uses := false
			ast.Inspect(as.Rhs[0], func(x ast.Node) bool {
				if se, ok := x.(*ast.SelectorExpr); ok && info.Uses[se.Sel] == mode {
					uses = true
				}
				return true
			})
			if !uses {
				return true
			}
			n++
			c.Touch(f)
			// the innermost enclosing condition must imply OnConflict.DoNothing
			okc := false
			for cur := ast.Node(as); cur != nil && !okc; cur = parents[cur] {
				ifs, isIf := parents[cur].(*ast.IfStmt)
				if !isIf || cur != ast.Node(ifs.Body) {
					continue
				}
				bf := boolTable(info, ifs.Cond)
				for name, e := range bf.exprs {
					if se, ok := unparen(e).(*ast.SelectorExpr); ok && fieldSel(info, se, doNothingF) {
						if implied, _ := bf.forAll(map[string]bool{name: false}, false); implied {
							okc = true
						}
					}
				}
			}
			r.Check(okc, rootFunc(f).Name(), "skip mode only for DO NOTHING", as.Pos(), "guarded by a condition that implies OnConflict.DoNothing", "the RETURNING scanner is told to skip already-filled records for a conflict rule other than DO NOTHING: an upsert that updates returns a row for every record, so the keys are shifted onto the wrong records (saving the slice again overwrites other rows)")
			return true
		})
	}
	if n == 0 {
		r.Bad("callbacks", "ScanOnConflictDoNothing", 0, "no use of the DO NOTHING scan mode found in the create pipeline; rule lost its anchor")
	}
}

// checkRowsCount (C15): Row()/Rows() leave RowsAffected "unknown" (-1) after every executed query and
// (*DB).Scan defines it on every path: through ScanRows when a row arrived, explicitly otherwise.
func checkRowsCount(c *Ctx) {
	p := c.P
	r := c.Rule("C15.rows-count", "RowQuery marks RowsAffected unknown after every query; (*DB).Scan defines it on every path", 3)
	raF := p.Field(p.Named(pkgGorm, "DB"), "RowsAffected")
	rq := p.FuncDecl(pkgCallbacks, "RowQuery")
	c.Touch(rq)
	{
		info := rq.Pkg.TypesInfo
		gs := p.Guards(rq, nil)
		for _, s := range p.DriverSites() {
			if rootFunc(s.F) != rq || s.Kind != DrvStmt {
				continue
			}
			okp, _ := gs.MustPass(s.Call.Pos(), func(n ast.Node) bool {
				as, ok := n.(*ast.AssignStmt)
				if !ok {
					return false
				}
				for i, l := range as.Lhs {
					if fieldSel(info, l, raF) && i < len(as.Rhs) {
						if tv, ok := info.Types[as.Rhs[i]]; ok && tv.Value != nil && tv.Value.String() == "-1" {
							return true
						}
					}
				}
				return false
			})
			r.Check(okp, rq.Name(), "RowsAffected = -1 after "+s.Callee.Name(), s.Call.Pos(), "on every path after the query", "a query executed through Row()/Rows() leaves the RowsAffected of an earlier finisher on the handle: Scan and Find disagree on the number of rows")
		}
	}
	sc := p.MethodDecl(pkgGorm, "DB", "Scan")
	c.Touch(sc)
	{
		info := sc.Pkg.TypesInfo
		dbT := p.Named(pkgGorm, "DB")
		rowsM, scanRowsM := p.Method(dbT, "Rows"), p.Method(dbT, "ScanRows")
		paths, ok := p.EnumPaths(sc, nil, 4096)
		if !ok {
			r.Unknown(sc.Name(), "paths", sc.Body.Pos(), "too many paths")
		}
		bad := 0
		nq := 0
		for _, pr := range paths {
			queried := pathHasCall(info, pr, func(ce *ast.CallExpr) bool {
				fn, _ := typeutil.Callee(info, ce).(*types.Func)
				return fn == rowsM
			}) != nil
			if !queried {
				continue
			}
			// only paths on which Rows() succeeded
			okErr := false
			for f := range pr.Facts {
				if strings.HasPrefix(f, "N:") && !strings.Contains(f, ".") {
					okErr = true
				}
			}
			if !okErr {
				continue
			}
			nq++
			defined := pathHasCall(info, pr, func(ce *ast.CallExpr) bool {
				fn, _ := typeutil.Callee(info, ce).(*types.Func)
				return fn == scanRowsM
			}) != nil
			for _, nd := range pr.Nodes {
				if as, ok := nd.(*ast.AssignStmt); ok {
					for _, l := range as.Lhs {
						if fieldSel(info, l, raF) {
							defined = true
						}
					}
				}
			}
			if !defined {
				bad++
			}
		}
		r.Check(bad == 0 && nq >= 2, sc.Name(), "RowsAffected defined on every path", sc.Body.Pos(), "ScanRows, or an explicit value when no row arrived", "(*DB).Scan leaves RowsAffected undefined when the query returns no row: it reports the count of an earlier finisher on the same handle (or -1)")
	}
}

// C11.descent: Preload combined with association Joins descends into the joined relation once per kind of
// destination (slice/array of parents, single parent).  The sibling descents must agree: each hands the
// recursion the remainder of the join paths below that relation (the value isJoined computed), the
// relationships of the descended schema, and the same preload map and conditions.
func checkC11Descent(c *Ctx) {
	p := c.P
	r := c.Rule("C11.descent", "SIBLINGS(descents of preloadEntryPoint into a joined relation): same arguments, join paths = remainder below the relation", 2)
	f := p.FuncDecl(pkgCallbacks, "preloadEntryPoint")
	c.Touch(f)
	info := f.Pkg.TypesInfo
	pdb := p.FuncDecl(pkgCallbacks, "preloadDB").Obj
	joinsParam := paramName(f, 1)
	type descent struct {
		call *ast.CallExpr
		args []string
	}
	var ds []descent
	for _, fs := range append([]*FuncSrc{f}, p.AllLits(f)...) {
		for _, call := range callsIn(fs) {
			if fn, _ := typeutil.Callee(info, call).(*types.Func); fn != f.Obj || len(call.Args) < 2 {
				continue
			}
			// first argument: a local defined as preloadDB(...)
			id, ok := unparen(call.Args[0]).(*ast.Ident)
			if !ok {
				continue
			}
			isDesc := false
			for _, d := range localDefs(fs, id.Name, id.Pos()) {
				if ce, ok := unparen(d.rhs).(*ast.CallExpr); ok {
					if fn, _ := typeutil.Callee(info, ce).(*types.Func); fn == pdb {
						isDesc = true
					}
				}
			}
			if !isDesc {
				continue
			}
			var args []string
			for _, a := range call.Args[1:] {
				args = append(args, canon(info, a))
			}
			ds = append(ds, descent{call, args})
		}
	}
	if len(ds) < 2 {
		r.Bad(f.Name(), "descents", f.Body.Pos(), "fewer than two descents into a joined relation found (slice and single-parent destinations)")
		return
	}
	ref := ds[0].args
	for _, d := range ds {
		same := len(d.args) == len(ref)
		for i := range d.args {
			if same && d.args[i] != ref[i] {
				same = false
			}
		}
		notCurrent := len(d.args) > 0 && d.args[0] != joinsParam
		r.Check(same && notCurrent, f.Name(), "descent into the joined relation", d.call.Pos(), "("+strings.Join(ref, ", ")+")", "the descents into a joined relation disagree, or pass the current level's join paths down ("+strings.Join(d.args, ", ")+"): one level down the join names are matched against the wrong schema and a same-named relation is treated as already joined - its preload is silently skipped for that kind of destination")
	}
}

// checkRegroupScans (C02.regroup-scan): every place that regroups lone-OR conditions before ANDing a
// library condition onto the user's WHERE (soft-delete filter, batch cursor) scans all members.
func checkRegroupScans(c *Ctx, r *Rule) {
	p := c.P
	for _, f := range []*FuncSrc{p.MethodDecl(pkgGorm, "SoftDeleteQueryClause", "ModifyStatement"), p.MethodDecl(pkgGorm, "DB", "FindInBatches")} {
		c.Touch(f)
		store, hasAnd := findRegroup(p, f)
		r.Check(store != nil && hasAnd && regroupScansAll(f, store), f.Name(), "regroup of lone-OR conditions", f.Body.Pos(), "scans every member, wraps all of them into one AND unit", "the user's conditions are not regrouped as a whole before a library condition is ANDed on: for some form of the first unit (a map, struct or group rendered as an AND group) `(a AND b) OR c AND <library condition>` restricts only `c`")
	}
}

// C04.block-handle: inside the function the library hands to its own Transaction call the work runs on the
// block's handle (the function's *DB parameter), not on a handle of the enclosing scope - otherwise the block
// stays empty and a later failure rolls nothing back.
func checkC04BlockHandle(c *Ctx) {
	p := c.P
	r := c.Rule("C04.block-handle", "functions handed to (*DB).Transaction inside the library work on the block's handle", 1)
	p.SSA()
	dbT := p.Named(pkgGorm, "DB")
	txFn := p.SSAFunc(p.Method(dbT, "Transaction"))
	procExec := p.SSAFunc(p.Method(p.Named(pkgGorm, "processor"), "Execute"))
	finishers := finisherSet(p)
	blocks := map[*ssa.Function]bool{}
	for _, fn := range p.SSAFuncs() {
		if fn.Blocks == nil {
			continue
		}
		forEachInstrFlat(fn, func(in ssa.Instruction) {
			ci, ok := in.(ssa.CallInstruction)
			if !ok || ci.Common().StaticCallee() != txFn {
				return
			}
			for _, a := range ci.Common().Args {
				collectClosures(a, blocks, 0)
			}
		})
	}
	n := 0
	for blk := range blocks {
		if len(blk.Params) == 0 {
			continue
		}
		n++
		name := ssaFuncName(blk)
		c.TouchName(ssaFuncName(rootSSA(blk)))
		param := blk.Params[0].Name()
		forEachInstrFlat(blk, func(in ssa.Instruction) {
			ci, ok := in.(ssa.CallInstruction)
			if !ok {
				return
			}
			callee := ci.Common().StaticCallee()
			if callee == nil {
				return
			}
			var handle ssa.Value
			switch {
			case callee == procExec && len(ci.Common().Args) == 2:
				handle = ci.Common().Args[1]
			case finishers[callee] && len(ci.Common().Args) >= 1:
				handle = ci.Common().Args[0]
			default:
				return
			}
			paths := valuePaths(handle)
			okh := len(paths) > 0
			for _, pth := range paths {
				root := pth
				if i := strings.IndexAny(root, ".["); i >= 0 {
					root = root[:i]
				}
				if root != param {
					okh = false
				}
			}
			r.Check(okh, name, "work inside the block: "+callee.Name(), in.Pos(), "handle derived from the block's parameter "+param, "inside a function the library runs through Transaction, "+callee.Name()+" runs on "+strings.Join(paths, "|")+" instead of a handle derived from the block's own parameter: the statements are executed outside the transaction, which stays empty - a failure later in the block rolls nothing back")
		})
	}
	if n == 0 {
		r.Bad("gorm", "library transaction blocks", 0, "no function literal is handed to (*DB).Transaction inside the library any more; rule lost its anchor")
	}
}

func collectClosures(v ssa.Value, out map[*ssa.Function]bool, depth int) {
	if depth > 4 {
		return
	}
	switch x := v.(type) {
	case *ssa.MakeClosure:
		if f, ok := x.Fn.(*ssa.Function); ok {
			out[f] = true
		}
	case *ssa.Function:
		out[x] = true
	case *ssa.UnOp:
		// a local holding the closure: follow the stores into its cell
		if al, ok := x.X.(*ssa.Alloc); ok && al.Referrers() != nil {
			for _, ref := range *al.Referrers() {
				if st, ok := ref.(*ssa.Store); ok {
					collectClosures(st.Val, out, depth+1)
				}
			}
		}
	case *ssa.Phi:
		for _, e := range x.Edges {
			collectClosures(e, out, depth+1)
		}
	case *ssa.ChangeType:
		collectClosures(x.X, out, depth+1)
	}
}

// C17.keep-constraints / C17.recursion-bounded (added after the first C17 seed and the agent's note):
//
//	keep       while sorting, the Before/After request of ANOTHER callback is rewritten only when that callback
//	           gave none itself (the field is empty): an explicit request is never overwritten
//	bounded    the recursive sorter cannot recurse without bound: a callback naming itself, or two callbacks
//	           naming each other, must end in an error, not in a stack overflow (which kills the process -
//	           neither "an error is returned" nor "the pipeline runs").  Recognised bounds: a depth counter
//	           compared against a limit, or a visited set consulted on entry, each leading to an error return.
func checkC17Sorter(c *Ctx) {
	p := c.P
	rk := c.Rule("C17.keep-constraints", "the sorter rewrites another callback's before/after only when it is empty", 2)
	rb := c.Rule("C17.recursion-bounded", "the recursive sorter has a termination guard that ends in an error", 1)
	sortF := p.FuncDecl(pkgGorm, "sortCallbacks")
	cbT := p.Named(pkgGorm, "callback")
	info := sortF.Pkg.TypesInfo
	var inner *FuncSrc
	for _, l := range p.AllLits(sortF) {
		if l.Type.Params != nil && len(l.Type.Params.List) == 1 && l.Type.Results != nil && len(l.Type.Results.List) == 1 {
			if tv, ok := info.Types[l.Type.Params.List[0].Type]; ok && p.isNamedPtr(tv.Type, cbT) {
				inner = l
			}
		}
	}
	if inner == nil {
		rk.Bad(sortF.Name(), "recursive sorter", sortF.Body.Pos(), "sortCallbacks no longer has the recursive closure; rule lost its anchor")
		return
	}
	c.Touch(inner)
	cParam := paramName(inner, 0)
	gs := p.Guards(inner, nil)
	beforeF, afterF := p.Field(cbT, "before"), p.Field(cbT, "after")
	n := 0
	ast.Inspect(inner.Body, func(nd ast.Node) bool {
		as, ok := nd.(*ast.AssignStmt)
		if !ok {
			return true
		}
		for _, l := range as.Lhs {
			sel, ok := unparen(l).(*ast.SelectorExpr)
			if !ok || !(fieldSel(info, sel, beforeF) || fieldSel(info, sel, afterF)) {
				continue
			}
			base := canon(info, sel.X)
			if base == cParam {
				continue // the callback being sorted itself
			}
			n++
			facts, live := gs.At(as.Pos())
			empty := live && facts.Has(fTrue(canon(info, sel)+` == ""`))
			rk.Check(empty, inner.Name(), "rewrite of "+canon(info, sel), as.Pos(), "only when "+canon(info, sel)+` == ""`, "the sorter overwrites the "+sel.Sel.Name+" request of another callback without checking that it is empty: a callback registered "+strings.Title(sel.Sel.Name)+"(z) loses that request when a third callback names it, and runs on the wrong side of z without any error")
		}
		return true
	})
	if n < 2 {
		rk.Bad(inner.Name(), "rewrites", inner.Body.Pos(), "fewer than two rewrites of another callback's before/after found")
	}
	// termination guard: an early error return under a comparison of an integer local that is incremented in
	// the closure, or under a map look-up keyed by the callback (visited set)
	bounded := false
	ast.Inspect(inner.Body, func(nd ast.Node) bool {
		ifs, ok := nd.(*ast.IfStmt)
		if !ok {
			return true
		}
		returnsErr := false
		for _, st := range ifs.Body.List {
			if rs, ok := st.(*ast.ReturnStmt); ok && len(rs.Results) == 1 && !isNilIdent(info, rs.Results[0]) {
				returnsErr = true
			}
		}
		if !returnsErr {
			return true
		}
		ast.Inspect(ifs.Cond, func(x ast.Node) bool {
			switch y := x.(type) {
			case *ast.BinaryExpr:
				if y.Op == token.GTR || y.Op == token.GEQ || y.Op == token.LSS || y.Op == token.LEQ {
					for _, side := range []ast.Expr{y.X, y.Y} {
						if id, ok := unparen(side).(*ast.Ident); ok {
							if v, _ := info.Uses[id].(*types.Var); v != nil {
								if b, ok := v.Type().Underlying().(*types.Basic); ok && b.Info()&types.IsInteger != 0 && incrementedIn(info, inner, v) {
									bounded = true
								}
							}
						}
					}
				}
			case *ast.IndexExpr:
				if tv, ok := info.Types[y.X]; ok {
					if _, isMap := tv.Type.Underlying().(*types.Map); isMap && strings.HasPrefix(canon(info, y.Index), cParam) {
						bounded = true
					}
				}
			}
			return true
		})
		return true
	})
	// a map look-up with comma-ok in an if-init counts as well
	ast.Inspect(inner.Body, func(nd ast.Node) bool {
		ifs, ok := nd.(*ast.IfStmt)
		if !ok || ifs.Init == nil {
			return true
		}
		as, ok := ifs.Init.(*ast.AssignStmt)
		if !ok || len(as.Rhs) != 1 {
			return true
		}
		if ix, ok := unparen(as.Rhs[0]).(*ast.IndexExpr); ok && strings.HasPrefix(canon(info, ix.Index), cParam) {
			if tv, ok := info.Types[ix.X]; ok {
				if _, isMap := tv.Type.Underlying().(*types.Map); isMap {
					for _, st := range ifs.Body.List {
						if rs, ok := st.(*ast.ReturnStmt); ok && len(rs.Results) == 1 && !isNilIdent(info, rs.Results[0]) {
							bounded = true
						}
					}
				}
			}
		}
		return true
	})
	rb.Check(bounded, inner.Name(), "termination guard", inner.Body.Pos(), "depth bound or visited set leading to an error", "the recursive sorter has no termination guard: a callback registered Before/After itself, or two callbacks registered After each other, recurse until the stack overflows and the process dies - neither an error is returned nor does the pipeline run")
}

func incrementedIn(info *types.Info, f *FuncSrc, v *types.Var) bool {
	found := false
	ast.Inspect(f.Body, func(n ast.Node) bool {
		switch x := n.(type) {
		case *ast.IncDecStmt:
			if id, ok := unparen(x.X).(*ast.Ident); ok && info.Uses[id] == v && x.Tok == token.INC {
				found = true
			}
		case *ast.AssignStmt:
			if x.Tok == token.ADD_ASSIGN && len(x.Lhs) == 1 {
				if id, ok := unparen(x.Lhs[0]).(*ast.Ident); ok && info.Uses[id] == v {
					found = true
				}
			}
		}
		return true
	})
	return found
}
