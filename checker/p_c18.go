package main

// C18 — every statement of an operation carries the caller's context.

import (
	"go/ast"
	"go/token"
	"go/types"
	"strings"

	"golang.org/x/tools/go/ssa"
	"golang.org/x/tools/go/types/typeutil"
)

func init() {
	register("C18", checkC18,
		"Structural clauses of C18 decided at every site of the current source: (origin) the context argument of every driver call (BeginTx, PrepareContext, Exec/Query/QueryRowContext, StmtContext, Conn) is, by SSA value origin, Statement.Context of the statement whose pool is called, or a context parameter that a pool-wrapper method / helper merely forwards (every static caller is checked recursively); (no-background) results of context.Background/TODO flow only into logger calls and the root statement built by Open; (derive) every Statement literal that has a pool takes Context from its parent statement, literals without a pool are scratch, and the only other writer of Statement.Context is Session storing the caller-supplied Session.Context; (sessions) every Session literal in library code that sets Context sets it to Statement.Context of the handle it is applied to, or to a context parameter of the API method; (ctx-api) no context-less database/sql method is called. NOT decided: that database/sql and the driver honour a cancelled context; contexts created by user hooks/scopes.",
		"database/sql passes the context it is given to the driver and refuses to start a statement on a cancelled context")
}

func isContextType(t types.Type) bool {
	n, ok := t.(*types.Named)
	return ok && n.Obj().Pkg() != nil && n.Obj().Pkg().Path() == "context" && n.Obj().Name() == "Context"
}

func checkC18(c *Ctx) {
	p := c.P
	sites := p.DriverSites()
	p.SSA()

	// interfaces whose implementations merely forward a context they are given
	var poolIfaces []*types.Interface
	for _, n := range []string{"ConnPool", "TxBeginner", "ConnPoolBeginner", "Tx", "TxCommitter"} {
		poolIfaces = append(poolIfaces, p.Iface(pkgGorm, n))
	}
	implementsPoolMethod := func(fn *ssa.Function) bool {
		sig := fn.Signature
		if sig.Recv() == nil {
			return false
		}
		for _, it := range poolIfaces {
			for i := 0; i < it.NumMethods(); i++ {
				if it.Method(i).Name() == fn.Name() && types.Implements(sig.Recv().Type(), it) {
					return true
				}
			}
		}
		return false
	}

	// static callers of a function inside the repo
	callersOf := func(target *ssa.Function) []ssa.CallInstruction {
		var out []ssa.CallInstruction
		for _, fn := range p.SSAFuncs() {
			for _, b := range fn.Blocks {
				for _, in := range b.Instrs {
					if ci, ok := in.(ssa.CallInstruction); ok && ci.Common().StaticCallee() == target {
						out = append(out, ci)
					}
				}
			}
		}
		return out
	}

	// originOK decides whether ctx value v in function fn is an allowed origin; wantRoot (may be "") is the
	// access path of the handle whose pool is called.
	var originOK func(fn *ssa.Function, v ssa.Value, wantRoot string, depth int) (bool, string)
	originOK = func(fn *ssa.Function, v ssa.Value, wantRoot string, depth int) (bool, string) {
		paths := valuePaths(v)
		if len(paths) == 0 {
			return false, "no origin"
		}
		for _, pth := range paths {
			switch {
			case strings.HasSuffix(pth, ".Statement.Context") || strings.HasSuffix(pth, ".Context") && isStatementPath(p, fn, pth):
				if wantRoot != "" {
					root := strings.TrimSuffix(pth, ".Context")
					if root != wantRoot {
						return false, "context of " + root + " used on the pool of " + wantRoot
					}
				}
			case isParamOfType(fn, pth, isContextType):
				// forwarded parameter: either a pool-interface method, or every static caller must be fine
				if implementsPoolMethod(fn) {
					continue
				}
				if depth > 4 {
					return false, "forwarding chain too deep"
				}
				idx := paramIndex(fn, pth)
				callers := callersOf(fn)
				if len(callers) == 0 {
					if fn.Object() != nil && fn.Object().Exported() {
						continue // exported API taking a context from the user
					}
					return false, "forwarded context parameter of " + fn.Name() + " has no visible caller"
				}
				for _, ci := range callers {
					args := ci.Common().Args
					if idx >= len(args) {
						return false, "cannot map parameter at caller"
					}
					if ok, why := originOK(ci.Parent(), args[idx], "", depth+1); !ok {
						return false, "caller " + ssaFuncName(ci.Parent()) + ": " + why
					}
				}
			default:
				return false, "context originates from " + pth
			}
		}
		return true, strings.Join(paths, "|")
	}

	ro := c.Rule("C18.origin", "the context handed to every driver call derives from Statement.Context of the statement whose pool is called, or from a forwarded context parameter whose callers do", 20)
	rapi := c.Rule("C18.ctx-api", "WHO-CALLS(context-less database/sql methods) is empty", 0)
	// positive self-example for the zero-count rule: the classifier must recognise (*sql.DB).Query
	{
		q := p.Method(p.StdNamed("database/sql", "DB"), "Query")
		kind, _, ok := p.driverCallee(q)
		if ok && kind == DrvStmt && ctxLessNames[q.Name()] {
			rapi.Selftest = "ok: (*sql.DB).Query is classified as a context-less statement method"
		} else {
			rapi.Selftest = "FAIL: (*sql.DB).Query not recognised"
		}
	}
	for _, s := range sites {
		if s.Kind == DrvClose || s.Kind == DrvCommit || s.Kind == DrvRollback {
			continue
		}
		c.Touch(s.F)
		desc := "driver:" + s.Callee.Name()
		if s.CtxLess {
			rapi.Bad(s.F.Name(), desc, s.Call.Pos(), "context-less method "+s.Callee.FullName()+" is called: the statement cannot carry the caller's context")
			continue
		}
		ci := p.ssaCall(s.F, s.Call)
		if ci == nil {
			ro.Unknown(s.F.Name(), desc, s.Call.Pos(), "no SSA call for site")
			continue
		}
		cc := ci.Common()
		args := cc.Args
		var recv ssa.Value
		if cc.IsInvoke() {
			recv = cc.Value
		} else if len(args) > 0 {
			recv, args = args[0], args[1:]
		}
		if len(args) == 0 || !isContextType(args[0].Type()) {
			ro.Bad(s.F.Name(), desc, s.Call.Pos(), "driver method without a context argument")
			continue
		}
		wantRoot := ""
		for _, rp := range valuePaths(recv) {
			if strings.HasSuffix(rp, ".Statement.ConnPool") {
				wantRoot = strings.TrimSuffix(rp, ".ConnPool")
			}
		}
		ok, why := originOK(ci.Parent(), args[0], wantRoot, 0)
		ro.Check(ok, s.F.Name(), desc, s.Call.Pos(), "context origin: "+why, "driver call "+s.Callee.Name()+" does not receive the operation's context: "+why)
	}

	// ---- C18.no-background ----
	rb := c.Rule("C18.no-background", "results of context.Background/TODO flow only into logger calls and the root statement built by Open", 5)
	bg := map[*types.Func]bool{p.StdFunc("context", "Background"): true, p.StdFunc("context", "TODO"): true}
	loggerIface := p.Iface(pkgLogger, "Interface")
	stmtT := p.Named(pkgGorm, "Statement")
	ctxF := p.Field(stmtT, "Context")
	for _, fn := range p.SSAFuncs() {
		if fn.Pkg != nil && fn.Pkg.Pkg.Path() == pkgUtilTests {
			continue
		}
		for _, b := range fn.Blocks {
			for _, in := range b.Instrs {
				call, ok := in.(*ssa.Call)
				if !ok {
					continue
				}
				sc := call.Call.StaticCallee()
				if sc == nil || sc.Object() == nil || !bg[sc.Object().(*types.Func)] {
					continue
				}
				c.TouchName(ssaFuncName(fn))
				var bad []string
				var visit func(v ssa.Value, depth int)
				visit = func(v ssa.Value, depth int) {
					if depth > 6 || v.Referrers() == nil {
						return
					}
					for _, r := range *v.Referrers() {
						switch r := r.(type) {
						case *ssa.MakeInterface:
							visit(r, depth+1)
						case *ssa.ChangeInterface:
							visit(r, depth+1)
						case *ssa.DebugRef:
						case ssa.CallInstruction:
							cc := r.Common()
							if cc.IsInvoke() {
								if recvIs(cc.Value.Type(), loggerIface) || isLoggerPkgType(cc.Value.Type()) {
									continue
								}
								bad = append(bad, "passed to "+cc.Method.FullName())
								continue
							}
							if callee := cc.StaticCallee(); callee != nil && callee.Pkg != nil && callee.Pkg.Pkg.Path() == pkgLogger {
								continue
							}
							bad = append(bad, "passed to "+cc.String())
						case *ssa.Store:
							if fa, ok := r.Addr.(*ssa.FieldAddr); ok && fieldVar(fa.X.Type(), fa.Field) == ctxF && rootSSA(fn).Name() == "Open" && fn.Pkg != nil && fn.Pkg.Pkg.Path() == pkgGorm {
								continue
							}
							bad = append(bad, "stored ("+r.String()+")")
						default:
							bad = append(bad, "used by "+r.String())
						}
					}
				}
				visit(call, 0)
				rb.Check(len(bad) == 0, ssaFuncName(fn), "context."+sc.Name(), call.Pos(), "flows only into logger calls / the root statement of Open",
					"a fresh context."+sc.Name()+"() "+strings.Join(bad, "; ")+": statements issued through it lose the caller's context")
			}
		}
	}

	// ---- C18.derive ----
	rdv := c.Rule("C18.derive", "every Statement literal with a pool takes Context from its parent statement; literals without a pool are scratch; Statement.Context is otherwise written only by Session from Session.Context", 8)
	for _, f := range p.FuncsOf(pkgGorm, pkgCallbacks, pkgMigrator, pkgSchema, pkgClause) {
		info := f.Pkg.TypesInfo
		for _, lit := range litsOfType(info, f.Body, stmtT, false) {
			c.Touch(f)
			pool := compositeField(lit, "ConnPool")
			ctx := compositeField(lit, "Context")
			desc := "Statement{} literal"
			isOpen := rootFunc(f).Name() == "gorm.Open"
			switch {
			case pool == nil && ctx == nil:
				rdv.OK(f.Name(), desc+" (scratch)", lit.Pos(), "scratch statement: no pool, cannot reach the driver")
			case isOpen:
				rdv.OK(f.Name(), desc+" (root)", lit.Pos(), "root statement built by Open")
			case ctx == nil:
				rdv.Bad(f.Name(), desc, lit.Pos(), "a Statement with a pool is built without Context: statements run through it carry a nil context")
			default:
				cs := canon(info, ctx)
				okc := strings.HasSuffix(cs, ".Context") && (pool == nil || strings.TrimSuffix(canon(info, pool), ".ConnPool") == strings.TrimSuffix(cs, ".Context"))
				rdv.Check(okc, f.Name(), desc, lit.Pos(), "Context: "+cs, "Statement literal takes Context from "+cs+", not from the statement it takes its pool from")
			}
		}
	}
	sessT := p.Named(pkgGorm, "Session")
	sess := p.MethodDecl(pkgGorm, "DB", "Session")
	for _, st := range p.FieldStores(ctxF) {
		if st.Fresh {
			continue // composite literals handled above
		}
		name := ssaFuncName(st.Fn)
		if st.Val == nil {
			rdv.Bad(name, "addr:Statement.Context", st.Pos, "address of Statement.Context escapes")
			continue
		}
		paths := valuePaths(st.Val)
		okw := st.Fn == p.SSAFunc(sess.Obj)
		for _, pth := range paths {
			if !(strings.HasSuffix(pth, ".Context") && isParamOfNamed(st.Fn, strings.TrimSuffix(pth, ".Context"), sessT)) {
				okw = false
			}
		}
		if okw {
			facts, live := p.Guards(sess, nil).At(st.Pos)
			okw = live && facts.Has(fNonNil(paramName(sess, 0)+".Context"))
		}
		rdv.Check(okw, name, "store:Statement.Context", st.Pos, "Session stores the caller-supplied, non-nil Session.Context on its cloned statement", "Statement.Context is overwritten with "+strings.Join(paths, "|")+" outside the Session(Context) path")
	}

	// a Session with its own Context stores it on a statement private to the derived handle: writing it
	// into the statement still shared with the parent would re-bind every later operation of the parent
	checkSessionStores(c, rdv, map[string]bool{"Context": true})

	// ---- C18.sessions ----
	rse := c.Rule("C18.sessions", "Session literals in library code that set Context use Statement.Context of the handle they are applied to (or an API context parameter)", 4)
	dbT := p.Named(pkgGorm, "DB")
	sessM := p.Method(dbT, "Session")
	for _, f := range p.FuncsOf(pkgGorm, pkgCallbacks, pkgMigrator, pkgSchema) {
		info := f.Pkg.TypesInfo
		for _, call := range callsIn(f) {
			fn, _ := typeutil.Callee(info, call).(*types.Func)
			if fn != sessM || len(call.Args) != 1 {
				continue
			}
			arg := unparen(call.Args[0])
			// the literal held in a single-definition local: cfg := Session{...}; db.Session(&cfg)
			if u, ok := arg.(*ast.UnaryExpr); ok && u.Op == token.AND {
				if id, ok := unparen(u.X).(*ast.Ident); ok {
					if d := resolveLocal(f, id); d != nil {
						arg = d
					}
				}
			} else if id, ok := arg.(*ast.Ident); ok {
				if d := resolveLocal(f, id); d != nil {
					arg = d
				}
			}
			for _, lit := range litsOfType(info, arg, sessT, false) {
				ctx := compositeField(lit, "Context")
				if ctx == nil {
					continue
				}
				c.Touch(f)
				recv := call.Fun.(*ast.SelectorExpr).X
				cs := canon(info, ctx)
				okc := false
				why := ""
				if strings.HasSuffix(cs, ".Statement.Context") && selRootIdent(ctx) == selRootIdent(recv) {
					okc, why = true, "context of the handle the session derives from"
				} else if id, ok := unparen(ctx).(*ast.Ident); ok {
					if v, ok := info.Uses[id].(*types.Var); ok && isContextType(v.Type()) && isParamVar(f, v) {
						okc, why = true, "context parameter of the API method"
					}
				}
				rse.Check(okc, f.Name(), "Session{Context}", lit.Pos(), why, "internal session sets Context to "+cs+", which is not the context of the handle it is applied to ("+exprShort(recv)+")")
			}
		}
	}
}

// isStatementPath reports whether pth (ending in .Context) denotes the Context field of a *gorm.Statement
// rooted at a parameter of type *Statement (e.g. "stmt.Context").
func isStatementPath(p *Program, fn *ssa.Function, pth string) bool {
	root := strings.TrimSuffix(pth, ".Context")
	return isParamOfNamed(fn, root, p.Named(pkgGorm, "Statement"))
}

func isParamOfType(fn *ssa.Function, name string, pred func(types.Type) bool) bool {
	for f := fn; f != nil; f = f.Parent() {
		for _, prm := range f.Params {
			if prm.Name() == name && pred(prm.Type()) {
				return true
			}
		}
	}
	return false
}

func isParamOfNamed(fn *ssa.Function, name string, n *types.Named) bool {
	return isParamOfType(fn, name, func(t types.Type) bool {
		if pt, ok := t.(*types.Pointer); ok {
			t = pt.Elem()
		}
		return types.Identical(t, n)
	})
}

func paramIndex(fn *ssa.Function, name string) int {
	for i, prm := range fn.Params {
		if prm.Name() == name {
			return i
		}
	}
	return -1
}

func recvIs(t types.Type, it *types.Interface) bool {
	return types.Implements(t, it) || types.Identical(t.Underlying(), it)
}

func isLoggerPkgType(t types.Type) bool {
	if pt, ok := t.(*types.Pointer); ok {
		t = pt.Elem()
	}
	n, ok := t.(*types.Named)
	return ok && n.Obj().Pkg() != nil && n.Obj().Pkg().Path() == pkgLogger
}

func isParamVar(f *FuncSrc, v *types.Var) bool {
	for g := f; g != nil; g = g.Parent {
		if g.Type == nil || g.Type.Params == nil {
			continue
		}
		for _, fl := range g.Type.Params.List {
			for _, nm := range fl.Names {
				if g.Pkg.TypesInfo.Defs[nm] == v {
					return true
				}
			}
		}
	}
	return false
}
