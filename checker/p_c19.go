package main

// C19 — DryRun and ToSQL send nothing and show exactly what a real run sends.

import (
	"go/ast"
	"go/types"
	"strings"

	"golang.org/x/tools/go/ssa"
	"golang.org/x/tools/go/types/typeutil"
)

func init() {
	register("C19", checkC19,
		"Structural clauses of C19 decided on every path/site of the current source: (guard) every statement/prepare driver call in a registered executor is reached only when the handle's DryRun is false; (only-executors) statement driver calls exist only in registered executors and in the forwarding methods of the prepared-statement pools; (same-statement) each executor hands the driver exactly Statement.SQL.String() and Statement.Vars of its own statement, i.e. what a dry run leaves behind; (keep) processor.Execute resets SQL/Vars only when not DryRun and nobody else resets or replaces Statement.SQL except Raw/Exec and the sub-query scratch statement; (subquery) sub-queries are rendered on a DryRun session; (tosql/session) ToSQL's session literal sets DryRun and SkipDefaultTransaction, Session propagates both, and the implicit-transaction callbacks are guarded by !SkipDefaultTransaction. NOT decided: equality of the dry-run text with the executed text for data-dependent statements; dialect Explain.",
		"a third-party Dialector/ConnPool does not talk to the database on its own during SQL building")
}

// executorSet returns the executor bodies (and nested literals) keyed by FuncSrc.
func executorSet(p *Program) (map[*FuncSrc]*Registration, []*Registration) {
	regs := p.Registrations()
	set := map[*FuncSrc]*Registration{}
	for _, r := range regs {
		set[r.Fn] = r
		for _, l := range p.AllLits(r.Fn) {
			if _, dup := set[l]; !dup {
				set[l] = r
			}
		}
	}
	return set, regs
}

// dbParam returns the name of the *gorm.DB parameter of an executor.
func dbParamName(p *Program, f *FuncSrc) string {
	dbT := p.Named(pkgGorm, "DB")
	for f != nil {
		if f.Type != nil && f.Type.Params != nil {
			for _, fl := range f.Type.Params.List {
				if tv, ok := f.Pkg.TypesInfo.Types[fl.Type]; ok && p.isNamedPtr(tv.Type, dbT) && len(fl.Names) > 0 {
					return fl.Names[0].Name
				}
			}
		}
		f = f.Parent
	}
	return ""
}

func isDryRunFalse(facts factSet, root string) bool {
	return facts.Has(fFalse(root + ".Config.DryRun"))
}

func anyFactSuffix(facts factSet, prefix, suffix string) (string, bool) {
	for f := range facts {
		if strings.HasPrefix(f, prefix) && strings.HasSuffix(f, suffix) {
			return f, true
		}
	}
	return "", false
}

func checkC19(c *Ctx) {
	p := c.P
	execs, regs := executorSet(p)
	sites := p.DriverSites()

	// ---- C19.guard ----
	rg := c.Rule("C19.guard", "GUARD(statement/prepare driver call in an executor, !db.DryRun)", 10)
	rs := c.Rule("C19.same-statement", "executor driver calls send Statement.SQL.String()/Statement.Vars of the executor's own statement on that statement's pool", 10)
	for _, s := range sites {
		reg := execs[s.F]
		if reg == nil || (s.Kind != DrvStmt && s.Kind != DrvPrepare) {
			continue
		}
		c.Touch(s.F)
		db := dbParamName(p, s.F)
		gs := p.Guards(s.F, nil)
		facts, ok := gs.At(s.Call.Pos())
		desc := "driver:" + s.Callee.Name() + "@" + reg.Pipeline + "/" + reg.Name
		if !ok {
			rg.Unknown(s.F.Name(), desc, s.Call.Pos(), "call site not in a live block")
			continue
		}
		rg.Check(db != "" && isDryRunFalse(facts, db), s.F.Name(), desc, s.Call.Pos(),
			"reached only when "+db+".DryRun is false",
			"driver call "+s.Callee.Name()+" is reachable with DryRun set (no dominating !"+db+".DryRun test)",
			"facts at site: "+strings.Join(facts.List(), ", "))

		// same-statement (SSA value identity)
		ci := p.ssaCall(s.F, s.Call)
		if ci == nil {
			rs.Unknown(s.F.Name(), desc, s.Call.Pos(), "no SSA call instruction for site")
			continue
		}
		cc := ci.Common()
		var recv ssa.Value
		args := cc.Args
		if cc.IsInvoke() {
			recv = cc.Value
		} else if len(args) > 0 {
			recv, args = args[0], args[1:]
		}
		var problems []string
		if ps := valuePaths(recv); !(len(ps) == 1 && ps[0] == db+".Statement.ConnPool") {
			problems = append(problems, "receiver is "+strings.Join(ps, "|")+", want "+db+".Statement.ConnPool")
		}
		if len(args) >= 2 {
			if ps := valuePaths(args[1]); !(len(ps) == 1 && ps[0] == db+".Statement.SQL.String()") {
				problems = append(problems, "query is "+strings.Join(ps, "|")+", want "+db+".Statement.SQL.String()")
			}
		} else {
			problems = append(problems, "no query argument")
		}
		if s.Kind == DrvStmt {
			if len(args) >= 3 {
				if ps := valuePaths(args[2]); !(len(ps) == 1 && ps[0] == db+".Statement.Vars") {
					problems = append(problems, "bound values are "+strings.Join(ps, "|")+", want "+db+".Statement.Vars")
				}
			} else {
				problems = append(problems, "no bound-values argument")
			}
		}
		rs.Check(len(problems) == 0, s.F.Name(), desc, s.Call.Pos(), "sends Statement.SQL/Vars of its own statement", strings.Join(problems, "; "))
	}

	// ---- C19.only-executors ----
	ro := c.Rule("C19.only-executors", "WHO-CALLS(statement/prepare/begin/commit driver methods) is limited to executors, forwarding pool wrappers and the transaction API", 20)
	psdb := p.Named(pkgGorm, "PreparedStmtDB")
	pstx := p.Named(pkgGorm, "PreparedStmtTX")
	dbT := p.Named(pkgGorm, "DB")
	recvNamed := func(f *FuncSrc) *types.Named {
		r := rootFunc(f)
		if r.Obj == nil {
			return nil
		}
		sig := r.Obj.Type().(*types.Signature)
		if sig.Recv() == nil {
			return nil
		}
		t := sig.Recv().Type()
		if pt, ok := t.(*types.Pointer); ok {
			t = pt.Elem()
		}
		n, _ := t.(*types.Named)
		return n
	}
	for _, s := range sites {
		c.Touch(s.F)
		root := rootFunc(s.F)
		rn := recvNamed(s.F)
		allowed, why := false, ""
		switch {
		case execs[s.F] != nil && (s.Kind == DrvStmt):
			allowed, why = true, "registered executor "+execs[s.F].Name
		case rn == psdb || rn == pstx:
			allowed, why = true, "forwarding method of "+rn.Obj().Name()
		case rn == dbT && s.Kind == DrvBegin && root.Obj.Name() == "Begin":
			allowed, why = true, "transaction API (*DB).Begin"
		case rn == dbT && s.Kind == DrvCommit && root.Obj.Name() == "Commit":
			allowed, why = true, "transaction API (*DB).Commit"
		case rn == dbT && s.Kind == DrvRollback && root.Obj.Name() == "Rollback":
			allowed, why = true, "transaction API (*DB).Rollback"
		case rn == dbT && s.Kind == DrvConn && root.Obj.Name() == "Connection":
			allowed, why = true, "(*DB).Connection checks out a connection, sends no statement"
		}
		ro.Check(allowed, s.F.Name(), "driver:"+s.Callee.Name(), s.Call.Pos(), why,
			"driver method "+s.Callee.FullName()+" is called outside the executors / pool wrappers / transaction API: a path to the database that DryRun does not control")
	}
	// registered executors must exist for each pipeline
	pipes := map[string]int{}
	for _, r := range regs {
		pipes[r.Pipeline]++
	}
	for _, pl := range []string{"create", "query", "update", "delete", "row", "raw"} {
		ro.Check(pipes[pl] > 0, "callbacks.RegisterDefaultCallbacks", "pipeline:"+pl, regs[0].Call.Pos(), "pipeline has registered executors", "no executor registered for pipeline "+pl)
	}

	// ---- C19.keep ----
	rk := c.Rule("C19.keep", "processor.Execute resets SQL/Vars only under !DryRun; Statement.SQL is reset/replaced nowhere else except Raw/Exec and the sub-query scratch statement", 4)
	stmtT := p.Named(pkgGorm, "Statement")
	sqlF := p.Field(stmtT, "SQL")
	varsF := p.Field(stmtT, "Vars")
	execF := p.MethodDecl(pkgGorm, "processor", "Execute")
	c.Touch(execF)
	resetFn := p.Method(p.StdNamed("strings", "Builder"), "Reset")
	for _, f := range p.FuncsOf(pkgGorm, pkgCallbacks, pkgClause, pkgSchema, pkgMigrator) {
		info := f.Pkg.TypesInfo
		for _, call := range callsIn(f) {
			fn, _ := typeutil.Callee(info, call).(*types.Func)
			if fn != resetFn {
				continue
			}
			sel, _ := call.Fun.(*ast.SelectorExpr)
			if sel == nil || !fieldSel(info, sel.X, sqlF) {
				continue
			}
			root := rootFunc(f)
			switch {
			case root == execF:
				facts, ok := p.Guards(f, nil).At(call.Pos())
				_, has := anyFactSuffix(facts, "F:", ".Config.DryRun")
				rk.Check(ok && has, f.Name(), "SQL.Reset", call.Pos(), "SQL reset only when not DryRun", "Statement.SQL is reset in Execute even in DryRun mode: the dry-run statement is lost")
			case root.Obj != nil && root.Obj.Name() == "AddVar" && recvNamed(f) == stmtT:
				paths := selRootIdent(sel.X)
				rk.Check(paths != "" && paths != recvName(root), f.Name(), "SQL.Reset", call.Pos(), "reset of the sub-query scratch statement "+paths, "AddVar resets the SQL of its own statement")
			default:
				rk.Bad(f.Name(), "SQL.Reset", call.Pos(), "Statement.SQL.Reset() outside processor.Execute: a dry-run statement can be wiped")
			}
		}
	}
	for _, st := range p.FieldStores(sqlF) {
		if st.Fresh {
			continue
		}
		if _, isIface := st.Instr.(*ssa.MakeInterface); isIface && st.Val == nil {
			// &stmt.SQL handed out as a clause.Writer: only WriteByte/WriteString can be called through it
			continue
		}
		name := ssaFuncName(st.Fn)
		okw := st.Fn.Name() == "Raw" || st.Fn.Name() == "Exec"
		rk.Check(okw, name, "store:Statement.SQL", st.Pos, "raw-SQL entry point replaces the builder before building", "Statement.SQL is overwritten outside Raw/Exec")
	}
	for _, st := range p.FieldStores(varsF) {
		if rootSSA(st.Fn) != p.SSAFunc(execF.Obj) {
			continue
		}
		var pos = st.Pos
		facts, ok := p.Guards(execF, nil).At(pos)
		_, has := anyFactSuffix(facts, "F:", ".Config.DryRun")
		rk.Check(ok && has, execF.Name(), "store:Statement.Vars", pos, "Vars cleared only when not DryRun", "Statement.Vars is cleared in Execute even in DryRun mode")
	}

	// a raw statement keeps its text and values through every derivation (dry run or not)
	checkCloneSQL(c, rk)
	checkC19Readers(c)
	checkC19VarsFrozen(c)
	checkC19BatchTx(c)
	checkC19FOCHandle(c, c.Rule("C19.foc-handle", "FirstOrCreate runs its Create on the chain's handle, not on the handle that executed the look-up", 1))

	// ---- C19.subquery ----
	rq := c.Rule("C19.subquery", "every pipeline execution started while rendering a value (Statement.AddVar) runs on a Session{DryRun: true} handle", 1)
	addVar := p.MethodDecl(pkgGorm, "Statement", "AddVar")
	c.Touch(addVar)
	procExec := p.Method(p.Named(pkgGorm, "processor"), "Execute")
	sessM := p.Method(dbT, "Session")
	sessT := p.Named(pkgGorm, "Session")
	for _, f := range append([]*FuncSrc{addVar}, p.AllLits(addVar)...) {
		info := f.Pkg.TypesInfo
		for _, call := range callsIn(f) {
			fn, _ := typeutil.Callee(info, call).(*types.Func)
			if fn != procExec || len(call.Args) != 1 {
				continue
			}
			def := resolveLocal(f, call.Args[0])
			found := false
			if def != nil {
				ast.Inspect(def, func(n ast.Node) bool {
					sc, ok := n.(*ast.CallExpr)
					if !ok {
						return true
					}
					if m, _ := typeutil.Callee(info, sc).(*types.Func); m == sessM && len(sc.Args) == 1 {
						for _, lit := range litsOfType(info, sc.Args[0], sessT, false) {
							if v := compositeField(lit, "DryRun"); v != nil {
								if b, ok := constBool(info, v); ok && b {
									found = true
								}
							}
						}
					}
					return true
				})
			}
			rq.Check(found, f.Name(), "Execute(subquery)", call.Pos(), "sub-query handle derives from Session{DryRun: true}", "a sub-query is executed on a handle that is not a DryRun session: rendering a value would hit the database")
		}
	}

	// ---- C19.tosql / session ----
	rt := c.Rule("C19.tosql", "ToSQL runs the user function on Session{DryRun: true, SkipDefaultTransaction: true}; Session propagates both flags; implicit transaction callbacks are guarded by !SkipDefaultTransaction", 6)
	toSQL := p.MethodDecl(pkgGorm, "DB", "ToSQL")
	c.Touch(toSQL)
	{
		info := toSQL.Pkg.TypesInfo
		lits := litsOfType(info, toSQL.Body, sessT, false)
		okDry, okSkip := false, false
		for _, lit := range lits {
			if v := compositeField(lit, "DryRun"); v != nil {
				if b, ok := constBool(info, v); ok && b {
					okDry = true
				}
			}
			if v := compositeField(lit, "SkipDefaultTransaction"); v != nil {
				if b, ok := constBool(info, v); ok && b {
					okSkip = true
				}
			}
		}
		// the statement shown is the one a real run of the same chain builds: the session keeps the
		// receiver's statement (no NewDB) and its settings
		keeps := true
		for _, lit := range lits {
			if v := compositeField(lit, "NewDB"); v != nil {
				if b, ok := constBool(info, v); !ok || b {
					keeps = false
				}
			}
		}
		rt.Check(keeps, toSQL.Name(), "Session keeps the chain", toSQL.Body.Pos(), "no NewDB", "ToSQL's session starts from a new statement (NewDB): conditions, model, table, order and Unscoped already chained on the receiver are missing from the SQL it shows, while a real run of the same chain sends them")
		rt.Check(okDry, toSQL.Name(), "Session.DryRun", toSQL.Body.Pos(), "DryRun: true", "ToSQL's session does not set DryRun: true")
		rt.Check(okSkip, toSQL.Name(), "Session.SkipDefaultTransaction", toSQL.Body.Pos(), "SkipDefaultTransaction: true", "ToSQL's session does not set SkipDefaultTransaction: true (a write would open a transaction)")
		// the user function must be applied to that session
		applied := false
		for _, call := range callsIn(toSQL) {
			if id, ok := unparen(call.Fun).(*ast.Ident); ok {
				if v, ok := info.Uses[id].(*types.Var); ok && v.Pkg() != nil && len(call.Args) == 1 {
					if sc, ok := unparen(call.Args[0]).(*ast.CallExpr); ok {
						if m, _ := typeutil.Callee(info, sc).(*types.Func); m == sessM {
							applied = true
						}
					}
				}
			}
		}
		rt.Check(applied, toSQL.Name(), "queryFn(session)", toSQL.Body.Pos(), "user function receives the DryRun session", "ToSQL does not pass the DryRun session to the user function")
	}
	// Session propagates DryRun and SkipDefaultTransaction
	sess := p.MethodDecl(pkgGorm, "DB", "Session")
	c.Touch(sess)
	cfgT := p.Named(pkgGorm, "Config")
	for _, fld := range []string{"DryRun", "SkipDefaultTransaction"} {
		fv := p.Field(cfgT, fld)
		found := false
		var where = sess.Body.Pos()
		ast.Inspect(sess.Body, func(n ast.Node) bool {
			as, ok := n.(*ast.AssignStmt)
			if !ok || len(as.Lhs) != 1 || len(as.Rhs) != 1 {
				return true
			}
			if !fieldSel(sess.Pkg.TypesInfo, as.Lhs[0], fv) {
				return true
			}
			if b, ok := constBool(sess.Pkg.TypesInfo, as.Rhs[0]); !ok || !b {
				return true
			}
			facts, ok := p.Guards(sess, nil).At(as.Pos())
			if !ok {
				return true
			}
			// guarded exactly by the session option of the same name
			if facts.Has(fTrue(paramName(sess, 0)+"."+fld)) && len(condCount(facts)) >= 1 {
				found = true
				where = as.Pos()
			}
			return true
		})
		rt.Check(found, sess.Name(), "propagate:"+fld, where, "Session{"+fld+": true} sets Config."+fld+" on the derived handle", "Session does not propagate "+fld+" to the derived handle's Config")
	}
	// implicit transaction guarded by !SkipDefaultTransaction
	begin := p.Method(dbT, "Begin")
	commit := p.Method(dbT, "Commit")
	rollback := p.Method(dbT, "Rollback")
	for _, r := range regs {
		for _, f := range append([]*FuncSrc{r.Fn}, p.AllLits(r.Fn)...) {
			if r.Pipeline == "query" || r.Pipeline == "row" || r.Pipeline == "raw" {
				continue
			}
			info := f.Pkg.TypesInfo
			db := dbParamName(p, f)
			for _, call := range callsIn(f) {
				fn, _ := typeutil.Callee(info, call).(*types.Func)
				if fn != begin && fn != commit && fn != rollback {
					continue
				}
				// only direct calls on the executor's own handle
				if sel, ok := call.Fun.(*ast.SelectorExpr); !ok || selRootIdent(sel.X) != db || exprStr(sel.X) != db {
					continue
				}
				facts, ok := p.Guards(f, nil).At(call.Pos())
				rt.Check(ok && facts.Has(fFalse(db+".Config.SkipDefaultTransaction")), f.Name(), "tx:"+fn.Name()+"@"+r.Pipeline, call.Pos(),
					"implicit "+fn.Name()+" only when !SkipDefaultTransaction", "implicit transaction "+fn.Name()+" in "+r.Name+" is not guarded by !SkipDefaultTransaction: ToSQL would reach the driver")
			}
		}
	}
}

func condCount(f factSet) []string { return f.List() }

// paramName returns the name of the i-th parameter of f.
func paramName(f *FuncSrc, i int) string {
	n := 0
	for _, fl := range f.Type.Params.List {
		for _, nm := range fl.Names {
			if n == i {
				return nm.Name
			}
			n++
		}
	}
	return ""
}

func recvName(f *FuncSrc) string {
	if f.Decl != nil && f.Decl.Recv != nil && len(f.Decl.Recv.List) > 0 && len(f.Decl.Recv.List[0].Names) > 0 {
		return f.Decl.Recv.List[0].Names[0].Name
	}
	return ""
}

// selRootIdent returns the root identifier of a selector chain.
func selRootIdent(e ast.Expr) string {
	for {
		switch x := unparen(e).(type) {
		case *ast.Ident:
			return x.Name
		case *ast.SelectorExpr:
			e = x.X
		case *ast.StarExpr:
			e = x.X
		case *ast.CallExpr:
			e = x.Fun
		case *ast.IndexExpr:
			e = x.X
		default:
			return ""
		}
	}
}

// resolveLocal returns the defining expression of a local identifier assigned exactly once in f
// (the expression itself if it is not an identifier).
func resolveLocal(f *FuncSrc, e ast.Expr) ast.Expr {
	id, ok := unparen(e).(*ast.Ident)
	if !ok {
		return e
	}
	info := f.Pkg.TypesInfo
	obj := info.Uses[id]
	if obj == nil {
		return nil
	}
	var def ast.Expr
	n := 0
	root := rootFunc(f)
	ast.Inspect(root.Body, func(x ast.Node) bool {
		switch x := x.(type) {
		case *ast.AssignStmt:
			for i, l := range x.Lhs {
				if lid, ok := l.(*ast.Ident); ok && (info.Defs[lid] == obj || info.Uses[lid] == obj) {
					n++
					if len(x.Lhs) == len(x.Rhs) {
						def = x.Rhs[i]
					}
				}
			}
		case *ast.ValueSpec:
			for i, lid := range x.Names {
				if info.Defs[lid] == obj {
					n++
					if len(x.Values) == len(x.Names) {
						def = x.Values[i]
					}
				}
			}
		}
		return true
	})
	if n == 1 {
		return def
	}
	return nil
}

func rootSSA(fn *ssa.Function) *ssa.Function {
	for fn.Parent() != nil {
		fn = fn.Parent()
	}
	return fn
}
