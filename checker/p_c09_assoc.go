package main

// C09.assoc-delete: Delete with Select(<association>) removes the association rows of the records being
// deleted.  For a has-one/has-many relation the rows are found through the key conditions
// rel.ToQueryConditions(..) builds from the in-memory records; a record without primary key yields an IN
// condition without values.  The nested delete must then not run at all: it is guarded by a flag that a
// loop over *those same* conditions sets when it meets a clause.IN without values, and the WHERE it gets
// is the complete condition list (not a filtered copy in which e.g. only the polymorphic type filter
// survives).

import (
	"go/ast"
	"go/token"
	"go/types"
	"strings"

	"golang.org/x/tools/go/types/typeutil"
)

func checkC09AssocDelete(c *Ctx) {
	p := c.P
	r := c.Rule("C09.assoc-delete", "nested association deletes use the complete key conditions and are skipped when a key list is empty", 1)
	f := p.FuncDecl(pkgCallbacks, "DeleteBeforeAssociations")
	c.Touch(f)
	info := f.Pkg.TypesInfo
	dbT := p.Named(pkgGorm, "DB")
	deleteM := p.Method(dbT, "Delete")
	relT := p.Named(pkgSchema, "Relationship")
	toQC := p.Method(relT, "ToQueryConditions")
	whereT := p.Named(pkgClause, "Where")
	inT := p.Named(pkgClause, "IN")
	// locals holding a ToQueryConditions result
	condVars := map[types.Object]bool{}
	ast.Inspect(f.Body, func(n ast.Node) bool {
		if as, ok := n.(*ast.AssignStmt); ok && len(as.Lhs) == 1 && len(as.Rhs) == 1 {
			if ce, ok := unparen(as.Rhs[0]).(*ast.CallExpr); ok {
				if fn, _ := typeutil.Callee(info, ce).(*types.Func); fn == toQC {
					if id, ok := as.Lhs[0].(*ast.Ident); ok {
						condVars[info.ObjectOf(id)] = true
					}
				}
			}
		}
		return true
	})
	if len(condVars) == 0 {
		r.Bad(f.Name(), "key conditions", f.Body.Pos(), "DeleteBeforeAssociations no longer builds key conditions with ToQueryConditions; rule lost its anchor")
		return
	}
	gs := p.Guards(f, nil)
	n := 0
	for _, call := range callsIn(f) {
		if fn, _ := typeutil.Callee(info, call).(*types.Func); fn != deleteM {
			continue
		}
		// the WHERE handed to this nested delete
		var exprs ast.Expr
		for _, nd := range chainNodes(f, call) {
			for _, lit := range litsOfType(info, nd, whereT, false) {
				if v := compositeField(lit, "Exprs"); v != nil {
					exprs = v
				}
			}
		}
		if exprs == nil {
			continue
		}
		id, _ := unparen(exprs).(*ast.Ident)
		if id == nil || !isSliceFromToQC(info, f, id, condVars) {
			// the many-to-many arm builds its own list: judged only when it derives from ToQueryConditions
			if (id != nil && filledFromRangeOver(info, f, info.Uses[id], condVars)) || mentionsAny(info, exprs, condVars) {
				n++
				r.Bad(f.Name(), "nested delete WHERE", call.Pos(), "the nested association delete is conditioned on "+exprShort(exprs)+", not on the complete key conditions of the relation: when the owner has no primary key a remaining filter (e.g. the polymorphic type) deletes the rows of every owner")
			}
			continue
		}
		n++
		condObj := info.Uses[id]
		// guard: F:<flag> where flag is set to true in a loop over the same conditions under an empty-IN test
		facts, live := gs.At(call.Pos())
		okGuard := false
		if live {
			for fact := range facts {
				if !strings.HasPrefix(fact, "F:") || strings.ContainsAny(fact[2:], " .(") {
					continue
				}
				if flagSetOnEmptyIN(info, f, fact[2:], call.Pos(), condObj, inT) {
					okGuard = true
				}
			}
		}
		r.Check(okGuard, f.Name(), "nested delete skipped without keys", call.Pos(), "guarded by a flag set when any clause.IN of the key conditions has no values", "the nested association delete runs although a key condition has no values (owner without primary key): it is no longer skipped and its remaining conditions decide which rows of other owners are deleted")
	}
	if n == 0 {
		r.Bad(f.Name(), "nested deletes", f.Body.Pos(), "no nested association delete conditioned on ToQueryConditions found")
	}
}

func isSliceFromToQC(info *types.Info, f *FuncSrc, id *ast.Ident, condVars map[types.Object]bool) bool {
	return condVars[info.Uses[id]]
}

// filledFromRangeOver: obj is assigned (appended to) inside a range over one of the condition variables -
// a filtered or transformed copy of the key conditions.
func filledFromRangeOver(info *types.Info, f *FuncSrc, obj types.Object, condVars map[types.Object]bool) bool {
	found := false
	ast.Inspect(f.Body, func(n ast.Node) bool {
		rs, ok := n.(*ast.RangeStmt)
		if !ok {
			return true
		}
		rid, _ := unparen(rs.X).(*ast.Ident)
		if rid == nil || !condVars[info.Uses[rid]] {
			return true
		}
		ast.Inspect(rs.Body, func(m ast.Node) bool {
			if as, ok := m.(*ast.AssignStmt); ok {
				for _, l := range as.Lhs {
					if lid, ok := l.(*ast.Ident); ok && obj != nil && (info.Uses[lid] == obj || info.Defs[lid] == obj) {
						found = true
					}
				}
			}
			return true
		})
		return true
	})
	return found
}

func mentionsAny(info *types.Info, e ast.Expr, objs map[types.Object]bool) bool {
	found := false
	ast.Inspect(e, func(n ast.Node) bool {
		if id, ok := n.(*ast.Ident); ok && objs[info.Uses[id]] {
			found = true
		}
		return true
	})
	if found {
		return true
	}
	// a local filled from the condition variable (filtered copy)
	if id, ok := unparen(e).(*ast.Ident); ok {
		_ = id
	}
	return false
}

// flagSetOnEmptyIN: the boolean local `name` is assigned true inside `for _, x := range <cond>` under a
// condition that type-asserts x to clause.IN and tests len(<it>.Values) == 0; every other definition is false.
func flagSetOnEmptyIN(info *types.Info, f *FuncSrc, name string, pos token.Pos, cond types.Object, inT *types.Named) bool {
	defs := localDefs(f, name, pos)
	if len(defs) == 0 {
		return false
	}
	setTrue := 0
	for _, d := range defs {
		b, isC := constBool(info, d.rhs)
		if !isC {
			return false
		}
		if b {
			setTrue++
		}
	}
	if setTrue == 0 {
		return false
	}
	ok := false
	ast.Inspect(f.Body, func(n ast.Node) bool {
		rs, isR := n.(*ast.RangeStmt)
		if !isR {
			return true
		}
		rid, _ := unparen(rs.X).(*ast.Ident)
		if rid == nil || info.Uses[rid] != cond {
			return true
		}
		val, _ := rs.Value.(*ast.Ident)
		if val == nil {
			return true
		}
		ast.Inspect(rs.Body, func(m ast.Node) bool {
			ifs, isIf := m.(*ast.IfStmt)
			if !isIf {
				return true
			}
			// if c, ok := x.(clause.IN); ok && len(c.Values) == 0 { flag = true }
			asserts, lenZero, sets := false, false, false
			ast.Inspect(ifs, func(k ast.Node) bool {
				switch y := k.(type) {
				case *ast.TypeAssertExpr:
					if xid, ok := unparen(y.X).(*ast.Ident); ok && info.Uses[xid] == info.Defs[val] {
						if tv, ok := info.Types[y.Type]; ok && types.Identical(tv.Type, inT) {
							asserts = true
						}
					}
				case *ast.BinaryExpr:
					if y.Op == token.EQL && isZeroLit(y.Y) && strings.HasSuffix(canon(info, y.X), ".Values)") && strings.HasPrefix(canon(info, y.X), "len(") {
						lenZero = true
					}
				case *ast.AssignStmt:
					for i, l := range y.Lhs {
						if lid, ok := l.(*ast.Ident); ok && lid.Name == name && i < len(y.Rhs) {
							if b, isC := constBool(info, y.Rhs[i]); isC && b {
								sets = true
							}
						}
					}
				}
				return true
			})
			if asserts && lenZero && sets {
				ok = true
			}
			return true
		})
		return true
	})
	return ok
}
