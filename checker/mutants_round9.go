package main

func init() {
	addMutants(
		// C01.expr-copy
		Mutant{Name: "c01-distinct-prefix-on-a-fresh-expr", Property: "C01", Rule: "C01.expr-copy", Edits: []Edit{{"clause/select.go",
			"\t\t\t\texpr.SQL = \"DISTINCT \" + expr.SQL\n\t\t\t\tclause.Expression = expr", "\t\t\t\tclause.Expression = Expr{SQL: \"DISTINCT \" + expr.SQL}"}}},
		Mutant{Name: "n112-distinct-prefix-on-a-complete-copy", Property: "*", Rule: "NEUTRAL", Edits: []Edit{{"clause/select.go",
			"\t\t\t\texpr.SQL = \"DISTINCT \" + expr.SQL\n\t\t\t\tclause.Expression = expr", "\t\t\t\tclause.Expression = Expr{SQL: \"DISTINCT \" + expr.SQL, Vars: expr.Vars, WithoutParentheses: expr.WithoutParentheses}"}}},
		// C02.and-wrap
		Mutant{Name: "c02-and-always-returns-single-expression", Property: "C02", Rule: "C02.and-wrap", Edits: []Edit{{"clause/where.go",
			"\t\tif _, ok := exprs[0].(OrConditions); !ok {\n\t\t\treturn exprs[0]\n\t\t}", "\t\tif _, ok := exprs[0].(OrConditions); !ok || len(exprs) == 1 {\n\t\t\treturn exprs[0]\n\t\t}"}}},
		Mutant{Name: "n113-and-single-expression-test-positive-form", Property: "*", Rule: "NEUTRAL", Edits: []Edit{{"clause/where.go",
			"\t\tif _, ok := exprs[0].(OrConditions); !ok {\n\t\t\treturn exprs[0]\n\t\t}", "\t\tif _, isOr := exprs[0].(OrConditions); isOr == false {\n\t\t\treturn exprs[0]\n\t\t}"}}},
		// C03.map-rows
		Mutant{Name: "c03-map-row-cell-stored-at-column-count", Property: "C03", Rule: "C03.map-rows", Edits: []Edit{{"callbacks/helper.go",
			"\t\t\tresult[k][idx] = v\n", "\t\t\tresult[k][(idx+1)%len(mapValues)] = v\n"}}},
		Mutant{Name: "n114-map-row-loop-index-renamed", Property: "*", Rule: "NEUTRAL", Edits: []Edit{
			{"callbacks/helper.go", "\tfor idx, mapValue := range mapValues {\n\t\tfor k, v := range mapValue {", "\tfor row, mapValue := range mapValues {\n\t\tfor k, v := range mapValue {"},
			{"callbacks/helper.go", "\t\t\tresult[k][idx] = v\n", "\t\t\tresult[k][row] = v\n"}}},
		// C05.loop-error
		Mutant{Name: "c05-has-many-save-error-kept-for-after-the-loop", Property: "C05", Rule: "C05.loop-error", Edits: []Edit{
			{"callbacks/associations.go", "\t\t\t// Save Many2Many associations\n", "\t\t\t// Save Many2Many associations\n\t\t\tvar m2mErr error\n"},
			{"callbacks/associations.go", "\t\t\t\tif joins.Len() > 0 {\n\t\t\t\t\tdb.AddError(db.Session(&gorm.Session{NewDB: true}).Clauses(clause.OnConflict{DoNothing: true}).Session(&gorm.Session{\n\t\t\t\t\t\tSkipHooks:                db.Statement.SkipHooks,\n\t\t\t\t\t\tDisableNestedTransaction: true,\n\t\t\t\t\t}).Create(joins.Interface()).Error)\n\t\t\t\t}\n\t\t\t}",
				"\t\t\t\tif joins.Len() > 0 {\n\t\t\t\t\tm2mErr = db.Session(&gorm.Session{NewDB: true}).Clauses(clause.OnConflict{DoNothing: true}).Session(&gorm.Session{\n\t\t\t\t\t\tSkipHooks:                db.Statement.SkipHooks,\n\t\t\t\t\t\tDisableNestedTransaction: true,\n\t\t\t\t\t}).Create(joins.Interface()).Error\n\t\t\t\t}\n\t\t\t}\n\t\t\tdb.AddError(m2mErr)"}}},
		Mutant{Name: "n115-join-row-error-in-a-local-recorded-in-the-iteration", Property: "*", Rule: "NEUTRAL", Edits: []Edit{
			{"callbacks/associations.go", "\t\t\t// Save Many2Many associations\n", "\t\t\t// Save Many2Many associations\n\t\t\tvar m2mErr error\n"},
			{"callbacks/associations.go", "\t\t\t\tif joins.Len() > 0 {\n\t\t\t\t\tdb.AddError(db.Session(&gorm.Session{NewDB: true}).Clauses(clause.OnConflict{DoNothing: true}).Session(&gorm.Session{\n\t\t\t\t\t\tSkipHooks:                db.Statement.SkipHooks,\n\t\t\t\t\t\tDisableNestedTransaction: true,\n\t\t\t\t\t}).Create(joins.Interface()).Error)\n\t\t\t\t}",
				"\t\t\t\tif joins.Len() > 0 {\n\t\t\t\t\tm2mErr = db.Session(&gorm.Session{NewDB: true}).Clauses(clause.OnConflict{DoNothing: true}).Session(&gorm.Session{\n\t\t\t\t\t\tSkipHooks:                db.Statement.SkipHooks,\n\t\t\t\t\t\tDisableNestedTransaction: true,\n\t\t\t\t\t}).Create(joins.Interface()).Error\n\t\t\t\t\tdb.AddError(m2mErr)\n\t\t\t\t}"}}},
		// C06.stmt-slices
		Mutant{Name: "c06-omit-list-extended-into-a-local", Property: "C06", Rule: "C06.stmt-slices", Edits: []Edit{{"callbacks/delete.go",
			"\t\t\t\t\tselects := make([]string, 0, len(db.Statement.Selects))\n", "\t\t\t\t\tselects := db.Statement.Omits[:0]\n"}}},
		Mutant{Name: "n116-nested-selects-copied-before-filtering", Property: "*", Rule: "NEUTRAL", Edits: []Edit{{"callbacks/delete.go",
			"\t\t\t\t\tselects := make([]string, 0, len(db.Statement.Selects))\n", "\t\t\t\t\tselects := append([]string(nil), db.Statement.Selects...)[:0]\n"}}},
		// C07.globals: stateful objects
		Mutant{Name: "c07-package-level-string-builder", Property: "C07", Rule: "C07.globals", Edits: []Edit{
			{"schema/naming.go", "var _ Namer = (*NamingStrategy)(nil)\n", "var _ Namer = (*NamingStrategy)(nil)\n\nvar nameBuffer strings.Builder\n"}}},
		Mutant{Name: "n117-package-level-replacer", Property: "*", Rule: "NEUTRAL", Edits: []Edit{
			{"schema/naming.go", "var _ Namer = (*NamingStrategy)(nil)\n", "var _ Namer = (*NamingStrategy)(nil)\n\nvar dotReplacer = strings.NewReplacer(\".\", \"_\")\n"}}},
	)
}

func init() {
	addMutants(
		// C11.join-null
		Mutant{Name: "c11-joined-relation-marked-before-the-null-test", Property: "C11", Rule: "C11.join-null", Edits: []Edit{{"scan.go",
			"\t\t\t\t\tif _, ok := joinedNestedSchemaMap[fullRelsName]; !ok {\n\t\t\t\t\t\tif value := reflect.ValueOf(values[idx]).Elem(); value.Kind() == reflect.Ptr && value.IsNil() {",
			"\t\t\t\t\tif _, ok := joinedNestedSchemaMap[fullRelsName]; !ok {\n\t\t\t\t\t\tjoinedNestedSchemaMap[fullRelsName] = nil\n\t\t\t\t\t\tif value := reflect.ValueOf(values[idx]).Elem(); value.Kind() == reflect.Ptr && value.IsNil() {"}}},
		Mutant{Name: "n118-joined-relation-marker-as-bool-set", Property: "*", Rule: "NEUTRAL", Edits: []Edit{
			{"scan.go", "\tjoinedNestedSchemaMap := make(map[string]interface{})\n", "\tjoinedNestedSchemaMap := make(map[string]bool)\n"},
			{"scan.go", "\t\t\t\t\t\tjoinedNestedSchemaMap[fullRelsName] = nil\n", "\t\t\t\t\t\tjoinedNestedSchemaMap[fullRelsName] = true\n"}}},
		// C12.values-all
		Mutant{Name: "c12-values-of-empty-maps-skipped-with-continue", Property: "C12", Rule: "C12.values-all", Edits: []Edit{{"schema/utils.go",
			"\t\tfor k, v := range rm {\n\t\t\tresultsMap[k] = append(resultsMap[k], v...)\n\t\t}\n\t\tresults = append(results, rs...)", "\t\tfor k, v := range rm {\n\t\t\tresultsMap[k] = append(resultsMap[k], v...)\n\t\t}\n\t\tif len(results) > 0 && len(rs) > 1 {\n\t\t\tcontinue\n\t\t}\n\t\tresults = append(results, rs...)"}}},
		// C14.tx-wrapper-kept
		Mutant{Name: "c14-savepoint-keeps-the-raw-transaction", Property: "C14", Rule: "C14.tx-wrapper-kept", Edits: []Edit{{"finisher_api.go",
			"\t\tdb.AddError(savePointer.SavePoint(db, name))\n\t\t// restore prepared statement\n\t\tif isPreparedStmtTx {\n\t\t\tdb.Statement.ConnPool = preparedStmtTx\n\t\t}", "\t\tdb.AddError(savePointer.SavePoint(db, name))\n\t\t// restore prepared statement\n\t\tif isPreparedStmtTx && db.Error != nil {\n\t\t\tdb.Statement.ConnPool = preparedStmtTx\n\t\t}"}}},
	)
}

func init() {
	addMutants(
		// C15.limit-merge
		Mutant{Name: "c15-negative-offset-deletes-the-clause", Property: "C15", Rule: "C15.limit-merge", Edits: []Edit{{"chainable_api.go",
			"\ttx = db.getInstance()\n\ttx.Statement.AddClause(clause.Limit{Offset: offset})", "\ttx = db.getInstance()\n\tif offset < 0 {\n\t\tdelete(tx.Statement.Clauses, \"LIMIT\")\n\t\treturn\n\t}\n\ttx.Statement.AddClause(clause.Limit{Offset: offset})"}}},
		Mutant{Name: "n119-limit-clause-in-a-local", Property: "*", Rule: "NEUTRAL", Edits: []Edit{{"chainable_api.go",
			"\ttx.Statement.AddClause(clause.Limit{Limit: &limit})", "\tlimitClause := clause.Limit{Limit: &limit}\n\ttx.Statement.AddClause(limitClause)"}}},
		// C16.block-keeps-chain / C04.block-keeps-chain
		Mutant{Name: "c16-nested-block-always-starts-a-new-statement", Property: "C16", Rule: "C16.block-keeps-chain", Edits: []Edit{{"finisher_api.go",
			"\t\terr = fc(db.Session(&Session{NewDB: db.clone == 1}))", "\t\terr = fc(db.Session(&Session{NewDB: true}))"}}},
		Mutant{Name: "c04-begin-never-starts-a-new-statement", Property: "C04", Rule: "C04.block-keeps-chain", Edits: []Edit{{"finisher_api.go",
			"\t\ttx  = db.getInstance().Session(&Session{Context: db.Statement.Context, NewDB: db.clone == 1})", "\t\ttx  = db.getInstance().Session(&Session{Context: db.Statement.Context, NewDB: db.clone > 1})"}}},
		// C17.compile-purge
		Mutant{Name: "c17-compile-keeps-the-unpurged-list", Property: "C17", Rule: "C17.compile-purge", Edits: []Edit{{"callbacks.go",
			"\tif len(removedMap) > 0 {\n\t\tcallbacks = removeCallbacks(callbacks, removedMap)\n\t}\n\tp.callbacks = callbacks\n", "\tp.callbacks = callbacks\n\tif len(removedMap) > 0 {\n\t\tcallbacks = removeCallbacks(callbacks, removedMap)\n\t}\n"}}},
		Mutant{Name: "n120-compile-purge-into-a-second-local", Property: "*", Rule: "NEUTRAL", Edits: []Edit{{"callbacks.go",
			"\tif len(removedMap) > 0 {\n\t\tcallbacks = removeCallbacks(callbacks, removedMap)\n\t}\n\tp.callbacks = callbacks\n", "\tkept := callbacks\n\tif len(removedMap) > 0 {\n\t\tkept = removeCallbacks(callbacks, removedMap)\n\t}\n\tp.callbacks = kept\n"}}},
		// C20.column-passthrough
		Mutant{Name: "c20-column-type-trimmed-of-its-length", Property: "C20", Rule: "C20.column-passthrough", Edits: []Edit{{"migrator/column_type.go",
			"\treturn ct.ColumnTypeValue.String, ct.ColumnTypeValue.Valid", "\treturn regexpLength.ReplaceAllString(ct.ColumnTypeValue.String, \"\"), ct.ColumnTypeValue.Valid"},
			{"migrator/column_type.go", "// ColumnType column type implements ColumnType interface\n", "var regexpLength = regexp.MustCompile(`\\(\\d+\\)`)\n\n// ColumnType column type implements ColumnType interface\n"},
			{"migrator/column_type.go", "\t\"reflect\"\n)", "\t\"reflect\"\n\t\"regexp\"\n)"}}},
	)
}
