package main

// Forward taint analysis on go/ssa for C01: argument values must reach the
// database only as bound parameters.  Taint is tracked per function on SSA
// values (flow-insensitive within a function, through cells of local
// allocations), with per-function summaries "parameter i reaches a text sink"
// computed to a fixed point over static calls.

import (
	"go/token"
	"go/types"
	"strings"

	"golang.org/x/tools/go/ssa"
)

type taintConfig struct {
	p            *Program
	sourceFields map[*types.Var]string // value-role fields
	sinkFields   map[*types.Var]string // text-role fields (SQL text, identifier parts)
	fragTypes    []types.Type          // types that are identifiers/fragments by type
	// summaries: function -> parameter index -> witness of a flow into a text sink
	summary map[*ssa.Function]map[int]string
}

type taintFlow struct {
	Fn   *ssa.Function
	Pos  token.Pos
	Sink string
	From string
}

func (tc *taintConfig) isFrag(t types.Type) bool {
	for _, f := range tc.fragTypes {
		if types.Identical(t, f) {
			return true
		}
	}
	return false
}

// reflect.Value methods whose results do not carry the value itself
var reflectPredicates = map[string]bool{"Kind": true, "Len": true, "IsNil": true, "IsZero": true, "IsValid": true, "Type": true, "CanAddr": true, "NumField": true, "CanInterface": true, "Cap": true, "CanSet": true}

func calleeFullName(cc *ssa.CallCommon) string {
	if cc.IsInvoke() {
		return cc.Method.FullName()
	}
	if sc := cc.StaticCallee(); sc != nil {
		if sc.Object() != nil {
			return sc.Object().(*types.Func).FullName()
		}
		return sc.String()
	}
	if b, ok := cc.Value.(*ssa.Builtin); ok {
		return "builtin." + b.Name()
	}
	return ""
}

// textSinkArg reports which argument indices (in cc.Args numbering for static calls incl. receiver;
// for invokes without receiver) of the call are text sinks.
func (tc *taintConfig) textSinkArgs(cc *ssa.CallCommon) (idx []int, name string) {
	full := calleeFullName(cc)
	off := 0
	if !cc.IsInvoke() && cc.StaticCallee() != nil && cc.StaticCallee().Signature.Recv() != nil {
		off = 1
	}
	switch {
	case strings.HasSuffix(full, ".WriteString") || strings.HasSuffix(full, ".WriteByte") || strings.HasSuffix(full, ".WriteRune"):
		// clause.Writer / clause.Builder / strings.Builder / *Statement
		if strings.Contains(full, "gorm.io/gorm") || strings.Contains(full, "strings.Builder") || strings.Contains(full, "bytes.Buffer") {
			return []int{off}, full
		}
	case strings.HasSuffix(full, ".WriteQuoted"):
		return []int{off}, full
	case strings.HasSuffix(full, "Statement).QuoteTo") || strings.HasSuffix(full, "Statement).Quote"):
		return []int{len(cc.Args) - 1}, full
	case strings.HasSuffix(full, "Dialector).QuoteTo"):
		return []int{off + 1}, full
	case full == "io.WriteString":
		return []int{1}, full
	case strings.HasPrefix(full, "fmt.Fprint"):
		var out []int
		for i := 1; i < len(cc.Args); i++ {
			out = append(out, i)
		}
		return out, full
	}
	return nil, ""
}

// allowedValueSink: the calls through which values legitimately leave (bound parameters).
func (tc *taintConfig) allowedValueSink(cc *ssa.CallCommon) bool {
	full := calleeFullName(cc)
	return strings.HasSuffix(full, ".AddVar") || strings.HasSuffix(full, ".BindVarTo") || strings.HasSuffix(full, ".GormValue") ||
		strings.HasSuffix(full, ".AddError") || strings.HasSuffix(full, ".Explain")
}

// analyse computes the flows from seeds to text sinks inside fn (and its closures).
func (tc *taintConfig) analyse(fn *ssa.Function, seeds map[ssa.Value]string, useFieldSources bool) []taintFlow {
	tainted := map[ssa.Value]string{}
	cells := map[ssa.Value]string{} // tainted memory cells (allocs / field addresses of local structs)
	var work []ssa.Value
	mark := func(v ssa.Value, why string) {
		if v == nil {
			return
		}
		if _, ok := tainted[v]; ok {
			return
		}
		// fragments/identifiers by type (Expression implementations, Column, Table, *DB) are containers,
		// not values: what they hold is tracked through their value-role fields
		_, isRange := v.(*ssa.Range)
		_, isNext := v.(*ssa.Next)
		if _, isSeed := seeds[v]; !isSeed && !isRange && !isNext && tc.isFrag(v.Type()) {
			return
		}
		// values that cannot carry user data
		switch t := v.Type().Underlying().(type) {
		case *types.Basic:
			if t.Info()&types.IsBoolean != 0 {
				return
			}
		}
		tainted[v] = why
		work = append(work, v)
	}
	var fns []*ssa.Function
	var collect func(f *ssa.Function)
	collect = func(f *ssa.Function) {
		fns = append(fns, f)
		for _, a := range f.AnonFuncs {
			collect(a)
		}
	}
	collect(fn)
	for v, why := range seeds {
		mark(v, why)
	}
	// field sources
	if useFieldSources {
		for _, f := range fns {
			for _, b := range f.Blocks {
				for _, in := range b.Instrs {
					switch x := in.(type) {
					case *ssa.FieldAddr:
						if why, ok := tc.sourceFields[fieldVar(x.X.Type(), x.Field)]; ok {
							// loads from this address are tainted
							for _, r := range *x.Referrers() {
								if ld, ok := r.(*ssa.UnOp); ok && ld.Op == token.MUL {
									mark(ld, why)
								}
							}
						}
					case *ssa.Field:
						if why, ok := tc.sourceFields[fieldVar(x.X.Type(), x.Field)]; ok {
							mark(x, why)
						}
					case *ssa.Call:
						// results of driver.Valuer.Value(): by definition the value to bind
						if isValuerValueCall(x) {
							for _, r := range *x.Referrers() {
								if ex, ok := r.(*ssa.Extract); ok && ex.Index == 0 {
									mark(ex, "driver.Valuer.Value() result")
								}
							}
						}
						// results of schema.Field.ValueOf(ctx, rv): dynamic call through a func-typed field
						if ld, ok := x.Call.Value.(*ssa.UnOp); ok {
							if fa, ok := ld.X.(*ssa.FieldAddr); ok && fieldName(fa.X.Type(), fa.Field) == "ValueOf" {
								for _, r := range *x.Referrers() {
									if ex, ok := r.(*ssa.Extract); ok && ex.Index == 0 {
										mark(ex, "field.ValueOf result")
									}
								}
							}
						}
					}
				}
			}
		}
	}
	var flows []taintFlow
	report := func(f *ssa.Function, pos token.Pos, sink, from string) {
		flows = append(flows, taintFlow{Fn: f, Pos: pos, Sink: sink, From: from})
	}
	for len(work) > 0 {
		v := work[len(work)-1]
		work = work[:len(work)-1]
		why := tainted[v]
		refs := v.Referrers()
		if refs == nil {
			continue
		}
		for _, r := range *refs {
			switch x := r.(type) {
			case *ssa.Phi, *ssa.ChangeType, *ssa.Convert, *ssa.ChangeInterface, *ssa.MakeInterface, *ssa.Slice, *ssa.Index, *ssa.Field, *ssa.SliceToArrayPointer:
				mark(x.(ssa.Value), why)
			case *ssa.IndexAddr:
				if x.X == v {
					mark(x, why) // address into a tainted slice
				}
			case *ssa.FieldAddr:
				if x.X == v {
					mark(x, why)
				}
			case *ssa.Lookup:
				if x.X == v {
					mark(x, why)
				}
			case *ssa.UnOp:
				switch x.Op {
				case token.MUL:
					mark(x, why)
				case token.SUB, token.XOR, token.ARROW:
					mark(x, why)
				}
			case *ssa.BinOp:
				switch x.Op {
				case token.EQL, token.NEQ, token.LSS, token.LEQ, token.GTR, token.GEQ:
				default:
					mark(x, why)
				}
			case *ssa.TypeAssert:
				if tc.isFrag(x.AssertedType) {
					continue // identifier / fragment by type
				}
				mark(x, why)
			case *ssa.Extract:
				if ta, ok := x.Tuple.(*ssa.TypeAssert); ok {
					if x.Index == 0 && !tc.isFrag(ta.AssertedType) {
						mark(x, why)
					}
					continue
				}
				if _, ok := x.Tuple.(*ssa.Next); ok {
					if x.Index == 2 {
						mark(x, why) // map/slice range value; keys are names, not values
					}
					continue
				}
				if x.Index == 0 || true {
					// tuple results of calls are handled at the call; lookups with ok
					if _, ok := x.Tuple.(*ssa.Lookup); ok && x.Index == 0 {
						mark(x, why)
					}
					if _, ok := x.Tuple.(*ssa.Call); ok {
						mark(x, why)
					}
				}
			case *ssa.Range:
				mark(x, why)
			case *ssa.Next:
				mark(x, why)
			case *ssa.Store:
				if x.Val == v {
					// into a sink field?
					if fa, ok := x.Addr.(*ssa.FieldAddr); ok {
						if sname, ok := tc.sinkFields[fieldVar(fa.X.Type(), fa.Field)]; ok {
							report(x.Parent(), x.Pos(), "store into "+sname, why)
							continue
						}
					}
					// taint the cell: later loads from the same address / alloc
					cellTaint(x.Addr, why, mark, cells)
				}
			case *ssa.MapUpdate:
				if x.Value == v {
					mark(x.Map, why)
					// the map lives in a local cell (captured variable): every load of the cell sees it
					if ld, ok := x.Map.(*ssa.UnOp); ok && ld.Op == token.MUL {
						cellTaint(ld.X, why, mark, cells)
					}
				}
			case *ssa.MakeClosure:
				for i, b := range x.Bindings {
					if b == v {
						if f, ok := x.Fn.(*ssa.Function); ok && i < len(f.FreeVars) {
							mark(f.FreeVars[i], why)
						}
					}
				}
			case *ssa.Return:
				// results flowing to callers are handled through summaries of callers seeing call results tainted
			case ssa.CallInstruction:
				cc := x.Common()
				argIdx := -1
				for i, a := range cc.Args {
					if a == v {
						argIdx = i
					}
				}
				isRecv := cc.IsInvoke() && cc.Value == v
				full := calleeFullName(cc)
				// text sinks
				if sinks, sname := tc.textSinkArgs(cc); len(sinks) > 0 {
					hit := false
					for _, si := range sinks {
						if si == argIdx {
							hit = true
						}
					}
					if hit {
						report(x.Parent(), x.Pos(), sname, why)
						continue
					}
				}
				if tc.allowedValueSink(cc) {
					continue
				}
				res, _ := x.(*ssa.Call)
				switch {
				case full == "builtin.append":
					if res != nil {
						mark(res, why)
					}
				case full == "builtin.copy":
					if argIdx == 1 {
						mark(cc.Args[0], why)
					}
				case full == "builtin.len" || full == "builtin.cap" || full == "builtin.delete" || full == "builtin.close" || full == "builtin.panic" || full == "builtin.print" || full == "builtin.println":
				case strings.HasPrefix(full, "reflect."):
					if res != nil && !reflectPredicates[lastSeg(full)] {
						mark(res, why)
					}
				case strings.HasPrefix(full, "(reflect.Value)."):
					if res != nil && !reflectPredicates[lastSeg(full)] {
						mark(res, why)
					}
				case strings.HasPrefix(full, "fmt.Sprint") || strings.HasPrefix(full, "fmt.Append") || strings.HasPrefix(full, "strconv.") || strings.HasPrefix(full, "strings.") || strings.HasPrefix(full, "bytes.") || full == "fmt.Errorf":
					if res != nil {
						mark(res, why)
					}
				case strings.HasSuffix(full, ".Value") && strings.Contains(full, "driver.Valuer"):
					if res != nil {
						mark(res, why)
					}
				case strings.HasSuffix(full, ".String") || strings.HasSuffix(full, ".Interface") || strings.HasSuffix(full, ".Bytes") || strings.HasSuffix(full, ".Elem") || strings.HasSuffix(full, ".Index") || strings.HasSuffix(full, ".Addr") || strings.HasSuffix(full, ".Field") || strings.HasSuffix(full, ".MapIndex"):
					if res != nil && (isRecv || argIdx == 0) {
						mark(res, why)
					}
				default:
					// static callee in the repo: use its summary
					if sc := cc.StaticCallee(); sc != nil && tc.p.InRepo(sc) {
						if w, ok := tc.summary[sc][argIdx]; ok && argIdx >= 0 {
							report(x.Parent(), x.Pos(), "argument "+itoa(argIdx)+" of "+ssaFuncName(sc)+", which "+w, why)
						}
					}
				}
			}
		}
	}
	return flows
}

// cellTaint marks loads from the stored-to cell as tainted.
func cellTaint(addr ssa.Value, why string, mark func(ssa.Value, string), cells map[ssa.Value]string) {
	if _, ok := cells[addr]; ok {
		return
	}
	cells[addr] = why
	switch a := addr.(type) {
	case *ssa.FreeVar:
		if b := freeVarBinding(a); b != nil {
			cellTaint(b, why, mark, cells)
		}
		for _, r := range *a.Referrers() {
			if ld, ok := r.(*ssa.UnOp); ok && ld.Op == token.MUL {
				mark(ld, why)
			}
		}
	case *ssa.Alloc:
		for _, r := range *a.Referrers() {
			if ld, ok := r.(*ssa.UnOp); ok && ld.Op == token.MUL {
				mark(ld, why)
			}
			// captured by closures: handled when the closure binding is created from the alloc
			if mc, ok := r.(*ssa.MakeClosure); ok {
				for i, b := range mc.Bindings {
					if b == ssa.Value(a) {
						if f, ok := mc.Fn.(*ssa.Function); ok && i < len(f.FreeVars) {
							for _, rr := range *f.FreeVars[i].Referrers() {
								if ld, ok := rr.(*ssa.UnOp); ok && ld.Op == token.MUL {
									mark(ld, why)
								}
							}
						}
					}
				}
			}
		}
	case *ssa.FieldAddr:
		// same field of the same base object
		if base, ok := a.X.(*ssa.Alloc); ok {
			for _, r := range *base.Referrers() {
				if fa, ok := r.(*ssa.FieldAddr); ok && fa.Field == a.Field {
					for _, rr := range *fa.Referrers() {
						if ld, ok := rr.(*ssa.UnOp); ok && ld.Op == token.MUL {
							mark(ld, why)
						}
					}
				}
			}
			// whole-struct loads
			for _, r := range *base.Referrers() {
				if ld, ok := r.(*ssa.UnOp); ok && ld.Op == token.MUL {
					mark(ld, why)
				}
			}
		}
	case *ssa.IndexAddr:
		// element of a slice/array: taint the container
		mark(a.X, why)
		if al, ok := a.X.(*ssa.Alloc); ok {
			for _, r := range *al.Referrers() {
				if sl, ok := r.(*ssa.Slice); ok {
					mark(sl, why)
				}
			}
		}
	}
}

// computeSummaries: for every repo function and pointer/interface/string-like parameter, does it reach a text sink?
func (tc *taintConfig) computeSummaries() {
	tc.summary = map[*ssa.Function]map[int]string{}
	funcs := tc.p.SSAFuncs()
	for iter := 0; iter < 4; iter++ {
		changed := false
		for _, fn := range funcs {
			if fn.Parent() != nil {
				continue
			}
			for i, prm := range fn.Params {
				if _, done := tc.summary[fn][i]; done {
					continue
				}
				switch prm.Type().Underlying().(type) {
				case *types.Interface, *types.Slice, *types.Basic, *types.Pointer, *types.Map, *types.Struct:
				default:
					continue
				}
				if tc.isFrag(prm.Type()) {
					continue
				}
				flows := tc.analyse(fn, map[ssa.Value]string{prm: "param"}, false)
				if len(flows) > 0 {
					if tc.summary[fn] == nil {
						tc.summary[fn] = map[int]string{}
					}
					tc.summary[fn][i] = "writes it to " + flows[0].Sink + " at " + tc.p.Pos(flows[0].Pos)
					changed = true
				}
			}
		}
		if !changed {
			break
		}
	}
}

// isValuerValueCall: x calls a method `Value() (driver.Value, error)`.
func isValuerValueCall(x *ssa.Call) bool {
	var sig *types.Signature
	name := ""
	if x.Call.IsInvoke() {
		name = x.Call.Method.Name()
		sig, _ = x.Call.Method.Type().(*types.Signature)
	} else if sc := x.Call.StaticCallee(); sc != nil && sc.Signature.Recv() != nil {
		name = sc.Name()
		sig = sc.Signature
	}
	if name != "Value" || sig == nil || sig.Params().Len() != 0 || sig.Results().Len() != 2 {
		return false
	}
	return sig.Results().At(0).Type().String() == "database/sql/driver.Value" && sig.Results().At(1).Type().String() == "error"
}
