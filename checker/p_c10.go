package main

// C10 — a write touches only permitted, selected columns of exactly the targeted rows.

import (
	"go/ast"
	"go/token"
	"go/types"
	"strings"

	"golang.org/x/tools/go/types/typeutil"
)

func init() {
	register("C10", checkC10,
		"Structural clauses of C10 decided on every site of the current source: (flags) every function that builds a clause.Values asks SelectAndOmitColumns with requireCreate = true, the builder of the UPDATE assignment list with requireUpdate = true, the upsert DoUpdates expansion with (true, true), and the association savers with (create, !create); (emit) every place that emits a column into Values.Columns, a clause.Set or OnConflict.DoUpdates is control-dependent on a comma-ok lookup of that selection map (directly, or through a local accumulator that is itself only filled under such a lookup); (perm) SelectAndOmitColumns overrides the result with false for fields that are not Creatable (when requireCreate) or not Updatable (when requireUpdate), after the Select/Omit lists were processed, so permission tags win; (skip-hooks) the column-update finishers set SkipHooks and every assignment whose value comes from NowFunc() in the UPDATE builder is guarded by !SkipHooks; (save) Save adds the '*' selection only when the user selected nothing and then runs the update pipeline. NOT decided: the resulting cell-level write set; which rows match.")
}

func checkC10(c *Ctx) {
	p := c.P
	// "only rows matching the chain's conditions and the model value's primary key change" (same rule as C16.key-all)
	checkC10OverrideLookup(c)
	checkC16BlockKeepsChain(c, c.Rule("C10.block-keeps-chain", "the handle a transaction block receives keeps the chain's Select/Omit (batched creates): nested arm and Begin agree on NewDB", 2))
	// the SET list computed for one update must not survive into the next update on the same statement (same rule as C06.execute-reset)
	checkC06ExecuteReset(c, c.Rule("C10.set-removed", "the SET clause an update computed is removed after execution on every path (a reused statement computes its own)", 6))
	checkKeyAll(c, c.Rule("C10.key-all", "an update through Model(x) is pinned to x's row through every primary field", 1))
	stmtT := p.Named(pkgGorm, "Statement")
	saoc := p.Method(stmtT, "SelectAndOmitColumns")
	valuesT := p.Named(pkgClause, "Values")
	setT := p.Named(pkgClause, "Set")
	asgT := p.Named(pkgClause, "Assignment")
	colT := p.Named(pkgClause, "Column")

	type saocCall struct {
		f    *FuncSrc
		call *ast.CallExpr
		a0   string
		a1   string
		mapV types.Object // variable holding the returned map
	}
	var calls []saocCall
	for _, f := range p.FuncsOf(pkgGorm, pkgCallbacks) {
		info := f.Pkg.TypesInfo
		ast.Inspect(f.Body, func(n ast.Node) bool {
			if _, ok := n.(*ast.FuncLit); ok {
				return false
			}
			var call *ast.CallExpr
			var lhs []ast.Expr
			switch x := n.(type) {
			case *ast.AssignStmt:
				if len(x.Rhs) == 1 {
					if ce, ok := unparen(x.Rhs[0]).(*ast.CallExpr); ok {
						call, lhs = ce, x.Lhs
					}
				}
			case *ast.ValueSpec:
				if len(x.Values) == 1 {
					if ce, ok := unparen(x.Values[0]).(*ast.CallExpr); ok {
						call = ce
						for _, nm := range x.Names {
							lhs = append(lhs, nm)
						}
					}
				}
			}
			if call == nil {
				return true
			}
			if fn, _ := typeutil.Callee(info, call).(*types.Func); fn != saoc || len(call.Args) != 2 {
				return true
			}
			sc := saocCall{f: f, call: call, a0: canon(info, call.Args[0]), a1: canon(info, call.Args[1])}
			if len(lhs) >= 1 {
				if id, ok := lhs[0].(*ast.Ident); ok {
					if o := info.Defs[id]; o != nil {
						sc.mapV = o
					} else {
						sc.mapV = info.Uses[id]
					}
				}
			}
			calls = append(calls, sc)
			return true
		})
	}

	resultIs := func(f *FuncSrc, t *types.Named) bool {
		r := rootFunc(f)
		if r.Obj == nil {
			return false
		}
		res := r.Obj.Type().(*types.Signature).Results()
		return res.Len() == 1 && types.Identical(res.At(0).Type(), t)
	}

	// ---- C10.flags ----
	rf := c.Rule("C10.flags", "SelectAndOmitColumns is asked with the permission flags of the write being built", 7)
	builders := map[*FuncSrc]int{}
	for _, sc := range calls {
		f := sc.f
		info := f.Pkg.TypesInfo
		c.Touch(f)
		desc := "SelectAndOmitColumns(" + sc.a0 + ", " + sc.a1 + ")"
		// inside an UpdateAll expansion?
		inUpsert := false
		ast.Inspect(f.Body, func(n ast.Node) bool {
			if ifs, ok := n.(*ast.IfStmt); ok && ifs.Pos() <= sc.call.Pos() && sc.call.End() <= ifs.End() {
				if strings.Contains(canon(info, ifs.Cond), ".UpdateAll") {
					inUpsert = true
				}
				if as, ok := ifs.Init.(*ast.AssignStmt); ok && len(as.Rhs) == 1 && strings.Contains(canon(info, ifs.Cond), ".UpdateAll") {
					inUpsert = true
				}
			}
			return true
		})
		switch {
		case inUpsert:
			builders[rootFunc(f)]++
			rf.Check(sc.a0 == "true" && sc.a1 == "true", f.Name(), desc+" for the upsert DoUpdates expansion", sc.call.Pos(), "columns updated on conflict must be both creatable and updatable", "the ON CONFLICT UPDATE expansion does not require both create and update permission: an upsert overwrites a column whose tag forbids updates")
		case resultIs(f, valuesT):
			builders[rootFunc(f)]++
			rf.Check(sc.a0 == "true", f.Name(), desc+" for VALUES", sc.call.Pos(), "requireCreate", "the INSERT column list is built without requiring create permission: a field tagged <-:update / <-:false / -> is inserted")
		case resultIs(f, setT):
			builders[rootFunc(f)]++
			rf.Check(sc.a1 == "true", f.Name(), desc+" for SET", sc.call.Pos(), "requireUpdate", "the UPDATE assignment list is built without requiring update permission: a field tagged <-:create / <-:false / -> is updated")
		case f.Parent != nil && f.Parent.Type.Params != nil && len(f.Parent.Type.Params.List) == 1 && paramName(f.Parent, 0) != "" && resultsFuncOfDB(p, f.Parent):
			// association savers: factory(create bool) func(db)
			cp := paramName(f.Parent, 0)
			rf.Check(sc.a0 == cp && sc.a1 == "!"+cp, f.Name(), desc+" in association saver", sc.call.Pos(), "(create, !create)", "the association saver asks for the wrong permission set for its phase")
		default:
			// readers (query column lists, Changed, association selection): unconstrained
		}
	}
	// every Values/Set builder must ask at all, or delegate to one that does
	for _, f := range p.FuncsOf(pkgCallbacks) {
		if f.Parent != nil || !(resultIs(f, valuesT) || resultIs(f, setT)) {
			continue
		}
		if builders[f] > 0 {
			continue
		}
		rf.Bad(f.Name(), "asks SelectAndOmitColumns", f.Body.Pos(), "a function building an INSERT/UPDATE column list never consults SelectAndOmitColumns: Select/Omit and permission tags are ignored")
	}

	// ---- C10.emit ----
	re := c.Rule("C10.emit", "every emitted column is control-dependent on a lookup in the selection map (or comes from an accumulator filled under such a lookup)", 10)
	isColumnish := func(t types.Type) bool {
		if t == nil {
			return false
		}
		if types.Identical(t, setT) {
			return true
		}
		if sl, ok := t.Underlying().(*types.Slice); ok {
			return types.Identical(sl.Elem(), colT) || types.Identical(sl.Elem(), asgT)
		}
		return false
	}
	for _, root := range p.FuncsOf(pkgCallbacks) {
		if root.Parent != nil || !(resultIs(root, valuesT) || resultIs(root, setT)) {
			continue
		}
		info := root.Pkg.TypesInfo
		selMaps := map[types.Object]bool{}
		for _, sc := range calls {
			if rootFunc(sc.f) == root && sc.mapV != nil {
				selMaps[sc.mapV] = true
			}
		}
		if len(selMaps) == 0 {
			continue
		}
		parents := parentMap(root.Body)
		// guardedBySelection: n has an ancestor IfStmt whose init looks up one of maps with comma-ok and whose cond uses both results
		guardedBy := func(n ast.Node, maps map[types.Object]bool) bool {
			for cur := parents[n]; cur != nil; cur = parents[cur] {
				ifs, ok := cur.(*ast.IfStmt)
				if !ok {
					continue
				}
				// only the then-branch is guarded by the lookup... the else branch of `ok && v` is not
				if !(ifs.Body.Pos() <= n.Pos() && n.End() <= ifs.Body.End()) {
					continue
				}
				as, ok := ifs.Init.(*ast.AssignStmt)
				if !ok || len(as.Lhs) != 2 || len(as.Rhs) != 1 {
					continue
				}
				ix, ok := unparen(as.Rhs[0]).(*ast.IndexExpr)
				if !ok {
					continue
				}
				mid, ok := unparen(ix.X).(*ast.Ident)
				if !ok || !maps[info.Uses[mid]] {
					continue
				}
				okName, vName := "", ""
				if id, ok := as.Lhs[1].(*ast.Ident); ok {
					okName = id.Name
				}
				if id, ok := as.Lhs[0].(*ast.Ident); ok {
					vName = id.Name
				}
				cond := canon(info, ifs.Cond)
				if okName != "" && strings.Contains(cond, okName) {
					// a present entry may only enable the emission together with its value ("ok && v"):
					// a bare positive `ok` would let explicitly omitted / forbidden columns (value false) through
					isBoolMap := false
					if mt, ok := info.Types[ix.X]; ok {
						if m, ok := mt.Type.Underlying().(*types.Map); ok {
							if b, ok := m.Elem().Underlying().(*types.Basic); ok && b.Kind() == types.Bool {
								isBoolMap = true
							}
						}
					}
					if isBoolMap && (vName == "" || vName == "_") {
						// the entry's value is discarded: presence alone decides, so an entry stored as false (omitted, or
						// denied by a permission tag) enables the emission whenever `ok` can do so positively
						bf := boolTable(info, ifs.Cond)
						if bf.has(okName) {
							fixed := map[string]bool{okName: true}
							for _, a := range bf.atoms {
								if a != okName {
									fixed[a] = false
								}
							}
							if okf, _ := bf.forAll(fixed, false); !okf {
								return false
							}
						}
					}
					if isBoolMap && vName != "" && vName != "_" {
						// truth table of the guard: an entry that is present with value false (omitted / not
						// permitted) never enables the emission; a missing entry under a restricting Select
						// enables it only through an explicit extra trait
						bf := boolTable(info, ifs.Cond)
						if bf.has(okName) && bf.has(vName) {
							if okf, _ := bf.forAll(map[string]bool{okName: true, vName: false}, false); !okf {
								return false
							}
						} else if bareOK(ifs.Cond, okName, vName) {
							return false
						}
						if bf.has("restricted") {
							fixed := map[string]bool{okName: false, "restricted": true}
							for _, a := range bf.atoms {
								if a != okName && a != vName && a != "restricted" {
									fixed[a] = false
								}
							}
							if okf, _ := bf.forAll(fixed, false); !okf {
								return false
							}
						}
					}
					return true
				}
			}
			return false
		}
		// accumulators: local maps/slices whose every write is guarded by a selection lookup
		type write struct {
			obj types.Object
			n   ast.Node
		}
		var writes []write
		ast.Inspect(root.Body, func(n ast.Node) bool {
			as, ok := n.(*ast.AssignStmt)
			if !ok {
				return true
			}
			for i, l := range as.Lhs {
				l = unparen(l)
				// m[k] = ..., m[k][i] = ...
				base := l
				isIndex := false
				for {
					if ix, ok := base.(*ast.IndexExpr); ok {
						base = unparen(ix.X)
						isIndex = true
						continue
					}
					break
				}
				if id, ok := base.(*ast.Ident); ok {
					obj := info.Uses[id]
					if obj == nil {
						obj = info.Defs[id]
					}
					if obj == nil {
						continue
					}
					isAppend := false
					if len(as.Rhs) == len(as.Lhs) {
						if ce, ok := unparen(as.Rhs[i]).(*ast.CallExpr); ok {
							if fid, ok := ce.Fun.(*ast.Ident); ok && fid.Name == "append" {
								isAppend = true
							}
						}
					}
					if isIndex || isAppend {
						writes = append(writes, write{obj, as})
					}
				}
			}
			return true
		})
		accum := map[types.Object]bool{}
		for changed := true; changed; {
			changed = false
			cand := map[types.Object]bool{}
			for _, w := range writes {
				cand[w.obj] = true
			}
			all := map[types.Object]bool{}
			for m := range selMaps {
				all[m] = true
			}
			for a := range accum {
				all[a] = true
			}
			for obj := range cand {
				if accum[obj] || selMaps[obj] {
					continue
				}
				okAll := true
				for _, w := range writes {
					if w.obj == obj && !guardedBy(w.n, all) && !fromAccumulator(info, parents, w.n, all) {
						okAll = false
					}
				}
				if okAll {
					accum[obj] = true
					changed = true
				}
			}
		}
		allMaps := map[types.Object]bool{}
		for m := range selMaps {
			allMaps[m] = true
		}
		for a := range accum {
			allMaps[a] = true
		}
		// emit sites
		ast.Inspect(root.Body, func(n ast.Node) bool {
			as, ok := n.(*ast.AssignStmt)
			if !ok || len(as.Lhs) != len(as.Rhs) {
				return true
			}
			for i, l := range as.Lhs {
				dst := unparen(l)
				isStore := false
				if ix, ok := dst.(*ast.IndexExpr); ok {
					dst = unparen(ix.X)
					isStore = true
				}
				tv, ok := info.Types[dst]
				if !ok || !isColumnish(tv.Type) {
					continue
				}
				if fieldSel(info, dst, p.Field(p.Named(pkgClause, "OnConflict"), "Columns")) {
					continue // conflict target (the key columns), not part of the write set
				}
				rhs := unparen(as.Rhs[i])
				isAppend := false
				if ce, ok := rhs.(*ast.CallExpr); ok {
					if fid, ok := ce.Fun.(*ast.Ident); ok && fid.Name == "append" && len(ce.Args) >= 2 {
						isAppend = true
					}
				}
				if !isStore && !isAppend {
					continue // make(...), plain assignment
				}
				c.Touch(root)
				okg := guardedBy(as, allMaps) || fromAccumulator(info, parents, as, allMaps)
				re.Check(okg, root.Name(), "emit into "+exprShort(l), as.Pos(), "under a lookup of the selection map", "a column is emitted into "+exprShort(l)+" without consulting the selection/permission map for it: Select, Omit and permission tags do not apply to this column")
			}
			return true
		})
	}

	// upsert: the ON CONFLICT UPDATE expansion never assigns the primary key (it is the conflict target)
	{
		ctc := p.FuncDecl(pkgCallbacks, "ConvertToCreateValues")
		info := ctc.Pkg.TypesInfo
		ocT := p.Named(pkgClause, "OnConflict")
		duF := p.Field(ocT, "DoUpdates")
		n := 0
		ast.Inspect(ctc.Body, func(x ast.Node) bool {
			as, ok := x.(*ast.AssignStmt)
			if !ok || len(as.Lhs) != 1 || len(as.Rhs) != 1 {
				return true
			}
			// direct appends of an assignment, and appends to the local column accumulator that feeds AssignmentColumns
			isDU := fieldSel(info, as.Lhs[0], duF)
			ce, isCall := unparen(as.Rhs[0]).(*ast.CallExpr)
			if !isCall {
				return true
			}
			fid, _ := ce.Fun.(*ast.Ident)
			if fid == nil || fid.Name != "append" || ce.Ellipsis.IsValid() {
				return true
			}
			inUpsert := false
			for _, sc := range calls {
				if sc.f == ctc && sc.a0 == "true" && sc.a1 == "true" && sc.call.Pos() < as.Pos() {
					inUpsert = true
				}
			}
			if !inUpsert {
				return true
			}
			if !isDU {
				// the []string accumulator of updatable columns
				tv, ok := info.Types[as.Lhs[0]]
				if !ok {
					return true
				}
				if sl, ok := tv.Type.Underlying().(*types.Slice); !ok || sl.Elem().String() != "string" {
					return true
				}
			}
			n++
			facts, live := p.Guards(ctc, nil).At(as.Pos())
			okf := false
			for fc := range facts {
				if strings.HasPrefix(fc, "F:") && strings.HasSuffix(fc, ".PrimaryKey") {
					okf = true
				}
			}
			re.Check(live && okf, ctc.Name(), "upsert assignment excludes the primary key: "+exprShort(as.Lhs[0]), as.Pos(), "under !field.PrimaryKey", "the ON CONFLICT UPDATE expansion can assign the primary key column: an upsert rewrites the key of the conflicting row")
			return true
		})
		re.Check(n >= 2, ctc.Name(), "upsert expansion builds DoUpdates", ctc.Body.Pos(), "columns and auto-time assignments", "the UpdateAll expansion no longer builds DoUpdates")
	}

	// ---- C10.perm ----
	rp := c.Rule("C10.perm", "SelectAndOmitColumns: permission tags override Select/Omit (stores of false after list processing)", 3)
	sf := p.Src(saoc)
	c.Touch(sf)
	{
		info := sf.Pkg.TypesInfo
		gs := p.Guards(sf, nil)
		rc, ru := paramName(sf, 0), paramName(sf, 1)
		var createStore, updateStore *ast.AssignStmt
		ast.Inspect(sf.Body, func(n ast.Node) bool {
			if _, ok := n.(*ast.FuncLit); ok {
				return false
			}
			as, ok := n.(*ast.AssignStmt)
			if !ok || len(as.Lhs) != 1 || len(as.Rhs) != 1 {
				return true
			}
			if _, ok := unparen(as.Lhs[0]).(*ast.IndexExpr); !ok {
				return true
			}
			if b, isC := constBool(info, as.Rhs[0]); !isC || b {
				return true
			}
			facts, live := gs.At(as.Pos())
			if !live {
				return true
			}
			hasFalseSuffix := func(suf string) bool {
				for f := range facts {
					if strings.HasPrefix(f, "F:") && strings.HasSuffix(f, suf) {
						return true
					}
				}
				return false
			}
			if facts.Has(fTrue(rc)) && hasFalseSuffix(".Creatable") {
				createStore = as
			}
			if facts.Has(fTrue(ru)) && hasFalseSuffix(".Updatable") {
				updateStore = as
			}
			return true
		})
		rp.Check(createStore != nil, sf.Name(), "not Creatable => false when requireCreate", sf.Body.Pos(), "create permission enforced", "SelectAndOmitColumns no longer forces non-creatable fields to false under requireCreate")
		rp.Check(updateStore != nil, sf.Name(), "not Updatable => false when requireUpdate", sf.Body.Pos(), "update permission enforced", "SelectAndOmitColumns no longer forces non-updatable fields to false under requireUpdate")
		// ORDER: after the Select/Omit loops
		selF, omF := p.Field(stmtT, "Selects"), p.Field(stmtT, "Omits")
		for _, st := range []*ast.AssignStmt{createStore, updateStore} {
			if st == nil {
				continue
			}
			back := gs.Reaches(st.Pos(), func(n ast.Node) bool {
				e, ok := n.(ast.Expr)
				return ok && (fieldSel(info, e, selF) || fieldSel(info, e, omF))
			})
			rp.Check(!back, sf.Name(), "permission override after Select/Omit processing", st.Pos(), "tags win over Select", "the Select/Omit lists are processed after the permission override: Select(\"field\") re-enables a field whose tag forbids the write")
		}
	}

	checkC10EmitKey(c)

	// ---- C10.tags ----
	// permission tags are parsed into Creatable/Updatable/Readable: every permission combination the tag
	// language can express must be producible by some path of its parsing block (path enumeration over the
	// block; last constant store per flag), and read-only / ignored fields never stay writable
	rtg := c.Rule("C10.tags", "ParseField: the `<-`, `->` and `-` tag blocks can produce every documented permission outcome", 3)
	{
		pfm := p.MethodDecl(pkgSchema, "Schema", "ParseField")
		c.Touch(pfm)
		info := pfm.Pkg.TypesInfo
		fieldT := p.Named(pkgSchema, "Field")
		flagVars := map[*types.Var]string{p.Field(fieldT, "Creatable"): "C", p.Field(fieldT, "Updatable"): "U", p.Field(fieldT, "Readable"): "R"}
		tagF := p.Field(fieldT, "TagSettings")
		outcomes := func(ifs *ast.IfStmt) map[string]bool {
			sub := &FuncSrc{Pkg: pfm.Pkg, Body: &ast.BlockStmt{Lbrace: ifs.Pos(), List: []ast.Stmt{ifs}, Rbrace: ifs.End()}, Type: pfm.Type, name: pfm.Name() + "#tagblock"}
			paths, ok := p.EnumPaths(sub, nil, 4096)
			out := map[string]bool{}
			if !ok {
				return out
			}
			for _, pr := range paths {
				st := map[string]string{"C": "-", "U": "-", "R": "-"}
				for _, n := range pr.Nodes {
					as, ok := n.(*ast.AssignStmt)
					if !ok || len(as.Lhs) != 1 || len(as.Rhs) != 1 {
						continue
					}
					sel, ok := unparen(as.Lhs[0]).(*ast.SelectorExpr)
					if !ok {
						continue
					}
					if sl := info.Selections[sel]; sl != nil {
						if k, ok := flagVars[asVar(sl.Obj())]; ok {
							if b, isC := constBool(info, as.Rhs[0]); isC {
								st[k] = map[bool]string{true: "T", false: "F"}[b]
							}
						}
					}
				}
				if k := "C" + st["C"] + "U" + st["U"] + "R" + st["R"]; k != "C-U-R-" { // the tag-absent path stores nothing
					out[k] = true
				}
			}
			return out
		}
		found := map[string]bool{}
		ast.Inspect(pfm.Body, func(n ast.Node) bool {
			ifs, ok := n.(*ast.IfStmt)
			if !ok {
				return true
			}
			as, ok := ifs.Init.(*ast.AssignStmt)
			if !ok || len(as.Rhs) != 1 {
				return true
			}
			ix, ok := unparen(as.Rhs[0]).(*ast.IndexExpr)
			if !ok || !fieldSel(info, ix.X, tagF) {
				return true
			}
			key, ok := constString(info, ix.Index)
			if !ok {
				return true
			}
			oc := outcomes(ifs)
			var list []string
			for k := range oc {
				list = append(list, k)
			}
			sortStrings(list)
			has := func(c, u string) bool {
				for k := range oc {
					if strings.HasPrefix(k, "C"+c+"U"+u) {
						return true
					}
				}
				return false
			}
			switch key {
			case "<-":
				found[key] = true
				okAll := has("T", "T") && has("T", "F") && has("F", "T") && has("F", "F")
				rtg.Check(okAll, pfm.Name(), "write-permission tag `<-`", ifs.Pos(), "create+update, create only, update only and neither are all producible", "the `<-` tag block cannot produce all of {create+update, create-only, update-only, no write permission}: some tag value (e.g. `<-:false`, `<-:create`) leaves a field writable that the tag forbids (outcomes: "+strings.Join(list, ",")+")")
			case "->":
				found[key] = true
				okRO := true
				for k := range oc {
					if !strings.HasPrefix(k, "CFUF") {
						okRO = false
					}
				}
				rtg.Check(okRO && len(oc) >= 2, pfm.Name(), "read-only tag `->`", ifs.Pos(), "never writable; readable or not", "a field tagged `->` can stay creatable/updatable on some path, or its readability cannot be switched off (outcomes: "+strings.Join(list, ",")+")")
			case "-":
				found[key] = true
				rtg.Check(oc["CFUFRF"], pfm.Name(), "ignore tag `-`", ifs.Pos(), "ignored fields lose all permissions", "the `-` tag block has no path that clears create, update and read permission (outcomes: "+strings.Join(list, ",")+")")
			}
			return true
		})
		for _, k := range []string{"<-", "->", "-"} {
			if !found[k] {
				rtg.Bad(pfm.Name(), "tag block "+k, pfm.Body.Pos(), "ParseField no longer has a block parsing the `"+k+"` permission tag")
			}
		}
	}

	// ---- C10.skip-hooks ----
	rs := c.Rule("C10.skip-hooks", "auto update-time assignments are guarded by !SkipHooks; column-update finishers set SkipHooks", 5)
	cta := p.FuncDecl(pkgCallbacks, "ConvertToAssignments")
	c.Touch(cta)
	{
		info := cta.Pkg.TypesInfo
		n := 0
		for _, call := range callsIn(cta) {
			sel, ok := call.Fun.(*ast.SelectorExpr)
			if !ok || sel.Sel.Name != "NowFunc" {
				continue
			}
			if s := info.Selections[sel]; s == nil || s.Kind() != types.FieldVal {
				continue
			}
			n++
			facts, live := p.Guards(cta, nil).At(call.Pos())
			okf := false
			for f := range facts {
				if strings.HasPrefix(f, "F:") && strings.HasSuffix(f, ".SkipHooks") {
					okf = true
				}
			}
			rs.Check(live && okf, cta.Name(), "NowFunc() under !SkipHooks", call.Pos(), "no time tracking for column updates", "an update-time value is generated without checking SkipHooks: UpdateColumn(s) refresh tracked timestamps")
		}
		// every use of the auto-update-time trait to widen or fill the assignment list is tied to !SkipHooks
		parents := parentMap(cta.Body)
		ast.Inspect(cta.Body, func(x ast.Node) bool {
			be, ok := x.(*ast.BinaryExpr)
			if !ok || be.Op != token.GTR || !strings.HasSuffix(canon(info, be.X), ".AutoUpdateTime") || !isZeroLit(be.Y) {
				return true
			}
			// conjoined with !X.SkipHooks in the same && chain?
			conj := false
			var cur ast.Node = be
			for {
				par, ok := parents[cur].(*ast.BinaryExpr)
				if pp, isParen := parents[cur].(*ast.ParenExpr); isParen {
					cur = pp
					continue
				}
				if !ok || par.Op != token.LAND {
					break
				}
				other := par.X
				if other == cur.(ast.Expr) {
					other = par.Y
				}
				ast.Inspect(other, func(y ast.Node) bool {
					if u, ok := y.(*ast.UnaryExpr); ok && u.Op == token.NOT && strings.HasSuffix(canon(info, u.X), ".SkipHooks") {
						conj = true
					}
					return true
				})
				cur = par
			}
			facts, live := p.Guards(cta, nil).At(be.Pos())
			guarded := false
			if live {
				for f := range facts {
					if strings.HasPrefix(f, "F:") && strings.HasSuffix(f, ".SkipHooks") {
						guarded = true
					}
				}
			}
			rs.Check(conj || guarded, cta.Name(), "AutoUpdateTime trait tied to !SkipHooks", be.Pos(), "tracked update-time only for hook-running updates", "the UPDATE builder treats a field specially because it is an auto-update-time field without also requiring !SkipHooks: a column update (UpdateColumn(s) / SkipHooks session) writes or refreshes the tracked timestamp")
			return true
		})
		rs.Check(n >= 1, cta.Name(), "auto update-time present", cta.Body.Pos(), "tracked timestamps are refreshed by hook-running updates", "the UPDATE builder no longer refreshes tracked update-time fields")
	}
	skipF := p.Field(stmtT, "SkipHooks")
	procExec := p.Method(p.Named(pkgGorm, "processor"), "Execute")
	for _, name := range []string{"UpdateColumn", "UpdateColumns"} {
		f := p.MethodDecl(pkgGorm, "DB", name)
		c.Touch(f)
		info := f.Pkg.TypesInfo
		conf := &GuardConfig{Name: "c10-skip", Events: func(info *types.Info, n ast.Node) []string {
			if as, ok := n.(*ast.AssignStmt); ok && len(as.Lhs) == 1 && fieldSel(info, as.Lhs[0], skipF) {
				if b, ok := constBool(info, as.Rhs[0]); ok && b {
					return []string{"skip-set"}
				}
			}
			return nil
		}}
		found := false
		for _, call := range callsIn(f) {
			if fn, _ := typeutil.Callee(info, call).(*types.Func); fn == procExec {
				facts, live := p.Guards(f, conf).At(call.Pos())
				found = live && facts.Has(fEvent("skip-set"))
			}
		}
		rs.Check(found, f.Name(), "SkipHooks = true before Execute", f.Body.Pos(), "column update", name+" does not set SkipHooks before executing: tracked update-time fields are refreshed by a column update")
	}

	// ---- C10.save ----
	rv := c.Rule("C10.save", "Save selects all columns only when the user selected nothing, then updates", 1)
	save := p.MethodDecl(pkgGorm, "DB", "Save")
	c.Touch(save)
	{
		info := save.Pkg.TypesInfo
		selF := p.Field(stmtT, "Selects")
		found := false
		ast.Inspect(save.Body, func(n ast.Node) bool {
			as, ok := n.(*ast.AssignStmt)
			if !ok || len(as.Lhs) != 1 || !fieldSel(info, as.Lhs[0], selF) {
				return true
			}
			ce, ok := unparen(as.Rhs[0]).(*ast.CallExpr)
			if !ok || len(ce.Args) != 2 {
				return true
			}
			if s, ok := constString(info, ce.Args[1]); !ok || s != "*" {
				return true
			}
			facts, live := p.Guards(save, nil).At(as.Pos())
			if !live {
				return true
			}
			for f := range facts {
				if strings.HasPrefix(f, "F:") && !strings.ContainsAny(f[2:], " .(") {
					if def := localBoolDef(save, f[2:]); def != nil && strings.Contains(canon(info, def), ".Statement.Selects)") {
						found = true
						// "a user selection" means Select only: every atom of the definition is about Selects
						for _, a := range boolTable(info, def).atoms {
							if !strings.Contains(a, ".Statement.Selects") {
								rv.Bad(save.Name(), "'*' skipped for another reason", as.Pos(), "Save skips the '*' selection not only when the user selected columns but also under `"+a+"`: with that set (e.g. an Omit) Save behaves like Updates and drops zero-valued fields from the SET list")
							}
						}
					}
				}
				if strings.HasPrefix(f, "T:len(") && strings.HasSuffix(f, ".Statement.Selects) == 0") {
					found = true
				}
			}
			return true
		})
		rv.Check(found, save.Name(), "'*' added only without a user selection", save.Body.Pos(), "Save writes all fields unless Select narrows it", "Save no longer adds the '*' selection under `no user selection`: zero-valued fields are skipped, or a user's Select is overridden")
	}
}

// resultsFuncOfDB: f returns func(*gorm.DB).
func resultsFuncOfDB(p *Program, f *FuncSrc) bool {
	if f.Obj == nil {
		return false
	}
	res := f.Obj.Type().(*types.Signature).Results()
	if res.Len() != 1 {
		return false
	}
	sig, ok := res.At(0).Type().Underlying().(*types.Signature)
	return ok && sig.Params().Len() == 1 && p.isNamedPtr(sig.Params().At(0).Type(), p.Named(pkgGorm, "DB"))
}

func parentMap(root ast.Node) map[ast.Node]ast.Node {
	parents := map[ast.Node]ast.Node{}
	var stack []ast.Node
	ast.Inspect(root, func(n ast.Node) bool {
		if n == nil {
			stack = stack[:len(stack)-1]
			return true
		}
		if len(stack) > 0 {
			parents[n] = stack[len(stack)-1]
		}
		stack = append(stack, n)
		return true
	})
	return parents
}

// fromAccumulator: the statement n lies in a `for ... range A` loop over an accumulator A, or its
// right-hand side is built from an accumulator (append(dst, f(A)...)), or it is guarded by a lookup in A.
func fromAccumulator(info *types.Info, parents map[ast.Node]ast.Node, n ast.Node, accum map[types.Object]bool) bool {
	for cur := parents[n]; cur != nil; cur = parents[cur] {
		if rs, ok := cur.(*ast.RangeStmt); ok {
			if id, ok := unparen(rs.X).(*ast.Ident); ok && accum[info.Uses[id]] {
				return true
			}
			// range over m[k] of an accumulator map
			if ix, ok := unparen(rs.X).(*ast.IndexExpr); ok {
				if id, ok := unparen(ix.X).(*ast.Ident); ok && accum[info.Uses[id]] {
					return true
				}
			}
		}
	}
	// append(dst, g(A)...) / append(dst, A...)
	if as, ok := n.(*ast.AssignStmt); ok {
		for _, r := range as.Rhs {
			if ce, ok := unparen(r).(*ast.CallExpr); ok {
				if fid, ok := ce.Fun.(*ast.Ident); ok && fid.Name == "append" && len(ce.Args) == 2 && ce.Ellipsis.IsValid() {
					uses := false
					ast.Inspect(ce.Args[1], func(x ast.Node) bool {
						if id, ok := x.(*ast.Ident); ok && accum[info.Uses[id]] {
							uses = true
						}
						return true
					})
					if uses {
						return true
					}
				}
			}
		}
	}
	return false
}

// bareOK reports whether identifier okName occurs positively in cond without being conjoined with vName.
func bareOK(cond ast.Expr, okName, vName string) bool {
	bare := false
	var walk func(e ast.Expr, neg bool, conj []ast.Expr)
	walk = func(e ast.Expr, neg bool, conj []ast.Expr) {
		e = unparen(e)
		switch x := e.(type) {
		case *ast.UnaryExpr:
			if x.Op == token.NOT {
				walk(x.X, !neg, nil)
				return
			}
		case *ast.BinaryExpr:
			if x.Op == token.LAND && !neg {
				walk(x.X, neg, append(append([]ast.Expr{}, conj...), x.Y))
				walk(x.Y, neg, append(append([]ast.Expr{}, conj...), x.X))
				return
			}
			if x.Op == token.LOR || x.Op == token.LAND {
				walk(x.X, neg, nil)
				walk(x.Y, neg, nil)
				return
			}
		case *ast.Ident:
			if x.Name == okName && !neg {
				withV := false
				for _, c := range conj {
					ast.Inspect(c, func(n ast.Node) bool {
						if id, ok := n.(*ast.Ident); ok && id.Name == vName {
							withV = true
						}
						return true
					})
				}
				if !withV {
					bare = true
				}
			}
		}
	}
	walk(cond, false, nil)
	return bare
}
