package main

// Finite boolean abstraction of a condition: the expression is decomposed
// through &&, ||, !, parentheses, ==/!= between booleans and the constants
// true/false; every other sub-expression is an atom (identified by its
// canonical string).  Rules evaluate the truth table for the assignments
// they care about, which makes them insensitive to equivalent rewrites
// (operand order, De Morgan forms, == vs nested conjunctions).

import (
	"go/ast"
	"go/token"
	"go/types"
	"sort"
)

type boolFormula struct {
	atoms []string
	exprs map[string]ast.Expr // atom -> one expression it stands for (X != Y is the negated atom "X == Y")
	eval  func(assign map[string]bool) bool
}

func isBoolType(info *types.Info, e ast.Expr) bool {
	tv, ok := info.Types[e]
	if !ok {
		return false
	}
	b, ok := tv.Type.Underlying().(*types.Basic)
	return ok && b.Info()&types.IsBoolean != 0
}

func boolTable(info *types.Info, e ast.Expr) boolFormula {
	set := map[string]bool{}
	exprs := map[string]ast.Expr{}
	var build func(e ast.Expr) func(map[string]bool) bool
	build = func(e ast.Expr) func(map[string]bool) bool {
		e = unparen(e)
		switch x := e.(type) {
		case *ast.UnaryExpr:
			if x.Op == token.NOT {
				f := build(x.X)
				return func(a map[string]bool) bool { return !f(a) }
			}
		case *ast.BinaryExpr:
			switch x.Op {
			case token.LAND:
				f, g := build(x.X), build(x.Y)
				return func(a map[string]bool) bool { return f(a) && g(a) }
			case token.LOR:
				f, g := build(x.X), build(x.Y)
				return func(a map[string]bool) bool { return f(a) || g(a) }
			case token.EQL, token.NEQ:
				if isBoolType(info, x.X) && isBoolType(info, x.Y) {
					f, g := build(x.X), build(x.Y)
					if x.Op == token.EQL {
						return func(a map[string]bool) bool { return f(a) == g(a) }
					}
					return func(a map[string]bool) bool { return f(a) != g(a) }
				}
				// comparison of non-booleans: one atom "X == Y" for both spellings
				name := canon(info, x.X) + " == " + canon(info, x.Y)
				set[name] = true
				exprs[name] = x
				if x.Op == token.EQL {
					return func(a map[string]bool) bool { return a[name] }
				}
				return func(a map[string]bool) bool { return !a[name] }
			}
		case *ast.Ident:
			if b, ok := constBool(info, x); ok {
				return func(map[string]bool) bool { return b }
			}
		}
		name := canon(info, e)
		set[name] = true
		exprs[name] = e
		return func(a map[string]bool) bool { return a[name] }
	}
	f := build(e)
	var atoms []string
	for a := range set {
		atoms = append(atoms, a)
	}
	sort.Strings(atoms)
	return boolFormula{atoms: atoms, exprs: exprs, eval: f}
}

// forAll evaluates the formula for every assignment of its atoms that agrees with fixed and reports
// whether all of them yield want; a counter-example is returned otherwise.
func (bf boolFormula) forAll(fixed map[string]bool, want bool) (bool, map[string]bool) {
	var free []string
	for _, a := range bf.atoms {
		if _, ok := fixed[a]; !ok {
			free = append(free, a)
		}
	}
	if len(free) > 16 {
		return false, nil
	}
	for mask := 0; mask < 1<<len(free); mask++ {
		a := map[string]bool{}
		for k, v := range fixed {
			a[k] = v
		}
		for i, n := range free {
			a[n] = mask&(1<<i) != 0
		}
		if bf.eval(a) != want {
			return false, a
		}
	}
	return true, nil
}

func (bf boolFormula) has(atom string) bool {
	for _, a := range bf.atoms {
		if a == atom {
			return true
		}
	}
	return false
}
