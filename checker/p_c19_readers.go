package main

// C19.readers: dry-run mode may decide only *whether a statement is sent*.  Every read of a DryRun flag
// (Config.DryRun, Session.DryRun) is classified:
//   sender      the enclosing top-level function can reach a statement driver call through static calls
//               (processor.Execute counts: it runs the registered executors) - the read may gate the sending;
//   propagation the value is copied into a DryRun field, or the read is the condition of an `if` whose body
//               only stores DryRun fields or assigns handle variables (*gorm.DB);
//   predicate   the function only computes a bool from it; its callers are classified instead.
// A read anywhere else sits in code that builds, copies or derives statements: there the exposed SQL/Vars
// of a dry run would differ from what a real run sends.

import (
	"go/ast"
	"go/types"

	"golang.org/x/tools/go/ssa"
	"golang.org/x/tools/go/types/typeutil"
)

func checkC19Readers(c *Ctx) {
	p := c.P
	r := c.Rule("C19.readers", "WHO-READS(DryRun): only functions that can reach a statement driver call, flag propagation, or boolean predicates called from those", 10)
	cfgF := p.Field(p.Named(pkgGorm, "Config"), "DryRun")
	sesF := p.Field(p.Named(pkgGorm, "Session"), "DryRun")
	dbT := p.Named(pkgGorm, "DB")
	isFlag := func(info *types.Info, e ast.Expr) bool {
		sel, ok := unparen(e).(*ast.SelectorExpr)
		if !ok {
			return false
		}
		v, _ := info.Uses[sel.Sel].(*types.Var)
		return v != nil && (v == cfgF || v == sesF)
	}

	// senders: fixpoint over static calls
	p.SSA()
	execute := p.SSAFunc(p.Method(p.Named(pkgGorm, "processor"), "Execute"))
	sends := map[*ssa.Function]bool{execute: true}
	callees := map[*ssa.Function][]*ssa.Function{}
	var roots []*ssa.Function
	for _, fn := range p.SSAFuncs() {
		if fn.Parent() != nil || fn.Blocks == nil {
			continue
		}
		roots = append(roots, fn)
		forEachInstr(fn, func(owner *ssa.Function, in ssa.Instruction) {
			ci, ok := in.(ssa.CallInstruction)
			if !ok {
				return
			}
			com := ci.Common()
			var tf *types.Func
			if com.IsInvoke() {
				tf = com.Method
			} else if sc := com.StaticCallee(); sc != nil {
				callees[fn] = append(callees[fn], rootSSA(sc))
				tf, _ = sc.Object().(*types.Func)
			}
			if k, _, ok := p.driverCallee(tf); ok && (k == DrvStmt || k == DrvPrepare) {
				sends[fn] = true
			}
		})
	}
	for changed := true; changed; {
		changed = false
		for _, fn := range roots {
			if sends[fn] {
				continue
			}
			for _, cal := range callees[fn] {
				if sends[cal] {
					sends[fn] = true
					changed = true
					break
				}
			}
		}
	}
	callersOf := func(target *ssa.Function) []*ssa.Function {
		var out []*ssa.Function
		for _, fn := range roots {
			for _, cal := range callees[fn] {
				if cal == target {
					out = append(out, fn)
					break
				}
			}
		}
		return out
	}
	// predicate: single bool result, no store through anything but local identifiers
	isPredicate := func(f *FuncSrc) bool {
		if f.Obj == nil {
			return false
		}
		sig := f.Obj.Type().(*types.Signature)
		if sig.Results().Len() != 1 || !types.Identical(sig.Results().At(0).Type(), types.Typ[types.Bool]) {
			return false
		}
		pure := true
		ast.Inspect(f.Body, func(n ast.Node) bool {
			if as, ok := n.(*ast.AssignStmt); ok {
				for _, l := range as.Lhs {
					if _, ok := l.(*ast.Ident); !ok {
						pure = false
					}
				}
			}
			return true
		})
		return pure
	}
	var okSender func(fn *ssa.Function, depth int) bool
	okSender = func(fn *ssa.Function, depth int) bool {
		if sends[fn] {
			return true
		}
		if depth > 3 {
			return false
		}
		src := p.SrcOpt(fnObj(fn))
		if src == nil || !isPredicate(src) {
			return false
		}
		cs := callersOf(fn)
		if len(cs) == 0 {
			return false
		}
		for _, cfn := range cs {
			if !okSender(cfn, depth+1) {
				return false
			}
		}
		return true
	}

	n := 0
	for _, f := range p.FuncsOf(pkgGorm, pkgCallbacks, pkgClause, pkgSchema, pkgMigrator) {
		info := f.Pkg.TypesInfo
		parents := parentMap(f.Body)
		ast.Inspect(f.Body, func(nd ast.Node) bool {
			if _, ok := nd.(*ast.FuncLit); ok {
				return false // literals are FuncSrc of their own
			}
			sel, ok := nd.(*ast.SelectorExpr)
			if !ok || !isFlag(info, sel) {
				return true
			}
			// writes and composite-literal keys are not reads
			switch par := parents[sel].(type) {
			case *ast.AssignStmt:
				for _, l := range par.Lhs {
					if l == ast.Expr(sel) {
						return true
					}
				}
				// copied into a DryRun field
				for i, rhs := range par.Rhs {
					if rhs == ast.Expr(sel) && i < len(par.Lhs) && isFlag(info, par.Lhs[i]) {
						n++
						c.Touch(f)
						r.OK(f.Name(), "read "+canon(info, sel), sel.Pos(), "propagation: copied into a DryRun field")
						return true
					}
				}
			case *ast.KeyValueExpr:
				if par.Value == ast.Expr(sel) {
					if id, ok := par.Key.(*ast.Ident); ok && id.Name == "DryRun" {
						n++
						c.Touch(f)
						r.OK(f.Name(), "read "+canon(info, sel), sel.Pos(), "propagation: value of a DryRun key")
						return true
					}
				}
			}
			n++
			c.Touch(f)
			// propagation: condition of an if whose body only stores DryRun fields
			var cond ast.Node = sel
			for {
				par := parents[cond]
				if _, ok := par.(ast.Expr); ok {
					cond = par
					continue
				}
				break
			}
			if ifs, ok := parents[cond].(*ast.IfStmt); ok && ifs.Cond == cond && ifs.Else == nil {
				only := len(ifs.Body.List) > 0
				for _, st := range ifs.Body.List {
					as, ok := st.(*ast.AssignStmt)
					if !ok {
						only = false
						break
					}
					for _, l := range as.Lhs {
						// a DryRun field, or a handle variable (choosing which session runs what)
						if tv, ok := info.Types[l]; !isFlag(info, l) && !(ok && p.isNamedPtr(tv.Type, dbT)) {
							only = false
						}
					}
				}
				if only {
					r.OK(f.Name(), "read "+canon(info, sel), sel.Pos(), "propagation: guards only stores of DryRun fields / selection of the handle to run on")
					return true
				}
			}
			root := rootFunc(f)
			sf := p.SSAOf(root)
			r.Check(okSender(sf, 0), f.Name(), "read "+canon(info, sel), sel.Pos(), "the function can reach a statement driver call (the flag may gate the sending)", "dry-run mode is consulted in "+root.Name()+", which cannot send a statement: it builds, copies or derives statements, so the SQL/Vars exposed by a dry run differ from what a real run sends")
			return true
		})
	}
	_ = typeutil.Callee
	if n == 0 {
		r.Bad("gorm", "reads", 0, "no read of DryRun found; rule lost its anchor")
	}
}

func fnObj(fn *ssa.Function) *types.Func {
	o, _ := fn.Object().(*types.Func)
	return o
}
