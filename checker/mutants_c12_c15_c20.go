package main

func init() {
	addMutants(
		// C12
		Mutant{Name: "c12-hasmany-replace-deletes-records", Property: "C12", Rule: "C12.records-survive", Edits: []Edit{{"association.go",
			"\t\t\t\tif association.Unscope {\n\t\t\t\t\tassociation.Error = tx.Where(clause.IN{Column: column, Values: values}).Delete(modelValue).Error\n\t\t\t\t} else {\n\t\t\t\t\tassociation.Error = tx.Where(clause.IN{Column: column, Values: values}).UpdateColumns(updateMap).Error\n\t\t\t\t}",
			"\t\t\t\tassociation.Error = tx.Where(clause.IN{Column: column, Values: values}).Delete(modelValue).Error"}}},
		Mutant{Name: "c12-delete-unscope-test-inverted", Property: "C12", Rule: "C12.records-survive", Edits: []Edit{{"association.go",
			"\t\t\tif association.Unscope {\n\t\t\t\tassociation.Error = tx.Clauses(conds...).Delete(model).Error\n\t\t\t} else {", "\t\t\tif !association.Unscope {\n\t\t\t\tassociation.Error = tx.Clauses(conds...).Delete(model).Error\n\t\t\t} else {"}}},
		Mutant{Name: "c12-belongsto-replace-deletes-old-target", Property: "C12", Rule: "C12.records-survive", Edits: []Edit{{"association.go",
			"\t\t\tif association.Unscope && oldBelongsToExpr != nil {", "\t\t\tif oldBelongsToExpr != nil {"},
			{"association.go", "\t\tif association.Unscope && rel.Type == schema.BelongsTo {", "\t\tif rel.Type == schema.BelongsTo {"}}},
		Mutant{Name: "c12-detach-writes-zero-instead-of-null", Property: "C12", Rule: "C12.records-survive", Edits: []Edit{{"association.go",
			"\t\t\t\tupdateAttrs[ref.ForeignKey.DBName] = nil\n", "\t\t\t\tupdateAttrs[ref.ForeignKey.DBName] = 0\n"}}},
		// C15
		Mutant{Name: "c15-find-arms-notfound", Property: "C15", Rule: "C15.arm", Edits: []Edit{{"finisher_api.go",
			"\t\t\ttx.Statement.AddClause(clause.Where{Exprs: exprs})\n\t\t}\n\t}\n\ttx.Statement.Dest = dest\n\treturn tx.callbacks.Query().Execute(tx)\n}\n\n// FindInBatches", "\t\t\ttx.Statement.AddClause(clause.Where{Exprs: exprs})\n\t\t}\n\t}\n\ttx.Statement.RaiseErrorOnNotFound = true\n\ttx.Statement.Dest = dest\n\treturn tx.callbacks.Query().Execute(tx)\n}\n\n// FindInBatches"}}},
		Mutant{Name: "c15-take-does-not-arm", Property: "C15", Rule: "C15.arm", Edits: []Edit{{"finisher_api.go",
			"\ttx = db.Limit(1)\n\tif len(conds) > 0 {\n\t\tif exprs := tx.Statement.BuildCondition(conds[0], conds[1:]...); len(exprs) > 0 {\n\t\t\ttx.Statement.AddClause(clause.Where{Exprs: exprs})\n\t\t}\n\t}\n\ttx.Statement.RaiseErrorOnNotFound = true\n", "\ttx = db.Limit(1)\n\tif len(conds) > 0 {\n\t\tif exprs := tx.Statement.BuildCondition(conds[0], conds[1:]...); len(exprs) > 0 {\n\t\t\ttx.Statement.AddClause(clause.Where{Exprs: exprs})\n\t\t}\n\t}\n"}}},
		Mutant{Name: "c15-first-orders-descending", Property: "C15", Rule: "C15.arm", Edits: []Edit{{"finisher_api.go",
			"func (db *DB) First(dest interface{}, conds ...interface{}) (tx *DB) {\n\ttx = db.Limit(1).Order(clause.OrderByColumn{\n\t\tColumn: clause.Column{Table: clause.CurrentTable, Name: clause.PrimaryKey},\n\t})", "func (db *DB) First(dest interface{}, conds ...interface{}) (tx *DB) {\n\ttx = db.Limit(1).Order(clause.OrderByColumn{\n\t\tColumn: clause.Column{Table: clause.CurrentTable, Name: clause.PrimaryKey},\n\t\tDesc:   true,\n\t})"}}},
		Mutant{Name: "c15-notfound-on-one-row", Property: "C15", Rule: "C15.raise", Edits: []Edit{{"scan.go",
			"if db.RowsAffected == 0 && db.Statement.RaiseErrorOnNotFound && db.Error == nil {", "if db.RowsAffected <= 1 && db.Statement.RaiseErrorOnNotFound && db.Error == nil {"}}},
		Mutant{Name: "c15-notfound-without-arming", Property: "C15", Rule: "C15.raise", Edits: []Edit{{"scan.go",
			"if db.RowsAffected == 0 && db.Statement.RaiseErrorOnNotFound && db.Error == nil {", "if db.RowsAffected == 0 && db.Error == nil {"}}},
		Mutant{Name: "c15-notfound-raised-in-query-callback", Property: "C15", Rule: "C15.raise", Edits: []Edit{{"callbacks/query.go",
			"\t\t\tgorm.Scan(rows, db, 0)\n\t\t}\n\t}\n}", "\t\t\tgorm.Scan(rows, db, 0)\n\t\t\tif db.RowsAffected == 0 && db.Error == nil {\n\t\t\t\tdb.AddError(gorm.ErrRecordNotFound)\n\t\t\t}\n\t\t}\n\t}\n}"}}},
		Mutant{Name: "c15-map-rows-counted-twice", Property: "C15", Rule: "C15.tick", Edits: []Edit{{"scan.go",
			"\t\t\tinitialized = false\n\t\t\tdb.RowsAffected++\n\t\t\tdb.AddError(rows.Scan(values...))\n\n\t\t\tmapValue := map[string]interface{}{}", "\t\t\tinitialized = false\n\t\t\tdb.RowsAffected++\n\t\t\tdb.RowsAffected++\n\t\t\tdb.AddError(rows.Scan(values...))\n\n\t\t\tmapValue := map[string]interface{}{}"}}},
		Mutant{Name: "c15-primitive-rows-not-counted", Property: "C15", Rule: "C15.tick", Edits: []Edit{{"scan.go",
			"\t\t\tinitialized = false\n\t\t\tdb.RowsAffected++\n\t\t\tdb.AddError(rows.Scan(dest))", "\t\t\tinitialized = false\n\t\t\tdb.AddError(rows.Scan(dest))"}}},
		Mutant{Name: "c15-rowsaffected-not-reset", Property: "C15", Rule: "C15.tick", Edits: []Edit{{"scan.go", "\tdb.RowsAffected = 0\n\n\tswitch dest := db.Statement.Dest.(type) {", "\tswitch dest := db.Statement.Dest.(type) {"}}},
		// C20
		Mutant{Name: "c20-automigrate-drops-unknown-columns", Property: "C20", Rule: "C20.no-destructive", Edits: []Edit{{"migrator/migrator.go",
			"\t\t\t\tif !m.DB.DisableForeignKeyConstraintWhenMigrating && !m.DB.IgnoreRelationshipsWhenMigrating {\n\t\t\t\t\tfor _, rel := range stmt.Schema.Relationships.Relations {",
			"\t\t\t\tfor _, columnType := range columnTypes {\n\t\t\t\t\tif stmt.Schema.LookUpField(columnType.Name()) == nil {\n\t\t\t\t\t\tif err = execTx.Migrator().DropColumn(value, columnType.Name()); err != nil {\n\t\t\t\t\t\t\treturn err\n\t\t\t\t\t\t}\n\t\t\t\t\t}\n\t\t\t\t}\n\n\t\t\t\tif !m.DB.DisableForeignKeyConstraintWhenMigrating && !m.DB.IgnoreRelationshipsWhenMigrating {\n\t\t\t\t\tfor _, rel := range stmt.Schema.Relationships.Relations {"}}},
		Mutant{Name: "c20-migratecolumn-recreates-index", Property: "C20", Rule: "C20.no-destructive", Edits: []Edit{{"migrator/migrator.go",
			"func (m Migrator) MigrateColumnUnique(value interface{}, field *schema.Field, columnType gorm.ColumnType) error {\n", "func (m Migrator) MigrateColumnUnique(value interface{}, field *schema.Field, columnType gorm.ColumnType) error {\n\tif field.UniqueIndex != \"\" && m.DB.Migrator().HasIndex(value, field.UniqueIndex) {\n\t\tif err := m.DB.Migrator().DropIndex(value, field.UniqueIndex); err != nil {\n\t\t\treturn err\n\t\t}\n\t}\n"}},
			Note: "destructive call two levels below AutoMigrate, behind the interface"},
		Mutant{Name: "c20-index-created-unconditionally", Property: "C20", Rule: "C20.guarded-add", Edits: []Edit{{"migrator/migrator.go",
			"\t\t\t\t\tif !queryTx.Migrator().HasIndex(value, idx.Name) {\n\t\t\t\t\t\tif err := execTx.Migrator().CreateIndex(value, idx.Name); err != nil {\n\t\t\t\t\t\t\treturn err\n\t\t\t\t\t\t}\n\t\t\t\t\t}", "\t\t\t\t\tif err := execTx.Migrator().CreateIndex(value, idx.Name); err != nil {\n\t\t\t\t\t\treturn err\n\t\t\t\t\t}"}}},
		Mutant{Name: "c20-found-column-arms-swapped", Property: "C20", Rule: "C20.guarded-add", Edits: []Edit{{"migrator/migrator.go", "\t\t\t\t\tif foundColumn == nil {\n\t\t\t\t\t\t// not found, add column", "\t\t\t\t\tif foundColumn != nil {\n\t\t\t\t\t\t// not found, add column"}}},
		Mutant{Name: "c20-constraint-checked-under-other-name", Property: "C20", Rule: "C20.guarded-add", Edits: []Edit{{"migrator/migrator.go",
			"\t\t\t\t\tif !queryTx.Migrator().HasConstraint(value, chk.Name) {", "\t\t\t\t\tif !queryTx.Migrator().HasConstraint(value, chk.Constraint) {"}}},
		Mutant{Name: "c20-createtable-without-hastable", Property: "C20", Rule: "C20.guarded-add", Edits: []Edit{{"migrator/migrator.go",
			"\t\tif !queryTx.Migrator().HasTable(value) {\n\t\t\tif err := execTx.Migrator().CreateTable(value); err != nil {", "\t\tif len(values) > 0 {\n\t\t\tif err := execTx.Migrator().CreateTable(value); err != nil {"}}},
	)
}
