package main

// C01 — argument values reach the database only as bound parameters, one per placeholder.

import (
	"go/ast"
	"go/token"
	"go/types"
	"strings"

	"golang.org/x/tools/go/ssa"
	"golang.org/x/tools/go/types/typeutil"
)

func init() {
	register("C01", checkC01,
		"Structural clauses of C01 decided for every function of packages clause, gorm and callbacks: (taint) SSA forward taint from the value-role fields (Expr.Vars, NamedExpr.Vars, IN.Values, Eq-family .Value, Assignment.Value, Values.Values, Limit.Limit/Offset, sql.NamedArg.Value), the variadic of Statement.AddVar, the args of BuildCondition and results of field.ValueOf, through loads, conversions, reflect, fmt.Sprint*, strconv, string operations, local cells and static callees (parameter-to-sink summaries), never reaches a text sink (WriteString/WriteByte/WriteQuoted/QuoteTo, stores into SQL text or identifier fields); values leave only through AddVar/BindVarTo; values narrowed by type to identifiers/fragments (Column, Table, Expression implementations, *DB) are cut; (pair) every writer of Statement.Vars is an append of exactly one value followed on every path by BindVarTo of the same value, a reset, an adoption of another statement's Vars, the NamedArg surplus-argument arm, or a store on a scratch statement; (once) every loop that binds the elements of a value slice calls AddVar exactly once per iteration, and every existing empty-slice arm writes a NULL form or binds nil. NOT decided: equality of placeholder count/order for every chain, loop bounds, what a third-party Dialector.BindVarTo writes, the string-level placeholder renumbering of sub-queries.",
		"Dialector.BindVarTo writes a placeholder and never the value; Dialector.QuoteTo quotes identifiers")
}

func newTaintConfig(p *Program) *taintConfig {
	tc := &taintConfig{p: p, sourceFields: map[*types.Var]string{}, sinkFields: map[*types.Var]string{}}
	exprT := p.Named(pkgClause, "Expr")
	nexprT := p.Named(pkgClause, "NamedExpr")
	inT := p.Named(pkgClause, "IN")
	eqT := p.Named(pkgClause, "Eq")
	asgT := p.Named(pkgClause, "Assignment")
	valsT := p.Named(pkgClause, "Values")
	limT := p.Named(pkgClause, "Limit")
	colT := p.Named(pkgClause, "Column")
	tabT := p.Named(pkgClause, "Table")
	namedArg := p.StdNamed("database/sql", "NamedArg")
	tc.sourceFields[p.Field(exprT, "Vars")] = "Expr.Vars"
	tc.sourceFields[p.Field(nexprT, "Vars")] = "NamedExpr.Vars"
	tc.sourceFields[p.Field(inT, "Values")] = "IN.Values"
	tc.sourceFields[p.Field(eqT, "Value")] = "Eq.Value"
	tc.sourceFields[p.Field(asgT, "Value")] = "Assignment.Value"
	tc.sourceFields[p.Field(valsT, "Values")] = "Values.Values"
	tc.sourceFields[p.Field(limT, "Limit")] = "Limit.Limit"
	tc.sourceFields[p.Field(limT, "Offset")] = "Limit.Offset"
	tc.sourceFields[p.Field(namedArg, "Value")] = "sql.NamedArg.Value"
	tc.sinkFields[p.Field(exprT, "SQL")] = "Expr.SQL"
	tc.sinkFields[p.Field(nexprT, "SQL")] = "NamedExpr.SQL"
	for _, n := range []string{"Name", "Table", "Alias"} {
		tc.sinkFields[p.Field(colT, n)] = "Column." + n
	}
	for _, n := range []string{"Name", "Alias"} {
		tc.sinkFields[p.Field(tabT, n)] = "Table." + n
	}
	// fragment types: everything implementing clause.Expression, plus identifiers and handles
	exprI := p.Iface(pkgClause, "Expression")
	for _, path := range []string{pkgClause, pkgGorm} {
		sc := p.Pkg(path).Types.Scope()
		for _, n := range sc.Names() {
			tn, ok := sc.Lookup(n).(*types.TypeName)
			if !ok {
				continue
			}
			t := tn.Type()
			if types.Implements(t, exprI) || types.Implements(types.NewPointer(t), exprI) {
				tc.fragTypes = append(tc.fragTypes, t, types.NewPointer(t))
			}
		}
	}
	tc.fragTypes = append(tc.fragTypes, colT, tabT, types.NewSlice(colT), p.Named(pkgClause, "Expression"), p.Named(pkgClause, "Interface"),
		types.NewPointer(p.Named(pkgGorm, "DB")), p.Named(pkgClause, "Clause"), p.Named(pkgClause, "Where"))
	return tc
}

func checkC01(c *Ctx) {
	p := c.P
	checkC01NamedDispatch(c)
	p.SSA()
	tc := newTaintConfig(p)
	tc.computeSummaries()

	// ---- C01.taint ----
	rt := c.Rule("C01.taint", "TAINT(value-role fields / AddVar variadic / BuildCondition args / ValueOf results -> text sinks) is empty", 40)
	stmtT := p.Named(pkgGorm, "Statement")
	addVar := p.SSAFunc(p.Method(stmtT, "AddVar"))
	buildCond := p.SSAFunc(p.Method(stmtT, "BuildCondition"))
	nFuncs := 0
	for _, fn := range p.SSAFuncs() {
		if fn.Parent() != nil || fn.Pkg == nil {
			continue
		}
		pp := fn.Pkg.Pkg.Path()
		if pp != pkgClause && pp != pkgGorm && pp != pkgCallbacks {
			continue
		}
		seeds := map[ssa.Value]string{}
		if fn == addVar {
			seeds[fn.Params[2]] = "AddVar vars"
		}
		if fn == buildCond {
			seeds[fn.Params[2]] = "BuildCondition args"
		}
		flows := tc.analyse(fn, seeds, true)
		name := ssaFuncName(fn)
		// only functions that actually touch a source are instances
		touches := len(seeds) > 0
		if !touches {
			forEachInstr(fn, func(owner *ssa.Function, in ssa.Instruction) {
				switch x := in.(type) {
				case *ssa.FieldAddr:
					if _, ok := tc.sourceFields[fieldVar(x.X.Type(), x.Field)]; ok {
						touches = true
					}
				case *ssa.Field:
					if _, ok := tc.sourceFields[fieldVar(x.X.Type(), x.Field)]; ok {
						touches = true
					}
				}
			})
		}
		if !touches && len(flows) == 0 {
			continue
		}
		nFuncs++
		c.TouchName(name)
		// sanitise: sink calls inside a type-switch clause that lists only fragment types
		var bad []string
		for _, fl := range flows {
			if sanitizedByTypeSwitch(p, tc, fl.Pos) {
				continue
			}
			bad = append(bad, p.Pos(fl.Pos)+": "+fl.From+" reaches "+fl.Sink)
		}
		rt.Check(len(bad) == 0, name, "no value reaches SQL text", fn.Pos(), "values leave only through AddVar/BindVarTo", "an argument value can become part of the SQL text instead of a bound parameter", bad...)
	}
	_ = nFuncs

	// ---- C01.pair ----
	rp := c.Rule("C01.pair", "WHO-WRITES(Statement.Vars): append of one value paired with BindVarTo of the same value; reset; adoption; NamedArg surplus arm; scratch statements", 10)
	varsF := p.Field(stmtT, "Vars")
	namedArgValue := p.Field(p.StdNamed("database/sql", "NamedArg"), "Value")
	for _, f := range p.FuncsOf(pkgGorm, pkgCallbacks, pkgClause, pkgMigrator, pkgSchema) {
		info := f.Pkg.TypesInfo
		ast.Inspect(f.Body, func(n ast.Node) bool {
			if _, ok := n.(*ast.FuncLit); ok {
				return false
			}
			as, ok := n.(*ast.AssignStmt)
			if !ok {
				return true
			}
			for i, l := range as.Lhs {
				if !fieldSel(info, l, varsF) {
					continue
				}
				c.Touch(f)
				var rhs ast.Expr
				if len(as.Rhs) == len(as.Lhs) {
					rhs = unparen(as.Rhs[i])
				}
				desc := "Vars = " + exprShort(rhs)
				lp := canon(info, l)
				// scratch statement: a local Statement value built by a composite literal in this function
				if isScratchStatement(p, f, l) {
					rp.OK(f.Name(), desc+" (scratch)", as.Pos(), "store on a scratch statement that never executes")
					continue
				}
				switch r := rhs.(type) {
				case nil:
					rp.Bad(f.Name(), desc, as.Pos(), "Statement.Vars assigned from a multi-value expression")
				case *ast.Ident:
					if isNilIdent(info, r) {
						rp.OK(f.Name(), desc, as.Pos(), "reset")
					} else if def := resolveLocal(f, r); def != nil && fieldSel(info, def, varsF) {
						rp.OK(f.Name(), desc, as.Pos(), "adoption of another statement's Vars")
					} else {
						rp.Bad(f.Name(), desc, as.Pos(), "Statement.Vars is replaced by a value that is not another statement's Vars: bound values and placeholders get out of step")
					}
				case *ast.SelectorExpr:
					rp.Check(fieldSel(info, r, varsF), f.Name(), desc, as.Pos(), "adoption of another statement's Vars", "Statement.Vars is replaced by "+exprShort(r))
				case *ast.CallExpr:
					id, _ := r.Fun.(*ast.Ident)
					switch {
					case id != nil && id.Name == "make":
						rp.OK(f.Name(), desc, as.Pos(), "fresh empty slice")
					case id != nil && id.Name == "append" && r.Ellipsis.IsValid() && len(r.Args) == 2:
						okA := fieldSel(info, r.Args[0], varsF) && fieldSel(info, r.Args[1], varsF)
						// newStmt.Vars = append(newStmt.Vars, stmt.Vars...) in clone
						rp.Check(okA, f.Name(), desc, as.Pos(), "concatenation of two statements' Vars (sub-query / clone)", "Statement.Vars is extended with a slice that is not another statement's Vars, without writing placeholders")
					case id != nil && id.Name == "append" && len(r.Args) == 2 && canon(info, r.Args[0]) == lp:
						val := r.Args[1]
						if fieldSel(info, val, namedArgValue) {
							rp.Exempt("gorm.(*Statement).AddVar$NamedArg", "surplus arguments (more values than placeholders) are appended through sql.NamedArg without placeholder, by design")
							rp.IsExempt("gorm.(*Statement).AddVar$NamedArg")
							continue
						}
						vs := canon(info, val)
						if resolved := resolveLocal(f, val); resolved != nil && fieldSel(info, resolved, varsF) {
							// re-binding of adopted values (sub-query renumbering)
						}
						okp, badPos := p.Guards(f, nil).MustPass(as.Pos(), func(nd ast.Node) bool {
							found := false
							ast.Inspect(nd, func(x ast.Node) bool {
								if ce, ok := x.(*ast.CallExpr); ok {
									if fn, _ := typeutil.Callee(info, ce).(*types.Func); fn != nil && fn.Name() == "BindVarTo" && len(ce.Args) == 3 && canon(info, ce.Args[2]) == vs {
										found = true
									}
								}
								return true
							})
							return found
						})
						rp.Check(okp, f.Name(), desc, as.Pos(), "followed on every path by BindVarTo(_, _, "+vs+")", "a value is appended to Statement.Vars but a path to "+p.Pos(badPos)+" writes no placeholder for it (BindVarTo of the same value): every later placeholder is shifted by one")
					default:
						rp.Bad(f.Name(), desc, as.Pos(), "Statement.Vars is written in a form the rule does not recognise as paired with a placeholder")
					}
				case *ast.SliceExpr:
					rp.Bad(f.Name(), desc, as.Pos(), "Statement.Vars of an executable statement is re-sliced")
				default:
					rp.Bad(f.Name(), desc, as.Pos(), "Statement.Vars is written in a form the rule does not recognise")
				}
			}
			return true
		})
	}

	// ---- C01.renumber ----
	// Where placeholders are re-derived into a scratch builder (sub-query adoption, relation join ON
	// conditions), the dialect numbers a placeholder by len(stmt.Vars): the statement handed to
	// BindVarTo must have its Vars advanced to exactly the value being re-bound, in the same iteration.
	rn := c.Rule("C01.renumber", "placeholder re-derivation loops advance the scratch statement's Vars per value before BindVarTo", 2)
	sbT := p.StdNamed("strings", "Builder")
	for _, f := range p.FuncsOf(pkgGorm, pkgCallbacks) {
		info := f.Pkg.TypesInfo
		for _, call := range callsIn(f) {
			fn, _ := typeutil.Callee(info, call).(*types.Func)
			if fn == nil || fn.Name() != "BindVarTo" || len(call.Args) != 3 {
				continue
			}
			u, ok := unparen(call.Args[0]).(*ast.UnaryExpr)
			if !ok || u.Op != token.AND {
				continue
			}
			if tv, ok := info.Types[u.X]; !ok || !types.Identical(tv.Type, sbT) {
				continue
			}
			// scratch builder: a placeholder text is being re-derived
			stmtArg := unparen(call.Args[1])
			if su, ok := stmtArg.(*ast.UnaryExpr); ok && su.Op == token.AND {
				stmtArg = unparen(su.X)
			}
			target := canon(info, stmtArg) + ".Vars"
			val := canon(info, call.Args[2])
			c.Touch(f)
			conf := &GuardConfig{Name: "c01-renumber:" + target, Events: func(info *types.Info, n ast.Node) []string {
				as, ok := n.(*ast.AssignStmt)
				if !ok || len(as.Lhs) != 1 || len(as.Rhs) != 1 || canon(info, as.Lhs[0]) != target {
					return nil
				}
				switch r := unparen(as.Rhs[0]).(type) {
				case *ast.CallExpr:
					if id, ok := r.Fun.(*ast.Ident); ok && id.Name == "append" && len(r.Args) == 2 && !r.Ellipsis.IsValid() && canon(info, r.Args[0]) == target && canon(info, r.Args[1]) == val {
						return []string{"advanced"}
					}
				case *ast.SliceExpr:
					// vars[0:idx+1] inside `for idx, v := range vars`
					if r.High != nil {
						if be, ok := unparen(r.High).(*ast.BinaryExpr); ok && be.Op == token.ADD && isOneLit(be.Y) {
							return []string{"advanced"}
						}
					}
				}
				return nil
			}}
			facts, live := p.Guards(f, conf).At(call.Pos())
			rn.Check(live && facts.Has(fEvent("advanced")), f.Name(), "re-derive placeholder for "+val, call.Pos(), target+" advanced to this value in the same iteration", "a placeholder is re-derived with BindVarTo into a scratch builder, but "+target+" is not advanced to the value being re-bound in the same iteration: a numbered-placeholder dialect yields the same $n for every value and the renumbering corrupts the statement")
		}
	}

	// ---- C01.once ----
	checkC01ByteSlice(c)
	checkC01SelectBind(c)
	checkC01JoinConds(c)
	checkC01ExprCopy(c)
	checkC01ArgsUsed(c)
	checkMergeUnconditional(c, c.Rule("C01.merge-unconditional", "merging a list-carrying clause keeps the earlier expressions (and their bound values) whatever the new clause carries", 4))
	ro := c.Rule("C01.once", "ONCE(loop over a value slice, AddVar); empty-slice arms write NULL or bind nil", 8)
	for _, f := range p.FuncsOf(pkgClause, pkgGorm) {
		root := rootFunc(f)
		if root.Obj == nil || !(root.Obj.Name() == "Build" || root.Obj.Name() == "NegationBuild" || root.Obj.Name() == "AddVar") {
			continue
		}
		info := f.Pkg.TypesInfo
		isAddVar := func(ce *ast.CallExpr) bool {
			fn, _ := typeutil.Callee(info, ce).(*types.Func)
			return fn != nil && fn.Name() == "AddVar"
		}
		ast.Inspect(f.Body, func(n ast.Node) bool {
			if _, ok := n.(*ast.FuncLit); ok {
				return false
			}
			var loop ast.Stmt
			var loopVars []types.Object
			var body *ast.BlockStmt
			switch l := n.(type) {
			case *ast.ForStmt:
				loop, body = l, l.Body
				if as, ok := l.Init.(*ast.AssignStmt); ok {
					for _, x := range as.Lhs {
						if id, ok := x.(*ast.Ident); ok {
							loopVars = append(loopVars, info.Defs[id])
						}
					}
				}
			case *ast.RangeStmt:
				loop, body = l, l.Body
				for _, x := range []ast.Expr{l.Key, l.Value} {
					if id, ok := x.(*ast.Ident); ok && id.Name != "_" {
						loopVars = append(loopVars, info.Defs[id])
					}
				}
			default:
				return true
			}
			// does an AddVar call in the body bind something that depends on the loop variable?
			binds := false
			ast.Inspect(body, func(x ast.Node) bool {
				if ce, ok := x.(*ast.CallExpr); ok && isAddVar(ce) && len(ce.Args) >= 2 {
					for _, a := range ce.Args[1:] {
						ast.Inspect(a, func(y ast.Node) bool {
							if id, ok := y.(*ast.Ident); ok {
								for _, lv := range loopVars {
									if lv != nil && info.Uses[id] == lv {
										binds = true
									}
								}
							}
							return true
						})
					}
				}
				return true
			})
			if !binds {
				return true
			}
			c.Touch(f)
			paths, ok := p.EnumLoopIterPaths(f, loop, 2000)
			bad := 0
			for _, nodes := range paths {
				k := 0
				for _, nd := range nodes {
					ast.Inspect(nd, func(x ast.Node) bool {
						if _, ok := x.(*ast.FuncLit); ok {
							return false
						}
						if ce, ok := x.(*ast.CallExpr); ok && isAddVar(ce) {
							k++
						}
						return true
					})
				}
				if k != 1 {
					bad++
				}
			}
			ro.Check(ok && bad == 0 && len(paths) > 0, f.Name(), "loop binds one value per iteration", loop.Pos(), "exactly one AddVar on each of "+itoa(len(paths))+" iteration paths", "a loop over a value slice binds zero or several values in one iteration: placeholders and values get out of step")
			return true
		})
		// template expansion: the argument cursor advances exactly once for every placeholder that consumed an argument
		if root.Obj.Name() == "Build" && f == root {
			ast.Inspect(f.Body, func(n ast.Node) bool {
				rs, ok := n.(*ast.RangeStmt)
				if !ok {
					return true
				}
				// cursor: identifier used as index into a value-role slice inside this loop
				cursor := ""
				ast.Inspect(rs.Body, func(x ast.Node) bool {
					if ix, ok := x.(*ast.IndexExpr); ok {
						if id, ok := unparen(ix.Index).(*ast.Ident); ok {
							if sel, ok := unparen(ix.X).(*ast.SelectorExpr); ok {
								if s := info.Selections[sel]; s != nil {
									if _, isSrc := tc.sourceFields[asVar(s.Obj())]; isSrc {
										cursor = id.Name
									}
								}
							}
						}
					}
					return true
				})
				if cursor == "" {
					return true
				}
				c.Touch(f)
				paths, ok := p.EnumLoopIterPaths(f, rs, 20000)
				bad := 0
				for _, nodes := range paths {
					binds, incs := 0, 0
					for _, nd := range nodes {
						ast.Inspect(nd, func(x ast.Node) bool {
							switch y := x.(type) {
							case *ast.CallExpr:
								if isAddVar(y) {
									uses := false
									for _, a := range y.Args {
										ast.Inspect(a, func(z ast.Node) bool {
											if id, ok := z.(*ast.Ident); ok && id.Name == cursor {
												uses = true
											}
											return true
										})
									}
									if uses {
										binds++
									}
								}
							case *ast.IncDecStmt:
								if id, ok := y.X.(*ast.Ident); ok && id.Name == cursor && y.Tok == token.INC {
									incs++
								}
							}
							return true
						})
					}
					// the slice-expansion arm binds through rv.Index(i) of reflect.ValueOf(expr.Vars[cursor]): count the
					// cursor use in the reflect.ValueOf call as the consuming use
					consumes := binds > 0
					if !consumes {
						for _, nd := range nodes {
							ast.Inspect(nd, func(x ast.Node) bool {
								if ce, ok := x.(*ast.CallExpr); ok && calleeName(info, ce) == "reflect.ValueOf" {
									ast.Inspect(ce, func(z ast.Node) bool {
										if id, ok := z.(*ast.Ident); ok && id.Name == cursor {
											consumes = true
										}
										return true
									})
								}
								return true
							})
						}
					}
					if consumes && incs != 1 {
						bad++
					}
					if !consumes && incs != 0 {
						bad++
					}
				}
				ro.Check(ok && bad == 0, f.Name(), "argument cursor "+cursor+" advances once per consumed placeholder", rs.Pos(), itoa(len(paths))+" iteration paths", "a path through the template expansion consumes an argument without advancing the cursor (or advances it without consuming): later placeholders bind the wrong values")
				return false
			})
		}
		// empty-slice arms
		ast.Inspect(f.Body, func(n ast.Node) bool {
			ifs, ok := n.(*ast.IfStmt)
			if !ok {
				return true
			}
			cs := canon(info, ifs.Cond)
			arm := ast.Node(ifs.Body)
			switch {
			case strings.HasSuffix(cs, ".Len() == 0"):
			case strings.HasPrefix(cs, "len(") && strings.HasSuffix(cs, ") == 0"):
			case strings.HasPrefix(cs, "len(") && strings.HasSuffix(cs, ") > 0") && ifs.Else != nil:
				arm = ifs.Else
			default:
				return true
			}
			// len(x) forms: only value lists ([]interface{})
			if strings.HasPrefix(cs, "len(") {
				isValueList := false
				ast.Inspect(ifs.Cond, func(x ast.Node) bool {
					if ce, ok := x.(*ast.CallExpr); ok && len(ce.Args) == 1 {
						if tv, ok := info.Types[ce.Args[0]]; ok {
							if sl, ok := tv.Type.Underlying().(*types.Slice); ok {
								if it, ok := sl.Elem().Underlying().(*types.Interface); ok && it.Empty() {
									isValueList = true
								}
							}
						}
					}
					return true
				})
				if !isValueList {
					return true
				}
			}
			// only arms of functions that bind the elements of that slice
			bindsElems := false
			ast.Inspect(ifs, func(x ast.Node) bool {
				if ce, ok := x.(*ast.CallExpr); ok && isAddVar(ce) {
					bindsElems = true
				}
				return true
			})
			if !bindsElems {
				return true
			}
			okArm := false
			ast.Inspect(arm, func(x ast.Node) bool {
				ce, ok := x.(*ast.CallExpr)
				if !ok {
					return true
				}
				fn, _ := typeutil.Callee(info, ce).(*types.Func)
				if fn == nil {
					return true
				}
				if fn.Name() == "WriteString" && len(ce.Args) == 1 {
					if s, ok := constString(info, ce.Args[0]); ok && strings.Contains(s, "NULL") {
						okArm = true
					}
				}
				if fn.Name() == "AddVar" && len(ce.Args) == 2 && isNilIdent(info, ce.Args[1]) {
					okArm = true
				}
				return true
			})
			c.Touch(f)
			ro.Check(okArm, f.Name(), "empty-slice arm", ifs.Pos(), "writes a NULL form / binds nil", "the empty-slice arm neither writes a NULL form nor binds nil: an empty slice renders as `()` or as nothing")
			return true
		})
	}
}

// isScratchStatement: the Statement written through l is a local value declared by a composite literal in f.
func isScratchStatement(p *Program, f *FuncSrc, l ast.Expr) bool {
	info := f.Pkg.TypesInfo
	sel, ok := unparen(l).(*ast.SelectorExpr)
	if !ok {
		return false
	}
	id, ok := unparen(sel.X).(*ast.Ident)
	if !ok {
		return false
	}
	obj := info.Uses[id]
	if obj == nil {
		return false
	}
	stmtT := p.Named(pkgGorm, "Statement")
	if !types.Identical(obj.Type(), stmtT) && !p.isNamedPtr(obj.Type(), stmtT) {
		return false
	}
	def := resolveLocal(f, id)
	if def == nil {
		return false
	}
	e := unparen(def)
	if u, ok := e.(*ast.UnaryExpr); ok {
		e = unparen(u.X)
	}
	lit, ok := e.(*ast.CompositeLit)
	if !ok {
		return false
	}
	return compositeField(lit, "ConnPool") == nil
}

// sanitizedByTypeSwitch: the sink call at pos lies in a type-switch clause listing only fragment types.
func sanitizedByTypeSwitch(p *Program, tc *taintConfig, pos token.Pos) bool {
	f := p.EnclosingFunc(pos)
	if f == nil {
		return false
	}
	info := f.Pkg.TypesInfo
	sanitized := false
	ast.Inspect(f.Body, func(n ast.Node) bool {
		ts, ok := n.(*ast.TypeSwitchStmt)
		if !ok || !(ts.Pos() <= pos && pos < ts.End()) {
			return true
		}
		for _, cl := range ts.Body.List {
			cc := cl.(*ast.CaseClause)
			if !(cc.Pos() <= pos && pos < cc.End()) || len(cc.List) == 0 {
				continue
			}
			all := true
			for _, te := range cc.List {
				tv, ok := info.Types[te]
				if !ok || !tc.isFrag(tv.Type) {
					all = false
				}
			}
			if all {
				sanitized = true
			}
		}
		return true
	})
	return sanitized
}
