package main

// C14 — the prepared-statement cache is transparent, leak-free, safe in any interleaving.
// (C07.stmt-cache reuses these rules.)

import (
	"fmt"
	"go/ast"
	"go/token"
	"go/types"
	"sort"
	"strings"

	"golang.org/x/tools/go/cfg"
	"golang.org/x/tools/go/types/typeutil"
)

func init() {
	register("C14", checkC14,
		"Structural clauses of C14 decided on every path of every function that touches the cache (lock-set data-flow on go/cfg plus guard facts): (locks) every Lock/RLock of PreparedStmtDB.Mux is released exactly once on every path (explicitly or by a deferred unlock), never acquired while held, and lock states agree at joins; (no-block) while the mutex is held there is no channel receive and no driver call (PrepareContext, Stmt.Close, exec/query) outside a go statement; (map) every read of a Stmts map or of the Stmts field happens under at least the read lock and every insert/delete/reassignment under the write lock; (inprogress) in prepare the in-progress entry is inserted only when Stmts != nil, every exit after the insertion has close(prepared) deferred, a failed prepare records prepareErr and deletes the entry, and both cache-hit arms wait for prepared and test prepareErr before returning the statement; (evict) every exec/query wrapper with an error result has an ErrBadConn arm that closes the statement asynchronously and deletes the entry, Close/Reset close each entry only after its prepared channel and then drop/replace the map; (tx) the transaction wrappers prepare on the transaction with isTransaction = true and execute only through Tx.StmtContext, and BeginTx wraps the transaction with the same cache. NOT decided: linearizability / equality with non-prepared mode, liveness of database/sql, the generation split created by Session(PrepareStmt) snapshots, leak-freedom as a run-time count.")
}

type lockState struct {
	held   byte   // 'U', 'R', 'W'
	defer_ byte   // 0, 'R', 'W' : a deferred unlock of that kind is pending
	owner  string // canonical path of the object whose mutex is held ("" when unlocked)
}

func (s lockState) String() string {
	d := ""
	if s.defer_ != 0 {
		d = fmt.Sprintf("+defer%c", s.defer_)
	}
	return string(s.held) + d
}

type lockEvent struct {
	pos   token.Pos
	kind  string // lock, rlock, unlock, runlock, defer-unlock, defer-runlock, mapread, mapwrite, fieldread, fieldwrite, recv, drive
	desc  string
	owner string // canonical path of the object owning the mutex / the protected field
}

type lockAnalysis struct {
	p       *Program
	muxF    *types.Var
	stmtsF  *types.Var
	rw      map[string]*types.Func // Lock, RLock, Unlock, RUnlock of sync.RWMutex
	violate func(rule string, f *FuncSrc, desc string, pos token.Pos, msg string)
	okay    func(rule string, f *FuncSrc, desc string, pos token.Pos, msg string)
	// writesOnly: only insert/delete/assign events are checked (reads are lock-free by design)
	writesOnly bool
	// exemptWrite reports map owners whose writes need no lock (the object under construction)
	exemptWrite func(f *FuncSrc, base ast.Expr) bool
}

// eventsOf extracts the lock-relevant events of CFG node n in evaluation (position) order.
func (la *lockAnalysis) eventsOf(f *FuncSrc, n ast.Node) []lockEvent {
	info := f.Pkg.TypesInfo
	var evs []lockEvent
	add := func(pos token.Pos, kind, desc string) { evs = append(evs, lockEvent{pos: pos, kind: kind, desc: desc}) }
	// addO records an event on the mutex / protected field selected by fe (owner = the object before the field)
	addO := func(pos token.Pos, kind, desc string, fe ast.Expr) {
		evs = append(evs, lockEvent{pos: pos, kind: kind, desc: desc, owner: la.ownerOf(info, fe)})
	}
	isMuxRecv := func(e ast.Expr) bool {
		// X.Mux (pointer to RWMutex field of PreparedStmtDB)
		return fieldSel(info, e, la.muxF)
	}
	written := map[ast.Expr]bool{}
	var walk func(n ast.Node, inGo bool)
	walk = func(n ast.Node, inGo bool) {
		if n == nil {
			return
		}
		switch x := n.(type) {
		case *ast.FuncLit:
			return
		case *ast.GoStmt:
			// arguments are evaluated now; the call runs elsewhere
			if sel, ok := x.Call.Fun.(*ast.SelectorExpr); ok {
				walk(sel.X, true)
			}
			for _, a := range x.Call.Args {
				walk(a, true)
			}
			return
		case *ast.DeferStmt:
			if fn, _ := typeutil.Callee(info, x.Call).(*types.Func); fn != nil {
				if sel, ok := x.Call.Fun.(*ast.SelectorExpr); ok && isMuxRecv(sel.X) {
					switch fn {
					case la.rw["Unlock"]:
						addO(x.Pos(), "defer-unlock", exprStr(sel.X), sel.X)
						return
					case la.rw["RUnlock"]:
						addO(x.Pos(), "defer-runlock", exprStr(sel.X), sel.X)
						return
					}
				}
			}
			for _, a := range x.Call.Args {
				walk(a, inGo)
			}
			return
		case *ast.AssignStmt:
			for _, r := range x.Rhs {
				walk(r, inGo)
			}
			for _, l := range x.Lhs {
				l = unparen(l)
				if ix, ok := l.(*ast.IndexExpr); ok && fieldSel(info, ix.X, la.stmtsF) {
					walk(ix.Index, inGo)
					written[ix.X] = true
					if la.exemptWrite == nil || !la.exemptWrite(f, ix.X) {
						addO(ix.Pos(), "mapwrite", "insert into "+exprStr(ix.X), ix.X)
					}
					continue
				}
				if fieldSel(info, l, la.stmtsF) {
					written[l] = true
					if la.exemptWrite == nil || !la.exemptWrite(f, l) {
						addO(l.Pos(), "fieldwrite", "assign "+exprStr(l), l)
					}
					continue
				}
				walk(l, inGo)
			}
			return
		case *ast.RangeStmt:
			return
		case *ast.UnaryExpr:
			if x.Op == token.ARROW {
				walk(x.X, inGo)
				add(x.Pos(), "recv", "receive from "+exprStr(x.X))
				return
			}
		case *ast.CallExpr:
			// builtin delete on the map
			if id, ok := x.Fun.(*ast.Ident); ok && id.Name == "delete" && len(x.Args) == 2 && fieldSel(info, x.Args[0], la.stmtsF) {
				walk(x.Args[1], inGo)
				addO(x.Pos(), "mapwrite", "delete from "+exprStr(x.Args[0]), x.Args[0])
				return
			}
			fn, _ := typeutil.Callee(info, x).(*types.Func)
			if sel, ok := x.Fun.(*ast.SelectorExpr); ok && fn != nil && isMuxRecv(sel.X) {
				for name, m := range la.rw {
					if fn == m {
						addO(x.Pos(), strings.ToLower(name), exprStr(sel.X), sel.X)
						return
					}
				}
			}
			walk(x.Fun, inGo)
			for _, a := range x.Args {
				walk(a, inGo)
			}
			if kind, _, ok := la.p.driverCallee(fn); ok {
				add(x.Pos(), "drive", string(kind)+" "+fn.Name())
			} else if fn != nil && fn.Name() == "prepare" && fn.Pkg() != nil && fn.Pkg().Path() == pkgGorm {
				add(x.Pos(), "drive", "prepare")
			}
			return
		case *ast.IndexExpr:
			if fieldSel(info, x.X, la.stmtsF) {
				walk(x.Index, inGo)
				if !la.writesOnly {
					addO(x.Pos(), "mapread", "lookup in "+exprStr(x.X), x.X)
				}
				return
			}
		case *ast.SelectorExpr:
			if fieldSel(info, x, la.stmtsF) && !written[x] {
				if !la.writesOnly {
					addO(x.Pos(), "fieldread", "read "+exprStr(x), x)
				}
				return
			}
		case *ast.KeyValueExpr:
			walk(x.Value, inGo)
			return
		}
		ast.Inspect(n, func(c ast.Node) bool {
			if c == n || c == nil {
				return true
			}
			walk(c, inGo)
			return false
		})
	}
	// range over the map: the range expression is a CFG node of its own (s.X)
	walk(n, false)
	sort.SliceStable(evs, func(i, j int) bool { return evs[i].pos < evs[j].pos })
	return evs
}

// ownerOf: the canonical path of the object whose field fe selects (x.Mux -> x, x.Stmts -> x); embedded
// promotion steps are spelled out so that x.Mux and x.PreparedStmtDB.Stmts name the same owner.
func (la *lockAnalysis) ownerOf(info *types.Info, fe ast.Expr) string {
	sel, ok := unparen(fe).(*ast.SelectorExpr)
	if !ok {
		return canon(info, fe)
	}
	base := canon(info, sel.X)
	if sl := info.Selections[sel]; sl != nil && len(sl.Index()) > 1 {
		t := sl.Recv()
		for _, i := range sl.Index()[:len(sl.Index())-1] {
			if pt, ok := t.Underlying().(*types.Pointer); ok {
				t = pt.Elem()
			}
			st, ok := t.Underlying().(*types.Struct)
			if !ok {
				break
			}
			base += "." + st.Field(i).Name()
			t = st.Field(i).Type()
		}
	}
	return base
}

func applyLock(st lockState, ev lockEvent) (lockState, string) {
	switch ev.kind {
	case "lock":
		if st.held != 'U' {
			return st, "acquires the write lock while the mutex is already held (" + st.String() + "): self-deadlock"
		}
		st.held, st.owner = 'W', ev.owner
	case "rlock":
		if st.held != 'U' {
			return st, "acquires the read lock while the mutex is already held (" + st.String() + ")"
		}
		st.held, st.owner = 'R', ev.owner
	case "unlock":
		if st.held != 'W' {
			return st, "Unlock without holding the write lock (state " + st.String() + ")"
		}
		if st.owner != ev.owner {
			return st, "Unlock of " + ev.owner + "'s mutex while " + st.owner + "'s is the one held"
		}
		st.held, st.owner = 'U', ""
	case "runlock":
		if st.held != 'R' {
			return st, "RUnlock without holding the read lock (state " + st.String() + ")"
		}
		if st.owner != ev.owner {
			return st, "RUnlock of " + ev.owner + "'s mutex while " + st.owner + "'s is the one held"
		}
		st.held, st.owner = 'U', ""
	case "defer-unlock":
		if st.held != 'W' || st.defer_ != 0 || st.owner != ev.owner {
			return st, "deferred Unlock of " + ev.owner + " registered in state " + st.String()
		}
		st.defer_ = 'W'
	case "defer-runlock":
		if st.held != 'R' || st.defer_ != 0 || st.owner != ev.owner {
			return st, "deferred RUnlock of " + ev.owner + " registered in state " + st.String()
		}
		st.defer_ = 'R'
	}
	return st, ""
}

// runLockset analyses one function; entry state is unlocked.
func (la *lockAnalysis) runLockset(f *FuncSrc) (acquisitions int) {
	g := la.p.CFG(f)
	n := len(g.Blocks)
	in := make([]map[lockState]bool, n)
	in[0] = map[lockState]bool{{held: 'U'}: true}
	work := []*cfg.Block{g.Blocks[0]}
	reported := map[string]bool{}
	report := func(rule, desc string, pos token.Pos, msg string) {
		k := rule + desc + la.p.Pos(pos)
		if !reported[k] {
			reported[k] = true
			la.violate(rule, f, desc, pos, msg)
		}
	}
	type check struct {
		rule, desc string
		pos        token.Pos
	}
	oks := map[check]bool{}
	bad := map[check]bool{}
	for iter := 0; len(work) > 0 && iter < 10000; iter++ {
		b := work[len(work)-1]
		work = work[:len(work)-1]
		cur := map[lockState]bool{}
		for s := range in[b.Index] {
			cur[s] = true
		}
		for _, nd := range b.Nodes {
			for _, ev := range la.eventsOf(f, nd) {
				next := map[lockState]bool{}
				for st := range cur {
					switch ev.kind {
					case "lock", "rlock", "unlock", "runlock", "defer-unlock", "defer-runlock":
						ns, err := applyLock(st, ev)
						if err != "" {
							report("C14.locks", ev.kind+" "+ev.desc, ev.pos, err)
						}
						next[ns] = true
					case "mapread", "fieldread":
						c := check{"C14.map", ev.desc, ev.pos}
						if st.held == 'U' || st.owner != ev.owner {
							bad[c] = true
						} else {
							oks[c] = true
						}
						next[st] = true
					case "mapwrite", "fieldwrite":
						c := check{"C14.map", ev.desc, ev.pos}
						if st.held != 'W' || st.owner != ev.owner {
							bad[c] = true
						} else {
							oks[c] = true
						}
						next[st] = true
					case "recv", "drive":
						c := check{"C14.no-block", ev.desc, ev.pos}
						if st.held != 'U' {
							bad[c] = true
						} else {
							oks[c] = true
						}
						next[st] = true
					}
				}
				cur = next
			}
		}
		if len(b.Succs) == 0 {
			for st := range cur {
				final := st.held
				if st.defer_ != 0 {
					if st.defer_ == st.held {
						final = 'U'
					}
				}
				if final != 'U' {
					pos := f.Body.End()
					if len(b.Nodes) > 0 {
						pos = b.Nodes[len(b.Nodes)-1].Pos()
					}
					report("C14.locks", "exit", pos, "function can return with the mutex held (state "+st.String()+" at exit): every later cache access deadlocks")
				}
			}
		}
		for _, s := range b.Succs {
			if in[s.Index] == nil {
				in[s.Index] = map[lockState]bool{}
			}
			changed := false
			for st := range cur {
				if !in[s.Index][st] {
					in[s.Index][st] = true
					changed = true
				}
			}
			if changed {
				work = append(work, s)
			}
		}
	}
	// joins: the held state (net of deferred releases) must agree
	for _, b := range g.Blocks {
		helds := map[byte]bool{}
		for st := range in[b.Index] {
			h := st.held
			if st.defer_ != 0 && st.defer_ == st.held {
				h = 'd' // held until exit by a deferred unlock
			}
			helds[h] = true
		}
		if len(helds) > 1 && !(len(helds) == 2 && helds['d'] && helds['U']) {
			pos := f.Body.Pos()
			if len(b.Nodes) > 0 {
				pos = b.Nodes[0].Pos()
			}
			report("C14.locks", "join", pos, fmt.Sprintf("lock state differs between the paths joining here (%d states)", len(helds)))
		}
	}
	// count acquisitions and emit ok obligations
	for _, b := range g.Blocks {
		if !b.Live {
			continue
		}
		for _, nd := range b.Nodes {
			for _, ev := range la.eventsOf(f, nd) {
				if ev.kind == "lock" || ev.kind == "rlock" {
					acquisitions++
					if !reported["C14.locks"+ev.kind+" "+ev.desc+la.p.Pos(ev.pos)] {
						la.okay("C14.locks", f, ev.kind+" "+ev.desc, ev.pos, "acquired unlocked, released on every path")
					}
				}
			}
		}
	}
	var cs []check
	for c := range oks {
		cs = append(cs, c)
	}
	for c := range bad {
		if !oks[c] {
			cs = append(cs, c)
		}
	}
	sort.Slice(cs, func(i, j int) bool { return cs[i].pos < cs[j].pos })
	for _, c := range cs {
		if bad[c] {
			msg := "cache map/field accessed without the required lock: races with Reset/Close/prepare reassigning or mutating it"
			if c.rule == "C14.no-block" {
				msg = "blocking operation while PreparedStmtDB.Mux is held: a goroutine waiting on the pool or on another preparer deadlocks every cache user"
			}
			la.violate(c.rule, f, c.desc, c.pos, msg)
		} else {
			la.okay(c.rule, f, c.desc, c.pos, "lock state sufficient on every path")
		}
	}
	return acquisitions
}

func checkC14(c *Ctx) {
	checkC14Into(c, "C14")
	// inside a transaction the statements keep running through the statement-cache wrapper: SavePoint / RollbackTo swap it out
	// for the raw transaction and must put exactly it back (same rule as C04.restore)
	checkC14TxNilGuard(c)
	checkC14BeginNoLeak(c)
	checkPoolRestore(c, c.Rule("C14.tx-wrapper-kept", "SavePoint/RollbackTo put the transaction's statement-cache wrapper back after using the raw transaction", 2))
}

func checkC14Into(c *Ctx, prefix string) {
	p := c.P
	psdb := p.Named(pkgGorm, "PreparedStmtDB")
	pstx := p.Named(pkgGorm, "PreparedStmtTX")
	rules := map[string]*Rule{
		"C14.locks":    c.Rule(prefix+".locks", "LOCKSET(PreparedStmtDB.Mux): each acquisition released exactly once on every path, no re-acquisition, consistent joins", 10),
		"C14.no-block": c.Rule(prefix+".no-block", "no channel receive / driver call while the mutex is held (outside go statements)", 10),
		"C14.map":      c.Rule(prefix+".map", "every access to a Stmts map or the Stmts field of a published cache happens under the lock (write lock for mutation)", 12),
	}
	rwm := p.StdNamed("sync", "RWMutex")
	la := &lockAnalysis{p: p, muxF: p.Field(psdb, "Mux"), stmtsF: p.Field(psdb, "Stmts"), rw: map[string]*types.Func{}}
	for _, n := range []string{"Lock", "RLock", "Unlock", "RUnlock"} {
		la.rw[n] = p.Method(rwm, n)
	}
	la.violate = func(rule string, f *FuncSrc, desc string, pos token.Pos, msg string) {
		rules[rule].Bad(f.Name(), desc, pos, msg)
	}
	la.okay = func(rule string, f *FuncSrc, desc string, pos token.Pos, msg string) {
		rules[rule].OK(f.Name(), desc, pos, msg)
	}
	// every function (and literal) of package gorm that mentions Mux or Stmts
	total := 0
	for _, f := range p.FuncsOf(pkgGorm) {
		info := f.Pkg.TypesInfo
		mentions := false
		ast.Inspect(f.Body, func(n ast.Node) bool {
			if _, ok := n.(*ast.FuncLit); ok {
				return false
			}
			if sel, ok := n.(*ast.SelectorExpr); ok && (fieldSel(info, sel, la.muxF) || fieldSel(info, sel, la.stmtsF)) {
				mentions = true
			}
			return true
		})
		if !mentions {
			continue
		}
		// the constructor initialises an unpublished value through a composite literal only
		c.Touch(f)
		total += la.runLockset(f)
	}
	_ = total

	checkC14Publish(c, prefix, la)

	if prefix != "C14" {
		return
	}

	// ---- C14.inprogress ----
	ri := c.Rule("C14.inprogress", "prepare: insertion guarded by Stmts != nil; every exit after it has close(prepared) deferred; failure recorded and evicted; cache-hit arms wait and test prepareErr", 6)
	stmtT := p.Named(pkgGorm, "Stmt")
	preparedF := p.Field(stmtT, "prepared")
	prepErrF := p.Field(stmtT, "prepareErr")
	var prep *FuncSrc
	for _, s := range p.DriverSites() {
		if s.Kind == DrvPrepare {
			if prep != nil && prep != rootFunc(s.F) {
				ri.Bad(s.F.Name(), "second preparer", s.Call.Pos(), "statements are prepared in more than one function; the in-progress protocol is only checked for one")
			}
			prep = rootFunc(s.F)
		}
	}
	if prep == nil {
		fatalf("anchor: no PrepareContext call found")
	}
	c.Touch(prep)
	pinfo := prep.Pkg.TypesInfo
	isCloseDefer := func(n ast.Node) bool {
		d, ok := n.(*ast.DeferStmt)
		if !ok {
			return false
		}
		id, ok := d.Call.Fun.(*ast.Ident)
		return ok && id.Name == "close" && len(d.Call.Args) == 1 && fieldSel(pinfo, d.Call.Args[0], preparedF)
	}
	// a delete guarded by "the map still holds the entry inserted here" evicts the failed entry whenever it
	// is still cached: its guard's first CFG node stands for the eviction
	ownEvict := map[ast.Node]bool{}
	{
		inserted := ""
		ast.Inspect(prep.Body, func(n ast.Node) bool {
			if as, ok := n.(*ast.AssignStmt); ok && len(as.Lhs) == 1 && len(as.Rhs) == 1 {
				if ix, ok := unparen(as.Lhs[0]).(*ast.IndexExpr); ok && fieldSel(pinfo, ix.X, la.stmtsF) {
					inserted = canon(pinfo, as.Rhs[0])
				}
			}
			return true
		})
		ast.Inspect(prep.Body, func(n ast.Node) bool {
			ifs, ok := n.(*ast.IfStmt)
			if !ok || inserted == "" {
				return true
			}
			as, ok := ifs.Init.(*ast.AssignStmt)
			if !ok || len(as.Lhs) < 1 || len(as.Lhs) > 2 || len(as.Rhs) != 1 {
				return true
			}
			ix, ok := unparen(as.Rhs[0]).(*ast.IndexExpr)
			if !ok || !fieldSel(pinfo, ix.X, la.stmtsF) {
				return true
			}
			cur, _ := as.Lhs[0].(*ast.Ident)
			if cur == nil {
				return true
			}
			deletes := false
			for _, st := range ifs.Body.List {
				if es, ok := st.(*ast.ExprStmt); ok {
					if ce, ok := es.X.(*ast.CallExpr); ok {
						if id, ok := ce.Fun.(*ast.Ident); ok && id.Name == "delete" && len(ce.Args) == 2 && fieldSel(pinfo, ce.Args[0], la.stmtsF) && canon(pinfo, ce.Args[1]) == canon(pinfo, ix.Index) {
							deletes = true
						}
					}
				}
			}
			if !deletes {
				return true
			}
			bf := boolTable(pinfo, ifs.Cond)
			for _, idAtom := range []string{cur.Name + " == " + inserted, inserted + " == " + cur.Name} {
				if !bf.has(idAtom) {
					continue
				}
				fixed := map[string]bool{idAtom: true}
				if len(as.Lhs) == 2 {
					if okid, _ := as.Lhs[1].(*ast.Ident); okid != nil && okid.Name != "_" {
						fixed[okid.Name] = true // the own entry is present
					}
				}
				if always, _ := bf.forAll(fixed, true); always {
					ownEvict[as] = true
				}
			}
			return true
		})
	}
	conf := &GuardConfig{Name: "c14-prepare", Events: func(info *types.Info, n ast.Node) []string {
		var out []string
		if ownEvict[n] {
			out = append(out, "delete-entry")
		}
		if isCloseDefer(n) {
			out = append(out, "defer-close-prepared")
		}
		if as, ok := n.(*ast.AssignStmt); ok {
			for _, l := range as.Lhs {
				if fieldSel(info, l, prepErrF) {
					out = append(out, "store-prepareErr")
				}
			}
		}
		ast.Inspect(n, func(x ast.Node) bool {
			switch x := x.(type) {
			case *ast.FuncLit:
				return false
			case *ast.UnaryExpr:
				if x.Op == token.ARROW && fieldSel(info, x.X, preparedF) {
					out = append(out, "recv-prepared")
				}
			case *ast.CallExpr:
				if id, ok := x.Fun.(*ast.Ident); ok && id.Name == "delete" && len(x.Args) == 2 && fieldSel(info, x.Args[0], la.stmtsF) {
					out = append(out, "delete-entry")
				}
				if fn, _ := typeutil.Callee(info, x).(*types.Func); fn != nil {
					if k, _, ok := p.driverCallee(fn); ok && k == DrvPrepare {
						out = append(out, "prepare-called")
					}
				}
			}
			return true
		})
		return out
	}}
	gs := p.Guards(prep, conf)
	nInsert := 0
	ast.Inspect(prep.Body, func(n ast.Node) bool {
		as, ok := n.(*ast.AssignStmt)
		if !ok {
			return true
		}
		for _, l := range as.Lhs {
			ix, ok := unparen(l).(*ast.IndexExpr)
			if !ok || !fieldSel(pinfo, ix.X, la.stmtsF) {
				continue
			}
			nInsert++
			facts, live := gs.At(as.Pos())
			ri.Check(live && facts.Has(fNonNil(canon(pinfo, ix.X))), prep.Name(), "insert guarded by Stmts != nil", as.Pos(), "closed cache yields an error, not a nil-map panic", "the in-progress entry is inserted without a dominating "+exprStr(ix.X)+" != nil test: after Close the insertion panics")
			okp, bad := gs.MustPass(as.Pos(), isCloseDefer)
			ri.Check(okp, prep.Name(), "close(prepared) deferred after insertion", as.Pos(), "every exit after publishing the in-progress entry closes its channel", "a path from the insertion of the in-progress entry to the exit at "+p.Pos(bad)+" never closes the prepared channel: every goroutine waiting for this statement blocks forever")
		}
		return true
	})
	ri.Check(nInsert == 1, prep.Name(), "single insertion site", prep.Body.Pos(), "one in-progress insertion", fmt.Sprintf("%d insertion sites of in-progress entries", nInsert))
	// returns
	nFail, nHit := 0, 0
	ast.Inspect(prep.Body, func(n ast.Node) bool {
		if _, ok := n.(*ast.FuncLit); ok {
			return false
		}
		rs, ok := n.(*ast.ReturnStmt)
		if !ok || len(rs.Results) != 2 {
			return true
		}
		facts, live := gs.At(rs.Pos())
		if !live {
			return true
		}
		if facts.Has(fEvent("prepare-called")) && !isNilIdent(pinfo, rs.Results[1]) {
			// failing arm after the driver call
			nFail++
			ri.Check(facts.Has(fEvent("store-prepareErr")) && facts.Has(fEvent("delete-entry")), prep.Name(), "failed prepare recorded and evicted", rs.Pos(), "prepareErr stored and entry deleted before returning the error", "a failed preparation returns without recording prepareErr for the waiters or without deleting the in-progress entry (a failed statement stays cached)")
		}
		if star, ok := unparen(rs.Results[0]).(*ast.StarExpr); ok && isNilIdent(pinfo, rs.Results[1]) {
			// cache hit: returns a copy of the cached entry
			nHit++
			entry := canon(pinfo, star.X)
			ri.Check(facts.Has(fEvent("recv-prepared")) && facts.Has(fNil(entry+".prepareErr")), prep.Name(), "cache hit waits and checks the preparer's error", rs.Pos(), "receive from prepared, then prepareErr == nil", "a cache-hit path returns the cached statement without waiting for its preparation or without checking prepareErr: callers get a nil *sql.Stmt")
		}
		return true
	})
	// cache-hit condition: an entry prepared on the pool serves every caller, a transaction-bound entry
	// serves only transaction callers (decided on the truth table of the condition, not on its spelling)
	{
		txF := p.Field(stmtT, "Transaction")
		isTxParam := ""
		if prep.Type.Params != nil {
			for _, fl := range prep.Type.Params.List {
				for _, nm := range fl.Names {
					if tv, ok := pinfo.Types[fl.Type]; ok {
						if b, ok := tv.Type.Underlying().(*types.Basic); ok && b.Kind() == types.Bool {
							isTxParam = nm.Name
						}
					}
				}
			}
		}
		nCond := 0
		// the comma-ok lookups in the cache map (as if-init or as a statement of their own)
		type lookup struct{ entry, ok types.Object }
		var lookups []lookup
		ast.Inspect(prep.Body, func(n ast.Node) bool {
			as, ok := n.(*ast.AssignStmt)
			if !ok || len(as.Lhs) != 2 || len(as.Rhs) != 1 {
				return true
			}
			ix, ok := unparen(as.Rhs[0]).(*ast.IndexExpr)
			if !ok || !fieldSel(pinfo, ix.X, la.stmtsF) {
				return true
			}
			entry, okv := as.Lhs[0].(*ast.Ident)
			okid, okk := as.Lhs[1].(*ast.Ident)
			if okv && okk {
				lookups = append(lookups, lookup{pinfo.ObjectOf(entry), pinfo.ObjectOf(okid)})
			}
			return true
		})
		ast.Inspect(prep.Body, func(n ast.Node) bool {
			ifs, ok := n.(*ast.IfStmt)
			if !ok {
				return true
			}
			var lk *lookup
			ast.Inspect(ifs.Cond, func(x ast.Node) bool {
				if id, ok := x.(*ast.Ident); ok {
					for i := range lookups {
						if lookups[i].ok != nil && pinfo.Uses[id] == lookups[i].ok {
							lk = &lookups[i]
						}
					}
				}
				return true
			})
			if lk == nil || lk.entry == nil {
				return true
			}
			// a cache-hit arm hands the looked-up entry to the caller
			handsOut := false
			ast.Inspect(ifs.Body, func(x ast.Node) bool {
				if rs, ok := x.(*ast.ReturnStmt); ok && len(rs.Results) > 0 {
					if root := rootIdentOf(rs.Results[0]); root != nil && pinfo.Uses[root] == lk.entry {
						handsOut = true
					}
				}
				return true
			})
			if !handsOut {
				return true
			}
			nCond++
			bf := boolTable(pinfo, ifs.Cond)
			okName := lk.ok.Name()
			txAtom := lk.entry.Name() + "." + txF.Name()
			var problems []string
			if !bf.has(okName) || !bf.has(txAtom) || isTxParam == "" || !bf.has(isTxParam) {
				problems = append(problems, "condition does not mention the lookup result, the entry's Transaction flag and the caller's transaction flag")
			} else {
				if ok1, _ := bf.forAll(map[string]bool{okName: true, txAtom: false}, true); !ok1 {
					problems = append(problems, "an entry prepared on the pool is rejected for some caller: the same text is prepared again and the cached statement is overwritten without being closed")
				}
				if ok2, _ := bf.forAll(map[string]bool{okName: true, txAtom: true, isTxParam: false}, false); !ok2 {
					problems = append(problems, "a transaction-bound statement is handed to a caller outside the transaction")
				}
				if ok3, _ := bf.forAll(map[string]bool{okName: false}, false); !ok3 {
					problems = append(problems, "a hit is reported without an entry")
				}
			}
			ri.Check(len(problems) == 0, prep.Name(), "cache-hit condition", ifs.Cond.Pos(), "pool entries serve everyone, transaction entries serve transactions", strings.Join(problems, "; "))
			return true
		})
		ri.Check(nCond >= 2, prep.Name(), "double-checked lookup conditions", prep.Body.Pos(), "both lookups found", "the double-checked cache lookup is gone")
	}
	ri.Check(nFail >= 1, prep.Name(), "failing arm exists", prep.Body.Pos(), "prepare error is returned", "no failing arm found after PrepareContext")
	ri.Check(nHit >= 2, prep.Name(), "two cache-hit arms (double-checked)", prep.Body.Pos(), "read-locked and write-locked lookups", fmt.Sprintf("%d cache-hit arms, expected the double-checked pair", nHit))

	// the cached entry's *sql.Stmt is assigned under the write lock (Close/Reset read it under the lock too)
	{
		sqlStmtF := p.Field(stmtT, "Stmt")
		lockConf := &GuardConfig{Name: "c14-lock-events", Events: func(info *types.Info, n ast.Node) []string {
			var out []string
			ast.Inspect(n, func(x ast.Node) bool {
				if _, ok := x.(*ast.FuncLit); ok {
					return false
				}
				if ce, ok := x.(*ast.CallExpr); ok {
					if fn, _ := typeutil.Callee(info, ce).(*types.Func); fn != nil {
						if sel, ok := ce.Fun.(*ast.SelectorExpr); ok && fieldSel(info, sel.X, la.muxF) {
							out = append(out, "mux:"+fn.Name())
						}
					}
				}
				return true
			})
			return out
		}}
		_ = lockConf
		n := 0
		ast.Inspect(prep.Body, func(nd ast.Node) bool {
			as, ok := nd.(*ast.AssignStmt)
			if !ok {
				return true
			}
			for _, l := range as.Lhs {
				if !fieldSel(pinfo, l, sqlStmtF) {
					continue
				}
				n++
				// previous and next sibling statements must be Lock / Unlock of the mutex
				locked := siblingLocked(prep, pinfo, as, la)
				ri.Check(locked, prep.Name(), "entry's statement published under the write lock", as.Pos(), "Lock; entry.Stmt = stmt; Unlock", "the prepared statement is stored into the published cache entry without holding the write lock: Close/Reset read the field concurrently (data race, and a statement that is never closed)")
			}
			return true
		})
		ri.Check(n >= 1, prep.Name(), "publishes the prepared statement", prep.Body.Pos(), "entry.Stmt assigned", "prepare never stores the prepared statement into the cache entry")
	}

	// ---- C14.evict ----
	re := c.Rule("C14.evict", "every exec/query wrapper with an error result evicts on ErrBadConn (async Close + delete); Close/Reset close entries after prepared and drop/replace the map", 6)
	badConn := p.Lookup2("database/sql/driver", "ErrBadConn")
	sqlStmtClose := p.Method(p.StdNamed("database/sql", "Stmt"), "Close")
	for _, s := range p.DriverSites() {
		if s.Kind != DrvStmt || s.Iface {
			continue
		}
		f := rootFunc(s.F)
		if f.Obj == nil {
			continue
		}
		sig := f.Obj.Type().(*types.Signature)
		if sig.Results().Len() != 2 {
			continue // QueryRowContext: no error to inspect
		}
		c.Touch(f)
		finfo := f.Pkg.TypesInfo
		found := false
		ast.Inspect(f.Body, func(n ast.Node) bool {
			ifs, ok := n.(*ast.IfStmt)
			if !ok {
				return true
			}
			mentions := false
			ast.Inspect(ifs.Cond, func(x ast.Node) bool {
				if sel, ok := x.(*ast.SelectorExpr); ok && finfo.Uses[sel.Sel] == badConn {
					mentions = true
				}
				return true
			})
			if !mentions || ifs.Pos() < s.Call.Pos() {
				return true
			}
			asyncClose, del := false, false
			ast.Inspect(ifs.Body, func(x ast.Node) bool {
				switch x := x.(type) {
				case *ast.GoStmt:
					if fn, _ := typeutil.Callee(finfo, x.Call).(*types.Func); fn == sqlStmtClose {
						asyncClose = true
					}
				case *ast.CallExpr:
					if id, ok := x.Fun.(*ast.Ident); ok && id.Name == "delete" && len(x.Args) == 2 && fieldSel(finfo, x.Args[0], la.stmtsF) {
						del = true
					}
				}
				return true
			})
			if asyncClose && del {
				found = true
			}
			return true
		})
		re.Check(found, f.Name(), "ErrBadConn arm after "+s.Callee.Name(), s.Call.Pos(), "closes the statement asynchronously and deletes the cache entry", "the wrapper executes a cached statement but has no ErrBadConn arm that closes it and deletes the entry: a statement bound to a dead connection stays cached")
	}
	// eviction by key removes only the statement this goroutine holds: between obtaining the statement and
	// taking the write lock another goroutine may have replaced the entry for the same text (after a
	// transaction-bound miss, an earlier eviction or a Reset); deleting that newer entry drops a statement
	// from the map that nobody closes and makes the text be prepared a second time in the same generation
	ro := c.Rule("C14.evict-own", "every delete of a cache entry by key is guarded by an identity test between the map's current entry and the statement held", 5)
	for _, f := range p.FuncsOf(pkgGorm) {
		finfo := f.Pkg.TypesInfo
		parents := parentMap(f.Body)
		ast.Inspect(f.Body, func(n ast.Node) bool {
			if _, ok := n.(*ast.FuncLit); ok {
				return false
			}
			del, ok := n.(*ast.CallExpr)
			if !ok {
				return true
			}
			id, _ := del.Fun.(*ast.Ident)
			if id == nil || id.Name != "delete" || len(del.Args) != 2 || !fieldSel(finfo, del.Args[0], la.stmtsF) {
				return true
			}
			c.Touch(f)
			mapC, keyC := canon(finfo, del.Args[0]), canon(finfo, del.Args[1])
			// lookups of the same map/key whose result the guard may compare
			curObjs := map[types.Object]token.Pos{}
			ast.Inspect(f.Body, func(x ast.Node) bool {
				as, ok := x.(*ast.AssignStmt)
				if !ok || len(as.Rhs) != 1 || len(as.Lhs) < 1 {
					return true
				}
				ix, ok := unparen(as.Rhs[0]).(*ast.IndexExpr)
				if !ok || canon(finfo, ix.X) != mapC || canon(finfo, ix.Index) != keyC {
					return true
				}
				if cid, ok := as.Lhs[0].(*ast.Ident); ok && cid.Name != "_" {
					curObjs[finfo.ObjectOf(cid)] = as.Pos()
				}
				return true
			})
			guarded := false
			for cur := ast.Node(del); cur != nil && !guarded; cur = parents[cur] {
				ifs, ok := parents[cur].(*ast.IfStmt)
				if !ok || cur != ast.Node(ifs.Body) {
					continue
				}
				bf := boolTable(finfo, ifs.Cond)
				for atom, e := range bf.exprs {
					be, ok := e.(*ast.BinaryExpr)
					if !ok || (be.Op != token.EQL && be.Op != token.NEQ) {
						continue
					}
					for _, pair := range [][2]ast.Expr{{be.X, be.Y}, {be.Y, be.X}} {
						root := rootIdentOf(pair[0])
						if root == nil {
							continue
						}
						lookPos, isCur := curObjs[finfo.ObjectOf(root)]
						if !isCur || isNilIdent(finfo, pair[1]) {
							continue
						}
						if other := rootIdentOf(pair[1]); other != nil && finfo.ObjectOf(other) == finfo.ObjectOf(root) {
							continue
						}
						// the lock is not released between the lookup and the delete
						released := false
						ast.Inspect(f.Body, func(x ast.Node) bool {
							if ce, ok := x.(*ast.CallExpr); ok && lookPos < ce.Pos() && ce.Pos() < del.Pos() {
								if fn, _ := typeutil.Callee(finfo, ce).(*types.Func); fn == la.rw["Unlock"] || fn == la.rw["RUnlock"] {
									released = true
								}
							}
							return true
						})
						if holds, _ := bf.forAll(map[string]bool{atom: false}, false); holds && !released {
							guarded = true
						}
					}
				}
			}
			ro.Check(guarded, f.Name(), "delete "+mapC+"["+keyC+"]", del.Pos(), "deleted only while the map still holds the statement this goroutine holds", "the entry is deleted by key without checking that the map still holds the statement this goroutine inserted or executed: a newer entry for the same text (another goroutine's, after a transaction-bound miss, an eviction or a Reset) is dropped without being closed - it leaks, and the text is prepared again in the same generation")
			return true
		})
	}

	for _, name := range []string{"Close", "Reset"} {
		f := p.MethodDecl(pkgGorm, "PreparedStmtDB", name)
		c.Touch(f)
		finfo := f.Pkg.TypesInfo
		// loop over the map starting goroutines that wait for prepared before closing
		okLoop := false
		ast.Inspect(f.Body, func(n ast.Node) bool {
			rs, ok := n.(*ast.RangeStmt)
			if !ok || !fieldSel(finfo, rs.X, la.stmtsF) {
				return true
			}
			for _, lit := range p.Lits(f) {
				if !(rs.Body.Pos() <= lit.Lit.Pos() && lit.Lit.End() <= rs.Body.End()) {
					continue
				}
				lgs := p.Guards(lit, conf)
				for _, call := range callsIn(lit) {
					if fn, _ := typeutil.Callee(finfo, call).(*types.Func); fn == sqlStmtClose {
						facts, live := lgs.At(call.Pos())
						if live && facts.Has(fEvent("recv-prepared")) {
							okLoop = true
						} else {
							re.Bad(lit.Name(), "Close before prepared", call.Pos(), "a cached statement is closed without first waiting for its preparation to finish")
						}
					}
				}
			}
			return true
		})
		re.Check(okLoop, f.Name(), "closes every entry after its prepared channel", f.Body.Pos(), "range over Stmts, wait, close", name+" does not close every cached statement after waiting for its preparation")
		// the map is dropped/replaced afterwards
		replaced := false
		ast.Inspect(f.Body, func(n ast.Node) bool {
			if as, ok := n.(*ast.AssignStmt); ok {
				for _, l := range as.Lhs {
					if fieldSel(finfo, l, la.stmtsF) {
						replaced = true
					}
				}
			}
			return true
		})
		re.Check(replaced, f.Name(), "map dropped/replaced", f.Body.Pos(), "Stmts reassigned under the lock", name+" keeps the old map: closed statements stay cached")
	}

	// ---- C14.tx ----
	rt := c.Rule("C14.tx", "transaction wrappers prepare on the transaction (isTransaction = true), execute only through Tx.StmtContext; BeginTx wraps with the same cache", 8)
	prepareM := prep.Obj
	for i := 0; i < pstx.NumMethods(); i++ {
		m := pstx.Method(i)
		f := p.SrcOpt(m)
		if f == nil {
			continue
		}
		finfo := f.Pkg.TypesInfo
		recv := recvName(f)
		for _, call := range callsIn(f) {
			fn, _ := typeutil.Callee(finfo, call).(*types.Func)
			if fn == prepareM && len(call.Args) == 4 {
				c.Touch(f)
				isTx, _ := constBool(finfo, call.Args[2])
				rt.Check(canon(finfo, call.Args[1]) == recv+".Tx" && isTx, f.Name(), "prepare on the transaction", call.Pos(), "conn = tx.Tx, isTransaction = true", "the transaction wrapper prepares on "+exprShort(call.Args[1])+" with isTransaction="+exprShort(call.Args[2])+": the statement is not bound to this transaction")
			}
			if k, iface, ok := p.driverCallee(fn); ok && k == DrvStmt && !iface {
				c.Touch(f)
				rt.Check(boundToTx(p, f, call), f.Name(), fn.Name()+" through Tx.StmtContext", call.Pos(), "statement re-bound to the transaction", "the cached statement is executed directly inside a transaction wrapper (on some path): it runs outside the transaction")
			}
		}
	}
	for i := 0; i < psdb.NumMethods(); i++ {
		m := psdb.Method(i)
		f := p.SrcOpt(m)
		if f == nil {
			continue
		}
		finfo := f.Pkg.TypesInfo
		for _, call := range callsIn(f) {
			fn, _ := typeutil.Callee(finfo, call).(*types.Func)
			if fn == prepareM && len(call.Args) == 4 {
				c.Touch(f)
				isTx, okc := constBool(finfo, call.Args[2])
				rt.Check(okc && !isTx && canon(finfo, call.Args[1]) == recvName(f)+".ConnPool", f.Name(), "prepare on the pool", call.Pos(), "conn = db.ConnPool, isTransaction = false", "the pool wrapper prepares with "+exprShort(call.Args[1])+"/"+exprShort(call.Args[2]))
			}
		}
	}
	bt := p.MethodDecl(pkgGorm, "PreparedStmtDB", "BeginTx")
	c.Touch(bt)
	{
		binfo := bt.Pkg.TypesInfo
		lits := litsOfType(binfo, bt.Body, pstx, false)
		for _, lit := range lits {
			v := compositeField(lit, "PreparedStmtDB")
			rt.Check(v != nil && canon(binfo, v) == recvName(bt), bt.Name(), "transaction shares the cache", lit.Pos(), "PreparedStmtDB: receiver", "BeginTx wraps the transaction with a different cache than the pool's")
		}
		rt.Check(len(lits) >= 1, bt.Name(), "wraps transactions", bt.Body.Pos(), "returns PreparedStmtTX", "BeginTx no longer wraps the transaction in a PreparedStmtTX")
	}
}

// rootIdentOf: the identifier an address/selector/index/deref expression is rooted at.
func rootIdentOf(e ast.Expr) *ast.Ident {
	for {
		switch x := unparen(e).(type) {
		case *ast.Ident:
			return x
		case *ast.SelectorExpr:
			e = x.X
		case *ast.StarExpr:
			e = x.X
		case *ast.UnaryExpr:
			e = x.X
		case *ast.IndexExpr:
			e = x.X
		default:
			return nil
		}
	}
}

// Lookup2 resolves a package-level object of a dependency package.
func (p *Program) Lookup2(path, name string) types.Object {
	for _, pk := range p.All {
		if pk.PkgPath == path {
			if o := pk.Types.Scope().Lookup(name); o != nil {
				return o
			}
		}
	}
	fatalf("anchor: %s.%s not found", path, name)
	return nil
}

// siblingLocked: statement st sits between X.Mux.Lock() and X.Mux.Unlock() in the same statement list.
func siblingLocked(f *FuncSrc, info *types.Info, st ast.Stmt, la *lockAnalysis) bool {
	parents := parentMap(f.Body)
	blk, ok := parents[st].(*ast.BlockStmt)
	if !ok {
		return false
	}
	isMuxCall := func(s ast.Stmt, name string) bool {
		es, ok := s.(*ast.ExprStmt)
		if !ok {
			return false
		}
		ce, ok := es.X.(*ast.CallExpr)
		if !ok {
			return false
		}
		fn, _ := typeutil.Callee(info, ce).(*types.Func)
		sel, _ := ce.Fun.(*ast.SelectorExpr)
		return fn == la.rw[name] && sel != nil && fieldSel(info, sel.X, la.muxF)
	}
	idx := -1
	for i, s := range blk.List {
		if s == st {
			idx = i
		}
	}
	if idx < 0 {
		return false
	}
	before, after := false, false
	for i := idx - 1; i >= 0; i-- {
		if isMuxCall(blk.List[i], "Unlock") {
			break
		}
		if isMuxCall(blk.List[i], "Lock") {
			before = true
			break
		}
	}
	for i := idx + 1; i < len(blk.List); i++ {
		if isMuxCall(blk.List[i], "Lock") {
			break
		}
		if isMuxCall(blk.List[i], "Unlock") {
			after = true
			break
		}
	}
	return before && after
}

// boundToTx: the *sql.Stmt on which call executes is, on every path, the result of Tx.StmtContext -
// directly, through a local, or through a helper of the repository all of whose returns are.
func boundToTx(p *Program, f *FuncSrc, call *ast.CallExpr) bool {
	info := f.Pkg.TypesInfo
	sel, _ := call.Fun.(*ast.SelectorExpr)
	if sel == nil {
		return false
	}
	var isBound func(g *FuncSrc, e ast.Expr, depth int) bool
	isBound = func(g *FuncSrc, e ast.Expr, depth int) bool {
		if depth > 3 {
			return false
		}
		ginfo := g.Pkg.TypesInfo
		e = unparen(e)
		if id, ok := e.(*ast.Ident); ok {
			if def := resolveLocal(g, id); def != nil {
				return isBound(g, def, depth+1)
			}
			return false
		}
		rc, ok := e.(*ast.CallExpr)
		if !ok {
			return false
		}
		rfn, _ := typeutil.Callee(ginfo, rc).(*types.Func)
		if rfn == nil {
			return false
		}
		if rk, _, ok := p.driverCallee(rfn); ok && rk == DrvStmtCtx {
			return true
		}
		helper := p.SrcOpt(rfn)
		if helper == nil {
			return false
		}
		all, n := true, 0
		ast.Inspect(helper.Body, func(x ast.Node) bool {
			if _, ok := x.(*ast.FuncLit); ok {
				return false
			}
			if rs, ok := x.(*ast.ReturnStmt); ok && len(rs.Results) >= 1 {
				n++
				if !isBound(helper, rs.Results[0], depth+1) {
					all = false
				}
			}
			return true
		})
		return all && n > 0
	}
	_ = info
	return isBound(f, sel.X, 0)
}

// checkC14Publish: the in-progress entry is complete when it becomes visible.  Other goroutines read the
// entry's Transaction flag in the cache-hit condition *before* they wait for the preparation, so every
// field a hit condition reads has its final value in the literal that is inserted into the map (the flag
// equals the caller's isTransaction) and is never written after the insertion.
func checkC14Publish(c *Ctx, prefix string, la *lockAnalysis) {
	p := c.P
	r := c.Rule(prefix+".publish", "fields of a cache entry that hit conditions read before waiting are final when the entry is inserted", 2)
	prep := p.MethodDecl(pkgGorm, "PreparedStmtDB", "prepare")
	c.Touch(prep)
	info := prep.Pkg.TypesInfo
	stmtT := p.Named(pkgGorm, "Stmt")
	// fields read through a looked-up entry inside if-conditions (before any receive)
	readBeforeWait := map[*types.Var]bool{}
	entryObjs := map[types.Object]bool{}
	okObjs := map[types.Object]bool{}
	ast.Inspect(prep.Body, func(n ast.Node) bool {
		as, ok := n.(*ast.AssignStmt)
		if !ok || len(as.Rhs) != 1 || len(as.Lhs) != 2 {
			return true
		}
		if ix, ok := unparen(as.Rhs[0]).(*ast.IndexExpr); ok && fieldSel(info, ix.X, la.stmtsF) {
			if id, ok := as.Lhs[0].(*ast.Ident); ok && id.Name != "_" {
				entryObjs[info.ObjectOf(id)] = true
			}
			if id, ok := as.Lhs[1].(*ast.Ident); ok && id.Name != "_" {
				okObjs[info.ObjectOf(id)] = true
			}
		}
		return true
	})
	ast.Inspect(prep.Body, func(n ast.Node) bool {
		ifs, ok := n.(*ast.IfStmt)
		if !ok {
			return true
		}
		// a hit condition: it tests the comma-ok result of the look-up (evaluated before any waiting)
		isHit := false
		ast.Inspect(ifs.Cond, func(x ast.Node) bool {
			if id, ok := x.(*ast.Ident); ok && okObjs[info.Uses[id]] {
				isHit = true
			}
			return true
		})
		if !isHit {
			return true
		}
		ast.Inspect(ifs.Cond, func(x ast.Node) bool {
			if sel, ok := x.(*ast.SelectorExpr); ok {
				if root, ok := unparen(sel.X).(*ast.Ident); ok && entryObjs[info.Uses[root]] {
					if v, _ := info.Uses[sel.Sel].(*types.Var); v != nil && v.IsField() {
						readBeforeWait[v] = true
					}
				}
			}
			return true
		})
		return true
	})
	if len(readBeforeWait) == 0 {
		r.Bad(prep.Name(), "hit-condition fields", prep.Body.Pos(), "no field of a cache entry is read by a hit condition; rule lost its anchor")
		return
	}
	// the insertion and the literal of the inserted entry
	var insert *ast.AssignStmt
	var inserted types.Object
	ast.Inspect(prep.Body, func(n ast.Node) bool {
		if as, ok := n.(*ast.AssignStmt); ok && len(as.Lhs) == 1 && len(as.Rhs) == 1 {
			if ix, ok := unparen(as.Lhs[0]).(*ast.IndexExpr); ok && fieldSel(info, ix.X, la.stmtsF) {
				insert = as
				if root := rootIdentOf(as.Rhs[0]); root != nil {
					inserted = info.Uses[root]
				}
			}
		}
		return true
	})
	if insert == nil || inserted == nil {
		r.Bad(prep.Name(), "insertion", prep.Body.Pos(), "no insertion of a named entry into the cache map found")
		return
	}
	var lit *ast.CompositeLit
	for _, l := range litsOfType(info, prep.Body, stmtT, false) {
		// the literal that initialises the inserted variable
		for _, d := range localDefs(prep, inserted.Name(), insert.Pos()) {
			if containsNode(d.rhs, l) {
				lit = l
			}
		}
	}
	// the bool parameter that says whether the caller is a transaction
	txParam := ""
	for _, fl := range prep.Type.Params.List {
		for _, nm := range fl.Names {
			if tv, ok := info.Types[fl.Type]; ok && types.Identical(tv.Type, types.Typ[types.Bool]) {
				txParam = nm.Name
			}
		}
	}
	gs := p.Guards(prep, nil)
	var names []string
	for v := range readBeforeWait {
		names = append(names, v.Name())
	}
	sort.Strings(names)
	for _, name := range names {
		var fv *types.Var
		for v := range readBeforeWait {
			if v.Name() == name {
				fv = v
			}
		}
		// initial value in the literal
		var init ast.Expr
		if lit != nil {
			init = compositeField(lit, name)
		}
		okInit := init != nil
		if okInit && name == "Transaction" {
			okInit = txParam != "" && canon(info, init) == txParam
		}
		r.Check(okInit, prep.Name(), "entry."+name+" final at publication", insert.Pos(), "set in the literal that is inserted", "the in-progress entry is inserted into the cache before its "+name+" field has its final value: a goroutine that looks the text up meanwhile evaluates the hit condition on the zero value (a transaction-bound statement is handed to a caller outside the transaction, or the text is prepared twice)")
		// no store after the insertion
		late := token.NoPos
		ast.Inspect(prep.Body, func(n ast.Node) bool {
			as, ok := n.(*ast.AssignStmt)
			if !ok {
				return true
			}
			for _, l := range as.Lhs {
				if sel, ok := unparen(l).(*ast.SelectorExpr); ok {
					if v, _ := info.Uses[sel.Sel].(*types.Var); v == fv {
						if root := rootIdentOf(sel.X); root != nil && info.Uses[root] == inserted {
							if as.Pos() > insert.Pos() && gs.Reaches(insert.Pos(), func(nd ast.Node) bool { return nd == ast.Node(as) }) {
								late = as.Pos()
							}
						}
					}
				}
			}
			return true
		})
		r.Check(late == token.NoPos, prep.Name(), "entry."+name+" not written after publication", insert.Pos(), "no store reachable from the insertion", "the published entry's "+name+" field is written after the insertion (at "+p.Pos(late)+"): concurrent look-ups read it while it changes")
	}
}
