package main

// C09 — an Update or Delete without any condition never executes.

import (
	"go/ast"
	"go/token"
	"go/types"
	"strings"

	"golang.org/x/tools/go/types/typeutil"
)

func init() {
	register("C09", checkC09,
		"Structural clauses of C09 decided on every path/site of the current source: (dominates) every driver call of the update and delete pipelines is dominated by a call of the missing-WHERE guard and by a db.Error == nil test made after that call; (decision) path enumeration over the guard function: some path raises ErrMissingWhereClause, and every path that does not raise it carries AllowGlobalUpdate, an existing error, or 'WHERE present and (soft-delete marker absent or more than one expression)'; (empty) every WHERE clause added from user conditions or model keys is guarded by non-emptiness of its expression list / non-zero key, and BuildCondition returns a non-nil list only under len(conds) > 0 or a non-empty string test; (marker) the soft-delete filter is always paired with the marker the guard reads. NOT decided: whether a user condition is effective at run time, zero-ness of key values.")
}

// guardFuncs returns the functions of package callbacks that raise ErrMissingWhereClause.
func missingWhereGuards(p *Program) map[*types.Func]*FuncSrc {
	errVar := p.Lookup(pkgGorm, "ErrMissingWhereClause")
	out := map[*types.Func]*FuncSrc{}
	for _, f := range p.FuncsOf(pkgCallbacks, pkgGorm) {
		info := f.Pkg.TypesInfo
		ast.Inspect(f.Body, func(n ast.Node) bool {
			if _, ok := n.(*ast.FuncLit); ok {
				return false
			}
			if id, ok := n.(*ast.Ident); ok && info.Uses[id] == errVar {
				if r := rootFunc(f); r.Obj != nil {
					out[r.Obj] = r
				}
			}
			if sel, ok := n.(*ast.SelectorExpr); ok && info.Uses[sel.Sel] == errVar {
				if r := rootFunc(f); r.Obj != nil {
					out[r.Obj] = r
				}
			}
			return true
		})
	}
	return out
}

func isAddErrorOf(info *types.Info, call *ast.CallExpr, errObj types.Object) bool {
	fn, _ := typeutil.Callee(info, call).(*types.Func)
	if fn == nil || fn.Name() != "AddError" || len(call.Args) != 1 {
		return false
	}
	switch a := unparen(call.Args[0]).(type) {
	case *ast.Ident:
		return info.Uses[a] == errObj
	case *ast.SelectorExpr:
		return info.Uses[a.Sel] == errObj
	}
	return false
}

func checkC09(c *Ctx) {
	p := c.P
	// a key supplied through Model() or through the deleted value is a condition: both delete builders must pick it up,
	// otherwise the chain is rejected although it supplied one (same rule as C02.pk-sources)
	checkC09ScopesDrained(c)
	// a key with one zero part is still a condition (same rule as C11.key-nonzero)
	checkKeyNonZero(c, c.Rule("C09.key-any-part", "a (composite) key of the deleted value counts as a condition when ANY part is non-zero: the flag accumulates over all key fields", 2))
	checkSessionFlags(c, c.Rule("C09.session-flags", "Session copies each option onto the same-named configuration field (AllowGlobalUpdate is turned on only by a session that asks for it)", 5))
	checkPkSources(c, c.Rule("C09.pk-sources", "both delete builders turn the key of the deleted value AND of Model() into WHERE conditions (a chain that supplies a key is not rejected)", 2))
	execs, _ := executorSet(p)
	guards := missingWhereGuards(p)
	if len(guards) == 0 {
		fatalf("anchor: no function raises ErrMissingWhereClause")
	}
	errVar := p.Lookup(pkgGorm, "ErrMissingWhereClause")

	// ---- C09.dominates ----
	rd := c.Rule("C09.dominates", "GUARD(driver call of the update/delete pipelines, missing-WHERE guard was called) and GUARD(site, db.Error == nil tested after that call)", 4)
	guardNames := map[string]bool{}
	for fn := range guards {
		guardNames[fn.FullName()] = true
	}
	conf := &GuardConfig{Name: "c09", CallKills: func(info *types.Info, call *ast.CallExpr) []string {
		if guardNames[calleeName(info, call)] && len(call.Args) >= 1 {
			if pth, ok := selectorPath(info, call.Args[0]); ok {
				return []string{pth + ".Error"}
			}
		}
		return nil
	}}
	for _, s := range p.DriverSites() {
		reg := execs[s.F]
		if reg == nil || (reg.Pipeline != "update" && reg.Pipeline != "delete") || s.Kind != DrvStmt {
			continue
		}
		c.Touch(s.F)
		db := dbParamName(p, s.F)
		desc := "driver:" + s.Callee.Name() + "@" + reg.Pipeline + "/" + reg.Name
		if r := rootFunc(s.F); r.Obj != nil && guards[r.Obj] != nil {
			rd.Unknown(s.F.Name(), desc, s.Call.Pos(), "driver call inside the guard function itself; rule cannot decide an inlined guard")
			continue
		}
		facts, ok := p.Guards(s.F, conf).At(s.Call.Pos())
		if !ok {
			rd.Unknown(s.F.Name(), desc, s.Call.Pos(), "site not in a live block")
			continue
		}
		called := false
		for g := range guardNames {
			if facts.Has(fCalled(g)) {
				called = true
			}
		}
		var problems []string
		if !called {
			problems = append(problems, "not dominated by a call of the missing-WHERE guard")
		}
		if !facts.Has(fNil(db + ".Error")) {
			problems = append(problems, "no "+db+".Error == nil test between the guard and the driver call")
		}
		rd.Check(len(problems) == 0, s.F.Name(), desc, s.Call.Pos(), "guard called and error re-tested before the statement is sent", strings.Join(problems, "; "), "facts: "+strings.Join(facts.List(), ", "))
	}

	// ---- C09.order ----
	// "A chain that does supply a condition is never rejected": the guard must see every condition the
	// executor itself contributes (model keys, soft-delete modifiers), i.e. it runs after all of them.
	rord := c.Rule("C09.order", "ORDER: in the update/delete executors no WHERE clause / model clause is added after the missing-WHERE guard ran", 2)
	{
		stmtT0 := p.Named(pkgGorm, "Statement")
		addClause0 := p.Method(stmtT0, "AddClause")
		for f, reg := range execs {
			if f != reg.Fn || (reg.Pipeline != "update" && reg.Pipeline != "delete") {
				continue
			}
			info := f.Pkg.TypesInfo
			for _, call := range callsIn(f) {
				if !guardNames[calleeName(info, call)] {
					continue
				}
				c.Touch(f)
				late := p.Guards(f, nil).Reaches(call.Pos(), func(n ast.Node) bool {
					found := false
					ast.Inspect(n, func(x ast.Node) bool {
						if ce, ok := x.(*ast.CallExpr); ok {
							fn, _ := typeutil.Callee(info, ce).(*types.Func)
							if fn == addClause0 || (fn != nil && (fn.Name() == "ConvertToAssignments" || fn.Name() == "Build") && fn.Pkg() != nil && strings.HasPrefix(fn.Pkg().Path(), pkgGorm)) {
								found = true
							}
						}
						return true
					})
					return found
				})
				rord.Check(!late, f.Name(), "guard runs after the statement is complete", call.Pos(), "no clause is added or built after the guard", "clauses are still added (or the statement is built) after the missing-WHERE guard ran in "+reg.Name+": the guard judges an incomplete statement - conditions from the model's primary key / soft-delete rewrite are not seen (false ErrMissingWhereClause) or added too late")
			}
		}
	}

	// ---- C09.decision ----
	rdec := c.Rule("C09.decision", "path enumeration over the missing-WHERE guard: raises on some path; every non-raising path is justified", 3)
	cfgT := p.Named(pkgGorm, "Config")
	_ = p.Field(cfgT, "AllowGlobalUpdate")
	for _, gf := range guards {
		if gf.Pkg.PkgPath != pkgCallbacks {
			continue
		}
		c.Touch(gf)
		info := gf.Pkg.TypesInfo
		db := dbParamName(p, gf)
		paths, ok := p.EnumPaths(gf, nil, 4096)
		if !ok {
			rdec.Unknown(gf.Name(), "paths", gf.Body.Pos(), "too many paths")
			continue
		}
		raising := 0
		markerKeys := map[string]bool{}
		for _, pr := range paths {
			call := pathHasCall(info, pr, func(ce *ast.CallExpr) bool { return isAddErrorOf(info, ce, errVar) })
			if call != nil {
				raising++
				continue
			}
			// justification
			fs := pr.Facts
			just := ""
			switch {
			case fs.Has(fTrue(db + ".Config.AllowGlobalUpdate")):
				just = "AllowGlobalUpdate"
			case fs.Has(fNonNil(db + ".Error")):
				just = "error already set"
			default:
				hasWhere := fs.Has(fTrue(fHas(db + `.Statement.Clauses["WHERE"]`)))
				markerAbsent, moreThanOne := false, false
				for f := range fs {
					if strings.Contains(f, ")@") {
						continue // positional twin of a has()/is() atom
					}
					if strings.HasPrefix(f, "F:has("+db+".Statement.Clauses[") && !strings.Contains(f, `["WHERE"]`) {
						markerAbsent = true
						markerKeys[f[len("F:has("+db+".Statement.Clauses["):len(f)-2]] = true
					}
					if strings.HasPrefix(f, "T:has("+db+".Statement.Clauses[") && !strings.Contains(f, `["WHERE"]`) {
						markerKeys[f[len("T:has("+db+".Statement.Clauses["):len(f)-2]] = true
					}
					if strings.HasPrefix(f, "T:len(") && strings.HasSuffix(f, ".Exprs) > 1") {
						moreThanOne = true
					}
					if strings.HasPrefix(f, "T:len(") && strings.HasSuffix(f, ".Exprs) >= 2") {
						moreThanOne = true
					}
				}
				if hasWhere && (markerAbsent || moreThanOne) {
					just = "WHERE present and (marker absent or >1 expressions)"
				}
			}
			rdec.Check(just != "", gf.Name(), "non-raising path to "+p.Pos(pr.Exit), pr.Exit, just,
				"a path through the guard returns without ErrMissingWhereClause although neither AllowGlobalUpdate, an earlier error, nor a real WHERE condition (beyond the soft-delete filter) is established",
				"path facts: "+strings.Join(fs.List(), ", "))
		}
		rdec.Check(raising > 0, gf.Name(), "raising path exists", gf.Body.Pos(), "ErrMissingWhereClause is raised on some path", "no path raises ErrMissingWhereClause")
		// the marker the guard reads is the marker soft delete writes
		written := softDeleteMarkerKeys(p)
		for k := range markerKeys {
			rdec.Check(written[k], gf.Name(), "marker "+k, gf.Body.Pos(), "marker key is the one the soft-delete filter stores", "the guard reads marker "+k+" which the soft-delete filter never stores (stores: "+strings.Join(keysOf(written), ",")+")")
		}
		rdec.Check(len(markerKeys) > 0, gf.Name(), "reads marker", gf.Body.Pos(), "guard reads the soft-delete marker", "the guard never looks at the soft-delete marker: the automatic filter would count as a condition")
	}

	// ---- C09.empty ----
	checkEmptyForms(c, c.Rule("C09.empty", "every WHERE clause added from user conditions or model keys is guarded by non-emptiness / non-zero key; BuildCondition yields nothing for empty input", 14))

	checkC09AssocDelete(c)

	// ---- C09.marker ----
	rm := c.Rule("C09.marker", "PAIR(soft-delete filter added, marker stored) in the soft-delete query modifier", 2)
	sdq := p.MethodDecl(pkgGorm, "SoftDeleteQueryClause", "ModifyStatement")
	c.Touch(sdq)
	checkSoftDeletePair(p, rm, sdq)
	checkFilterOnce(c, rm)
	// the marker travels with the filter: deriving a statement copies every entry of Clauses
	checkC06Clone(c, rm, map[string]bool{"Clauses": true})
}

func keysOf(m map[string]bool) []string {
	var out []string
	for k := range m {
		out = append(out, k)
	}
	return out
}

func exprShort(e ast.Expr) string {
	if e == nil {
		return ""
	}
	s := types.ExprString(e)
	if len(s) > 60 {
		s = s[:57] + "..."
	}
	return s
}

// whereGuarded decides whether the Exprs value of a Where literal is guarded.
func whereGuarded(f *FuncSrc, info *types.Info, exprs ast.Expr, facts factSet) (bool, string) {
	if exprs == nil {
		return false, ""
	}
	nonEmpty := func(e ast.Expr) (bool, string) {
		v := canon(info, e)
		if facts.Has(fFalse("len(" + v + ") == 0")) {
			return true, "len(" + v + ") > 0"
		}
		return false, ""
	}
	switch x := unparen(exprs).(type) {
	case *ast.Ident:
		return nonEmpty(x)
	case *ast.CompositeLit:
		if len(x.Elts) == 0 {
			return false, ""
		}
		for _, el := range x.Elts {
			el = unparen(el)
			okEl, why := false, ""
			switch e := el.(type) {
			case *ast.CallExpr:
				// clause.Not(conds...), clause.Or(clause.And(conds...))
				var find func(c *ast.CallExpr) ast.Expr
				find = func(c *ast.CallExpr) ast.Expr {
					if c.Ellipsis.IsValid() && len(c.Args) > 0 {
						return c.Args[len(c.Args)-1]
					}
					for _, a := range c.Args {
						if ic, ok := unparen(a).(*ast.CallExpr); ok {
							if r := find(ic); r != nil {
								return r
							}
						}
					}
					return nil
				}
				if v := find(e); v != nil {
					okEl, why = nonEmpty(v)
				}
			case *ast.CompositeLit:
				// clause.IN{Values: values} / clause.Eq{Value: v}
				if v := compositeField(e, "Values"); v != nil {
					okEl, why = nonEmpty(v)
					if !okEl {
						// guarded by a negative zero test (bool local named by comma-ok of ValueOf)
						okEl, why = zeroGuard(f, facts, exprs.Pos())
					}
				} else if compositeField(e, "Value") != nil {
					okEl, why = zeroGuard(f, facts, exprs.Pos())
				}
			}
			if !okEl {
				return false, ""
			}
			_ = why
		}
		return true, "every element is built from a non-empty / non-zero source"
	}
	return false, ""
}

func zeroGuard(f *FuncSrc, facts factSet, pos token.Pos) (bool, string) {
	// false(z) where z is the "is zero" result of a field.ValueOf call
	if localFact(f, facts, false, pos, defIsZeroOfValueOf) {
		return true, "value is not zero (second result of field.ValueOf)"
	}
	return false, ""
}

// softDeleteMarkerKeys returns the constant keys stored into Statement.Clauses with an empty
// clause value by the soft-delete query modifier.
func softDeleteMarkerKeys(p *Program) map[string]bool {
	out := map[string]bool{}
	sdq := p.MethodDecl(pkgGorm, "SoftDeleteQueryClause", "ModifyStatement")
	info := sdq.Pkg.TypesInfo
	clausesF := p.Field(p.Named(pkgGorm, "Statement"), "Clauses")
	clauseT := p.Named(pkgClause, "Clause")
	ast.Inspect(sdq.Body, func(n ast.Node) bool {
		as, ok := n.(*ast.AssignStmt)
		if !ok || len(as.Lhs) != 1 || len(as.Rhs) != 1 {
			return true
		}
		ix, ok := unparen(as.Lhs[0]).(*ast.IndexExpr)
		if !ok || !fieldSel(info, ix.X, clausesF) {
			return true
		}
		lit, ok := unparen(as.Rhs[0]).(*ast.CompositeLit)
		if !ok || len(lit.Elts) != 0 {
			return true
		}
		if tv, ok := info.Types[lit]; !ok || !types.Identical(tv.Type, clauseT) {
			return true
		}
		if k, ok := constString(info, ix.Index); ok {
			out[`"`+k+`"`] = true
		}
		return true
	})
	return out
}

// checkSoftDeletePair: the filter AddClause and the marker store always occur together.
func checkSoftDeletePair(p *Program, r *Rule, sdq *FuncSrc) {
	info := sdq.Pkg.TypesInfo
	stmtT := p.Named(pkgGorm, "Statement")
	addClause := p.Method(stmtT, "AddClause")
	clausesF := p.Field(stmtT, "Clauses")
	whereT := p.Named(pkgClause, "Where")
	markers := softDeleteMarkerKeys(p)
	isMarkerStore := func(n ast.Node) bool {
		as, ok := n.(*ast.AssignStmt)
		if !ok || len(as.Lhs) != 1 {
			return false
		}
		ix, ok := unparen(as.Lhs[0]).(*ast.IndexExpr)
		if !ok || !fieldSel(info, ix.X, clausesF) {
			return false
		}
		k, ok := constString(info, ix.Index)
		return ok && markers[`"`+k+`"`]
	}
	gs := p.Guards(sdq, nil)
	nFilter := 0
	for _, call := range callsIn(sdq) {
		fn, _ := typeutil.Callee(info, call).(*types.Func)
		if fn != addClause || len(call.Args) != 1 {
			continue
		}
		lit, ok := unparen(call.Args[0]).(*ast.CompositeLit)
		if !ok {
			continue
		}
		if tv, ok := info.Types[lit]; !ok || !types.Identical(tv.Type, whereT) {
			continue
		}
		nFilter++
		okp, bad := gs.MustPass(call.Pos(), isMarkerStore)
		r.Check(okp, sdq.Name(), "filter->marker", call.Pos(), "every path after adding the filter stores the marker", "the soft-delete filter is added but a path to "+p.Pos(bad)+" does not store the marker: the guard would count the filter as a user condition")
	}
	// marker store dominated by the filter
	var stores []token.Pos
	ast.Inspect(sdq.Body, func(n ast.Node) bool {
		if isMarkerStore(n) {
			stores = append(stores, n.Pos())
		}
		return true
	})
	for _, pos := range stores {
		facts, ok := gs.At(pos)
		r.Check(ok && facts.Has(fCalled(addClause.FullName())), sdq.Name(), "marker<-filter", pos, "marker stored only after the filter was added", "the soft-delete marker is stored on a path where the filter was not added: an unconditional update would pass the guard... and see deleted rows")
	}
	if nFilter == 0 {
		r.Bad(sdq.Name(), "filter", sdq.Body.Pos(), "soft-delete query modifier adds no WHERE filter")
	}
}

// checkEmptyForms: empty condition forms add no clause (shared by C09.empty and C02.empty).
func checkEmptyForms(c *Ctx, re *Rule) {
	p := c.P
	re.Exempt("gorm.(*DB).Clauses", "passes only clause.Expression values; BuildCondition keeps every non-nil one, and an explicit empty clause.Where from the caller is the caller's statement")
	re.Exempt("gorm.(SoftDeleteQueryClause).ModifyStatement", "the soft-delete filter is a one-element literal by construction; it is excluded from the guard's count through the marker (C09.marker)")
	stmtT := p.Named(pkgGorm, "Statement")
	addClause := p.Method(stmtT, "AddClause")
	whereT := p.Named(pkgClause, "Where")
	for _, f := range p.FuncsOf(pkgGorm, pkgCallbacks) {
		info := f.Pkg.TypesInfo
		for _, call := range callsIn(f) {
			fn, _ := typeutil.Callee(info, call).(*types.Func)
			if fn != addClause || len(call.Args) != 1 {
				continue
			}
			lit, ok := unparen(call.Args[0]).(*ast.CompositeLit)
			if !ok {
				continue
			}
			if tv, ok := info.Types[lit]; !ok || !types.Identical(tv.Type, whereT) {
				continue
			}
			c.Touch(f)
			if re.IsExempt(rootFunc(f).Name()) {
				continue
			}
			exprs := compositeField(lit, "Exprs")
			facts, live := p.Guards(f, nil).At(call.Pos())
			desc := "AddClause(Where{" + exprShort(exprs) + "})"
			if !live {
				re.Unknown(f.Name(), desc, call.Pos(), "site not live")
				continue
			}
			okGuard, why := whereGuarded(f, info, exprs, facts)
			re.Check(okGuard, f.Name(), desc, call.Pos(), why, "a WHERE clause is added without a dominating non-emptiness / non-zero test of what it is built from: an empty condition would count as a condition",
				"facts: "+strings.Join(facts.List(), ", "))
		}
	}
	// BuildCondition returns
	bc := p.MethodDecl(pkgGorm, "Statement", "BuildCondition")
	c.Touch(bc)
	{
		info := bc.Pkg.TypesInfo
		gs := p.Guards(bc, nil)
		q := paramName(bc, 0)
		ast.Inspect(bc.Body, func(n ast.Node) bool {
			if _, ok := n.(*ast.FuncLit); ok {
				return false
			}
			rs, ok := n.(*ast.ReturnStmt)
			if !ok || len(rs.Results) != 1 {
				return true
			}
			if isNilIdent(info, rs.Results[0]) {
				return true
			}
			facts, live := gs.At(rs.Pos())
			if !live {
				return true
			}
			lit, isLit := unparen(rs.Results[0]).(*ast.CompositeLit)
			desc := "return " + exprShort(rs.Results[0])
			if !isLit {
				re.Bad(bc.Name(), desc, rs.Pos(), "BuildCondition returns a non-literal, non-nil value; rule cannot see that it is non-empty only for non-empty input")
				return true
			}
			okg, why := false, ""
			for _, el := range lit.Elts {
				// element built from conds... -> need len(conds) > 0
				if ce, ok := unparen(el).(*ast.CallExpr); ok && ce.Ellipsis.IsValid() && len(ce.Args) > 0 {
					v := canon(info, ce.Args[len(ce.Args)-1])
					if facts.Has(fFalse("len(" + v + ") == 0")) {
						okg, why = true, "len("+v+") > 0"
					}
				}
				// element built from the query string -> need a dominating non-empty-string decision
				if cl, ok := unparen(el).(*ast.CompositeLit); ok {
					for f := range facts {
						if strings.HasPrefix(f, "F:") && strings.Contains(f, ` == ""`) {
							okg, why = true, "string form: "+f
						}
					}
					_ = cl
				}
			}
			_ = q
			re.Check(okg, bc.Name(), desc, rs.Pos(), why, "BuildCondition returns a non-empty condition list on a path where neither len(conds) > 0 nor a non-empty query string was established", "facts: "+strings.Join(facts.List(), ", "))
			return true
		})
		// the bare-value fallback (`Delete(&T{}, ids)`, `Where(ids)`): an IN over the primary column is a condition only when
		// its value list is non-empty - an empty list renders `IN (NULL)` (and `IS NOT NULL` under Not), i.e. an empty
		// slice would count as a condition
		inT := p.Named(pkgClause, "IN")
		parents := parentMap(bc.Body)
		ast.Inspect(bc.Body, func(n ast.Node) bool {
			lit, ok := n.(*ast.CompositeLit)
			if !ok {
				return true
			}
			if tv, ok := info.Types[lit]; !ok || !types.Identical(tv.Type, inT) {
				return true
			}
			col := compositeField(lit, "Column")
			if col == nil || !strings.HasSuffix(canon(info, col), "PrimaryColumn") {
				return true
			}
			vals := compositeField(lit, "Values")
			if vals == nil {
				re.Bad(bc.Name(), "IN over the primary column", lit.Pos(), "IN literal without a value list")
				return true
			}
			v := canon(info, vals)
			facts, _ := gs.At(lit.Pos())
			okv := facts.Has(fFalse("len(" + v + ") == 0"))
			why := "len(" + v + ") > 0"
			if !okv {
				// the list being ranged over by an enclosing loop has at least the current element
				for cur := ast.Node(lit); cur != nil && !okv; cur = parents[cur] {
					if rs, ok := cur.(*ast.RangeStmt); ok && canon(info, rs.X) == v {
						okv, why = true, "inside `range "+v+"`"
					}
				}
			}
			re.Check(okv, bc.Name(), "IN over the primary column from "+v, lit.Pos(), why, "a bare list of values becomes `primary key IN (...)` without a dominating test that the list is non-empty: an empty slice (e.g. make([]T, 0, n)) renders IN (NULL) - or IS NOT NULL under Not - and counts as a condition", "facts: "+strings.Join(facts.List(), ", "))
			return true
		})
	}

}
