package main

// C01.byte-slice: "slices expand to one placeholder per element" has one exception in Statement.AddVar -
// a slice of bytes is a single value.  Which slices take the exception is decided by a condition on
// reflect types; the rule evaluates that condition on the three kinds of element type that matter
//     u8     the predeclared uint8/byte
//     named  a defined type whose kind is uint8 (type Status uint8) - an ordinary enum list
//     other  anything else
// by interpreting the atoms it understands (identity with the uint8 type, Kind() == reflect.Uint8,
// PkgPath() == "", Name() == "uint8") and leaving every other atom free.  Required: with a non-empty
// slice the whole-value arm is taken for u8 and never for named/other.

import (
	"go/ast"
	"go/token"
	"go/types"
	"strings"

	"golang.org/x/tools/go/types/typeutil"
)

func checkC01ByteSlice(c *Ctx) {
	p := c.P
	r := c.Rule("C01.byte-slice", "AddVar binds a non-empty slice as ONE value only when its element type is the predeclared byte type", 1)
	av := p.MethodDecl(pkgGorm, "Statement", "AddVar")
	c.Touch(av)
	info := av.Pkg.TypesInfo
	varsF := p.Field(p.Named(pkgGorm, "Statement"), "Vars")
	reflectType := p.StdNamed("reflect", "Type")
	typeOf := p.StdFunc("reflect", "TypeOf")
	uint8Kind := p.Lookup2("reflect", "Uint8")
	isReflectType := func(e ast.Expr) bool {
		tv, ok := info.Types[e]
		return ok && types.Identical(tv.Type, reflectType)
	}
	// does e denote the predeclared uint8 type (reflect.TypeOf(uint8(0)/byte(0)) or a package variable initialised so)?
	var denotesU8 func(e ast.Expr, depth int) bool
	denotesU8 = func(e ast.Expr, depth int) bool {
		e = unparen(e)
		if ce, ok := e.(*ast.CallExpr); ok && len(ce.Args) == 1 {
			if fn, _ := typeutil.Callee(info, ce).(*types.Func); fn == typeOf {
				if tv, ok := info.Types[ce.Args[0]]; ok {
					return types.Identical(tv.Type, types.Typ[types.Uint8])
				}
			}
			return false
		}
		var obj types.Object
		switch x := e.(type) {
		case *ast.Ident:
			obj = info.Uses[x]
		case *ast.SelectorExpr:
			obj = info.Uses[x.Sel]
		}
		v, _ := obj.(*types.Var)
		if v == nil || depth > 2 || v.Pkg() == nil {
			return false
		}
		if v.Parent() != v.Pkg().Scope() {
			// a local with a single definition
			if id, ok := e.(*ast.Ident); ok {
				if ds := localDefs(av, id.Name, id.Pos()); len(ds) == 1 {
					return denotesU8(ds[0].rhs, depth+1)
				}
			}
			return false
		}
		// package-level variable: look at its initialiser
		for _, pk := range p.All {
			if pk.Types != v.Pkg() {
				continue
			}
			for _, file := range pk.Syntax {
				for _, d := range file.Decls {
					gd, ok := d.(*ast.GenDecl)
					if !ok {
						continue
					}
					for _, sp := range gd.Specs {
						vs, ok := sp.(*ast.ValueSpec)
						if !ok {
							continue
						}
						for i, nm := range vs.Names {
							if pk.TypesInfo.Defs[nm] == v && i < len(vs.Values) {
								if ce, ok := unparen(vs.Values[i]).(*ast.CallExpr); ok && len(ce.Args) == 1 {
									if fn, _ := typeutil.Callee(pk.TypesInfo, ce).(*types.Func); fn == typeOf {
										if tv, ok := pk.TypesInfo.Types[ce.Args[0]]; ok {
											return types.Identical(tv.Type, types.Typ[types.Uint8])
										}
									}
								}
							}
						}
					}
				}
			}
		}
		return false
	}
	methodCallName := func(e ast.Expr) string {
		if ce, ok := unparen(e).(*ast.CallExpr); ok && len(ce.Args) == 0 {
			if sel, ok := ce.Fun.(*ast.SelectorExpr); ok && isReflectType(sel.X) {
				return sel.Sel.Name
			}
		}
		return ""
	}
	// truth of an atom for element-type class cls ("u8", "named", "other"); ok=false: not understood
	atomTruth := func(e ast.Expr, cls string) (val, ok bool) {
		be, isBin := unparen(e).(*ast.BinaryExpr)
		if !isBin || be.Op != token.EQL {
			return false, false
		}
		for _, pair := range [][2]ast.Expr{{be.X, be.Y}, {be.Y, be.X}} {
			a, b := pair[0], pair[1]
			switch {
			case isReflectType(a) && denotesU8(b, 0):
				return cls == "u8", true
			case methodCallName(a) == "Kind":
				if se, isSel := unparen(b).(*ast.SelectorExpr); isSel && info.Uses[se.Sel] == uint8Kind {
					return cls == "u8" || cls == "named", true
				}
			case methodCallName(a) == "PkgPath":
				if s, isC := constString(info, b); isC && s == "" && cls != "other" {
					return cls == "u8", true
				}
			case methodCallName(a) == "Name":
				if s, isC := constString(info, b); isC && (s == "uint8" || s == "byte") {
					return cls == "u8", true
				}
			}
		}
		return false, false
	}

	parents := parentMap(av.Body)
	n := 0
	ast.Inspect(av.Body, func(nd ast.Node) bool {
		as, ok := nd.(*ast.AssignStmt)
		if !ok || len(as.Lhs) != 1 || len(as.Rhs) != 1 || !fieldSel(info, as.Lhs[0], varsF) {
			return true
		}
		// inside the Slice/Array clause of a switch over a reflect Kind
		var clause *ast.CaseClause
		for cur := ast.Node(as); cur != nil; cur = parents[cur] {
			if cc, ok := cur.(*ast.CaseClause); ok {
				for _, le := range cc.List {
					if se, ok := unparen(le).(*ast.SelectorExpr); ok && (se.Sel.Name == "Slice" || se.Sel.Name == "Array") {
						if o := info.Uses[se.Sel]; o != nil && o.Pkg() != nil && o.Pkg().Path() == "reflect" {
							clause = cc
						}
					}
				}
				if clause != nil {
					break
				}
			}
		}
		if clause == nil {
			return true
		}
		n++
		// path condition inside the clause
		var pc ast.Expr
		and := func(a, b ast.Expr) ast.Expr {
			if a == nil {
				return b
			}
			return &ast.BinaryExpr{X: b, Op: token.LAND, Y: a}
		}
		for cur := ast.Node(as); cur != nil && cur != ast.Node(clause); cur = parents[cur] {
			ifs, ok := parents[cur].(*ast.IfStmt)
			if !ok {
				continue
			}
			if cur == ast.Node(ifs.Body) {
				pc = and(pc, ifs.Cond)
			} else if cur == ifs.Else {
				pc = and(pc, &ast.UnaryExpr{Op: token.NOT, X: ifs.Cond})
			}
		}
		if pc == nil {
			r.Bad(av.Name(), "whole-slice bind", as.Pos(), "every non-empty slice is bound as a single value: element lists are sent as one parameter")
			return true
		}
		bf := boolTable(info, pc)
		var problems []string
		for _, cls := range []string{"u8", "named", "other"} {
			fixed := map[string]bool{}
			for name, e := range bf.exprs {
				if v, ok := atomTruth(e, cls); ok {
					fixed[name] = v
				}
				// emptiness tests: the slice is non-empty
				if s := canon(info, e); strings.HasSuffix(s, ".Len() == 0") {
					fixed[name] = false
				}
			}
			// atoms the rule does not interpret (they are not about the element type) stay free: the
			// requirement must hold whatever they evaluate to
			want := cls == "u8"
			if all, _ := bf.forAll(fixed, want); !all {
				switch {
				case want:
					problems = append(problems, "a non-empty []byte can be expanded element by element instead of being bound as one value")
				case cls == "named":
					problems = append(problems, "a non-empty slice of a defined uint8-kind type (an enum list such as []Status) can be bound as ONE parameter instead of one placeholder per element")
				default:
					problems = append(problems, "a non-empty slice of non-byte elements can be bound as one parameter")
				}
			}
		}
		r.Check(len(problems) == 0, av.Name(), "whole-slice bind arm", as.Pos(), "taken for predeclared bytes only", strings.Join(problems, "; "), "condition: "+exprStr(pc))
		return true
	})
	if n == 0 {
		r.Bad(av.Name(), "whole-slice bind", av.Body.Pos(), "AddVar no longer has a byte-slice arm in its reflect fallback; rule lost its anchor")
	}
}
