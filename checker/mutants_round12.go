package main

func init() {
	addMutants(
		// C01.named-dispatch
		Mutant{Name: "c01-exec-named-dispatch-needs-arguments", Property: "C01", Rule: "C01.named-dispatch", Edits: []Edit{{"finisher_api.go",
			"\tif strings.Contains(sql, \"@\") {\n\t\tclause.NamedExpr{SQL: sql, Vars: values}.Build(tx.Statement)\n\t} else {\n\t\tclause.Expr{SQL: sql, Vars: values}.Build(tx.Statement)\n\t}\n\n\treturn tx.callbacks.Raw().Execute(tx)", "\tif strings.Contains(sql, \"@\") && len(values) == 1 {\n\t\tclause.NamedExpr{SQL: sql, Vars: values}.Build(tx.Statement)\n\t} else {\n\t\tclause.Expr{SQL: sql, Vars: values}.Build(tx.Statement)\n\t}\n\n\treturn tx.callbacks.Raw().Execute(tx)"}}},
		Mutant{Name: "n138-exec-named-dispatch-test-in-a-negated-form", Property: "*", Rule: "NEUTRAL", Edits: []Edit{{"finisher_api.go",
			"\tif strings.Contains(sql, \"@\") {\n\t\tclause.NamedExpr{SQL: sql, Vars: values}.Build(tx.Statement)\n\t} else {\n\t\tclause.Expr{SQL: sql, Vars: values}.Build(tx.Statement)\n\t}\n\n\treturn tx.callbacks.Raw().Execute(tx)", "\tif !strings.Contains(sql, \"@\") {\n\t\tclause.Expr{SQL: sql, Vars: values}.Build(tx.Statement)\n\t} else {\n\t\tclause.NamedExpr{SQL: sql, Vars: values}.Build(tx.Statement)\n\t}\n\n\treturn tx.callbacks.Raw().Execute(tx)"}}},
		// C03.bytes-arm
		Mutant{Name: "c03-bytes-arm-writes-null-for-empty", Property: "C03", Rule: "C03.bytes-arm", Edits: []Edit{{"statement.go",
			"\t\tcase []byte:\n\t\t\tstmt.Vars = append(stmt.Vars, v)\n\t\t\tstmt.DB.Dialector.BindVarTo(writer, stmt, v)\n", "\t\tcase []byte:\n\t\t\twriter.WriteString(\"(NULL)\")\n"}}},
		Mutant{Name: "n139-bytes-arm-merged-with-valuer-arm", Property: "*", Rule: "NEUTRAL", Edits: []Edit{{"statement.go",
			"\t\tcase driver.Valuer:\n\t\t\tstmt.Vars = append(stmt.Vars, v)\n\t\t\tstmt.DB.Dialector.BindVarTo(writer, stmt, v)\n\t\tcase []byte:\n\t\t\tstmt.Vars = append(stmt.Vars, v)\n\t\t\tstmt.DB.Dialector.BindVarTo(writer, stmt, v)\n", "\t\tcase driver.Valuer, []byte:\n\t\t\tstmt.Vars = append(stmt.Vars, v)\n\t\t\tstmt.DB.Dialector.BindVarTo(writer, stmt, v)\n"}}},
		// C10.override-lookup
		Mutant{Name: "c10-override-by-name-only-for-new-columns", Property: "C10", Rule: "C10.override-lookup", Edits: []Edit{{"schema/schema.go",
			"\t\t\t\tschema.FieldsByDBName[field.DBName] = field\n\t\t\t\tschema.FieldsByName[field.Name] = field\n", "\t\t\t\tschema.FieldsByDBName[field.DBName] = field\n\t\t\t\tif v == nil {\n\t\t\t\t\tschema.FieldsByName[field.Name] = field\n\t\t\t\t}\n"}}},
		Mutant{Name: "n140-override-tables-stored-in-another-order", Property: "*", Rule: "NEUTRAL", Edits: []Edit{{"schema/schema.go",
			"\t\t\t\tschema.FieldsByDBName[field.DBName] = field\n\t\t\t\tschema.FieldsByName[field.Name] = field\n\t\t\t\tschema.FieldsByBindName[bindName] = field\n", "\t\t\t\tschema.FieldsByBindName[bindName] = field\n\t\t\t\tschema.FieldsByName[field.Name] = field\n\t\t\t\tschema.FieldsByDBName[field.DBName] = field\n"}}},
	)
}
