package main

// Path enumeration over the (small) CFG of one function with symbolic
// tracking of boolean locals: every acyclic entry-to-exit path is walked,
// the facts established by the branch decisions are collected, and boolean
// locals are replaced by the facts of the expression they were last assigned
// (comma-ok results of map lookups and type assertions become atoms
// has(<index expr>) / is(<assert expr>)).  Used for decision functions with
// fewer than a few thousand paths (checkMissingWhereConditions,
// FirstOrCreate, Transaction, CommitOrRollbackTransaction).

import (
	"go/ast"
	"go/token"
	"go/types"

	"golang.org/x/tools/go/cfg"
)

type PathResult struct {
	Facts  factSet
	Before []factSet  // facts holding just before Nodes[i] executes
	Nodes  []ast.Node // executed CFG nodes in order
	Exit   token.Pos  // position of the last node (or end of body)
	Return *ast.ReturnStmt
}

type symval struct {
	t, f []string
}

func fHas(s string) string { return "has(" + s + ")" }
func fIs(s string) string  { return "is(" + s + ")" }

// EnumPaths enumerates acyclic paths of f. ok=false if more than limit paths exist.
func (p *Program) EnumPaths(f *FuncSrc, conf *GuardConfig, limit int) ([]PathResult, bool) {
	if conf == nil {
		conf = defaultGuards
	}
	g := p.CFG(f)
	base := &guardState{prog: p, f: f, conf: conf, info: f.Pkg.TypesInfo, g: g, paths: map[string][]string{}, caseOf: map[*ast.CaseClause]ast.Stmt{}, single: map[*types.Var]ast.Expr{}}
	base.prepare()
	base.single = map[*types.Var]ast.Expr{} // symbolic env replaces the single-assignment shortcut
	var results []PathResult
	over := false

	type env map[string]symval
	var befores []factSet
	var walk func(b *cfg.Block, facts factSet, e env, nodes []ast.Node, onPath map[*cfg.Block]bool)
	walk = func(b *cfg.Block, facts factSet, e env, nodes []ast.Node, onPath map[*cfg.Block]bool) {
		depth0 := len(nodes)
		defer func() { befores = befores[:depth0] }()
		if over {
			return
		}
		base.resolve = func(id *ast.Ident, pol bool) ([]string, bool) {
			sv, ok := e[id.Name]
			if !ok {
				return nil, false
			}
			if pol {
				return sv.t, true
			}
			return sv.f, true
		}
		for _, n := range b.Nodes {
			befores = append(befores[:len(nodes)], facts.clone())
			base.transfer(facts, n)
			nodes = append(nodes, n)
			// symbolic booleans
			bind := func(lhs ast.Expr, sv symval, okb bool) {
				id, isID := lhs.(*ast.Ident)
				if !isID || id.Name == "_" {
					return
				}
				if okb {
					e[id.Name] = sv
				} else {
					delete(e, id.Name)
				}
			}
			switch n := n.(type) {
			case *ast.AssignStmt:
				if len(n.Lhs) == 2 && len(n.Rhs) == 1 {
					switch r := unparen(n.Rhs[0]).(type) {
					case *ast.IndexExpr:
						a := fHas(canon(base.info, r))
						base.paths[fTrue(a)] = accessPaths(base.info, r)
						base.paths[fFalse(a)] = accessPaths(base.info, r)
						ap := a + "@" + p.Pos(r.Pos()) // the value the variable holds, immune to later writes
						bind(n.Lhs[1], symval{t: []string{fTrue(a), fTrue(ap)}, f: []string{fFalse(a), fFalse(ap)}}, true)
						bind(n.Lhs[0], symval{}, false)
					case *ast.TypeAssertExpr:
						a := fIs(canon(base.info, r))
						base.paths[fTrue(a)] = accessPaths(base.info, r)
						base.paths[fFalse(a)] = accessPaths(base.info, r)
						ap := a + "@" + p.Pos(r.Pos())
						bind(n.Lhs[1], symval{t: []string{fTrue(a), fTrue(ap)}, f: []string{fFalse(a), fFalse(ap)}}, true)
						bind(n.Lhs[0], symval{}, false)
					default:
						bind(n.Lhs[0], symval{}, false)
						bind(n.Lhs[1], symval{}, false)
					}
				} else if len(n.Lhs) == len(n.Rhs) {
					for i, l := range n.Lhs {
						isBool := false
						if tv, ok := base.info.Types[n.Rhs[i]]; ok {
							if bt, ok := tv.Type.Underlying().(*types.Basic); ok && bt.Info()&types.IsBoolean != 0 {
								isBool = true
							}
						}
						if isBool {
							bind(l, symval{t: base.condFacts(n.Rhs[i], true, 0), f: base.condFacts(n.Rhs[i], false, 0)}, true)
						} else {
							bind(l, symval{}, false)
						}
					}
				} else {
					for _, l := range n.Lhs {
						bind(l, symval{}, false)
					}
				}
			case *ast.ValueSpec:
				for i, id := range n.Names {
					if len(n.Values) == len(n.Names) {
						if tv, ok := base.info.Types[n.Values[i]]; ok {
							if bt, ok := tv.Type.Underlying().(*types.Basic); ok && bt.Info()&types.IsBoolean != 0 {
								e[id.Name] = symval{t: base.condFacts(n.Values[i], true, 0), f: base.condFacts(n.Values[i], false, 0)}
								continue
							}
						}
					}
					delete(e, id.Name)
				}
			}
		}
		if len(b.Succs) == 0 {
			if len(results) >= limit {
				over = true
				return
			}
			pr := PathResult{Facts: facts.clone(), Nodes: append([]ast.Node{}, nodes...), Before: append([]factSet{}, befores[:len(nodes)]...), Exit: f.Body.End()}
			if len(nodes) > 0 {
				pr.Exit = nodes[len(nodes)-1].Pos()
				if rs, ok := nodes[len(nodes)-1].(*ast.ReturnStmt); ok {
					pr.Return = rs
				}
			}
			results = append(results, pr)
			return
		}
		for i, s := range b.Succs {
			if onPath[s] {
				continue // acyclic paths only
			}
			for _, alt := range base.edgeAlternatives(b, i, facts) {
				nf := facts.clone()
				infeasible := false
				for _, fct := range alt {
					if nf.Has(complement(fct)) {
						infeasible = true
					}
					nf[fct] = struct{}{}
				}
				if infeasible {
					continue // contradictory branch decisions: not an executable path
				}
				ne := env{}
				for k, v := range e {
					ne[k] = v
				}
				onPath[s] = true
				walk(s, nf, ne, nodes, onPath)
				delete(onPath, s)
			}
			// restore resolver for this frame
			base.resolve = func(id *ast.Ident, pol bool) ([]string, bool) {
				sv, ok := e[id.Name]
				if !ok {
					return nil, false
				}
				if pol {
					return sv.t, true
				}
				return sv.f, true
			}
		}
	}
	entry := factSet{}
	for _, ef := range conf.Entry {
		entry[ef] = struct{}{}
	}
	walk(g.Blocks[0], entry, env{}, nil, map[*cfg.Block]bool{g.Blocks[0]: true})
	return results, !over
}

// pathCalls reports whether the path executed a call satisfying pred (nested literals excluded).
func pathHasCall(info *types.Info, pr PathResult, pred func(*ast.CallExpr) bool) *ast.CallExpr {
	for _, n := range pr.Nodes {
		for _, c := range evaluatedCalls(n) {
			if pred(c) {
				return c
			}
		}
	}
	return nil
}

func pathCountCalls(info *types.Info, pr PathResult, pred func(*ast.CallExpr) bool) int {
	k := 0
	for _, n := range pr.Nodes {
		for _, c := range evaluatedCalls(n) {
			if pred(c) {
				k++
			}
		}
	}
	return k
}

// edgeAlternatives is the path-splitting variant of edgeFacts: a condition that
// cannot be decomposed for the taken polarity (false(A && B), true(A || B)) is
// split into the disjoint cases that make it so.
func (gs *guardState) edgeAlternatives(b *cfg.Block, i int, s factSet) [][]string {
	if len(b.Succs) != 2 || len(b.Nodes) == 0 {
		return [][]string{nil}
	}
	last, ok := b.Nodes[len(b.Nodes)-1].(ast.Expr)
	if !ok {
		return [][]string{nil}
	}
	t := b.Succs[0]
	pol := i == 0
	switch t.Kind {
	case cfg.KindIfThen, cfg.KindForBody:
		switch st := t.Stmt.(type) {
		case *ast.IfStmt:
			if st.Cond != last {
				return [][]string{nil}
			}
		case *ast.ForStmt:
			if st.Cond != last {
				return [][]string{nil}
			}
		}
		return gs.withAliases(s, gs.condAlternatives(last, pol))
	case cfg.KindSwitchCaseBody:
		cc, _ := t.Stmt.(*ast.CaseClause)
		if sw, _ := gs.caseOf[cc].(*ast.SwitchStmt); sw != nil && sw.Tag == nil {
			return gs.withAliases(s, gs.condAlternatives(last, pol))
		}
	}
	return [][]string{gs.edgeFacts(b, i, s)}
}

// withAliases adds, to every alternative, the facts that follow for paths a tested local is a live snapshot of.
func (gs *guardState) withAliases(s factSet, alts [][]string) [][]string {
	out := make([][]string, len(alts))
	for i, a := range alts {
		out[i] = gs.expandMarkers(s, a)
	}
	return out
}

func (gs *guardState) condAlternatives(cond ast.Expr, pol bool) [][]string {
	cond = unparen(cond)
	cross := func(a, b [][]string) [][]string {
		var out [][]string
		for _, x := range a {
			for _, y := range b {
				out = append(out, append(append([]string{}, x...), y...))
			}
		}
		return out
	}
	switch c := cond.(type) {
	case *ast.UnaryExpr:
		if c.Op == token.NOT {
			return gs.condAlternatives(c.X, !pol)
		}
	case *ast.BinaryExpr:
		if c.Op == token.LAND || c.Op == token.LOR {
			conj := (c.Op == token.LAND) == pol // both operands take polarity pol
			if conj {
				return cross(gs.condAlternatives(c.X, pol), gs.condAlternatives(c.Y, pol))
			}
			// first operand decides, or first operand is neutral and second decides
			first := gs.condAlternatives(c.X, pol)
			second := cross(gs.condAlternatives(c.X, !pol), gs.condAlternatives(c.Y, pol))
			return append(first, second...)
		}
	}
	return [][]string{gs.condFacts(cond, pol, 0)}
}

func complement(f string) string {
	switch {
	case len(f) > 2 && f[:2] == "T:":
		return "F:" + f[2:]
	case len(f) > 2 && f[:2] == "F:":
		return "T:" + f[2:]
	case len(f) > 3 && f[:3] == "NN:":
		return "N:" + f[3:]
	case len(f) > 2 && f[:2] == "N:":
		return "NN:" + f[2:]
	}
	return "\x00"
}

// EnumLoopIterPaths enumerates the acyclic paths through one iteration of loop
// (a *ast.RangeStmt or *ast.ForStmt of f): from the first block of the body to
// the loop head (next iteration), the loop exit, or a function exit.
func (p *Program) EnumLoopIterPaths(f *FuncSrc, loop ast.Stmt, limit int) ([][]ast.Node, bool) {
	g := p.CFG(f)
	var body, head *cfg.Block
	for _, b := range g.Blocks {
		if b.Stmt != loop {
			continue
		}
		switch b.Kind {
		case cfg.KindRangeBody, cfg.KindForBody:
			body = b
		case cfg.KindRangeLoop, cfg.KindForLoop:
			head = b
		}
	}
	if body == nil {
		return nil, false
	}
	if head == nil {
		head = body // for {} without condition: back edge targets the body
	}
	var out [][]ast.Node
	over := false
	var walk func(b *cfg.Block, nodes []ast.Node, on map[*cfg.Block]bool)
	walk = func(b *cfg.Block, nodes []ast.Node, on map[*cfg.Block]bool) {
		if over {
			return
		}
		nodes = append(nodes, b.Nodes...)
		if len(b.Succs) == 0 {
			out = append(out, append([]ast.Node{}, nodes...))
			return
		}
		for _, s := range b.Succs {
			if s == head || (s.Stmt == loop && (s.Kind == cfg.KindRangeDone || s.Kind == cfg.KindForDone || s.Kind == cfg.KindForPost)) {
				if len(out) >= limit {
					over = true
					return
				}
				out = append(out, append([]ast.Node{}, nodes...))
				continue
			}
			if on[s] {
				continue
			}
			on[s] = true
			walk(s, nodes, on)
			delete(on, s)
		}
	}
	walk(body, nil, map[*cfg.Block]bool{body: true})
	return out, !over
}
