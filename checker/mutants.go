package main

// Both-ways self-test of the rules (thorough tier): each mutant is a small
// source rewrite applied to a scratch copy of the repository (outside /repo
// and /verif, removed as soon as its verdict is in).  The mutated tree must
// still type-check and the named rule must report a violation.  A surviving
// mutant means the checker is broken (CHECKER-ERROR, exit 2), never a
// VIOLATION.  A mutant whose anchor text no longer exists is reported as
// stale, not as a failure.

import (
	"bytes"
	"encoding/json"
	"fmt"
	"io"
	"os"
	"os/exec"
	"path/filepath"
	"sort"
	"strings"
	"sync"
)

type Edit struct {
	File string
	Old  string
	New  string
}

type Mutant struct {
	Name     string
	Property string
	Rule     string // rule expected to fire (exact rule name)
	Edits    []Edit
	Patch    string // unified diff applied with `git apply` instead of Edits (seeded changes)
	Note     string
}

var mutantTable []Mutant

func addMutants(ms ...Mutant) { mutantTable = append(mutantTable, ms...) }

func copyRepo(src, dst string) error {
	return filepath.Walk(src, func(path string, info os.FileInfo, err error) error {
		if err != nil {
			return err
		}
		rel, _ := filepath.Rel(src, path)
		if info.IsDir() {
			if rel == ".git" || rel == "tests" || rel == ".github" {
				return filepath.SkipDir
			}
			return os.MkdirAll(filepath.Join(dst, rel), 0o755)
		}
		if !(strings.HasSuffix(rel, ".go") || rel == "go.mod" || rel == "go.sum") {
			return nil
		}
		if strings.HasSuffix(rel, "_test.go") {
			return nil
		}
		in, err := os.Open(path)
		if err != nil {
			return err
		}
		defer in.Close()
		out, err := os.Create(filepath.Join(dst, rel))
		if err != nil {
			return err
		}
		defer out.Close()
		_, err = io.Copy(out, in)
		return err
	})
}

// applyEdits applies m to the tree at dir; returns "stale" detail if an anchor is missing.
func applyEdits(dir string, m Mutant) (stale string, err error) {
	for _, e := range m.Edits {
		path := filepath.Join(dir, e.File)
		b, rerr := os.ReadFile(path)
		if rerr != nil {
			return "file " + e.File + " missing", nil
		}
		n := bytes.Count(b, []byte(e.Old))
		if n != 1 {
			return fmt.Sprintf("anchor text occurs %d times in %s", n, e.File), nil
		}
		b = bytes.Replace(b, []byte(e.Old), []byte(e.New), 1)
		if werr := os.WriteFile(path, b, 0o644); werr != nil {
			return "", werr
		}
	}
	return "", nil
}

func runOneMutant(m Mutant, repo string) mutantEvidence {
	ev := mutantEvidence{Name: m.Name, Rule: m.Rule}
	dir, err := os.MkdirTemp("", "gormverif-mut-")
	if err != nil {
		ev.Status, ev.Detail = "broken", err.Error()
		return ev
	}
	defer os.RemoveAll(dir)
	if err := copyRepo(repo, dir); err != nil {
		ev.Status, ev.Detail = "broken", "copy: "+err.Error()
		return ev
	}
	var stale string
	if m.Patch != "" {
		cmd := exec.Command("git", "apply", m.Patch)
		cmd.Dir = dir
		if out, perr := cmd.CombinedOutput(); perr != nil {
			stale = "seeded patch no longer applies: " + firstLines(string(out), 2)
		}
	} else {
		stale, err = applyEdits(dir, m)
	}
	if err != nil {
		ev.Status, ev.Detail = "broken", err.Error()
		return ev
	}
	if stale != "" {
		ev.Status, ev.Detail = "stale", stale
		return ev
	}
	exe, _ := os.Executable()
	cmd := exec.Command(exe, "check", m.Property, "--tier", "quick", "--repo", dir, "--no-evidence")
	cmd.Env = append(os.Environ(), "GOCACHE="+goCacheDir())
	out, _ := cmd.CombinedOutput()
	text := string(out)
	if strings.Contains(text, "load error") || strings.Contains(text, "package load/type errors") {
		ev.Status, ev.Detail = "broken", "mutant does not type-check: "+firstLines(text, 3)
		return ev
	}
	for _, line := range strings.Split(text, "\n") {
		line = strings.TrimSpace(line)
		if strings.HasPrefix(line, "rule="+m.Rule+" ") {
			ev.Status, ev.Detail = "killed", line
			return ev
		}
	}
	ev.Status, ev.Detail = "survived", firstLines(text, 6)
	return ev
}

func goCacheDir() string {
	if d := os.Getenv("GOCACHE"); d != "" {
		return d
	}
	out, err := exec.Command("go", "env", "GOCACHE").Output()
	if err == nil {
		return strings.TrimSpace(string(out))
	}
	return filepath.Join(os.TempDir(), "gocache")
}

func firstLines(s string, n int) string {
	lines := strings.Split(strings.TrimSpace(s), "\n")
	if len(lines) > n {
		lines = lines[len(lines)-n:]
	}
	return strings.Join(lines, " | ")
}

func runMutants(id, repo string) []mutantEvidence {
	var ms []Mutant
	for _, m := range mutantTable {
		if m.Property == id {
			ms = append(ms, m)
		}
	}
	// independently seeded changes recorded under /verif/seeded
	metas, _ := filepath.Glob(filepath.Join(verifDir(), "seeded", "*", "meta.json"))
	sort.Strings(metas)
	for _, mf := range metas {
		b, err := os.ReadFile(mf)
		if err != nil {
			continue
		}
		var meta struct {
			ID       string `json:"id"`
			Property string `json:"property"`
			Expect   string `json:"expect_rule"`
		}
		if json.Unmarshal(b, &meta) != nil || meta.Property != id || meta.Expect == "" {
			continue
		}
		ms = append(ms, Mutant{Name: "seed-" + meta.ID, Property: id, Rule: meta.Expect, Patch: filepath.Join(filepath.Dir(mf), "patch.diff")})
	}
	out := make([]mutantEvidence, len(ms))
	sem := make(chan struct{}, 8)
	var wg sync.WaitGroup
	for i, m := range ms {
		wg.Add(1)
		go func(i int, m Mutant) {
			defer wg.Done()
			sem <- struct{}{}
			defer func() { <-sem }()
			out[i] = runOneMutant(m, repo)
		}(i, m)
	}
	wg.Wait()
	for _, e := range out {
		fmt.Printf("mutant %-44s expect=%-24s %s\n", e.Name, e.Rule, e.Status)
		if e.Status != "killed" {
			fmt.Printf("    %s\n", e.Detail)
		}
	}
	return out
}

// runNeutral applies every behaviour-preserving edit and requires all claimed checks to stay silent.
func runNeutral(repo string) int {
	var ids []string
	for id := range registry {
		ids = append(ids, id)
	}
	sort.Strings(ids)
	exe, _ := os.Executable()
	fails := 0
	for _, m := range mutantTable {
		if m.Rule != "NEUTRAL" {
			continue
		}
		// development aid: GORMVERIF_NEUTRAL_ONLY=<substring,...> runs a part of the battery
		if only := os.Getenv("GORMVERIF_NEUTRAL_ONLY"); only != "" {
			hit := false
			for _, o := range strings.Split(only, ",") {
				if strings.Contains(m.Name, o) {
					hit = true
				}
			}
			if !hit {
				continue
			}
		}
		dir, err := os.MkdirTemp("", "gormverif-neutral-")
		if err != nil {
			fmt.Println(err)
			return 2
		}
		if err := copyRepo(repo, dir); err != nil {
			fmt.Println(err)
			return 2
		}
		stale, _ := applyEdits(dir, m)
		if stale != "" {
			fmt.Printf("neutral %-44s stale: %s\n", m.Name, stale)
			os.RemoveAll(dir)
			continue
		}
		var noisy []string
		var mu sync.Mutex
		var wg sync.WaitGroup
		sem := make(chan struct{}, 8)
		for _, id := range ids {
			wg.Add(1)
			go func(id string) {
				defer wg.Done()
				sem <- struct{}{}
				defer func() { <-sem }()
				cmd := exec.Command(exe, "check", id, "--tier", "quick", "--repo", dir, "--no-evidence")
				out, err := cmd.CombinedOutput()
				if err != nil {
					mu.Lock()
					noisy = append(noisy, id+": "+firstViolation(string(out)))
					mu.Unlock()
				}
			}(id)
		}
		wg.Wait()
		os.RemoveAll(dir)
		sort.Strings(noisy)
		if len(noisy) == 0 {
			fmt.Printf("neutral %-44s silent\n", m.Name)
		} else {
			fails++
			fmt.Printf("neutral %-44s FALSE ALARM\n", m.Name)
			for _, n := range noisy {
				fmt.Printf("    %s\n", n)
			}
		}
	}
	if fails > 0 {
		return 1
	}
	return 0
}

func firstViolation(out string) string {
	for _, line := range strings.Split(out, "\n") {
		t := strings.TrimSpace(line)
		if strings.HasPrefix(t, "rule=") || strings.HasPrefix(t, "CHECKER-ERROR") || strings.HasPrefix(t, "load error") {
			return t
		}
	}
	return firstLines(out, 2)
}
