package main

// Hand mutants and behaviour-preserving edits for the rules added after seed round 4.

func init() {
	addMutants(
		Mutant{Name: "c02-soft-delete-key-only-from-deleted-value", Property: "C02", Rule: "C02.pk-sources", Edits: []Edit{{"soft_delete.go",
			"\t\t\t\t_, queryValues = schema.GetIdentityFieldValuesMap(stmt.Context, reflect.ValueOf(stmt.Model), stmt.Schema.PrimaryFields)", "\t\t\t\t_, queryValues = schema.GetIdentityFieldValuesMap(stmt.Context, reflect.Indirect(stmt.ReflectValue), stmt.Schema.PrimaryFields)"}}},
		Mutant{Name: "c05-commit-error-cleared-after-finish", Property: "C05", Rule: "C05.commit-or-rollback", Edits: []Edit{{"callbacks/transaction.go",
			"\t\t\t\tdb.Commit()\n\t\t\t}\n", "\t\t\t\tdb.Commit()\n\t\t\t\tdb.Error = nil\n\t\t\t}\n"}}},
		Mutant{Name: "n49-delete-key-from-model-through-local", Property: "*", Rule: "NEUTRAL", Edits: []Edit{{"callbacks/delete.go",
			"\t\t\t\t\t_, queryValues = schema.GetIdentityFieldValuesMap(db.Statement.Context, reflect.ValueOf(db.Statement.Model), db.Statement.Schema.PrimaryFields)", "\t\t\t\t\tmodelValue := reflect.ValueOf(db.Statement.Model)\n\t\t\t\t\t_, queryValues = schema.GetIdentityFieldValuesMap(db.Statement.Context, modelValue, db.Statement.Schema.PrimaryFields)"}}},
	)
}

func init() {
	addMutants(
		Mutant{Name: "c03-struct-arm-binds-raw-time", Property: "C03", Rule: "C03.fill-pair", Edits: []Edit{{"callbacks/create.go",
			"\t\t\t\t} else if field.AutoUpdateTime > 0 && updateTrackTime {\n\t\t\t\t\tstmt.AddError(field.Set(stmt.Context, stmt.ReflectValue, curTime))\n\t\t\t\t\tvalues.Values[0][idx], _ = field.ValueOf(stmt.Context, stmt.ReflectValue)", "\t\t\t\t} else if field.AutoUpdateTime > 0 && updateTrackTime {\n\t\t\t\t\tstmt.AddError(field.Set(stmt.Context, stmt.ReflectValue, curTime))\n\t\t\t\t\tvalues.Values[0][idx] = curTime"}}},
		Mutant{Name: "c10-save-star-skipped-with-omit", Property: "C10", Rule: "C10.save", Edits: []Edit{{"finisher_api.go",
			"\t\tselectedUpdate := len(tx.Statement.Selects) != 0\n", "\t\tselectedUpdate := len(tx.Statement.Selects) != 0 || tx.Statement.Unscoped\n"}}},
		Mutant{Name: "c12-association-unscoped-in-place", Property: "C12", Rule: "C12.unscoped-copy", Edits: []Edit{{"association.go",
			"\treturn &Association{\n\t\tDB:           association.DB,\n\t\tRelationship: association.Relationship,\n\t\tError:        association.Error,\n\t\tUnscope:      true,\n\t}", "\tassociation.Unscope = true\n\treturn association"}}},
		Mutant{Name: "c13-visit-map-published-empty", Property: "C13", Rule: "C13.dispatch", Edits: []Edit{{"callbacks/associations.go",
			"\t\tvistMap := make(visitMap)\n\t\tloadOrStoreVisitMap(&vistMap, values)\n\t\tdb.Set(visitMapStoreKey, &vistMap)", "\t\tvistMap := make(visitMap)\n\t\tdb.Set(visitMapStoreKey, &vistMap)"}}},
		Mutant{Name: "n50-visit-map-recorded-after-make-with-local", Property: "*", Rule: "NEUTRAL", Edits: []Edit{{"callbacks/associations.go",
			"\t\tvistMap := make(visitMap)\n\t\tloadOrStoreVisitMap(&vistMap, values)\n\t\tdb.Set(visitMapStoreKey, &vistMap)", "\t\tseen := &visitMap{}\n\t\t_ = loadOrStoreVisitMap(seen, values)\n\t\tdb.Set(visitMapStoreKey, seen)"}}},
		Mutant{Name: "n51-save-selected-update-as-positive-len", Property: "*", Rule: "NEUTRAL", Edits: []Edit{{"finisher_api.go",
			"\t\tselectedUpdate := len(tx.Statement.Selects) != 0\n", "\t\tselectedUpdate := len(tx.Statement.Selects) > 0\n"}}},
	)
}

func init() {
	addMutants(
		Mutant{Name: "c08-raw-resolver-ignores-singleton-wrappers", Property: "C08", Rule: "C08.group-subject", Edits: []Edit{{"clause/where.go",
			"\tcase AndConditions:\n\t\tif len(e.Exprs) == 1 {\n\t\t\treturn rawExprSQL(e.Exprs[0])\n\t\t}\n\tcase OrConditions:\n\t\tif len(e.Exprs) == 1 {\n\t\t\treturn rawExprSQL(e.Exprs[0])\n\t\t}\n", ""}}, Note: "reverts fix a5c4420"},
		Mutant{Name: "c08-datatype-probe-on-declared-type", Property: "C08", Rule: "C08.clause-probe", Edits: []Edit{{"migrator/migrator.go",
			"\tfieldValue := reflect.New(field.IndirectFieldType)\n", "\tfieldValue := reflect.New(field.FieldType)\n"}}},
	)
}

func init() {
	addMutants(
		Mutant{Name: "c15-count-order-restore-on-receiver", Property: "C15", Rule: "C15.count-restore", Edits: []Edit{{"finisher_api.go",
			"\t\tdefer delete(tx.Statement.Clauses, \"SELECT\")", "\t\tdefer delete(db.Statement.Clauses, \"SELECT\")"}}},
		Mutant{Name: "c16-firstorcreate-lookup-unlimited", Property: "C16", Rule: "C16.attrs-only-when-missing", Edits: []Edit{{"finisher_api.go",
			"\tqueryTx := db.Session(&Session{}).Limit(1).Order(clause.OrderByColumn{", "\tqueryTx := db.Session(&Session{}).Order(clause.OrderByColumn{"}}},
		Mutant{Name: "c19-tosql-session-newdb", Property: "C19", Rule: "C19.tosql", Edits: []Edit{{"gorm.go",
			"db.Session(&Session{DryRun: true, SkipDefaultTransaction: true})", "db.Session(&Session{DryRun: true, SkipDefaultTransaction: true, NewDB: db.clone > 0})"}}},
		Mutant{Name: "c20-automigrate-checks-only-without-fk-switch", Property: "C20", Rule: "C20.create-agree", Edits: []Edit{{"migrator/migrator.go",
			"\t\t\t\tfor _, chk := range parseCheckConstraints {\n\t\t\t\t\tif !queryTx.Migrator().HasConstraint(value, chk.Name) {\n\t\t\t\t\t\tif err := execTx.Migrator().CreateConstraint(value, chk.Name); err != nil {\n\t\t\t\t\t\t\treturn err\n\t\t\t\t\t\t}\n\t\t\t\t\t}\n\t\t\t\t}\n",
			"\t\t\t\tif !m.DB.DisableForeignKeyConstraintWhenMigrating {\n\t\t\t\t\tfor _, chk := range parseCheckConstraints {\n\t\t\t\t\t\tif !queryTx.Migrator().HasConstraint(value, chk.Name) {\n\t\t\t\t\t\t\tif err := execTx.Migrator().CreateConstraint(value, chk.Name); err != nil {\n\t\t\t\t\t\t\t\treturn err\n\t\t\t\t\t\t\t}\n\t\t\t\t\t\t}\n\t\t\t\t\t}\n\t\t\t\t}\n"}}},
		Mutant{Name: "n54-getinstance-statement-from-helper", Property: "*", Rule: "NEUTRAL", Edits: []Edit{
			{"gorm.go", "\t\t\ttx.Statement = &Statement{\n\t\t\t\tDB:        tx,\n\t\t\t\tConnPool:  db.Statement.ConnPool,\n\t\t\t\tContext:   db.Statement.Context,\n\t\t\t\tClauses:   map[string]clause.Clause{},\n\t\t\t\tVars:      make([]interface{}, 0, 8),\n\t\t\t\tSkipHooks: db.Statement.SkipHooks,\n\t\t\t}", "\t\t\ttx.Statement = freshStatement(tx, db.Statement)"},
			{"gorm.go", "func (db *DB) getInstance() *DB {", "func freshStatement(tx *DB, parent *Statement) *Statement {\n\treturn &Statement{\n\t\tDB:        tx,\n\t\tConnPool:  parent.ConnPool,\n\t\tContext:   parent.Context,\n\t\tClauses:   map[string]clause.Clause{},\n\t\tVars:      make([]interface{}, 0, 8),\n\t\tSkipHooks: parent.SkipHooks,\n\t}\n}\n\nfunc (db *DB) getInstance() *DB {"}}},
	)
}

func init() {
	addMutants(
		Mutant{Name: "c06-count-deletes-from-receiver-clauses", Property: "C06", Rule: "C06.recv", Edits: []Edit{{"finisher_api.go",
			"\ttx.Statement.Dest = count\n\ttx = tx.callbacks.Query().Execute(tx)\n", "\ttx.Statement.Dest = count\n\tdelete(db.Statement.Clauses, \"LIMIT\")\n\ttx = tx.callbacks.Query().Execute(tx)\n"}}},
		Mutant{Name: "c06-count-deferred-delete-from-receiver-clauses", Property: "C06", Rule: "C06.recv", Edits: []Edit{{"finisher_api.go",
			"\ttx.Statement.Dest = count\n\ttx = tx.callbacks.Query().Execute(tx)\n", "\ttx.Statement.Dest = count\n\tdefer delete(db.Statement.Clauses, \"LIMIT\")\n\ttx = tx.callbacks.Query().Execute(tx)\n"}}},
	)
}
