package main

// Rules added after seed round 3, batch C.

import (
	"go/ast"
	"go/types"
	"sort"
	"strings"

	"golang.org/x/tools/go/types/typeutil"
)

// C20.name-agree: constraint names are computed at several places through schema.Namer (when the schema
// publishes its constraints, when the migrator creates / drops / looks them up).  Every call site of one
// Namer method must derive its `column` argument from the same attribute of schema.Field, otherwise the
// migrator asks for a constraint under a name the schema does not know and silently does nothing.
func checkC20NameAgree(c *Ctx) {
	p := c.P
	r := c.Rule("C20.name-agree", "SIBLINGS(call sites of one schema.Namer method): the column argument comes from the same schema.Field attribute", 1)
	namer := p.Iface(pkgSchema, "Namer")
	fieldT := p.Named(pkgSchema, "Field")
	type site struct {
		f    *FuncSrc
		call *ast.CallExpr
		attr string
	}
	by := map[string][]site{}
	for _, f := range p.FuncsOf(pkgGorm, pkgCallbacks, pkgSchema, pkgMigrator) {
		info := f.Pkg.TypesInfo
		for _, call := range callsIn(f) {
			fn, _ := typeutil.Callee(info, call).(*types.Func)
			if fn == nil {
				continue
			}
			sig := fn.Type().(*types.Signature)
			if sig.Recv() == nil || sig.Params().Len() != 2 || len(call.Args) != 2 {
				continue
			}
			// a method of the Namer interface (called through the interface or a concrete strategy)
			isNamer := false
			for i := 0; i < namer.NumMethods(); i++ {
				if namer.Method(i).Name() == fn.Name() && types.Identical(namer.Method(i).Type().(*types.Signature).Params(), sig.Params()) {
					if types.Implements(sig.Recv().Type(), namer) || types.Identical(sig.Recv().Type().Underlying(), namer) {
						isNamer = true
					}
				}
			}
			if !isNamer || sig.Params().At(1).Name() != "column" {
				continue
			}
			attr := "?" + exprShort(call.Args[1])
			if sel, ok := unparen(call.Args[1]).(*ast.SelectorExpr); ok {
				if sl := info.Selections[sel]; sl != nil && sl.Kind() == types.FieldVal {
					rt := sl.Recv()
					if pt, ok := rt.(*types.Pointer); ok {
						rt = pt.Elem()
					}
					if nt, ok := rt.(*types.Named); ok && nt == fieldT {
						attr = "Field." + sel.Sel.Name
					}
				}
			}
			by[fn.Name()] = append(by[fn.Name()], site{f, call, attr})
		}
	}
	var names []string
	for n := range by {
		names = append(names, n)
	}
	sort.Strings(names)
	multi := 0
	for _, n := range names {
		ss := by[n]
		if len(ss) < 2 {
			continue
		}
		// only methods whose column argument is a schema.Field attribute at every site (name converters such
		// as ColumnName take Go names and computed strings: a different role)
		allAttr := true
		for _, s := range ss {
			if !strings.HasPrefix(s.attr, "Field.") {
				allAttr = false
			}
		}
		if !allAttr {
			continue
		}
		multi++
		// majority attribute is the reference (ties: the schema package's own site)
		count := map[string]int{}
		for _, s := range ss {
			count[s.attr]++
		}
		ref := ""
		for _, s := range ss {
			if s.f.Pkg.PkgPath == pkgSchema && (ref == "" || count[s.attr] > count[ref]) {
				ref = s.attr
			}
		}
		if ref == "" {
			ref = ss[0].attr
		}
		for _, s := range ss {
			c.Touch(s.f)
			r.Check(s.attr == ref, rootFunc(s.f).Name(), n+" column argument", s.call.Pos(), "same attribute as the schema's own site ("+ref+")", "the name passed to "+n+" is computed from "+s.attr+" here but from "+ref+" where the schema publishes the constraint: for columns whose database name differs from the Go field name the migrator creates / drops / looks up a constraint under a name that does not exist (silently nothing happens)")
		}
	}
	if multi == 0 {
		r.Bad("schema.Namer", "call sites", 0, "no Namer method is called from two places any more; rule lost its anchor")
	}
}

// C15.map-complete: reading into maps reports every selected column of every row: each iteration of the
// column loop of scanIntoMap stores an entry for the column (a NULL becomes nil, it is not skipped - a
// reused destination map would keep the previous row's value).
func checkC15MapComplete(c *Ctx, r *Rule) {
	p := c.P
	f := p.FuncDecl(pkgGorm, "scanIntoMap")
	c.Touch(f)
	info := f.Pkg.TypesInfo
	// the map parameter
	var mapParam types.Object
	for _, fl := range f.Type.Params.List {
		for _, nm := range fl.Names {
			if tv, ok := info.Types[fl.Type]; ok {
				if _, isMap := tv.Type.Underlying().(*types.Map); isMap {
					mapParam = info.Defs[nm]
				}
			}
		}
	}
	n := 0
	ast.Inspect(f.Body, func(nd ast.Node) bool {
		rs, ok := nd.(*ast.RangeStmt)
		if !ok {
			return true
		}
		val, _ := rs.Value.(*ast.Ident)
		if val == nil || mapParam == nil {
			return true
		}
		colObj := info.Defs[val]
		paths, okp := p.EnumLoopIterPaths(f, rs, 5000)
		if !okp {
			r.Unknown(f.Name(), "paths", rs.Pos(), "too many paths through the column loop")
			return false
		}
		n++
		bad := 0
		for _, path := range paths {
			stores := false
			for _, node := range path {
				ast.Inspect(node, func(x ast.Node) bool {
					as, ok := x.(*ast.AssignStmt)
					if !ok {
						return true
					}
					for _, l := range as.Lhs {
						if ix, ok := unparen(l).(*ast.IndexExpr); ok {
							if m, ok := unparen(ix.X).(*ast.Ident); ok && info.Uses[m] == mapParam {
								if k, ok := unparen(ix.Index).(*ast.Ident); ok && info.Uses[k] == colObj {
									stores = true
								}
							}
						}
					}
					return true
				})
			}
			if !stores {
				bad++
			}
		}
		r.Check(bad == 0, f.Name(), "entry stored for every column", rs.Pos(), "every iteration path assigns map[column]", "some path through the column loop stores no entry for the column (e.g. a NULL value is skipped): a reused destination map keeps the previous row's value and Find into maps disagrees with Find into structs", strings.TrimSpace(itoa(bad)+" of "+itoa(len(paths))+" iteration paths without a store"))
		return false
	})
	if n == 0 {
		r.Bad(f.Name(), "column loop", f.Body.Pos(), "scanIntoMap no longer ranges over the columns; rule lost its anchor")
	}
}

// C20.create-agree: CreateTable (fresh table) and AutoMigrate (existing table) must add the same kinds of
// constraints under the same configuration switches, otherwise migrating the same model twice is not a
// no-op (the second run adds what the first left out) and the two paths give different tables.  For each
// constraint source (ParseCheckConstraints, ParseUniqueConstraints, ParseIndexes, Relationship.ParseConstraint)
// the set of configuration flags that guard its use must be the same in both functions.
func checkC20CreateAgree(c *Ctx) {
	p := c.P
	r := c.Rule("C20.create-agree", "CreateTable and AutoMigrate use every constraint source under the same configuration flags", 3)
	schemaT := p.Named(pkgSchema, "Schema")
	relT := p.Named(pkgSchema, "Relationship")
	sources := map[*types.Func]string{
		p.Method(schemaT, "ParseCheckConstraints"):  "check constraints",
		p.Method(schemaT, "ParseUniqueConstraints"): "unique constraints",
		p.Method(schemaT, "ParseIndexes"):           "indexes",
		p.Method(relT, "ParseConstraint"):           "foreign-key constraints",
	}
	cfgT := p.Named(pkgGorm, "Config")
	flagVars := map[*types.Var]bool{}
	{
		st := cfgT.Underlying().(*types.Struct)
		for i := 0; i < st.NumFields(); i++ {
			if b, ok := st.Field(i).Type().Underlying().(*types.Basic); ok && b.Kind() == types.Bool {
				flagVars[st.Field(i)] = true
			}
		}
	}
	// flags guarding a position: conditions of the enclosing ifs (with polarity) that read a Config bool
	guardFlags := func(f *FuncSrc, n ast.Node) string {
		root := rootFunc(f)
		var flags []string
		var lits []*FuncSrc
		for cur := f; cur != nil; cur = cur.Parent {
			lits = append(lits, cur)
		}
		_ = root
		pos := n.Pos()
		for _, fs := range lits {
			info := fs.Pkg.TypesInfo
			ast.Inspect(fs.Body, func(x ast.Node) bool {
				ifs, ok := x.(*ast.IfStmt)
				if !ok {
					return true
				}
				in := ifs.Body.Pos() <= pos && pos < ifs.Body.End()
				inElse := ifs.Else != nil && ifs.Else.Pos() <= pos && pos < ifs.Else.End()
				if !in && !inElse {
					return true
				}
				flags = append(flags, flagsRequired(fs, info, flagVars, ifs.Cond, in, 0)...)
				return true
			})
		}
		sort.Strings(flags)
		var uniq []string
		for i, fl := range flags {
			if i == 0 || fl != flags[i-1] {
				uniq = append(uniq, fl)
			}
		}
		return strings.Join(uniq, " && ")
	}
	type use struct {
		f     *FuncSrc
		call  *ast.CallExpr
		flags string
	}
	collect := func(root *FuncSrc) map[string][]use {
		out := map[string][]use{}
		for _, f := range append([]*FuncSrc{root}, p.AllLits(root)...) {
			info := f.Pkg.TypesInfo
			for _, call := range callsIn(f) {
				fn, _ := typeutil.Callee(info, call).(*types.Func)
				kind, ok := sources[fn]
				if !ok {
					continue
				}
				// where the parsed constraints are USED: the range statement over the call or over the local holding it
				usePos := ast.Node(call)
				if id := assignedLocal(f, call); id != nil {
					ast.Inspect(rootFunc(f).Body, func(x ast.Node) bool {
						if rs, ok := x.(*ast.RangeStmt); ok {
							if rid, ok := unparen(rs.X).(*ast.Ident); ok && rid.Name == id.Name && rs.Pos() > call.Pos() {
								usePos = rs
							}
						}
						return true
					})
				}
				uf := f
				if usePos != ast.Node(call) {
					if e := p.EnclosingFunc(usePos.Pos()); e != nil {
						uf = e
					}
				}
				out[kind] = append(out[kind], use{uf, call, guardFlags(uf, usePos)})
			}
		}
		return out
	}
	ct := p.MethodDecl(pkgMigrator, "Migrator", "CreateTable")
	am := p.MethodDecl(pkgMigrator, "Migrator", "AutoMigrate")
	c.Touch(ct)
	c.Touch(am)
	cu, au := collect(ct), collect(am)
	var kinds []string
	for k := range cu {
		kinds = append(kinds, k)
	}
	sort.Strings(kinds)
	n := 0
	for _, k := range kinds {
		if len(au[k]) == 0 {
			continue
		}
		n++
		cf, af := cu[k][0].flags, au[k][0].flags
		r.Check(cf == af, ct.Name(), k+" guarded alike", cu[k][0].call.Pos(), "same configuration flags as AutoMigrate ("+af+")", "CreateTable adds "+k+" under `"+cf+"` but AutoMigrate adds them to an existing table under `"+af+"`: with those switches set a freshly created table lacks what the next AutoMigrate run adds (migrating the same model twice is not a no-op, and the table accepts rows the model forbids in between)")
	}
	if n < 3 {
		r.Bad(ct.Name(), "constraint sources", ct.Body.Pos(), "fewer than three constraint sources are used by both CreateTable and AutoMigrate")
	}
}

// assignedLocal: the identifier a call's result is assigned to (x := call / var x = call), if any.
func assignedLocal(f *FuncSrc, call *ast.CallExpr) *ast.Ident {
	var out *ast.Ident
	ast.Inspect(f.Body, func(n ast.Node) bool {
		switch x := n.(type) {
		case *ast.AssignStmt:
			for i, rhs := range x.Rhs {
				if unparen(rhs) == ast.Expr(call) && i < len(x.Lhs) {
					if id, ok := x.Lhs[i].(*ast.Ident); ok {
						out = id
					}
				}
			}
		case *ast.ValueSpec:
			for i, rhs := range x.Values {
				if unparen(rhs) == ast.Expr(call) && i < len(x.Names) {
					out = x.Names[i]
				}
			}
		}
		return true
	})
	return out
}

// flagsRequired: which configuration flags must be set / unset for expr to evaluate to `want` (boolean locals
// with a single definition are looked through).
func flagsRequired(f *FuncSrc, info *types.Info, flagVars map[*types.Var]bool, expr ast.Expr, want bool, depth int) []string {
	var out []string
	if depth > 3 {
		return out
	}
	bf := boolTable(info, expr)
	for name, e := range bf.exprs {
		// what value must this atom have for expr == want?
		tOK, _ := bf.forAll(map[string]bool{name: true}, !want)  // atom true  => expr != want always
		fOK, _ := bf.forAll(map[string]bool{name: false}, !want) // atom false => expr != want always
		switch x := unparen(e).(type) {
		case *ast.SelectorExpr:
			if v, _ := info.Uses[x.Sel].(*types.Var); v != nil && flagVars[v] {
				switch {
				case tOK && !fOK:
					out = append(out, "!"+v.Name())
				case fOK && !tOK:
					out = append(out, v.Name())
				default:
					out = append(out, "?"+v.Name())
				}
			}
		case *ast.Ident:
			if !isBoolType(info, x) {
				continue
			}
			if ds := localDefs(f, x.Name, x.Pos()); len(ds) == 1 && ds[0].rhs != nil {
				switch {
				case tOK && !fOK: // the local must be false
					out = append(out, flagsRequired(f, info, flagVars, ds[0].rhs, false, depth+1)...)
				case fOK && !tOK: // the local must be true
					out = append(out, flagsRequired(f, info, flagVars, ds[0].rhs, true, depth+1)...)
				}
			}
		}
	}
	return out
}
