package main

func init() {
	addMutants(
		Mutant{Name: "c11-has-many-child-fields-from-primary-key", Property: "C11", Rule: "C11.key-pairs", Edits: []Edit{{"callbacks/preload.go",
			"\t\t\t\trelForeignKeys = append(relForeignKeys, ref.ForeignKey.DBName)\n\t\t\t\trelForeignFields = append(relForeignFields, ref.ForeignKey)\n\t\t\t\tforeignFields = append(foreignFields, ref.PrimaryKey)", "\t\t\t\trelForeignKeys = append(relForeignKeys, ref.ForeignKey.DBName)\n\t\t\t\trelForeignFields = append(relForeignFields, ref.PrimaryKey)\n\t\t\t\tforeignFields = append(foreignFields, ref.PrimaryKey)"}}},
		Mutant{Name: "c11-belongs-to-both-sides-primary-key", Property: "C11", Rule: "C11.key-pairs", Edits: []Edit{{"callbacks/preload.go",
			"\t\t\t\trelForeignKeys = append(relForeignKeys, ref.PrimaryKey.DBName)\n\t\t\t\trelForeignFields = append(relForeignFields, ref.PrimaryKey)\n\t\t\t\tforeignFields = append(foreignFields, ref.ForeignKey)", "\t\t\t\trelForeignKeys = append(relForeignKeys, ref.PrimaryKey.DBName)\n\t\t\t\trelForeignFields = append(relForeignFields, ref.PrimaryKey)\n\t\t\t\tforeignFields = append(foreignFields, ref.PrimaryKey)"}}},
		Mutant{Name: "c11-join-names-from-other-end", Property: "C11", Rule: "C11.key-pairs", Edits: []Edit{{"callbacks/preload.go",
			"\t\t\t\tjoinForeignKeys = append(joinForeignKeys, ref.ForeignKey.DBName)", "\t\t\t\tjoinForeignKeys = append(joinForeignKeys, ref.PrimaryKey.DBName)"}}},
		Mutant{Name: "c11-children-looked-up-with-sprint-key", Property: "C11", Rule: "C11.key-func", Edits: []Edit{{"callbacks/preload.go",
			"\t\tdatas, ok := identityMap[utils.ToStringKey(fieldValues...)]", "\t\tdatas, ok := identityMap[fmt.Sprint(fieldValues...)]"}}},
		Mutant{Name: "c11-unmatched-child-skipped", Property: "C11", Rule: "C11.orphan", Edits: []Edit{{"callbacks/preload.go",
			"\t\tif !ok {\n\t\t\treturn fmt.Errorf(\"failed to assign association %#v, make sure foreign fields exists\", elem.Interface())\n\t\t}", "\t\tif !ok {\n\t\t\tcontinue\n\t\t}"}}},
		Mutant{Name: "c11-reset-only-for-slices", Property: "C11", Rule: "C11.reset", Edits: []Edit{{"callbacks/preload.go",
			"\tswitch reflectValue.Kind() {\n\tcase reflect.Struct:\n\t\tswitch rel.Type {\n\t\tcase schema.HasMany, schema.Many2Many:\n\t\t\ttx.AddError(rel.Field.Set(tx.Statement.Context, reflectValue, reflect.MakeSlice(rel.Field.IndirectFieldType, 0, 10).Interface()))\n\t\tdefault:\n\t\t\ttx.AddError(rel.Field.Set(tx.Statement.Context, reflectValue, reflect.New(rel.Field.FieldType).Interface()))\n\t\t}\n\tcase reflect.Slice, reflect.Array:", "\tswitch reflectValue.Kind() {\n\tcase reflect.Slice, reflect.Array:"}}},
		Mutant{Name: "n52-preload-key-lists-in-different-order", Property: "*", Rule: "NEUTRAL", Edits: []Edit{{"callbacks/preload.go",
			"\t\t\t\trelForeignKeys = append(relForeignKeys, ref.ForeignKey.DBName)\n\t\t\t\trelForeignFields = append(relForeignFields, ref.ForeignKey)\n\t\t\t\tforeignFields = append(foreignFields, ref.PrimaryKey)", "\t\t\t\tforeignFields = append(foreignFields, ref.PrimaryKey)\n\t\t\t\trelForeignFields = append(relForeignFields, ref.ForeignKey)\n\t\t\t\trelForeignKeys = append(relForeignKeys, ref.ForeignKey.DBName)"}}},
		Mutant{Name: "n53-preload-child-key-in-local", Property: "*", Rule: "NEUTRAL", Edits: []Edit{{"callbacks/preload.go",
			"\t\tdatas, ok := identityMap[utils.ToStringKey(fieldValues...)]", "\t\tchildKey := utils.ToStringKey(fieldValues...)\n\t\tdatas, ok := identityMap[childKey]"}}},
	)
}
