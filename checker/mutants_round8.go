package main

func init() {
	addMutants(
		// C01.join-conds
		Mutant{Name: "c01-plain-join-drops-args", Property: "C01", Rule: "C01.join-conds", Edits: []Edit{{"chainable_api.go",
			"\ttx.Statement.Joins = append(tx.Statement.Joins, join{Name: query, Conds: args, JoinType: joinType})", "\ttx.Statement.Joins = append(tx.Statement.Joins, join{Name: query, JoinType: joinType})"}}},
		Mutant{Name: "n99-join-conds-assigned-after-the-literal", Property: "*", Rule: "NEUTRAL", Edits: []Edit{{"chainable_api.go",
			"\t\t\tj := join{\n\t\t\t\tName: query, Conds: args, Selects: db.Statement.Selects,\n\t\t\t\tOmits: db.Statement.Omits, JoinType: joinType,\n\t\t\t}", "\t\t\tj := join{\n\t\t\t\tName: query, Selects: db.Statement.Selects,\n\t\t\t\tOmits: db.Statement.Omits, JoinType: joinType,\n\t\t\t}\n\t\t\tj.Conds = args"}}},
		// C02.not-unwrap
		Mutant{Name: "c02-not-unwraps-any-single-group", Property: "C02", Rule: "C02.not-unwrap", Edits: []Edit{{"clause/where.go",
			"\t\tif andCondition, ok := exprs[0].(AndConditions); ok {\n\t\t\texprs = andCondition.Exprs\n\t\t}", "\t\tif andCondition, ok := exprs[0].(AndConditions); ok {\n\t\t\texprs = andCondition.Exprs\n\t\t} else if orCondition, ok := exprs[0].(OrConditions); ok && len(orCondition.Exprs) > 1 {\n\t\t\texprs = orCondition.Exprs\n\t\t}"}}},
		Mutant{Name: "n100-not-unwrap-through-type-switch", Property: "*", Rule: "NEUTRAL", Edits: []Edit{{"clause/where.go",
			"\t\tif andCondition, ok := exprs[0].(AndConditions); ok {\n\t\t\texprs = andCondition.Exprs\n\t\t}", "\t\tswitch group := exprs[0].(type) {\n\t\tcase AndConditions:\n\t\t\texprs = group.Exprs\n\t\t}"}}},
		// C03.lookup-order
		Mutant{Name: "c03-lookupfield-single-map-by-go-name-first", Property: "C03", Rule: "C03.lookup-order", Edits: []Edit{{"schema/schema.go",
			"\tif field, ok := schema.FieldsByDBName[name]; ok {\n\t\treturn field\n\t}\n\tif field, ok := schema.FieldsByName[name]; ok {\n\t\treturn field\n\t}", "\tfield, ok := schema.FieldsByName[name]\n\tif !ok {\n\t\tfield, ok = schema.FieldsByDBName[name]\n\t}\n\tif ok {\n\t\treturn field\n\t}"}}},
		Mutant{Name: "n101-lookupfield-db-name-then-go-name-in-one-chain", Property: "*", Rule: "NEUTRAL", Edits: []Edit{{"schema/schema.go",
			"\tif field, ok := schema.FieldsByDBName[name]; ok {\n\t\treturn field\n\t}\n\tif field, ok := schema.FieldsByName[name]; ok {\n\t\treturn field\n\t}", "\tfield, ok := schema.FieldsByDBName[name]\n\tif !ok {\n\t\tfield, ok = schema.FieldsByName[name]\n\t}\n\tif ok {\n\t\treturn field\n\t}"}}},
		// C05.finish-forward
		Mutant{Name: "c05-commit-skipped-when-handle-has-error", Property: "C05", Rule: "C05.finish-forward", Edits: []Edit{{"finisher_api.go",
			"func (db *DB) Commit() *DB {\n", "func (db *DB) Commit() *DB {\n\tif db.Error != nil {\n\t\treturn db\n\t}\n"}}},
	)
}

func init() {
	addMutants(
		Mutant{Name: "c08-join-query-clauses-before-caller-conditions", Property: "C08", Rule: "C08.join-filter-group", Edits: []Edit{{"callbacks/query.go",
			"\t\t\t\t\t\t\t\tif join.On != nil {\n\t\t\t\t\t\t\t\t\tonStmt.AddClause(join.On)\n\t\t\t\t\t\t\t\t}\n\n\t\t\t\t\t\t\t\tfor _, c := range relation.FieldSchema.QueryClauses {\n\t\t\t\t\t\t\t\t\tonStmt.AddClause(c)\n\t\t\t\t\t\t\t\t}",
			"\t\t\t\t\t\t\t\tfor _, c := range relation.FieldSchema.QueryClauses {\n\t\t\t\t\t\t\t\t\tonStmt.AddClause(c)\n\t\t\t\t\t\t\t\t}\n\n\t\t\t\t\t\t\t\tif join.On != nil {\n\t\t\t\t\t\t\t\t\tonStmt.AddClause(join.On)\n\t\t\t\t\t\t\t\t}"}},
			Note: "reverts the fix of finding F14"},
		Mutant{Name: "n102-join-query-clauses-first-but-caller-conditions-grouped", Property: "*", Rule: "NEUTRAL", Edits: []Edit{{"callbacks/query.go",
			"\t\t\t\t\t\t\t\tif join.On != nil {\n\t\t\t\t\t\t\t\t\tonStmt.AddClause(join.On)\n\t\t\t\t\t\t\t\t}\n\n\t\t\t\t\t\t\t\tfor _, c := range relation.FieldSchema.QueryClauses {\n\t\t\t\t\t\t\t\t\tonStmt.AddClause(c)\n\t\t\t\t\t\t\t\t}",
			"\t\t\t\t\t\t\t\tfor _, c := range relation.FieldSchema.QueryClauses {\n\t\t\t\t\t\t\t\t\tonStmt.AddClause(c)\n\t\t\t\t\t\t\t\t}\n\n\t\t\t\t\t\t\t\tif join.On != nil && len(join.On.Exprs) > 0 {\n\t\t\t\t\t\t\t\t\tonStmt.AddClause(clause.Where{Exprs: []clause.Expression{clause.And(join.On.Exprs...)}})\n\t\t\t\t\t\t\t\t}"}},
			Note: "the other correct form: the caller's conditions as one grouped unit"},
	)
}

func init() {
	addMutants(
		// C09.marker filter-once
		Mutant{Name: "c09-soft-delete-filter-without-marker-test", Property: "C09", Rule: "C09.marker", Edits: []Edit{{"soft_delete.go",
			"\tif _, ok := stmt.Clauses[\"soft_delete_enabled\"]; !ok && !stmt.Statement.Unscoped {", "\tif !stmt.Statement.Unscoped {"}}},
		// C11.all-parents
		Mutant{Name: "c11-attach-loop-stops-after-first-parent", Property: "C11", Rule: "C11.all-parents", Edits: []Edit{{"callbacks/preload.go",
			"\t\t\tcase reflect.Struct:\n\t\t\t\ttx.AddError(rel.Field.Set(tx.Statement.Context, data, elem.Interface()))\n", "\t\t\tcase reflect.Struct:\n\t\t\t\ttx.AddError(rel.Field.Set(tx.Statement.Context, data, elem.Interface()))\n\t\t\t\tif rel.Type == schema.HasOne {\n\t\t\t\t\tcontinue\n\t\t\t\t}\n"}},
			Note: "a continue in the attaching loop (harmless here, but the rule requires the loop to skip nothing)"},
		Mutant{Name: "n103-parents-list-looked-up-with-a-renamed-variable", Property: "*", Rule: "NEUTRAL", Edits: []Edit{
			{"callbacks/preload.go", "\t\tdatas, ok := identityMap[utils.ToStringKey(fieldValues...)]\n", "\t\tparents, ok := identityMap[utils.ToStringKey(fieldValues...)]\n"},
			{"callbacks/preload.go", "\t\tfor _, data := range datas {\n", "\t\tfor _, data := range parents {\n"}}},
		// C12.key-partners
		Mutant{Name: "c12-delete-many2many-values-from-schema-key", Property: "C12", Rule: "C12.key-partners", Edits: []Edit{{"association.go",
			"\t\t\t_, rvs := schema.GetIdentityFieldValuesMapFromValues(association.DB.Statement.Context, values, relPrimaryFields)\n\t\t\trelColumn, relValues := schema.ToQueryValues(rel.JoinTable.Table, joinRelPrimaryKeys, rvs)", "\t\t\t_, rvs := schema.GetIdentityFieldValuesMapFromValues(association.DB.Statement.Context, values, rel.FieldSchema.PrimaryFields)\n\t\t\trelColumn, relValues := schema.ToQueryValues(rel.JoinTable.Table, joinRelPrimaryKeys, rvs)"}}},
		Mutant{Name: "c12-replace-owner-values-through-rel-fields", Property: "C12", Rule: "C12.key-partners", Edits: []Edit{{"association.go",
			"\t\t\t_, pvs := schema.GetIdentityFieldValuesMap(association.DB.Statement.Context, reflectValue, primaryFields)\n\t\t\tif column, values := schema.ToQueryValues(rel.JoinTable.Table, joinPrimaryKeys, pvs); len(values) > 0 {", "\t\t\t_, pvs := schema.GetIdentityFieldValuesMap(association.DB.Statement.Context, reflectValue, relPrimaryFields)\n\t\t\tif column, values := schema.ToQueryValues(rel.JoinTable.Table, joinPrimaryKeys, pvs); len(values) > 0 {"}},
			Note: "the owner's join columns compared with values extracted through the target-side field list (built in the other branch)"},
		// C13.batch-error
		Mutant{Name: "c13-batch-error-only-without-callback-error", Property: "C13", Rule: "C13.batch-error", Edits: []Edit{{"finisher_api.go",
			"\t\t} else if result.Error != nil {\n\t\t\ttx.AddError(result.Error)\n\t\t}", "\t\t} else if result.Error != nil && result.RowsAffected == 0 {\n\t\t\ttx.AddError(result.Error)\n\t\t}"}}},
		Mutant{Name: "n104-batch-error-recorded-first", Property: "*", Rule: "NEUTRAL", Edits: []Edit{{"finisher_api.go",
			"\t\tif result.Error == nil && result.RowsAffected != 0 {\n\t\t\tfcTx := result.Session(&Session{NewDB: true})\n\t\t\tfcTx.RowsAffected = result.RowsAffected\n\t\t\ttx.AddError(fc(fcTx, batch))\n\t\t} else if result.Error != nil {\n\t\t\ttx.AddError(result.Error)\n\t\t}",
			"\t\tif result.Error != nil {\n\t\t\ttx.AddError(result.Error)\n\t\t} else if result.RowsAffected != 0 {\n\t\t\tfcTx := result.Session(&Session{NewDB: true})\n\t\t\tfcTx.RowsAffected = result.RowsAffected\n\t\t\ttx.AddError(fc(fcTx, batch))\n\t\t}"}}},
		// C10.key-all
		Mutant{Name: "c10-model-update-key-from-first-primary-field", Property: "C10", Rule: "C10.key-all", Edits: []Edit{{"callbacks/update.go",
			"\t\tcase reflect.Struct:\n\t\t\tfor _, field := range stmt.Schema.PrimaryFields {\n\t\t\t\tif value, isZero := field.ValueOf(stmt.Context, stmt.ReflectValue); !isZero {", "\t\tcase reflect.Struct:\n\t\t\tfor _, field := range stmt.Schema.PrimaryFields[:1] {\n\t\t\t\tif value, isZero := field.ValueOf(stmt.Context, stmt.ReflectValue); !isZero {"}}},
	)
}

func init() {
	addMutants(
		Mutant{Name: "c17-replace-without-inherited-side-request", Property: "C17", Rule: "C17.replace-position", Edits: []Edit{{"callbacks.go",
			"\tif c.before == \"\" && c.after == \"\" {\n\t\tfor i := len(c.processor.callbacks) - 1; i >= 0; i-- {\n\t\t\tif old := c.processor.callbacks[i]; old.name == name {\n\t\t\t\tc.before, c.after = old.before, old.after\n\t\t\t\tbreak\n\t\t\t}\n\t\t}\n\t}\n", ""}},
			Note: "reverts the fix of finding F15"},
		Mutant{Name: "c17-replace-inherits-before-only", Property: "C17", Rule: "C17.replace-position", Edits: []Edit{{"callbacks.go",
			"\t\t\t\tc.before, c.after = old.before, old.after\n", "\t\t\t\tc.before = old.before\n"}}},
		Mutant{Name: "n105-replace-inheritance-with-range-loop", Property: "*", Rule: "NEUTRAL", Edits: []Edit{{"callbacks.go",
			"\t\tfor i := len(c.processor.callbacks) - 1; i >= 0; i-- {\n\t\t\tif old := c.processor.callbacks[i]; old.name == name {\n\t\t\t\tc.before, c.after = old.before, old.after\n\t\t\t\tbreak\n\t\t\t}\n\t\t}", "\t\tfor _, old := range c.processor.callbacks {\n\t\t\tif old.name == name {\n\t\t\t\tc.before = old.before\n\t\t\t\tc.after = old.after\n\t\t\t}\n\t\t}"}}},
	)
}

func init() {
	addMutants(
		Mutant{Name: "c17-replace-overwrites-first-entry-in-place", Property: "C17", Rule: "C17.register", Edits: []Edit{{"callbacks.go",
			"\t\t}\n\t}\n\tc.processor.callbacks = append(c.processor.callbacks, c)\n\treturn c.processor.compile()", "\t\t}\n\t}\n\tfor idx, cb := range c.processor.callbacks {\n\t\tif cb.name == name {\n\t\t\tc.processor.callbacks[idx] = c\n\t\t\treturn c.processor.compile()\n\t\t}\n\t}\n\tc.processor.callbacks = append(c.processor.callbacks, c)\n\treturn c.processor.compile()"}},
			Note: "seed S125 rebased onto the fix of F15: Register n; Remove n; Replace n g no longer runs g"},
	)
}

func init() {
	addMutants(
		// C16.rule-copy
		Mutant{Name: "c16-expanded-rule-rebuilt-without-target-where", Property: "C16", Rule: "C16.rule-copy", Edits: []Edit{{"callbacks/create.go",
			"\t\t\t\tstmt.AddClause(onConflict)\n", "\t\t\t\tstmt.AddClause(clause.OnConflict{Columns: onConflict.Columns, Where: onConflict.Where, OnConstraint: onConflict.OnConstraint, DoNothing: onConflict.DoNothing, DoUpdates: onConflict.DoUpdates})\n"}}},
		Mutant{Name: "n106-expanded-rule-rebuilt-completely", Property: "*", Rule: "NEUTRAL", Edits: []Edit{{"callbacks/create.go",
			"\t\t\t\tstmt.AddClause(onConflict)\n", "\t\t\t\tstmt.AddClause(clause.OnConflict{Columns: onConflict.Columns, Where: onConflict.Where, TargetWhere: onConflict.TargetWhere, OnConstraint: onConflict.OnConstraint, DoNothing: onConflict.DoNothing, DoUpdates: onConflict.DoUpdates, UpdateAll: onConflict.UpdateAll})\n"}}},
		// C20.fk-flag
		Mutant{Name: "c20-fk-option-skips-new-columns-of-relations", Property: "C20", Rule: "C20.fk-flag", Edits: []Edit{{"migrator/migrator.go",
			"\t\tif !m.DB.IgnoreRelationshipsWhenMigrating {\n", "\t\tif !m.DB.IgnoreRelationshipsWhenMigrating && !m.DB.DisableForeignKeyConstraintWhenMigrating {\n"}}},
		Mutant{Name: "n107-fk-option-in-a-local-before-the-constraint-loop", Property: "*", Rule: "NEUTRAL", Edits: []Edit{{"migrator/migrator.go",
			"\t\t\t\tif !m.DB.DisableForeignKeyConstraintWhenMigrating && !m.DB.IgnoreRelationshipsWhenMigrating {\n\t\t\t\t\tfor _, rel := range stmt.Schema.Relationships.Relations {\n\t\t\t\t\t\tif rel.Field.IgnoreMigration {\n\t\t\t\t\t\t\tcontinue\n\t\t\t\t\t\t}\n\t\t\t\t\t\tif constraint := rel.ParseConstraint(); constraint != nil &&",
			"\t\t\t\tif !m.DB.IgnoreRelationshipsWhenMigrating && !m.DB.DisableForeignKeyConstraintWhenMigrating {\n\t\t\t\t\tfor _, rel := range stmt.Schema.Relationships.Relations {\n\t\t\t\t\t\tif rel.Field.IgnoreMigration {\n\t\t\t\t\t\t\tcontinue\n\t\t\t\t\t\t}\n\t\t\t\t\t\tif constraint := rel.ParseConstraint(); constraint != nil &&"}}},
		// C15.clone-flag
		Mutant{Name: "c15-clone-arms-not-found-only-for-limited-queries", Property: "C15", Rule: "C15.clone-flag", Edits: []Edit{{"statement.go",
			"\t\tRaiseErrorOnNotFound: stmt.RaiseErrorOnNotFound,\n", "\t\tRaiseErrorOnNotFound: stmt.RaiseErrorOnNotFound && len(stmt.Clauses) > 0,\n"}}},
	)
}

// more behaviour-preserving refactors (rules with syntactic recognisers)
func init() {
	addMutants(
		Mutant{Name: "n108-backfill-reversed-loop-local-step", Property: "*", Rule: "NEUTRAL", Edits: []Edit{{"callbacks/create.go",
			"\t\t\t\t\t\t_, isZero := pkField.ValueOf(db.Statement.Context, rv)\n\t\t\t\t\t\tif isZero {\n\t\t\t\t\t\t\tdb.AddError(pkField.Set(db.Statement.Context, rv, insertID))\n\t\t\t\t\t\t\tinsertID -= pkField.AutoIncrementIncrement\n\t\t\t\t\t\t}",
			"\t\t\t\t\t\tif _, isZero := pkField.ValueOf(db.Statement.Context, rv); isZero {\n\t\t\t\t\t\t\tdb.AddError(pkField.Set(db.Statement.Context, rv, insertID))\n\t\t\t\t\t\t\tinsertID -= pkField.AutoIncrementIncrement\n\t\t\t\t\t\t}"}}},
		Mutant{Name: "n109-map-backfill-guard-negated-first", Property: "*", Rule: "NEUTRAL", Edits: []Edit{{"callbacks/create.go",
			"\t\t\tfor _, mapValue := range mapValues {\n\t\t\t\tif mapValue != nil {\n\t\t\t\t\tmapValue[pkFieldName] = insertID\n\t\t\t\t}\n\t\t\t\tinsertID += schema.DefaultAutoIncrementIncrement\n\t\t\t}",
			"\t\t\tfor _, mapValue := range mapValues {\n\t\t\t\tif mapValue == nil {\n\t\t\t\t\tinsertID += schema.DefaultAutoIncrementIncrement\n\t\t\t\t\tcontinue\n\t\t\t\t}\n\t\t\t\tmapValue[pkFieldName] = insertID\n\t\t\t\tinsertID += schema.DefaultAutoIncrementIncrement\n\t\t\t}"}}},
		Mutant{Name: "n110-rollback-nil-check-merged", Property: "*", Rule: "NEUTRAL", Edits: []Edit{{"finisher_api.go",
			"\tif committer, ok := db.Statement.ConnPool.(TxCommitter); ok && committer != nil {\n\t\tif !reflect.ValueOf(committer).IsNil() {\n\t\t\tdb.AddError(committer.Rollback())\n\t\t}\n\t} else {\n\t\tdb.AddError(ErrInvalidTransaction)\n\t}\n\treturn db",
			"\tcommitter, ok := db.Statement.ConnPool.(TxCommitter)\n\tif !ok || committer == nil {\n\t\tdb.AddError(ErrInvalidTransaction)\n\t\treturn db\n\t}\n\tif !reflect.ValueOf(committer).IsNil() {\n\t\tdb.AddError(committer.Rollback())\n\t}\n\treturn db"}}},
	)
}
