package main

func init() {
	addMutants(
		// C01.join-conds
		Mutant{Name: "c01-plain-join-drops-args", Property: "C01", Rule: "C01.join-conds", Edits: []Edit{{"chainable_api.go",
			"\ttx.Statement.Joins = append(tx.Statement.Joins, join{Name: query, Conds: args, JoinType: joinType})", "\ttx.Statement.Joins = append(tx.Statement.Joins, join{Name: query, JoinType: joinType})"}}},
		Mutant{Name: "n99-join-conds-assigned-after-the-literal", Property: "*", Rule: "NEUTRAL", Edits: []Edit{{"chainable_api.go",
			"\t\t\tj := join{\n\t\t\t\tName: query, Conds: args, Selects: db.Statement.Selects,\n\t\t\t\tOmits: db.Statement.Omits, JoinType: joinType,\n\t\t\t}", "\t\t\tj := join{\n\t\t\t\tName: query, Selects: db.Statement.Selects,\n\t\t\t\tOmits: db.Statement.Omits, JoinType: joinType,\n\t\t\t}\n\t\t\tj.Conds = args"}}},
		// C02.not-unwrap
		Mutant{Name: "c02-not-unwraps-any-single-group", Property: "C02", Rule: "C02.not-unwrap", Edits: []Edit{{"clause/where.go",
			"\t\tif andCondition, ok := exprs[0].(AndConditions); ok {\n\t\t\texprs = andCondition.Exprs\n\t\t}", "\t\tif andCondition, ok := exprs[0].(AndConditions); ok {\n\t\t\texprs = andCondition.Exprs\n\t\t} else if orCondition, ok := exprs[0].(OrConditions); ok && len(orCondition.Exprs) > 1 {\n\t\t\texprs = orCondition.Exprs\n\t\t}"}}},
		Mutant{Name: "n100-not-unwrap-through-type-switch", Property: "*", Rule: "NEUTRAL", Edits: []Edit{{"clause/where.go",
			"\t\tif andCondition, ok := exprs[0].(AndConditions); ok {\n\t\t\texprs = andCondition.Exprs\n\t\t}", "\t\tswitch group := exprs[0].(type) {\n\t\tcase AndConditions:\n\t\t\texprs = group.Exprs\n\t\t}"}}},
		// C03.lookup-order
		Mutant{Name: "c03-lookupfield-single-map-by-go-name-first", Property: "C03", Rule: "C03.lookup-order", Edits: []Edit{{"schema/schema.go",
			"\tif field, ok := schema.FieldsByDBName[name]; ok {\n\t\treturn field\n\t}\n\tif field, ok := schema.FieldsByName[name]; ok {\n\t\treturn field\n\t}", "\tfield, ok := schema.FieldsByName[name]\n\tif !ok {\n\t\tfield, ok = schema.FieldsByDBName[name]\n\t}\n\tif ok {\n\t\treturn field\n\t}"}}},
		Mutant{Name: "n101-lookupfield-db-name-then-go-name-in-one-chain", Property: "*", Rule: "NEUTRAL", Edits: []Edit{{"schema/schema.go",
			"\tif field, ok := schema.FieldsByDBName[name]; ok {\n\t\treturn field\n\t}\n\tif field, ok := schema.FieldsByName[name]; ok {\n\t\treturn field\n\t}", "\tfield, ok := schema.FieldsByDBName[name]\n\tif !ok {\n\t\tfield, ok = schema.FieldsByName[name]\n\t}\n\tif ok {\n\t\treturn field\n\t}"}}},
		// C05.finish-forward
		Mutant{Name: "c05-commit-skipped-when-handle-has-error", Property: "C05", Rule: "C05.finish-forward", Edits: []Edit{{"finisher_api.go",
			"func (db *DB) Commit() *DB {\n", "func (db *DB) Commit() *DB {\n\tif db.Error != nil {\n\t\treturn db\n\t}\n"}}},
	)
}
