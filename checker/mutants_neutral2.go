package main

// More behaviour-preserving edits (every check must stay silent).

func init() {
	addMutants(
		Mutant{Name: "n29-before-create-guard-as-early-returns", Property: "*", Rule: "NEUTRAL", Edits: []Edit{{"callbacks/create.go",
			"\tif db.Error == nil && db.Statement.Schema != nil && !db.Statement.SkipHooks && (db.Statement.Schema.BeforeSave || db.Statement.Schema.BeforeCreate) {\n\t\tcallMethod(db, func(value interface{}, tx *gorm.DB) (called bool) {\n\t\t\tif db.Statement.Schema.BeforeSave {\n\t\t\t\tif i, ok := value.(BeforeSaveInterface); ok {\n\t\t\t\t\tcalled = true\n\t\t\t\t\tdb.AddError(i.BeforeSave(tx))\n\t\t\t\t}\n\t\t\t}\n\n\t\t\tif db.Statement.Schema.BeforeCreate {\n\t\t\t\tif i, ok := value.(BeforeCreateInterface); ok {\n\t\t\t\t\tcalled = true\n\t\t\t\t\tdb.AddError(i.BeforeCreate(tx))\n\t\t\t\t}\n\t\t\t}\n\t\t\treturn called\n\t\t})\n\t}\n}",
			"\tif db.Error != nil || db.Statement.Schema == nil || db.Statement.SkipHooks {\n\t\treturn\n\t}\n\tif !db.Statement.Schema.BeforeSave && !db.Statement.Schema.BeforeCreate {\n\t\treturn\n\t}\n\tcallMethod(db, func(value interface{}, tx *gorm.DB) (called bool) {\n\t\tif db.Statement.Schema.BeforeSave {\n\t\t\tif i, ok := value.(BeforeSaveInterface); ok {\n\t\t\t\tcalled = true\n\t\t\t\tdb.AddError(i.BeforeSave(tx))\n\t\t\t}\n\t\t}\n\n\t\tif db.Statement.Schema.BeforeCreate {\n\t\t\tif i, ok := value.(BeforeCreateInterface); ok {\n\t\t\t\tcalled = true\n\t\t\t\tdb.AddError(i.BeforeCreate(tx))\n\t\t\t}\n\t\t}\n\t\treturn called\n\t})\n}"}}},
		Mutant{Name: "n30-scan-raise-condition-reordered", Property: "*", Rule: "NEUTRAL", Edits: []Edit{{"scan.go",
			"\tif db.RowsAffected == 0 && db.Statement.RaiseErrorOnNotFound && db.Error == nil {\n\t\tdb.AddError(ErrRecordNotFound)\n\t}", "\tif db.Error == nil && db.Statement.RaiseErrorOnNotFound && db.RowsAffected == 0 {\n\t\tdb.AddError(ErrRecordNotFound)\n\t}"}}},
		Mutant{Name: "n31-soft-delete-query-guard-nested", Property: "*", Rule: "NEUTRAL", Edits: []Edit{
			{"soft_delete.go", "func (sd SoftDeleteQueryClause) ModifyStatement(stmt *Statement) {\n\tif _, ok := stmt.Clauses[\"soft_delete_enabled\"]; !ok && !stmt.Statement.Unscoped {", "func (sd SoftDeleteQueryClause) ModifyStatement(stmt *Statement) {\n\tif stmt.Statement.Unscoped {\n\t\treturn\n\t}\n\tif _, ok := stmt.Clauses[\"soft_delete_enabled\"]; !ok {"}}},
		Mutant{Name: "n32-begin-error-recorded-in-switch-arms", Property: "*", Rule: "NEUTRAL", Edits: []Edit{
			{"finisher_api.go", "\tdefault:\n\t\terr = ErrInvalidTransaction\n\t}\n\n\tif err != nil {\n\t\ttx.AddError(err)\n\t}\n\n\treturn tx\n}\n\n// Commit commits the changes in a transaction", "\tdefault:\n\t\terr = ErrInvalidTransaction\n\t}\n\n\tif err == nil {\n\t\treturn tx\n\t}\n\ttx.AddError(err)\n\treturn tx\n}\n\n// Commit commits the changes in a transaction"}}},
		Mutant{Name: "n33-create-executor-schema-local", Property: "*", Rule: "NEUTRAL", Edits: []Edit{
			{"callbacks/create.go", "\t\tif db.Statement.Schema != nil {\n\t\t\tif !db.Statement.Unscoped {\n\t\t\t\tfor _, c := range db.Statement.Schema.CreateClauses {\n\t\t\t\t\tdb.Statement.AddClause(c)\n\t\t\t\t}\n\t\t\t}\n", "\t\tif sch := db.Statement.Schema; sch != nil {\n\t\t\tif !db.Statement.Unscoped {\n\t\t\t\tfor _, c := range sch.CreateClauses {\n\t\t\t\t\tdb.Statement.AddClause(c)\n\t\t\t\t}\n\t\t\t}\n"}}},
	)
}

func init() {
	addMutants(
		Mutant{Name: "n40-automigrate-hastable-in-local", Property: "*", Rule: "NEUTRAL", Edits: []Edit{{"migrator/migrator.go",
			"\t\tif !queryTx.Migrator().HasTable(value) {\n\t\t\tif err := execTx.Migrator().CreateTable(value); err != nil {", "\t\texists := queryTx.Migrator().HasTable(value)\n\t\tif !exists {\n\t\t\tif err := execTx.Migrator().CreateTable(value); err != nil {"}}},
		Mutant{Name: "n41-query-executor-context-in-local", Property: "*", Rule: "NEUTRAL", Edits: []Edit{{"callbacks/query.go",
			"\t\t\trows, err := db.Statement.ConnPool.QueryContext(db.Statement.Context, db.Statement.SQL.String(), db.Statement.Vars...)", "\t\t\tctx := db.Statement.Context\n\t\t\trows, err := db.Statement.ConnPool.QueryContext(ctx, db.Statement.SQL.String(), db.Statement.Vars...)"}}},
		Mutant{Name: "n42-firstorcreate-lookup-error-else-form", Property: "*", Rule: "NEUTRAL", Edits: []Edit{{"finisher_api.go",
			"\tresult := queryTx.Find(dest, conds...)\n\tif result.Error != nil {\n\t\ttx.Error = result.Error\n\t\treturn tx\n\t}\n\n\tif result.RowsAffected == 0 {\n\t\tif c, ok := result.Statement.Clauses[\"WHERE\"]; ok {", "\tresult := queryTx.Find(dest, conds...)\n\tif lookupErr := result.Error; lookupErr != nil {\n\t\ttx.Error = lookupErr\n\t\treturn tx\n\t}\n\n\tif result.RowsAffected == 0 {\n\t\tif c, ok := result.Statement.Clauses[\"WHERE\"]; ok {"}}},
		Mutant{Name: "n43-raw-exec-statement-local", Property: "*", Rule: "NEUTRAL", Edits: []Edit{{"callbacks/raw.go",
			"\t\tresult, err := db.Statement.ConnPool.ExecContext(db.Statement.Context, db.Statement.SQL.String(), db.Statement.Vars...)", "\t\tstmt := db.Statement\n\t\tresult, err := stmt.ConnPool.ExecContext(stmt.Context, stmt.SQL.String(), stmt.Vars...)"}}},
	)
}

func init() {
	addMutants(
		Mutant{Name: "n48-commit-callback-error-snapshot", Property: "*", Rule: "NEUTRAL", Edits: []Edit{{"callbacks/transaction.go",
			"\t\t\tif db.Error != nil {\n\t\t\t\tdb.Rollback()\n\t\t\t} else {\n\t\t\t\tdb.Commit()\n\t\t\t}", "\t\t\tfailed := db.Error\n\t\t\tif failed != nil {\n\t\t\t\tdb.Rollback()\n\t\t\t} else {\n\t\t\t\tdb.Commit()\n\t\t\t}"}}},
	)
}

func init() {
	addMutants(
		Mutant{Name: "n61-createtable-fk-flags-in-local", Property: "*", Rule: "NEUTRAL", Edits: []Edit{{"migrator/migrator.go",
			"\t\t\tif !m.DB.DisableForeignKeyConstraintWhenMigrating && !m.DB.IgnoreRelationshipsWhenMigrating {\n\t\t\t\tfor _, rel := range stmt.Schema.Relationships.Relations {\n\t\t\t\t\tif rel.Field.IgnoreMigration {\n\t\t\t\t\t\tcontinue\n\t\t\t\t\t}\n\t\t\t\t\tif constraint := rel.ParseConstraint(); constraint != nil {\n\t\t\t\t\t\tif constraint.Schema == stmt.Schema {\n\t\t\t\t\t\t\tsql, vars := constraint.Build()",
			"\t\t\tskipFK := m.DB.DisableForeignKeyConstraintWhenMigrating || m.DB.IgnoreRelationshipsWhenMigrating\n\t\t\tif !skipFK {\n\t\t\t\tfor _, rel := range stmt.Schema.Relationships.Relations {\n\t\t\t\t\tif rel.Field.IgnoreMigration {\n\t\t\t\t\t\tcontinue\n\t\t\t\t\t}\n\t\t\t\t\tif constraint := rel.ParseConstraint(); constraint != nil {\n\t\t\t\t\t\tif constraint.Schema == stmt.Schema {\n\t\t\t\t\t\t\tsql, vars := constraint.Build()"}}},
		Mutant{Name: "n62-rowquery-unknown-count-in-both-arms", Property: "*", Rule: "NEUTRAL", Edits: []Edit{{"callbacks/row.go",
			"\t\t\tdb.Statement.Dest = db.Statement.ConnPool.QueryRowContext(db.Statement.Context, db.Statement.SQL.String(), db.Statement.Vars...)\n\t\t}\n\n\t\tdb.RowsAffected = -1\n", "\t\t\tdb.Statement.Dest = db.Statement.ConnPool.QueryRowContext(db.Statement.Context, db.Statement.SQL.String(), db.Statement.Vars...)\n\t\t}\n\t\tconst unknown = -1\n\t\tdb.RowsAffected = unknown\n"}}},
		Mutant{Name: "n63-replace-first-flag-in-local", Property: "*", Rule: "NEUTRAL", Edits: []Edit{{"association.go",
			"\t\t\tappendToRelations(reflectValue, rv, clear && idx == 0)", "\t\t\tfirst := idx == 0\n\t\t\tappendToRelations(reflectValue, rv, clear && first)"}}},
		Mutant{Name: "n64-map-create-column-alias", Property: "*", Rule: "NEUTRAL", Edits: []Edit{{"callbacks/helper.go",
			"\t\tif v, ok := selectColumns[k]; (ok && v) || (!ok && !restricted) {\n\t\t\tvalues.Columns = append(values.Columns, clause.Column{Name: k})", "\t\tcolumn := k\n\t\tif v, ok := selectColumns[column]; (ok && v) || (!ok && !restricted) {\n\t\t\tvalues.Columns = append(values.Columns, clause.Column{Name: k})"}}},
		Mutant{Name: "n65-scan-error-check-restructured", Property: "*", Rule: "NEUTRAL", Edits: []Edit{{"scan.go",
			"\tif err := rows.Err(); err != nil && err != db.Error {\n\t\tdb.AddError(err)\n\t}", "\tif iterErr := rows.Err(); iterErr != nil {\n\t\tif iterErr != db.Error {\n\t\t\tdb.AddError(iterErr)\n\t\t}\n\t}"}}},
	)
}
