package main

// More behaviour-preserving edits (every check must stay silent).

func init() {
	addMutants(
		Mutant{Name: "n29-before-create-guard-as-early-returns", Property: "*", Rule: "NEUTRAL", Edits: []Edit{{"callbacks/create.go",
			"\tif db.Error == nil && db.Statement.Schema != nil && !db.Statement.SkipHooks && (db.Statement.Schema.BeforeSave || db.Statement.Schema.BeforeCreate) {\n\t\tcallMethod(db, func(value interface{}, tx *gorm.DB) (called bool) {\n\t\t\tif db.Statement.Schema.BeforeSave {\n\t\t\t\tif i, ok := value.(BeforeSaveInterface); ok {\n\t\t\t\t\tcalled = true\n\t\t\t\t\tdb.AddError(i.BeforeSave(tx))\n\t\t\t\t}\n\t\t\t}\n\n\t\t\tif db.Statement.Schema.BeforeCreate {\n\t\t\t\tif i, ok := value.(BeforeCreateInterface); ok {\n\t\t\t\t\tcalled = true\n\t\t\t\t\tdb.AddError(i.BeforeCreate(tx))\n\t\t\t\t}\n\t\t\t}\n\t\t\treturn called\n\t\t})\n\t}\n}",
			"\tif db.Error != nil || db.Statement.Schema == nil || db.Statement.SkipHooks {\n\t\treturn\n\t}\n\tif !db.Statement.Schema.BeforeSave && !db.Statement.Schema.BeforeCreate {\n\t\treturn\n\t}\n\tcallMethod(db, func(value interface{}, tx *gorm.DB) (called bool) {\n\t\tif db.Statement.Schema.BeforeSave {\n\t\t\tif i, ok := value.(BeforeSaveInterface); ok {\n\t\t\t\tcalled = true\n\t\t\t\tdb.AddError(i.BeforeSave(tx))\n\t\t\t}\n\t\t}\n\n\t\tif db.Statement.Schema.BeforeCreate {\n\t\t\tif i, ok := value.(BeforeCreateInterface); ok {\n\t\t\t\tcalled = true\n\t\t\t\tdb.AddError(i.BeforeCreate(tx))\n\t\t\t}\n\t\t}\n\t\treturn called\n\t})\n}"}}},
		Mutant{Name: "n30-scan-raise-condition-reordered", Property: "*", Rule: "NEUTRAL", Edits: []Edit{{"scan.go",
			"\tif db.RowsAffected == 0 && db.Statement.RaiseErrorOnNotFound && db.Error == nil {\n\t\tdb.AddError(ErrRecordNotFound)\n\t}", "\tif db.Error == nil && db.Statement.RaiseErrorOnNotFound && db.RowsAffected == 0 {\n\t\tdb.AddError(ErrRecordNotFound)\n\t}"}}},
		Mutant{Name: "n31-soft-delete-query-guard-nested", Property: "*", Rule: "NEUTRAL", Edits: []Edit{
			{"soft_delete.go", "func (sd SoftDeleteQueryClause) ModifyStatement(stmt *Statement) {\n\tif _, ok := stmt.Clauses[\"soft_delete_enabled\"]; !ok && !stmt.Statement.Unscoped {", "func (sd SoftDeleteQueryClause) ModifyStatement(stmt *Statement) {\n\tif stmt.Statement.Unscoped {\n\t\treturn\n\t}\n\tif _, ok := stmt.Clauses[\"soft_delete_enabled\"]; !ok {"}}},
		Mutant{Name: "n32-begin-error-recorded-in-switch-arms", Property: "*", Rule: "NEUTRAL", Edits: []Edit{
			{"finisher_api.go", "\tdefault:\n\t\terr = ErrInvalidTransaction\n\t}\n\n\tif err != nil {\n\t\ttx.AddError(err)\n\t}\n\n\treturn tx\n}\n\n// Commit commits the changes in a transaction", "\tdefault:\n\t\terr = ErrInvalidTransaction\n\t}\n\n\tif err == nil {\n\t\treturn tx\n\t}\n\ttx.AddError(err)\n\treturn tx\n}\n\n// Commit commits the changes in a transaction"}}},
		Mutant{Name: "n33-create-executor-schema-local", Property: "*", Rule: "NEUTRAL", Edits: []Edit{
			{"callbacks/create.go", "\t\tif db.Statement.Schema != nil {\n\t\t\tif !db.Statement.Unscoped {\n\t\t\t\tfor _, c := range db.Statement.Schema.CreateClauses {\n\t\t\t\t\tdb.Statement.AddClause(c)\n\t\t\t\t}\n\t\t\t}\n", "\t\tif sch := db.Statement.Schema; sch != nil {\n\t\t\tif !db.Statement.Unscoped {\n\t\t\t\tfor _, c := range sch.CreateClauses {\n\t\t\t\t\tdb.Statement.AddClause(c)\n\t\t\t\t}\n\t\t\t}\n"}}},
	)
}
