package main

func init() {
	addMutants(
		Mutant{Name: "c02-struct-in-list-appended-to-presized", Property: "C02", Rule: "C02.presized-append", Edits: []Edit{{"statement.go",
			"\t\t\t\t\tswitch reflectValue.Kind() {\n\t\t\t\t\tcase reflect.Slice, reflect.Array:\n\t\t\t\t\t\t// optimize reflect value length\n\t\t\t\t\t\tvalueLen := reflectValue.Len()\n\t\t\t\t\t\tvalues := make([]interface{}, valueLen)\n\t\t\t\t\t\tfor i := 0; i < valueLen; i++ {\n\t\t\t\t\t\t\tvalues[i] = reflectValue.Index(i).Interface()",
			"\t\t\t\t\tswitch reflectValue.Kind() {\n\t\t\t\t\tcase reflect.Slice, reflect.Array:\n\t\t\t\t\t\t// optimize reflect value length\n\t\t\t\t\t\tvalueLen := reflectValue.Len()\n\t\t\t\t\t\tvalues := make([]interface{}, valueLen)\n\t\t\t\t\t\tfor i := 0; i < valueLen; i++ {\n\t\t\t\t\t\t\tvalues = append(values, reflectValue.Index(i).Interface())"}}, Note: "second site (primary-key slice arm)"},
		Mutant{Name: "c01-select-binds-only-with-fewer-args", Property: "C01", Rule: "C01.select-bind", Edits: []Edit{{"chainable_api.go",
			"if strings.Count(v, \"?\") >= len(args) && len(args) > 0 {", "if strings.Count(v, \"?\") > len(args) && len(args) > 0 {"}}},
		Mutant{Name: "c04-rollback-filters-tx-done", Property: "C04", Rule: "C04.forward", Edits: []Edit{{"finisher_api.go",
			"\t\t\tdb.AddError(committer.Rollback())", "\t\t\tif err := committer.Rollback(); err != sql.ErrTxDone {\n\t\t\t\tdb.AddError(err)\n\t\t\t}"}}},
		Mutant{Name: "c11-struct-key-flag-not-accumulated", Property: "C11", Rule: "C11.key-nonzero", Edits: []Edit{{"schema/utils.go",
			"\t\t\tresults[0][idx], zero = field.ValueOf(ctx, reflectValue)\n\t\t\tnotZero = notZero || !zero", "\t\t\tresults[0][idx], zero = field.ValueOf(ctx, reflectValue)\n\t\t\tnotZero = !zero"}}},
		Mutant{Name: "c05-scan-struct-arm-returns-early", Property: "C05", Rule: "C05.scan-err", Edits: []Edit{{"scan.go",
			"\t\tdefault:\n\t\t\tdb.AddError(rows.Scan(dest))\n\t\t}\n\t}\n", "\t\tdefault:\n\t\t\tif err := rows.Scan(dest); err == nil {\n\t\t\t\treturn\n\t\t\t}\n\t\t}\n\t}\n"}}},
		Mutant{Name: "n57-select-bind-condition-flipped-operands", Property: "*", Rule: "NEUTRAL", Edits: []Edit{{"chainable_api.go",
			"if strings.Count(v, \"?\") >= len(args) && len(args) > 0 {", "if len(args) > 0 && len(args) <= strings.Count(v, \"?\") {"}}},
		Mutant{Name: "n58-commit-error-through-local", Property: "*", Rule: "NEUTRAL", Edits: []Edit{{"finisher_api.go",
			"\t\tdb.AddError(committer.Commit())", "\t\terr := committer.Commit()\n\t\tdb.AddError(err)"}}},
		Mutant{Name: "n59-key-flag-accumulated-with-if", Property: "*", Rule: "NEUTRAL", Edits: []Edit{{"schema/utils.go",
			"\t\t\tresults[0][idx], zero = field.ValueOf(ctx, reflectValue)\n\t\t\tnotZero = notZero || !zero", "\t\t\tresults[0][idx], zero = field.ValueOf(ctx, reflectValue)\n\t\t\tnotZero = !zero || notZero"}}},
	)
}

func init() {
	addMutants(
		Mutant{Name: "c10-slice-of-maps-looks-up-raw-key", Property: "C10", Rule: "C10.emit-key", Edits: []Edit{{"callbacks/helper.go",
			"\t\tif v, ok := selectColumns[k]; (ok && v) || (!ok && !restricted) {\n\t\t\tvalues.Columns = append(values.Columns, clause.Column{Name: k})", "\t\tif v, ok := selectColumns[k+\"\"]; (ok && v) || (!ok && !restricted) {\n\t\t\tvalues.Columns = append(values.Columns, clause.Column{Name: k})"}}},
		Mutant{Name: "c12-slice-mode-clear-first-record-only", Property: "C12", Rule: "C12.clear-once", Edits: []Edit{{"association.go",
			"\t\t\tappendToRelations(reflectValue, rv, clear && idx == 0)", "\t\t\tappendToRelations(reflectValue, rv, clear || idx == 0)"}}},
		Mutant{Name: "c08-fresh-statement-inherits-unscoped-unless-hooks", Property: "C08", Rule: "C08.unscoped-writers", Edits: []Edit{{"gorm.go",
			"\t\t\tif db.Config.PropagateUnscoped {\n\t\t\t\ttx.Statement.Unscoped = db.Statement.Unscoped\n\t\t\t}", "\t\t\tif db.Config.PropagateUnscoped || !db.Statement.SkipHooks {\n\t\t\t\ttx.Statement.Unscoped = db.Statement.Unscoped\n\t\t\t}"}}},
		Mutant{Name: "n60-replace-clear-first-through-local", Property: "*", Rule: "NEUTRAL", Edits: []Edit{{"association.go",
			"\t\t\tappendToRelations(reflectValue, rv, clear && idx == 0)", "\t\t\tappendToRelations(reflectValue, rv, idx == 0 && clear)"}}},
	)
}
