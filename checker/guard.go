package main

// Guard facts on go/cfg: a forward "must" data-flow analysis that computes,
// for every program point of one function, the set of facts that hold on
// every path reaching it.
//
// Facts:
//   N:<path>      <path> == nil            NN:<path>   <path> != nil
//   T:<expr>      boolean <expr> is true   F:<expr>    boolean <expr> is false
//   C:<callee>    a call of <callee> has been executed on every path
//   E:<event>     a rule-defined event node has been executed on every path
//   I:<v>:<pol>=><fact>  implication recorded at `v := <bool expr>`
//
// Sources of facts: the true/false edge of every condition (if, for,
// tagless switch, tagged switch with a single-expression case), decomposed
// through &&, || and !; executed calls; rule-defined events.
// Kills: an assignment to an access path kills every fact mentioning that
// path or an extension of it; rules may add call-induced kills.

import (
	"fmt"
	"go/ast"
	"go/token"
	"go/types"
	"sort"
	"strings"

	"golang.org/x/tools/go/cfg"
	"golang.org/x/tools/go/types/typeutil"
)

type factSet map[string]struct{} // nil = TOP (not yet reached)

func (s factSet) Has(f string) bool { _, ok := s[f]; return ok }

func (s factSet) clone() factSet {
	if s == nil {
		return nil
	}
	n := make(factSet, len(s))
	for k := range s {
		n[k] = struct{}{}
	}
	return n
}

func (s factSet) List() []string {
	out := make([]string, 0, len(s))
	for k := range s {
		if !strings.HasPrefix(k, "I:") {
			out = append(out, k)
		}
	}
	sort.Strings(out)
	return out
}

func fNil(path string) string    { return "N:" + path }
func fNonNil(path string) string { return "NN:" + path }
func fTrue(expr string) string   { return "T:" + expr }
func fFalse(expr string) string  { return "F:" + expr }
func fCalled(callee string) string {
	return "C:" + callee
}
func fEvent(name string) string { return "E:" + name }

// GuardConfig customises the analysis for a rule.
type GuardConfig struct {
	Name string
	// CallKills returns access paths (e.g. "db.Error") whose facts die when call executes.
	CallKills func(info *types.Info, call *ast.CallExpr) []string
	// Events returns event names generated when node n (a CFG node) executes.
	Events func(info *types.Info, n ast.Node) []string
	// Entry facts assumed at function entry (used for closures that inherit a guard).
	Entry []string
}

var defaultGuards = &GuardConfig{Name: "default"}

type guardState struct {
	f      *FuncSrc
	conf   *GuardConfig
	info   *types.Info
	g      *cfg.CFG
	in     []factSet
	in2    []factSet           // phase 2: in-sets enriched with merge implications (nil if not computed)
	paths  map[string][]string // fact -> access paths it mentions
	caseOf map[*ast.CaseClause]ast.Stmt
	single map[*types.Var]ast.Expr // locals assigned exactly once, with initialiser
	// resolve, when set (path enumeration), maps a boolean local to the facts of its current symbolic value
	resolve func(id *ast.Ident, pol bool) ([]string, bool)
	prog    *Program // for looking through boolean predicate helpers (may be nil)
	// ifAlias: `if x := <path>; cond(x)` - x is a snapshot of <path> taken immediately before the test
	ifAlias map[*types.Var]ast.Expr
}

func mayReturn(info *types.Info) func(*ast.CallExpr) bool {
	return func(call *ast.CallExpr) bool {
		if id, ok := call.Fun.(*ast.Ident); ok {
			if b, ok := info.Uses[id].(*types.Builtin); ok && b.Name() == "panic" {
				return false
			}
		}
		if fn, ok := typeutil.Callee(info, call).(*types.Func); ok && fn.Pkg() != nil {
			full := fn.FullName()
			if full == "os.Exit" || full == "log.Fatal" || full == "log.Fatalf" || full == "log.Fatalln" {
				return false
			}
		}
		return true
	}
}

func (p *Program) CFG(f *FuncSrc) *cfg.CFG {
	if f.cfg == nil {
		if f.Body == nil {
			fatalf("no body for %s", f.name)
		}
		f.cfg = cfg.New(f.Body, mayReturn(f.Pkg.TypesInfo))
	}
	return f.cfg
}

var guardCache = map[string]*guardState{}

func (p *Program) Guards(f *FuncSrc, conf *GuardConfig) *guardState {
	if conf == nil {
		conf = defaultGuards
	}
	key := fmt.Sprintf("%p/%s", f, conf.Name)
	if gs, ok := guardCache[key]; ok {
		return gs
	}
	gs := &guardState{prog: p, f: f, conf: conf, info: f.Pkg.TypesInfo, g: p.CFG(f), paths: map[string][]string{}, caseOf: map[*ast.CaseClause]ast.Stmt{}, single: map[*types.Var]ast.Expr{}}
	gs.prepare()
	gs.solve()
	gs.solveImplications()
	guardCache[key] = gs
	return gs
}

func (gs *guardState) prepare() {
	// map case clauses to their switch; find single-assignment locals
	assigns := map[*types.Var]int{}
	inits := map[*types.Var]ast.Expr{}
	addrTaken := map[*types.Var]bool{}
	note := func(id *ast.Ident, rhs ast.Expr) {
		var v *types.Var
		if o, ok := gs.info.Defs[id].(*types.Var); ok {
			v = o
		} else if o, ok := gs.info.Uses[id].(*types.Var); ok {
			v = o
		}
		if v == nil {
			return
		}
		assigns[v]++
		inits[v] = rhs
	}
	ast.Inspect(gs.f.Body, func(n ast.Node) bool {
		switch n := n.(type) {
		case *ast.SwitchStmt:
			for _, c := range n.Body.List {
				gs.caseOf[c.(*ast.CaseClause)] = n
			}
		case *ast.TypeSwitchStmt:
			for _, c := range n.Body.List {
				gs.caseOf[c.(*ast.CaseClause)] = n
			}
		case *ast.IfStmt:
			// if x := <selector path>; ... : x names the value of the path at the moment of the test
			if as, ok := n.Init.(*ast.AssignStmt); ok && as.Tok == token.DEFINE && len(as.Lhs) == 1 && len(as.Rhs) == 1 {
				if id, ok := as.Lhs[0].(*ast.Ident); ok {
					if _, isPath := selectorPath(gs.info, as.Rhs[0]); isPath {
						if _, isCall := unparen(as.Rhs[0]).(*ast.CallExpr); !isCall {
							if v, ok := gs.info.Defs[id].(*types.Var); ok {
								if gs.ifAlias == nil {
									gs.ifAlias = map[*types.Var]ast.Expr{}
								}
								gs.ifAlias[v] = as.Rhs[0]
							}
						}
					}
				}
			}
		case *ast.AssignStmt:
			for i, l := range n.Lhs {
				if id, ok := l.(*ast.Ident); ok {
					var rhs ast.Expr
					if len(n.Rhs) == len(n.Lhs) {
						rhs = n.Rhs[i]
					}
					note(id, rhs)
				}
			}
		case *ast.ValueSpec:
			for i, id := range n.Names {
				var rhs ast.Expr
				if len(n.Values) == len(n.Names) {
					rhs = n.Values[i]
				}
				note(id, rhs)
			}
		case *ast.IncDecStmt:
			if id, ok := n.X.(*ast.Ident); ok {
				note(id, nil)
				note(id, nil)
			}
		case *ast.RangeStmt:
			if id, ok := n.Key.(*ast.Ident); ok {
				note(id, nil)
				note(id, nil)
			}
			if id, ok := n.Value.(*ast.Ident); ok {
				note(id, nil)
				note(id, nil)
			}
		case *ast.UnaryExpr:
			if n.Op == token.AND {
				if id, ok := n.X.(*ast.Ident); ok {
					if v, ok := gs.info.Uses[id].(*types.Var); ok {
						addrTaken[v] = true
					}
				}
			}
		}
		return true
	})
	for v, n := range assigns {
		if n == 1 && inits[v] != nil && !addrTaken[v] {
			if b, ok := v.Type().Underlying().(*types.Basic); ok && b.Info()&types.IsBoolean != 0 {
				gs.single[v] = inits[v]
			}
		}
	}
}

// assignedOnce: v has no assignment besides its defining if-init (checked lazily over the function body).
func assignedOnce(gs *guardState, v *types.Var) bool {
	n := 0
	ast.Inspect(gs.f.Body, func(x ast.Node) bool {
		switch a := x.(type) {
		case *ast.AssignStmt:
			for _, l := range a.Lhs {
				if id, ok := l.(*ast.Ident); ok && (gs.info.Defs[id] == v || gs.info.Uses[id] == v) {
					n++
				}
			}
		case *ast.IncDecStmt:
			if id, ok := a.X.(*ast.Ident); ok && gs.info.Uses[id] == v {
				n += 2
			}
		case *ast.UnaryExpr:
			if a.Op == token.AND {
				if id, ok := a.X.(*ast.Ident); ok && gs.info.Uses[id] == v {
					n += 2
				}
			}
		}
		return true
	})
	return n == 1
}

// ---- condition decomposition ----

func unparen(e ast.Expr) ast.Expr {
	for {
		p, ok := e.(*ast.ParenExpr)
		if !ok {
			return e
		}
		e = p.X
	}
}

func exprStr(e ast.Expr) string { return types.ExprString(unparen(e)) }

// canon renders e with field selections expanded through embedded fields
// (db.DryRun and db.Config.DryRun print alike) and parentheses dropped.
func canon(info *types.Info, e ast.Expr) string {
	switch e := e.(type) {
	case nil:
		return ""
	case *ast.ParenExpr:
		return canon(info, e.X)
	case *ast.Ident:
		return e.Name
	case *ast.BasicLit:
		return e.Value
	case *ast.SelectorExpr:
		if p, ok := selectorPath(info, e); ok {
			return p
		}
		return canon(info, e.X) + "." + e.Sel.Name
	case *ast.StarExpr:
		return "*" + canon(info, e.X)
	case *ast.UnaryExpr:
		return e.Op.String() + canon(info, e.X)
	case *ast.BinaryExpr:
		return canon(info, e.X) + " " + e.Op.String() + " " + canon(info, e.Y)
	case *ast.CallExpr:
		args := make([]string, len(e.Args))
		for i, a := range e.Args {
			args[i] = canon(info, a)
		}
		ell := ""
		if e.Ellipsis.IsValid() {
			ell = "..."
		}
		return canon(info, e.Fun) + "(" + strings.Join(args, ", ") + ell + ")"
	case *ast.IndexExpr:
		return canon(info, e.X) + "[" + canon(info, e.Index) + "]"
	case *ast.TypeAssertExpr:
		if e.Type == nil {
			return canon(info, e.X) + ".(type)"
		}
		return canon(info, e.X) + ".(" + types.ExprString(e.Type) + ")"
	}
	return types.ExprString(e)
}

func isNilIdent(info *types.Info, e ast.Expr) bool {
	id, ok := unparen(e).(*ast.Ident)
	if !ok {
		return false
	}
	_, isNil := info.Uses[id].(*types.Nil)
	return isNil
}

func isZeroLit(e ast.Expr) bool {
	bl, ok := unparen(e).(*ast.BasicLit)
	return ok && bl.Kind == token.INT && bl.Value == "0"
}

func isOneLit(e ast.Expr) bool {
	bl, ok := unparen(e).(*ast.BasicLit)
	return ok && bl.Kind == token.INT && bl.Value == "1"
}

func isLenCall(info *types.Info, e ast.Expr) bool {
	c, ok := unparen(e).(*ast.CallExpr)
	if !ok {
		return false
	}
	id, ok := c.Fun.(*ast.Ident)
	if !ok {
		return false
	}
	b, ok := info.Uses[id].(*types.Builtin)
	return ok && b.Name() == "len"
}

// condFacts returns the facts implied by cond evaluating to pol.
func (gs *guardState) condFacts(cond ast.Expr, pol bool, depth int) []string {
	cond = unparen(cond)
	var out []string
	add := func(f string, mention ...ast.Expr) {
		out = append(out, f)
		if _, ok := gs.paths[f]; !ok {
			var ps []string
			for _, m := range mention {
				ps = append(ps, accessPaths(gs.info, m)...)
			}
			gs.paths[f] = ps
		}
	}
	switch c := cond.(type) {
	case *ast.UnaryExpr:
		if c.Op == token.NOT {
			return gs.condFacts(c.X, !pol, depth)
		}
	case *ast.BinaryExpr:
		switch c.Op {
		case token.LAND:
			if pol {
				return append(gs.condFacts(c.X, true, depth), gs.condFacts(c.Y, true, depth)...)
			}
			add(fFalse(canon(gs.info, c)), c.X, c.Y)
			return out
		case token.LOR:
			if !pol {
				return append(gs.condFacts(c.X, false, depth), gs.condFacts(c.Y, false, depth)...)
			}
			add(fTrue(canon(gs.info, c)), c.X, c.Y)
			return out
		case token.EQL, token.NEQ:
			eq := (c.Op == token.EQL) == pol // true: operands equal
			x, y := c.X, c.Y
			if isNilIdent(gs.info, x) {
				x, y = y, x
			}
			if isNilIdent(gs.info, y) {
				if eq {
					add(fNil(canon(gs.info, x)), x)
				} else {
					add(fNonNil(canon(gs.info, x)), x)
				}
				// the tested identifier is the if-init snapshot of a path: the fact holds for the path too
				if id, ok := unparen(x).(*ast.Ident); ok && gs.ifAlias != nil {
					if v, ok := gs.info.Uses[id].(*types.Var); ok {
						if src, ok := gs.ifAlias[v]; ok && assignedOnce(gs, v) {
							if eq {
								add(fNil(canon(gs.info, src)), src)
							} else {
								add(fNonNil(canon(gs.info, src)), src)
							}
						}
					}
				}
				return out
			}
			cs := canon(gs.info, x) + " == " + canon(gs.info, y)
			if eq {
				add(fTrue(cs), x, y)
			} else {
				add(fFalse(cs), x, y)
			}
			// boolean comparisons with constants true/false
			if id, ok := unparen(y).(*ast.Ident); ok && (id.Name == "true" || id.Name == "false") {
				if _, isConst := gs.info.Uses[id].(*types.Const); isConst {
					out = append(out, gs.condFacts(x, eq == (id.Name == "true"), depth)...)
				}
			}
			return out
		case token.GTR, token.GEQ, token.LSS, token.LEQ:
			s := canon(gs.info, c)
			if pol {
				add(fTrue(s), c.X, c.Y)
			} else {
				add(fFalse(s), c.X, c.Y)
			}
			// len(x) > 0, len(x) >= 1, 0 < len(x): canonical zero-length facts
			lenExpr, positive := ast.Expr(nil), false
			switch {
			case isLenCall(gs.info, c.X) && ((c.Op == token.GTR && isZeroLit(c.Y)) || (c.Op == token.GEQ && isOneLit(c.Y))):
				lenExpr, positive = c.X, true
			case isLenCall(gs.info, c.Y) && ((c.Op == token.LSS && isZeroLit(c.X)) || (c.Op == token.LEQ && isOneLit(c.X))):
				lenExpr, positive = c.Y, true
			case isLenCall(gs.info, c.X) && c.Op == token.GTR && isOneLit(c.Y) && pol:
				lenExpr, positive = c.X, true
			}
			if lenExpr != nil {
				cs := canon(gs.info, lenExpr) + " == 0"
				if positive == pol {
					add(fFalse(cs), lenExpr)
				} else {
					add(fTrue(cs), lenExpr)
				}
			}
			return out
		}
	case *ast.CallExpr:
		// a call of a boolean predicate helper whose body is `return <expr over its parameters>`:
		// the facts of that expression, with the parameters replaced by the argument paths
		if fs, ok := gs.predicateFacts(c, pol, depth); ok {
			out = append(out, fs...) // their access paths were recorded by predicateFacts
			// the opaque fact about the call itself is kept as well (below)
		}
	case *ast.Ident:
		if gs.resolve != nil {
			if fs, ok := gs.resolve(c, pol); ok {
				for _, f := range fs {
					add(f, c)
				}
				return out
			}
		}
		if v, ok := gs.info.Uses[c].(*types.Var); ok {
			if init, ok := gs.single[v]; ok && depth < 4 {
				// implication facts recorded at the definition are resolved by the solver;
				// here we only emit the marker so that transfer can expand it.
				_ = init
				if pol {
					add("BT:"+c.Name, c)
				} else {
					add("BF:"+c.Name, c)
				}
			}
		}
	}
	s := canon(gs.info, cond)
	if pol {
		add(fTrue(s), cond)
	} else {
		add(fFalse(s), cond)
	}
	return out
}

// predicateFacts looks through a statically resolved predicate `func p(a, b ..) bool { return E }`.
func (gs *guardState) predicateFacts(call *ast.CallExpr, pol bool, depth int) ([]string, bool) {
	if gs.prog == nil || depth > 2 {
		return nil, false
	}
	fn, _ := typeutil.Callee(gs.info, call).(*types.Func)
	if fn == nil {
		return nil, false
	}
	src := gs.prog.SrcOpt(fn)
	if src == nil || src.Decl == nil || src.Decl.Recv != nil || src.Body == nil || len(src.Body.List) != 1 {
		return nil, false
	}
	ret, ok := src.Body.List[0].(*ast.ReturnStmt)
	if !ok || len(ret.Results) != 1 || !isBoolType(src.Pkg.TypesInfo, ret.Results[0]) {
		return nil, false
	}
	sig := fn.Type().(*types.Signature)
	if sig.Variadic() || sig.Params().Len() != len(call.Args) {
		return nil, false
	}
	subst := map[string]string{}
	qsubst := map[string]string{}
	for i := 0; i < sig.Params().Len(); i++ {
		pth, ok := selectorPath(gs.info, call.Args[i])
		qp, ok2 := qualPath(gs.info, call.Args[i])
		if !ok || !ok2 {
			return nil, false
		}
		subst[sig.Params().At(i).Name()] = pth
		qsubst[sig.Params().At(i).Name()] = qp
	}
	tmp := &guardState{prog: gs.prog, f: src, info: src.Pkg.TypesInfo, paths: map[string][]string{}, single: map[*types.Var]ast.Expr{}}
	var out []string
	for _, f := range tmp.condFacts(ret.Results[0], pol, depth+1) {
		if strings.HasPrefix(f, "BT:") || strings.HasPrefix(f, "BF:") {
			continue
		}
		i := strings.Index(f, ":")
		nf := f[:i+1] + substIdents(f[i+1:], subst)
		out = append(out, nf)
		if _, ok := gs.paths[nf]; !ok {
			// the callee's parameter-rooted access paths, re-rooted at the arguments
			var ps []string
			for _, cp := range tmp.paths[f] {
				root, rest := cp, ""
				if k := strings.Index(cp, "."); k >= 0 {
					root, rest = cp[:k], cp[k:]
				}
				if q, ok := qsubst[stripQual(root)]; ok {
					ps = append(ps, q+rest)
				}
			}
			for _, a := range call.Args {
				ps = append(ps, accessPaths(gs.info, a)...)
			}
			gs.paths[nf] = ps
		}
	}
	return out, true
}

// substIdents replaces identifier tokens of s that are not selected from something (no preceding '.').
func substIdents(s string, subst map[string]string) string {
	var b strings.Builder
	isID := func(c byte) bool {
		return c == '_' || (c >= 'a' && c <= 'z') || (c >= 'A' && c <= 'Z') || (c >= '0' && c <= '9')
	}
	for i := 0; i < len(s); {
		if isID(s[i]) && !(s[i] >= '0' && s[i] <= '9') {
			j := i
			for j < len(s) && isID(s[j]) {
				j++
			}
			tok := s[i:j]
			if r, ok := subst[tok]; ok && (i == 0 || s[i-1] != '.') {
				b.WriteString(r)
			} else {
				b.WriteString(tok)
			}
			i = j
			continue
		}
		b.WriteByte(s[i])
		i++
	}
	return b.String()
}

// accessPaths returns the variable-rooted selector chains mentioned in e.  The root of
// each path is qualified with the declaration position of the variable ("ok@1234"), so that
// kills are not confused by shadowed names; fact strings themselves stay name-based.
func accessPaths(info *types.Info, e ast.Expr) []string {
	var out []string
	var visit func(n ast.Node) bool
	visit = func(n ast.Node) bool {
		switch n := n.(type) {
		case *ast.FuncLit:
			return false
		case *ast.SelectorExpr:
			if p, ok := qualPath(info, n); ok {
				out = append(out, p)
				return false
			}
			// method value / call: path of the receiver
			return true
		case *ast.Ident:
			if p, ok := qualPath(info, n); ok {
				out = append(out, p)
			}
		}
		return true
	}
	ast.Inspect(e, visit)
	return out
}

// qualPath is selectorPath with the root identifier qualified by its object's position.
func qualPath(info *types.Info, e ast.Expr) (string, bool) {
	p, ok := selectorPath(info, e)
	if !ok {
		return "", false
	}
	root := e
	for {
		switch x := unparen(root).(type) {
		case *ast.SelectorExpr:
			root = x.X
			continue
		case *ast.StarExpr:
			root = x.X
			continue
		}
		break
	}
	id, isID := unparen(root).(*ast.Ident)
	if !isID {
		return p, true
	}
	var obj types.Object = info.Uses[id]
	if obj == nil {
		obj = info.Defs[id]
	}
	if obj == nil {
		return p, true
	}
	i := strings.IndexAny(p, ".")
	if i < 0 {
		return fmt.Sprintf("%s@%d", p, obj.Pos()), true
	}
	return fmt.Sprintf("%s@%d%s", p[:i], obj.Pos(), p[i:]), true
}

func stripQual(p string) string {
	i := strings.Index(p, "@")
	if i < 0 {
		return p
	}
	j := i + 1
	for j < len(p) && p[j] >= '0' && p[j] <= '9' {
		j++
	}
	return p[:i] + p[j:]
}

// selectorPath renders x.a.b when every step is a field selection rooted at a variable.
func selectorPath(info *types.Info, e ast.Expr) (string, bool) {
	switch e := unparen(e).(type) {
	case *ast.Ident:
		if _, ok := info.Uses[e].(*types.Var); ok {
			return e.Name, true
		}
		if _, ok := info.Defs[e].(*types.Var); ok {
			return e.Name, true
		}
	case *ast.SelectorExpr:
		sel := info.Selections[e]
		if sel == nil || sel.Kind() != types.FieldVal {
			return "", false
		}
		base, ok := selectorPath(info, e.X)
		if !ok {
			return "", false
		}
		// expand implicit embedded fields
		t := sel.Recv()
		idx := sel.Index()
		for _, i := range idx[:len(idx)-1] {
			if pt, ok := t.Underlying().(*types.Pointer); ok {
				t = pt.Elem()
			}
			st, ok := t.Underlying().(*types.Struct)
			if !ok {
				return "", false
			}
			base += "." + st.Field(i).Name()
			t = st.Field(i).Type()
		}
		return base + "." + e.Sel.Name, true
	case *ast.StarExpr:
		return selectorPath(info, e.X)
	}
	return "", false
}

// ---- transfer ----

func (gs *guardState) kill(s factSet, lpath string) {
	qualified := strings.Contains(lpath, "@")
	for f := range s {
		for _, p := range gs.paths[f] {
			if !qualified {
				p = stripQual(p)
			} else if !strings.Contains(p, "@") {
				// unqualified mention (rule-supplied): compare by name
				if q := stripQual(lpath); p == q || strings.HasPrefix(p, q+".") {
					delete(s, f)
					break
				}
				continue
			}
			if p == lpath || strings.HasPrefix(p, lpath+".") {
				delete(s, f)
				break
			}
		}
	}
}

// calleeName returns a stable name for the callee of call ("" if dynamic).
func calleeName(info *types.Info, call *ast.CallExpr) string {
	switch o := typeutil.Callee(info, call).(type) {
	case *types.Func:
		return o.FullName()
	case *types.Builtin:
		return "builtin." + o.Name()
	}
	return ""
}

// evaluatedCalls lists calls in n that are evaluated unconditionally when n
// executes (not inside function literals, not in the right operand of &&/||).
func evaluatedCalls(n ast.Node) []*ast.CallExpr {
	var out []*ast.CallExpr
	var walk func(n ast.Node)
	walk = func(n ast.Node) {
		if n == nil {
			return
		}
		switch n := n.(type) {
		case *ast.FuncLit:
			return
		case *ast.DeferStmt, *ast.GoStmt:
			// arguments are evaluated now, the call itself is not
			var call *ast.CallExpr
			if d, ok := n.(*ast.DeferStmt); ok {
				call = d.Call
			} else {
				call = n.(*ast.GoStmt).Call
			}
			for _, a := range call.Args {
				walk(a)
			}
			return
		case *ast.BinaryExpr:
			if n.Op == token.LAND || n.Op == token.LOR {
				walk(n.X)
				return
			}
		case *ast.CallExpr:
			walk(n.Fun)
			for _, a := range n.Args {
				walk(a)
			}
			out = append(out, n)
			return
		}
		ast.Inspect(n, func(c ast.Node) bool {
			if c == n || c == nil {
				return true
			}
			walk(c)
			return false
		})
	}
	walk(n)
	return out
}

func (gs *guardState) transfer(s factSet, n ast.Node) {
	// calls executed by this node
	for _, call := range evaluatedCalls(n) {
		if gs.conf.CallKills != nil {
			for _, p := range gs.conf.CallKills(gs.info, call) {
				gs.kill(s, p)
			}
		}
		if name := calleeName(gs.info, call); name != "" {
			s[fCalled(name)] = struct{}{}
		}
	}
	if gs.conf.Events != nil {
		for _, e := range gs.conf.Events(gs.info, n) {
			s[fEvent(e)] = struct{}{}
		}
	}
	// assignments
	assign := func(lhs ast.Expr) {
		l := unparen(lhs)
		for {
			switch x := l.(type) {
			case *ast.IndexExpr:
				l = unparen(x.X)
				continue
			case *ast.StarExpr:
				l = unparen(x.X)
				continue
			}
			break
		}
		if p, ok := qualPath(gs.info, l); ok {
			gs.kill(s, p)
		}
	}
	switch n := n.(type) {
	case *ast.AssignStmt:
		for _, l := range n.Lhs {
			assign(l)
		}
		// x = append(x, a, ...) with at least one explicit element: len(x) > 0 afterwards
		if len(n.Lhs) == 1 && len(n.Rhs) == 1 {
			if call, ok := unparen(n.Rhs[0]).(*ast.CallExpr); ok && !call.Ellipsis.IsValid() && len(call.Args) >= 2 {
				if id, ok := call.Fun.(*ast.Ident); ok {
					if b, ok := gs.info.Uses[id].(*types.Builtin); ok && b.Name() == "append" {
						if lp, ok := selectorPath(gs.info, n.Lhs[0]); ok {
							f := fFalse("len(" + lp + ") == 0")
							if qp, ok := qualPath(gs.info, n.Lhs[0]); ok {
								gs.paths[f] = []string{qp}
							}
							s[f] = struct{}{}
						}
					}
				}
			}
		}
		// implication facts for single-assignment booleans
		if len(n.Lhs) == len(n.Rhs) {
			for i, l := range n.Lhs {
				if id, ok := l.(*ast.Ident); ok {
					gs.recordImp(s, id, n.Rhs[i])
					gs.recordAlias(s, id, n.Rhs[i])
				}
			}
		}
	case *ast.ValueSpec:
		for i, id := range n.Names {
			if qp, ok := qualPath(gs.info, id); ok {
				gs.kill(s, qp)
			} else {
				gs.kill(s, id.Name)
			}
			if len(n.Values) == len(n.Names) {
				gs.recordImp(s, id, n.Values[i])
			}
		}
	case *ast.IncDecStmt:
		assign(n.X)
	case *ast.RangeStmt:
		// not a cfg node, handled through Key/Value nodes
	case *ast.Ident:
		// range key/value definitions appear as bare nodes
		if _, ok := gs.info.Defs[n].(*types.Var); ok {
			if qp, ok := qualPath(gs.info, n); ok {
				gs.kill(s, qp)
			} else {
				gs.kill(s, n.Name)
			}
		}
	}
}

func (gs *guardState) recordImp(s factSet, id *ast.Ident, rhs ast.Expr) {
	v, _ := gs.info.Defs[id].(*types.Var)
	if v == nil {
		v, _ = gs.info.Uses[id].(*types.Var)
	}
	if v == nil {
		return
	}
	if _, ok := gs.single[v]; !ok {
		return
	}
	for _, pol := range []bool{true, false} {
		for _, f := range gs.condFacts(rhs, pol, 1) {
			imp := fmt.Sprintf("I:%s:%v=>%s", id.Name, pol, f)
			gs.paths[imp] = gs.paths[f]
			s[imp] = struct{}{}
		}
	}
}

// recordAlias: `x := <selector path>` makes x a snapshot of the path; the alias fact dies as soon as x or
// any prefix of the path is written, so a nil-test of x made while it is alive is a nil-test of the path.
func (gs *guardState) recordAlias(s factSet, id *ast.Ident, rhs ast.Expr) {
	if id.Name == "_" {
		return
	}
	if _, isCall := unparen(rhs).(*ast.CallExpr); isCall {
		return
	}
	if _, isID := unparen(rhs).(*ast.Ident); isID {
		return
	}
	pth, ok := selectorPath(gs.info, rhs)
	if !ok {
		return
	}
	al := "AL:" + id.Name + "=" + pth
	ps := accessPaths(gs.info, rhs)
	if qp, ok := qualPath(gs.info, id); ok {
		ps = append(ps, qp)
	}
	gs.paths[al] = ps
	s[al] = struct{}{}
}

// expandMarkers replaces BT:/BF: markers by the implications recorded in s.
func (gs *guardState) expandMarkers(s factSet, facts []string) []string {
	var out []string
	// nil-facts about a local that is a live snapshot of a path hold for the path as well
	for _, f := range facts {
		for _, kind := range []string{"N:", "NN:"} {
			if strings.HasPrefix(f, kind) && !strings.ContainsAny(f[len(kind):], " .(") {
				prefix := "AL:" + f[len(kind):] + "="
				for k := range s {
					if strings.HasPrefix(k, prefix) {
						g := kind + k[len(prefix):]
						if _, ok := gs.paths[g]; !ok {
							gs.paths[g] = gs.paths[k]
						}
						out = append(out, g)
					}
				}
			}
		}
	}
	for _, f := range facts {
		if strings.HasPrefix(f, "BT:") || strings.HasPrefix(f, "BF:") {
			name := f[3:]
			pol := strings.HasPrefix(f, "BT:")
			prefix := fmt.Sprintf("I:%s:%v=>", name, pol)
			for k := range s {
				if strings.HasPrefix(k, prefix) {
					g := k[len(prefix):]
					if _, ok := gs.paths[g]; !ok {
						gs.paths[g] = gs.paths[k]
					}
					out = append(out, g)
				}
			}
			continue
		}
		out = append(out, f)
	}
	return out
}

// edgeFacts returns facts established on the edge b -> b.Succs[i].
func (gs *guardState) edgeFacts(b *cfg.Block, i int, s factSet) []string {
	if len(b.Succs) != 2 || len(b.Nodes) == 0 {
		return nil
	}
	last, ok := b.Nodes[len(b.Nodes)-1].(ast.Expr)
	if !ok {
		return nil
	}
	t := b.Succs[0]
	pol := i == 0
	switch t.Kind {
	case cfg.KindIfThen, cfg.KindForBody:
		// the condition is the last node
		switch st := t.Stmt.(type) {
		case *ast.IfStmt:
			if st.Cond != last {
				return nil
			}
		case *ast.ForStmt:
			if st.Cond != last {
				return nil
			}
		}
		return gs.expandMarkers(s, gs.condFacts(last, pol, 0))
	case cfg.KindSwitchCaseBody:
		cc, _ := t.Stmt.(*ast.CaseClause)
		sw, _ := gs.caseOf[cc].(*ast.SwitchStmt)
		if sw == nil {
			return nil
		}
		if sw.Tag == nil {
			return gs.expandMarkers(s, gs.condFacts(last, pol, 0))
		}
		// tagged switch: tag == last
		eq := &ast.BinaryExpr{X: sw.Tag, Op: token.EQL, Y: last}
		return gs.condFacts(eq, pol, 0)
	}
	return nil
}

func intersect(a, b factSet) factSet {
	if a == nil {
		return b.clone()
	}
	if b == nil {
		return a
	}
	for k := range a {
		if _, ok := b[k]; !ok {
			delete(a, k)
		}
	}
	return a
}

func (gs *guardState) solve() {
	n := len(gs.g.Blocks)
	gs.in = make([]factSet, n)
	if n == 0 {
		return
	}
	entry := factSet{}
	for _, f := range gs.conf.Entry {
		entry[f] = struct{}{}
	}
	gs.in[0] = entry
	preds := make([][]*cfg.Block, n)
	for _, b := range gs.g.Blocks {
		for _, s := range b.Succs {
			preds[s.Index] = append(preds[s.Index], b)
		}
	}
	changed := true
	for iter := 0; changed && iter < 200; iter++ {
		changed = false
		for _, b := range gs.g.Blocks {
			if b.Index == 0 || !b.Live {
				continue
			}
			var acc factSet
			first := true
			for _, p := range preds[b.Index] {
				if !p.Live || gs.in[p.Index] == nil {
					continue
				}
				out := gs.in[p.Index].clone()
				for _, nd := range p.Nodes {
					gs.transfer(out, nd)
				}
				for i, s := range p.Succs {
					if s == b {
						// a block may be both successors of p; facts must hold on each edge
						ef := gs.edgeFacts(p, i, out)
						o2 := out.clone()
						for _, f := range ef {
							o2[f] = struct{}{}
						}
						if first {
							acc = o2
							first = false
						} else {
							acc = intersect(acc, o2)
						}
					}
				}
			}
			if first {
				continue
			}
			if gs.in[b.Index] == nil || !sameFacts(gs.in[b.Index], acc) {
				gs.in[b.Index] = acc
				changed = true
			}
		}
	}
}

func sameFacts(a, b factSet) bool {
	if len(a) != len(b) {
		return false
	}
	for k := range a {
		if _, ok := b[k]; !ok {
			return false
		}
	}
	return true
}

// locate finds the block and node index of the CFG node containing pos.
func (gs *guardState) locate(pos token.Pos) (*cfg.Block, int) {
	var bestB *cfg.Block
	bestI := -1
	var bestSpan token.Pos = 1 << 40
	for _, b := range gs.g.Blocks {
		for i, n := range b.Nodes {
			if n.Pos() <= pos && pos < n.End() {
				if span := n.End() - n.Pos(); span < bestSpan {
					bestB, bestI, bestSpan = b, i, span
				}
			}
		}
	}
	return bestB, bestI
}

// At returns the facts that hold on every path just before the expression or
// statement at pos is evaluated.  ok=false when pos is not in a live block.
func (gs *guardState) At(pos token.Pos) (factSet, bool) {
	b, idx := gs.locate(pos)
	if b == nil || !b.Live || gs.in[b.Index] == nil {
		return nil, false
	}
	s := gs.entryFacts(b).clone()
	for _, nd := range b.Nodes[:idx] {
		gs.transfer(s, nd)
	}
	// facts from short-circuit operands inside the node
	gs.innerFacts(s, b.Nodes[idx], pos)
	gs.closeImplications(s)
	return s, true
}

// AfterNode returns facts holding right after the CFG node containing pos.
func (gs *guardState) After(pos token.Pos) (factSet, bool) {
	b, idx := gs.locate(pos)
	if b == nil || !b.Live || gs.in[b.Index] == nil {
		return nil, false
	}
	s := gs.entryFacts(b).clone()
	for _, nd := range b.Nodes[:idx+1] {
		gs.transfer(s, nd)
	}
	gs.closeImplications(s)
	return s, true
}

func (gs *guardState) innerFacts(s factSet, root ast.Node, pos token.Pos) {
	// walk down towards pos; entering the right operand of && / || adds facts of the left.
	// Calls evaluated before pos inside the same node also generate C: facts.
	var walk func(n ast.Node)
	walk = func(n ast.Node) {
		if n == nil || !(n.Pos() <= pos && pos < n.End()) {
			return
		}
		switch x := n.(type) {
		case *ast.FuncLit:
			return
		case *ast.BinaryExpr:
			if x.Op == token.LAND || x.Op == token.LOR {
				if x.Y.Pos() <= pos && pos < x.Y.End() {
					for _, c := range evaluatedCalls(x.X) {
						if name := calleeName(gs.info, c); name != "" {
							s[fCalled(name)] = struct{}{}
						}
					}
					for _, f := range gs.expandMarkers(s, gs.condFacts(x.X, x.Op == token.LAND, 0)) {
						s[f] = struct{}{}
					}
					walk(x.Y)
					return
				}
				walk(x.X)
				return
			}
		case *ast.IfStmt, *ast.ForStmt, *ast.SwitchStmt, *ast.BlockStmt:
			return
		}
		ast.Inspect(n, func(c ast.Node) bool {
			if c == n || c == nil {
				return true
			}
			walk(c)
			return false
		})
	}
	walk(root)
}

// ---- path queries ----

// MustPass reports whether every path from just after the CFG node containing
// `from` to a function exit executes a node satisfying pred.  The offending
// exit (last node of the exit block) is returned on failure.
func (gs *guardState) MustPass(from token.Pos, pred func(n ast.Node) bool) (bool, token.Pos) {
	b, idx := gs.locate(from)
	if b == nil {
		return false, from
	}
	type state struct {
		b *cfg.Block
		i int
	}
	seen := map[*cfg.Block]bool{}
	var bad token.Pos
	var dfs func(b *cfg.Block, i int) bool
	dfs = func(b *cfg.Block, i int) bool {
		for ; i < len(b.Nodes); i++ {
			if pred(b.Nodes[i]) {
				return true
			}
		}
		if len(b.Succs) == 0 {
			if len(b.Nodes) > 0 {
				bad = b.Nodes[len(b.Nodes)-1].Pos()
			} else {
				bad = gs.f.Body.End()
			}
			return false
		}
		for _, s := range b.Succs {
			if seen[s] {
				continue
			}
			seen[s] = true
			if !dfs(s, 0) {
				return false
			}
		}
		return true
	}
	ok := dfs(b, idx+1)
	return ok, bad
}

// Reaches reports whether some path from just after `from` executes a node satisfying pred.
func (gs *guardState) Reaches(from token.Pos, pred func(n ast.Node) bool) bool {
	b, idx := gs.locate(from)
	if b == nil {
		return false
	}
	seen := map[*cfg.Block]bool{}
	var dfs func(b *cfg.Block, i int) bool
	dfs = func(b *cfg.Block, i int) bool {
		for ; i < len(b.Nodes); i++ {
			if pred(b.Nodes[i]) {
				return true
			}
		}
		for _, s := range b.Succs {
			if seen[s] {
				continue
			}
			seen[s] = true
			if dfs(s, 0) {
				return true
			}
		}
		return false
	}
	return dfs(b, idx+1)
}

// containsCallTo reports whether node n (excluding nested literals) contains a call of one of the callees.
func containsCallTo(info *types.Info, n ast.Node, callees ...string) *ast.CallExpr {
	var found *ast.CallExpr
	ast.Inspect(n, func(c ast.Node) bool {
		if found != nil {
			return false
		}
		switch c := c.(type) {
		case *ast.FuncLit:
			return false
		case *ast.CallExpr:
			name := calleeName(info, c)
			for _, want := range callees {
				if name == want {
					found = c
					return false
				}
			}
		}
		return true
	})
	return found
}

// enclosingFunc returns the innermost FuncSrc (declaration or literal) whose body contains pos.
func (p *Program) EnclosingFunc(pos token.Pos) *FuncSrc {
	var best *FuncSrc
	for _, f := range p.Funcs {
		if f.Body != nil && f.Body.Pos() <= pos && pos < f.Body.End() {
			if best == nil || (f.Body.End()-f.Body.Pos()) < (best.Body.End()-best.Body.Pos()) {
				best = f
			}
		}
	}
	return best
}

// callsIn lists the calls lexically inside f's body, excluding nested literals.
func callsIn(f *FuncSrc) []*ast.CallExpr {
	var out []*ast.CallExpr
	ast.Inspect(f.Body, func(n ast.Node) bool {
		switch n := n.(type) {
		case *ast.FuncLit:
			return false
		case *ast.CallExpr:
			out = append(out, n)
		}
		return true
	})
	return out
}

// ---- phase 2: implications created at merges ----
//
// When control merges from a branch P on which fact f holds and a branch Q on
// which literal g holds (and f does not), then at the merge point "not g"
// implies we came through P, hence f:  J:<not g>=><f>.  Implication facts are
// killed like their parts.  They let a later site guarded by <not g> recover f
// (e.g. Session: the statement is cloned under Context != nil || ..., and the
// Context store is guarded by Context != nil).  Computed in one pass in
// reverse post-order; back edges contribute their phase-1 (plain) facts.

func (gs *guardState) entryFacts(b *cfg.Block) factSet {
	if gs.in2 != nil && gs.in2[b.Index] != nil {
		return gs.in2[b.Index]
	}
	return gs.in[b.Index]
}

func isLiteralFact(f string) bool {
	return strings.HasPrefix(f, "T:") || strings.HasPrefix(f, "F:") || strings.HasPrefix(f, "N:") || strings.HasPrefix(f, "NN:")
}

func isCarriedFact(f string) bool {
	return strings.HasPrefix(f, "E:") || strings.HasPrefix(f, "C:")
}

func (gs *guardState) closeImplications(s factSet) {
	for changed := true; changed; {
		changed = false
		for k := range s {
			if !strings.HasPrefix(k, "J:") {
				continue
			}
			i := strings.Index(k, "=>")
			h, f := k[2:i], k[i+2:]
			if s.Has(h) && !s.Has(f) {
				s[f] = struct{}{}
				changed = true
			}
		}
	}
}

// solveImplications computes implication facts.  At a merge block b with incoming edge
// fact sets O_q (phase 1, fixed), "J:<not g>=><f>" is generated when f is a carried fact
// (E:/C:) that holds on some but not all edges and every edge lacking f carries literal g:
// whoever reaches b with g false came over an edge on which f holds.  The generated facts
// are then propagated as an ordinary forward must-analysis (constant gen sets, kills by
// assignment), which is monotone and therefore also valid across loops.
func (gs *guardState) solveImplications() {
	n := len(gs.g.Blocks)
	if n == 0 {
		return
	}
	preds := make([][]*cfg.Block, n)
	for _, b := range gs.g.Blocks {
		for _, s := range b.Succs {
			preds[s.Index] = append(preds[s.Index], b)
		}
	}
	edgeOut := func(p *cfg.Block, b *cfg.Block, base factSet) []factSet {
		var outs []factSet
		o := base.clone()
		for _, nd := range p.Nodes {
			gs.transfer(o, nd)
		}
		for i, s := range p.Succs {
			if s != b {
				continue
			}
			o2 := o.clone()
			for _, f := range gs.edgeFacts(p, i, o) {
				o2[f] = struct{}{}
			}
			outs = append(outs, o2)
		}
		return outs
	}
	gen := make([]factSet, n)
	for _, b := range gs.g.Blocks {
		if !b.Live || gs.in[b.Index] == nil {
			continue
		}
		var edges []factSet
		for _, p := range preds[b.Index] {
			if !p.Live || gs.in[p.Index] == nil {
				continue
			}
			edges = append(edges, edgeOut(p, b, gs.in[p.Index])...)
		}
		if len(edges) < 2 {
			continue
		}
		carried := map[string]int{}
		for _, e := range edges {
			for f := range e {
				if isCarriedFact(f) {
					carried[f]++
				}
			}
		}
		for f, cnt := range carried {
			if cnt == len(edges) {
				continue // holds everywhere: already a plain must-fact
			}
			// candidate literals: those of the first edge lacking f
			var lacking []factSet
			for _, e := range edges {
				if !e.Has(f) {
					lacking = append(lacking, e)
				}
			}
			for g := range lacking[0] {
				if !isLiteralFact(g) {
					continue
				}
				all := true
				for _, e := range lacking[1:] {
					if !e.Has(g) {
						all = false
					}
				}
				// an edge that has f must not also force g (otherwise "not g" never holds there: still sound) - no constraint
				if !all {
					continue
				}
				imp := "J:" + complement(g) + "=>" + f
				gs.paths[imp] = append(append([]string{}, gs.paths[g]...), gs.paths[f]...)
				if gen[b.Index] == nil {
					gen[b.Index] = factSet{}
				}
				gen[b.Index][imp] = struct{}{}
			}
		}
	}
	// forward must-analysis over J facts only
	inJ := make([]factSet, n)
	inJ[0] = factSet{}
	onlyJ := func(s factSet) factSet {
		out := factSet{}
		for k := range s {
			if strings.HasPrefix(k, "J:") {
				out[k] = struct{}{}
			}
		}
		return out
	}
	for changed, iter := true, 0; changed && iter < 100; iter++ {
		changed = false
		for _, b := range gs.g.Blocks {
			if b.Index == 0 || !b.Live {
				continue
			}
			var acc factSet
			first := true
			for _, p := range preds[b.Index] {
				if !p.Live || inJ[p.Index] == nil {
					continue
				}
				o := inJ[p.Index].clone()
				for _, nd := range p.Nodes {
					gs.transfer(o, nd)
				}
				o = onlyJ(o)
				if first {
					acc, first = o, false
				} else {
					acc = intersect(acc, o)
				}
			}
			if first {
				continue
			}
			for k := range gen[b.Index] {
				acc[k] = struct{}{}
			}
			if inJ[b.Index] == nil || !sameFacts(inJ[b.Index], acc) {
				inJ[b.Index] = acc
				changed = true
			}
		}
	}
	in2 := make([]factSet, n)
	for i := range in2 {
		if gs.in[i] == nil {
			continue
		}
		in2[i] = gs.in[i].clone()
		for k := range inJ[i] {
			in2[i][k] = struct{}{}
		}
	}
	gs.in2 = in2
}
