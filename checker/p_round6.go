package main

// Rules added in seeding round 6.

import (
	"fmt"
	"go/ast"
	"go/token"
	"go/types"
	"sort"
	"strings"

	"golang.org/x/tools/go/cfg"
	"golang.org/x/tools/go/ssa"
	"golang.org/x/tools/go/types/typeutil"
)

// C07.field-closures: the accessor closures a schema.Field carries (ValueOf, ReflectValueOf, Set, the pool's
// New) are built once per Field and then run by every goroutine that uses any handle sharing the schema
// cache.  Whatever they capture from the function that built them is therefore shared state: a closure may
// read it, but an assignment inside the closure whose target is rooted at a variable declared OUTSIDE the
// closure is an unsynchronised write to state shared by all of them.  (Writes to the record the caller
// passes in go through reflect calls, not through assignments to captured variables, and are per call.)
// Decided: the assignment targets inside these closures.  Not decided: mutation through method calls on a
// captured value.
func checkC07FieldClosures(c *Ctx) {
	p := c.P
	r := c.Rule("C07.field-closures", "closures stored in a schema.Field (ValueOf/ReflectValueOf/Set/NewValuePool) never assign to a variable captured from the function that built them", 14)
	fieldT := p.Named(pkgSchema, "Field")
	slots := map[string]bool{"ValueOf": true, "ReflectValueOf": true, "Set": true, "NewValuePool": true}
	builders := 0
	for _, f := range p.Funcs {
		if f.Pkg.PkgPath != pkgSchema || f.Body == nil || f.Decl == nil {
			continue
		}
		info := f.Pkg.TypesInfo
		// does this function store into one of the Field's closure slots?
		stores := false
		ast.Inspect(f.Body, func(n ast.Node) bool {
			as, ok := n.(*ast.AssignStmt)
			if !ok {
				return true
			}
			for _, l := range as.Lhs {
				sel, ok := unparen(l).(*ast.SelectorExpr)
				if !ok || !slots[sel.Sel.Name] {
					continue
				}
				if s := info.Selections[sel]; s != nil && s.Kind() == types.FieldVal {
					if v, ok := s.Obj().(*types.Var); ok && v.IsField() && derefNamed(s.Recv()) == fieldT {
						stores = true
					}
				}
			}
			return true
		})
		if !stores {
			continue
		}
		builders++
		c.Touch(f)
		// top-level function literals of the builder
		var tops []*ast.FuncLit
		ast.Inspect(f.Body, func(n ast.Node) bool {
			if fl, ok := n.(*ast.FuncLit); ok {
				tops = append(tops, fl)
				return false
			}
			return true
		})
		for _, fl := range tops {
			bad := 0
			var check func(lhs ast.Expr, pos token.Pos)
			check = func(lhs ast.Expr, pos token.Pos) {
				id := rootIdentOf(lhs)
				if id == nil || id.Name == "_" {
					return
				}
				obj, _ := info.Uses[id].(*types.Var)
				if obj == nil || obj.IsField() {
					return
				}
				if obj.Pos() >= fl.Pos() && obj.Pos() < fl.End() {
					return // declared inside the closure: per call
				}
				bad++
				r.Bad(f.Name(), "closure assigns captured "+id.Name, pos, "the accessor closure assigns to `"+types.ExprString(lhs)+"`, rooted at a variable declared outside the closure and so shared by every goroutine using the schema")
			}
			ast.Inspect(fl.Body, func(n ast.Node) bool {
				switch x := n.(type) {
				case *ast.AssignStmt:
					for _, l := range x.Lhs {
						if x.Tok == token.DEFINE {
							// a redeclaration in a multi-value := still assigns already-declared names
							if id, ok := l.(*ast.Ident); ok && info.Defs[id] != nil {
								continue
							}
						}
						check(l, x.Pos())
					}
				case *ast.IncDecStmt:
					check(x.X, x.Pos())
				case *ast.RangeStmt:
					if x.Tok == token.ASSIGN {
						if x.Key != nil {
							check(x.Key, x.Pos())
						}
						if x.Value != nil {
							check(x.Value, x.Pos())
						}
					}
				}
				return true
			})
			if bad == 0 {
				r.OK(f.Name(), "closure", fl.Pos(), "no assignment to a captured variable")
			}
		}
	}
	if builders == 0 {
		r.Unknown("schema", "builders", token.NoPos, "no function storing a Field accessor closure found")
	}
}

func derefNamed(t types.Type) *types.Named {
	if pt, ok := t.Underlying().(*types.Pointer); ok {
		t = pt.Elem()
	}
	n, _ := t.(*types.Named)
	return n
}

// C12.owners-all: Replace (and has-one Append) on a slice of owners first collects the CURRENT related
// records of every owner (schema.GetRelationsValues) and then detaches those that are not among the new
// targets.  The collection is a per-element action over the owners: one iteration of the owner loop that
// completes without calling the per-owner collector leaves that owner's current relations out, and the later
// "not in the new set" condition then degenerates for it.  Decided: in GetRelationsValues every loop over
// the incoming value calls the local collector closure exactly once on every iteration path, with the loop's
// own element as the argument (the collector itself normalises pointers through Field.ValueOf /
// ReflectValueOf).  Not decided: what the collector appends.
func checkC12OwnersAll(c *Ctx) {
	p := c.P
	r := c.Rule("C12.owners-all", "GetRelationsValues visits every owner: each iteration of the owner loop calls the per-owner collector exactly once, on the loop's element", 2)
	f := p.FuncDecl(pkgSchema, "GetRelationsValues")
	c.Touch(f)
	info := f.Pkg.TypesInfo
	// local closures: name := func(...) {...}
	closures := map[types.Object]bool{}
	ast.Inspect(f.Body, func(n ast.Node) bool {
		if as, ok := n.(*ast.AssignStmt); ok && len(as.Lhs) == 1 && len(as.Rhs) == 1 {
			if _, ok := as.Rhs[0].(*ast.FuncLit); ok {
				if id, ok := as.Lhs[0].(*ast.Ident); ok {
					if o := info.ObjectOf(id); o != nil {
						closures[o] = true
					}
				}
			}
		}
		return true
	})
	isCollect := func(call *ast.CallExpr) bool {
		id, ok := unparen(call.Fun).(*ast.Ident)
		return ok && closures[info.ObjectOf(id)]
	}
	// the value parameter (reflect.Value)
	var param types.Object
	for _, fl := range f.Decl.Type.Params.List {
		for _, nm := range fl.Names {
			if o := info.ObjectOf(nm); o != nil && o.Type().String() == "reflect.Value" {
				param = o
			}
		}
	}
	if param == nil || len(closures) == 0 {
		r.Unknown(f.Name(), "shape", f.Body.Pos(), "no reflect.Value parameter or no local collector closure")
		return
	}
	direct := 0
	var loops []ast.Stmt
	var visit func(n ast.Node, inLit bool)
	ast.Inspect(f.Body, func(n ast.Node) bool {
		switch x := n.(type) {
		case *ast.FuncLit:
			return false
		case *ast.ForStmt:
			loops = append(loops, x)
		case *ast.RangeStmt:
			loops = append(loops, x)
		case *ast.CallExpr:
			if isCollect(x) && len(x.Args) == 1 {
				if id, ok := unparen(x.Args[0]).(*ast.Ident); ok && info.ObjectOf(id) == param {
					direct++
				}
			}
		}
		return true
	})
	_ = visit
	r.Check(direct >= 1, f.Name(), "single owner", f.Body.Pos(), "the collector runs on a single (struct) owner", "a single struct owner is no longer collected")
	n := 0
	for _, loop := range loops {
		var body *ast.BlockStmt
		switch x := loop.(type) {
		case *ast.ForStmt:
			body = x.Body
		case *ast.RangeStmt:
			// the outer loop over the relationships is not an owner loop
			if !containsCollectorLoop(x.Body, isCollect) {
				continue
			}
			if rootIdentOf(x.X) == nil || info.ObjectOf(rootIdentOf(x.X)) != param {
				continue
			}
			body = x.Body
		}
		var calls []*ast.CallExpr
		ast.Inspect(body, func(m ast.Node) bool {
			if _, ok := m.(*ast.FuncLit); ok {
				return false
			}
			if ce, ok := m.(*ast.CallExpr); ok && isCollect(ce) {
				calls = append(calls, ce)
			}
			return true
		})
		if len(calls) == 0 {
			if fs, ok := loop.(*ast.ForStmt); ok && fs.Cond != nil && rootIdentOf(lenSubject(fs.Cond)) != nil && info.ObjectOf(rootIdentOf(lenSubject(fs.Cond))) == param {
				r.Bad(f.Name(), "owner loop", loop.Pos(), "a loop over the owners does not call the per-owner collector")
				n++
			}
			continue
		}
		n++
		paths, ok := p.EnumLoopIterPaths(f, loop, 2000)
		if !ok {
			r.Unknown(f.Name(), "owner loop", loop.Pos(), "iteration paths not enumerable")
			continue
		}
		bad := 0
		for _, nodes := range paths {
			k := 0
			for _, nd := range nodes {
				for _, call := range calls {
					if containsNode(nd, call) {
						k++
					}
				}
			}
			if k != 1 {
				bad++
			}
		}
		r.Check(bad == 0, f.Name(), "owner loop", loop.Pos(), "every iteration calls the collector exactly once", "an iteration of the owner loop can complete without (or with more than one) call of the per-owner collector: that owner's current relations are not collected")
		// argument: an element of the parameter
		for _, call := range calls {
			okArg := false
			if len(call.Args) == 1 {
				arg := unparen(call.Args[0])
				if d := resolveLocal(f, arg); d != nil {
					arg = d
				}
				if ce, ok := arg.(*ast.CallExpr); ok {
					if sel, ok := ce.Fun.(*ast.SelectorExpr); ok && sel.Sel.Name == "Index" {
						if id := rootIdentOf(sel.X); id != nil && info.ObjectOf(id) == param && len(ce.Args) == 1 {
							// indexed by the loop's own variable
							if ix, ok := unparen(ce.Args[0]).(*ast.Ident); ok && loopVar(info, loop) != nil && info.ObjectOf(ix) == loopVar(info, loop) {
								okArg = true
							}
						}
					}
				}
			}
			r.Check(okArg, f.Name(), "collector argument", call.Pos(), "the loop's own element", "the collector is not called on the loop's own element of the incoming value")
		}
	}
	if n == 0 {
		r.Bad(f.Name(), "owner loop", f.Body.Pos(), "GetRelationsValues has no loop over a slice of owners")
	}
}

func containsCollectorLoop(body ast.Node, isCollect func(*ast.CallExpr) bool) bool {
	found := false
	ast.Inspect(body, func(n ast.Node) bool {
		if _, ok := n.(*ast.FuncLit); ok {
			return false
		}
		if ce, ok := n.(*ast.CallExpr); ok && isCollect(ce) {
			found = true
		}
		return !found
	})
	return found
}

// lenSubject: in `i < X.Len()` / `i < len(X)` the X.
func lenSubject(cond ast.Expr) ast.Expr {
	be, ok := unparen(cond).(*ast.BinaryExpr)
	if !ok {
		return nil
	}
	ce, ok := unparen(be.Y).(*ast.CallExpr)
	if !ok {
		return nil
	}
	if sel, ok := ce.Fun.(*ast.SelectorExpr); ok && sel.Sel.Name == "Len" {
		return sel.X
	}
	if id, ok := ce.Fun.(*ast.Ident); ok && id.Name == "len" && len(ce.Args) == 1 {
		return ce.Args[0]
	}
	return nil
}

// loopVar: the index variable of `for i := ...; ...; i++` or `for i := range ...`.
func loopVar(info *types.Info, loop ast.Stmt) types.Object {
	switch x := loop.(type) {
	case *ast.ForStmt:
		if as, ok := x.Init.(*ast.AssignStmt); ok && len(as.Lhs) == 1 {
			if id, ok := as.Lhs[0].(*ast.Ident); ok {
				return info.ObjectOf(id)
			}
		}
	case *ast.RangeStmt:
		if id, ok := x.Key.(*ast.Ident); ok {
			return info.ObjectOf(id)
		}
	}
	return nil
}

// C19.vars-frozen: the bound values of a built statement are the []interface{} in Statement.Vars; a dry run
// hands exactly that slice to the caller, a real run hands it to the driver.  The two agree only if nothing
// rewrites an ELEMENT of that slice in between (AddVar appends, the reset replaces the slice).  Decided, on
// SSA: no store `x[i] = v` anywhere in the library where x may be (a phi / re-slice / local copy of) a load
// of Statement.Vars.  Instances: the functions that load Statement.Vars.
func checkC19VarsFrozen(c *Ctx) {
	p := c.P
	r := c.Rule("C19.vars-frozen", "no element of (an alias of) Statement.Vars is overwritten: the values a dry run exposes are the ones a real run binds", 8)
	p.SSA()
	varsF := p.Field(p.Named(pkgGorm, "Statement"), "Vars")
	isVarsLoad := func(v ssa.Value) bool {
		u, ok := v.(*ssa.UnOp)
		if !ok || u.Op != token.MUL {
			return false
		}
		fa, ok := u.X.(*ssa.FieldAddr)
		if !ok {
			return false
		}
		st, ok := deref(fa.X.Type()).Underlying().(*types.Struct)
		return ok && st.Field(fa.Field) == varsF
	}
	var mayBeVars func(v ssa.Value, seen map[ssa.Value]bool) bool
	mayBeVars = func(v ssa.Value, seen map[ssa.Value]bool) bool {
		if v == nil || seen[v] {
			return false
		}
		seen[v] = true
		if isVarsLoad(v) {
			return true
		}
		switch x := v.(type) {
		case *ssa.Phi:
			for _, e := range x.Edges {
				if mayBeVars(e, seen) {
					return true
				}
			}
		case *ssa.Slice:
			return mayBeVars(x.X, seen)
		case *ssa.ChangeType:
			return mayBeVars(x.X, seen)
		case *ssa.UnOp:
			if x.Op != token.MUL {
				return false
			}
			cell := x.X
			if fv, ok := cell.(*ssa.FreeVar); ok {
				if b := freeVarBinding(fv); b != nil {
					cell = b
				}
			}
			if al, ok := cell.(*ssa.Alloc); ok {
				for _, st := range cellStores(al) {
					if mayBeVars(st, seen) {
						return true
					}
				}
			}
		}
		return false
	}
	for _, fn := range p.SSAFuncs() {
		if fn.Blocks == nil || fn.Pkg == nil || !strings.HasPrefix(fn.Pkg.Pkg.Path(), pkgGorm) {
			continue
		}
		loads, bad := 0, 0
		forEachInstrFlat(fn, func(in ssa.Instruction) {
			if v, ok := in.(ssa.Value); ok && isVarsLoad(v) {
				loads++
			}
			st, ok := in.(*ssa.Store)
			if !ok {
				return
			}
			ia, ok := st.Addr.(*ssa.IndexAddr)
			if !ok {
				return
			}
			if mayBeVars(ia.X, map[ssa.Value]bool{}) {
				bad++
				r.Bad(ssaFuncName(fn), "element store into Statement.Vars", st.Pos(), "an element of a slice that may be Statement.Vars itself is overwritten: a dry run (which keeps Vars) then exposes other values than a real run sent")
			}
		})
		if loads > 0 && bad == 0 {
			r.OK(ssaFuncName(fn), "reads Statement.Vars", fn.Pos(), "no element store through an alias")
		}
	}
}

// cellStores: the values stored into a local's cell, in the declaring function and in closures capturing it.
func cellStores(al *ssa.Alloc) []ssa.Value {
	var out []ssa.Value
	var visit func(cell ssa.Value, fn *ssa.Function, depth int)
	visit = func(cell ssa.Value, fn *ssa.Function, depth int) {
		if depth > 4 || cell.Referrers() == nil {
			return
		}
		for _, ref := range *cell.Referrers() {
			switch x := ref.(type) {
			case *ssa.Store:
				if x.Addr == cell {
					out = append(out, x.Val)
				}
			case *ssa.MakeClosure:
				if cf, ok := x.Fn.(*ssa.Function); ok {
					for i, b := range x.Bindings {
						if b == cell && i < len(cf.FreeVars) {
							visit(cf.FreeVars[i], cf, depth+1)
						}
					}
				}
			}
		}
	}
	visit(al, al.Parent(), 0)
	return out
}

func deref(t types.Type) types.Type {
	if pt, ok := t.Underlying().(*types.Pointer); ok {
		return pt.Elem()
	}
	return t
}

// C16.name-lookup: a column name the USER supplied (the key of a condition map, the column of an Eq built from
// "name = ?" or from Attrs/Assign pairs) may be either the database name or the Go field name; only
// Schema.LookUpField resolves both.  The name maps FieldsByDBName / FieldsByName are therefore indexed
// directly only with names that come from schema metadata.  Decided: every index read of these maps outside
// package schema has a key that is (a) a `.DBName` / `.Name` attribute of a schema.Field, the `.Name` of a column
// ranged out of a `.Columns` list (the clause.Values the create path builds from schema names), or (b) the
// variable of a range over a schema name list (`DBNames`, `PrimaryFieldDBNames`).  Not decided: whether a
// clause.Column reaching such a site was itself built from schema names.
func checkC16NameLookup(c *Ctx) {
	p := c.P
	r := c.Rule("C16.name-lookup", "Schema.FieldsByDBName/FieldsByName are indexed directly only with schema-derived names; user-supplied names go through LookUpField", 4)
	schemaT := p.Named(pkgSchema, "Schema")
	byDB := p.Field(schemaT, "FieldsByDBName")
	byName := p.Field(schemaT, "FieldsByName")
	for _, f := range p.Funcs {
		if f.Body == nil || f.Pkg.PkgPath == pkgSchema {
			continue
		}
		info := f.Pkg.TypesInfo
		ast.Inspect(f.Body, func(n ast.Node) bool {
			if fl, ok := n.(*ast.FuncLit); ok && fl != f.Lit {
				return false
			}
			ix, ok := n.(*ast.IndexExpr)
			if !ok || !(fieldSel(info, ix.X, byDB) || fieldSel(info, ix.X, byName)) {
				return true
			}
			key := unparen(ix.Index)
			okKey, why := false, ""
			switch k := key.(type) {
			case *ast.SelectorExpr:
				if s := info.Selections[k]; s != nil && s.Kind() == types.FieldVal && (k.Sel.Name == "DBName" || k.Sel.Name == "Name") {
					switch derefNamed(s.Recv()) {
					case p.Named(pkgSchema, "Field"):
						okKey, why = true, "Field attribute "+k.Sel.Name
					case p.Named(pkgClause, "Column"):
						// only a column of a clause.Values the library built from the schema's own names
						if id, ok := unparen(k.X).(*ast.Ident); ok {
							if src := rangeSource(rootFunc(f), info, id); strings.HasSuffix(src, ".Columns") {
								okKey, why = true, "column of "+src
							}
						}
					}
				}
			case *ast.Ident:
				if src := rangeSource(rootFunc(f), info, k); src != "" && (strings.HasSuffix(src, ".DBNames") || strings.HasSuffix(src, ".PrimaryFieldDBNames")) {
					okKey, why = true, "range over "+src
				}
			}
			r.Check(okKey, f.Name(), "direct name-map lookup", ix.Pos(), why, "Schema."+types.ExprString(ix.X)[strings.LastIndex(types.ExprString(ix.X), ".")+1:]+" is indexed with `"+types.ExprString(key)+"`, which is not a schema-derived name: a user-supplied name written as the Go field name (or the column name, for FieldsByName) is silently not found - use LookUpField")
			return true
		})
	}
}

// rangeSource: id is the value (or key) variable of a `for ... := range X`; returns canon(X).
func rangeSource(f *FuncSrc, info *types.Info, id *ast.Ident) string {
	obj := info.ObjectOf(id)
	if obj == nil {
		return ""
	}
	src := ""
	ast.Inspect(f.Body, func(n ast.Node) bool {
		rs, ok := n.(*ast.RangeStmt)
		if !ok {
			return true
		}
		for _, kv := range []ast.Expr{rs.Key, rs.Value} {
			if kid, ok := kv.(*ast.Ident); ok && info.ObjectOf(kid) == obj {
				x := rs.X
				if d := resolveLocal(f, x); d != nil {
					x = d // the list held in a single-definition local
				}
				src = canon(info, x)
			}
		}
		return true
	})
	return src
}

// C08.clause-config: the three statement modifiers of a soft-delete field (query filter, update filter,
// delete rewrite) must agree on what "live" means - the column and the zero value taken from the field's
// tag.  Decided: DeletedAt.QueryClauses/UpdateClauses/DeleteClauses each return a modifier literal that sets
// EVERY field of its struct, and same-named fields get the same expression in all three.
func checkC08ClauseConfig(c *Ctx) {
	p := c.P
	r := c.Rule("C08.clause-config", "DeletedAt.{Query,Update,Delete}Clauses configure their modifiers alike: every field set, same sources (column, zero value)", 3)
	ref := map[string]string{}
	refFn := ""
	for _, m := range []string{"QueryClauses", "UpdateClauses", "DeleteClauses"} {
		f := p.MethodDecl(pkgGorm, "DeletedAt", m)
		c.Touch(f)
		info := f.Pkg.TypesInfo
		var lits []*ast.CompositeLit
		ast.Inspect(f.Body, func(n ast.Node) bool {
			if cl, ok := n.(*ast.CompositeLit); ok {
				if _, ok := info.TypeOf(cl).Underlying().(*types.Struct); ok {
					if nm, ok := info.TypeOf(cl).(*types.Named); ok && nm.Obj().Pkg() != nil && nm.Obj().Pkg().Path() == pkgGorm {
						lits = append(lits, cl)
					}
				}
			}
			return true
		})
		if len(lits) != 1 {
			r.Bad(f.Name(), "modifier literal", f.Body.Pos(), "expected exactly one statement-modifier literal")
			continue
		}
		lit := lits[0]
		st := info.TypeOf(lit).Underlying().(*types.Struct)
		// parameter names differ between siblings: normalise the field parameter to "$f"
		param := ""
		if ps := f.Decl.Type.Params.List; len(ps) == 1 && len(ps[0].Names) == 1 {
			param = ps[0].Names[0].Name
		}
		got := map[string]string{}
		for _, el := range lit.Elts {
			if kv, ok := el.(*ast.KeyValueExpr); ok {
				if id, ok := kv.Key.(*ast.Ident); ok {
					e := kv.Value
					if d := resolveLocal(f, e); d != nil {
						e = d
					}
					got[id.Name] = normParam(canon(info, e), param)
				}
			}
		}
		missing := []string{}
		for i := 0; i < st.NumFields(); i++ {
			if _, ok := got[st.Field(i).Name()]; !ok {
				missing = append(missing, st.Field(i).Name())
			}
		}
		diff := []string{}
		if refFn == "" {
			refFn = f.Name()
			for k, v := range got {
				ref[k] = v
			}
		} else {
			for k, v := range got {
				if rv, ok := ref[k]; ok && rv != v {
					diff = append(diff, k+": "+v+" vs "+rv)
				}
			}
		}
		sort.Strings(diff)
		r.Check(len(missing) == 0 && len(diff) == 0, f.Name(), "modifier configuration", lit.Pos(), "all fields set, same sources as the siblings", "the soft-delete modifier built here leaves "+strings.Join(missing, ",")+" unset or configures it differently from "+refFn+" ("+strings.Join(diff, "; ")+"): with a zeroValue tag the filters no longer agree on which rows are live")
	}
}

func normParam(s, param string) string {
	if param == "" {
		return s
	}
	out := strings.ReplaceAll(s, "("+param+")", "($f)")
	if out == param {
		return "$f"
	}
	return out
}

// C20.add-exec: AutoMigrate adds a column for every new field through Migrator.AddColumn and trusts a nil
// result.  Decided: inside AddColumn a literal `nil` is returned only under the fact that the field is marked
// IgnoreMigration; every other success comes from the executed ALTER TABLE (its .Error).
func checkC20AddExec(c *Ctx) {
	p := c.P
	r := c.Rule("C20.add-exec", "Migrator.AddColumn reports success without executing ALTER TABLE ... ADD only for fields marked IgnoreMigration", 2)
	f := p.MethodDecl(pkgMigrator, "Migrator", "AddColumn")
	c.Touch(f)
	ignoreF := p.Field(p.Named(pkgSchema, "Field"), "IgnoreMigration")
	n := 0
	for _, g := range append([]*FuncSrc{f}, p.AllLits(f)...) {
		info := g.Pkg.TypesInfo
		gs := p.Guards(g, nil)
		hasExec := false
		for _, call := range callsIn(g) {
			if fn, _ := typeutil.Callee(info, call).(*types.Func); fn != nil && fn.Name() == "Exec" {
				hasExec = true
			}
		}
		if !hasExec {
			continue
		}
		ast.Inspect(g.Body, func(x ast.Node) bool {
			if fl, ok := x.(*ast.FuncLit); ok && fl != g.Lit {
				return false
			}
			ret, ok := x.(*ast.ReturnStmt)
			if !ok || len(ret.Results) != 1 {
				return true
			}
			id, ok := unparen(ret.Results[0]).(*ast.Ident)
			if !ok || id.Name != "nil" {
				n++
				r.OK(g.Name(), "return", ret.Pos(), "an error or the result of the statement")
				return true
			}
			n++
			facts, live := gs.At(ret.Pos())
			okf := !live
			for fct := range facts {
				if strings.HasPrefix(fct, "T:") && strings.HasSuffix(fct, ".IgnoreMigration") {
					okf = true
				}
			}
			_ = ignoreF
			r.Check(okf, g.Name(), "success without ALTER TABLE", ret.Pos(), "only for IgnoreMigration fields", "AddColumn returns nil on a path that neither executed ALTER TABLE ... ADD nor established that the field is excluded from migration: AutoMigrate reports success while the new field's column is missing")
			return true
		})
	}
	if n == 0 {
		r.Unknown(f.Name(), "shape", f.Body.Pos(), "no closure executing the statement found in AddColumn")
	}
}

// C07.escaping-closures (generalisation of field-closures): a function literal that OUTLIVES the call that
// built it - it is returned, or stored into a struct field / composite-literal field / map or slice element -
// can be run later by any goroutine sharing the object it was stored in.  Such a literal must not assign to a
// variable captured from its builder: that variable is one cell shared by all of them.  Literals that are
// only called (or deferred, or passed as an argument) during the builder's own activation are not examined -
// assigning captured variables there is the normal way to return results.
func checkC07EscapingClosures(c *Ctx) {
	p := c.P
	r := c.Rule("C07.escaping-closures", "function literals that are returned or stored in a field/element never assign to a variable captured from the function that built them", 18)
	for _, f := range p.FuncsOf(pkgGorm, pkgCallbacks, pkgSchema, pkgClause, pkgMigrator) {
		if f.Body == nil || f.Decl == nil {
			continue
		}
		info := f.Pkg.TypesInfo
		parents := parentMap(f.Body)
		var visit func(n ast.Node) bool
		visit = func(n ast.Node) bool {
			fl, ok := n.(*ast.FuncLit)
			if !ok {
				return true
			}
			how := escapesHow(parents, fl)
			if how == "" {
				return true // nested literals are examined on their own
			}
			bad := 0
			check := func(lhs ast.Expr, pos token.Pos) {
				id := rootIdentOf(lhs)
				if id == nil || id.Name == "_" {
					return
				}
				obj, _ := info.Uses[id].(*types.Var)
				if obj == nil || obj.IsField() || obj.Pkg() == nil || obj.Parent() == obj.Pkg().Scope() {
					return // fields; package-level variables are C07.globals' business
				}
				if obj.Pos() >= fl.Pos() && obj.Pos() < fl.End() {
					return
				}
				// a write THROUGH a captured pointer/map/slice into an object is a store into that object, decided by the
				// who-writes rules of the object; here only re-assignment of the captured variable itself counts,
				// plus element/field stores into captured non-pointer aggregates (arrays, structs)
				if unparen(lhs) != ast.Expr(id) {
					switch obj.Type().Underlying().(type) {
					case *types.Pointer, *types.Map, *types.Slice, *types.Interface, *types.Chan:
						return
					}
				}
				bad++
				r.Bad(f.Name(), "escaping closure assigns captured "+id.Name, pos, "a function literal that is "+how+" assigns to `"+types.ExprString(lhs)+"`, a variable of the function that built it: every later call (from any goroutine) shares that one cell")
			}
			ast.Inspect(fl.Body, func(m ast.Node) bool {
				switch x := m.(type) {
				case *ast.AssignStmt:
					for _, l := range x.Lhs {
						if x.Tok == token.DEFINE {
							if id, ok := l.(*ast.Ident); ok && info.Defs[id] != nil {
								continue
							}
						}
						check(l, x.Pos())
					}
				case *ast.IncDecStmt:
					check(x.X, x.Pos())
				case *ast.RangeStmt:
					if x.Tok == token.ASSIGN {
						if x.Key != nil {
							check(x.Key, x.Pos())
						}
						if x.Value != nil {
							check(x.Value, x.Pos())
						}
					}
				}
				return true
			})
			if bad == 0 {
				r.OK(f.Name(), "escaping closure ("+how+")", fl.Pos(), "no assignment to a captured variable")
			}
			return false
		}
		ast.Inspect(f.Body, visit)
	}
}

// escapesHow: "" when the literal is only called / deferred / passed as an argument / bound to a local.
func escapesHow(parents map[ast.Node]ast.Node, fl *ast.FuncLit) string {
	var cur ast.Node = fl
	for {
		par := parents[cur]
		switch x := par.(type) {
		case *ast.ParenExpr:
			cur = par
			continue
		case *ast.ReturnStmt:
			return "returned"
		case *ast.KeyValueExpr:
			if x.Value == cur {
				return "stored in a composite literal"
			}
			return ""
		case *ast.CompositeLit:
			return "stored in a composite literal"
		case *ast.AssignStmt:
			for i, rhs := range x.Rhs {
				if rhs == cur && i < len(x.Lhs) {
					switch unparen(x.Lhs[i]).(type) {
					case *ast.SelectorExpr:
						return "stored in a field"
					case *ast.IndexExpr:
						return "stored in an element"
					}
				}
			}
			return ""
		default:
			return ""
		}
	}
}

// C03.serializer-fresh: a scanned serializer field is read back through a pooled `*serializer` holder.  After
// a successful Scan the record may keep the holder's Serializer object itself (same type) or a shallow copy
// of it (same element type) - so the holder must get a NEW Serializer before it goes back to the pool,
// otherwise the next row's Scan decodes into memory an earlier record still refers to.  Decided, by path
// enumeration of the setter closure: every path on which the record's field is Set from `X.Serializer` is
// followed by an assignment to `X.Serializer`.
// C07.pool-fresh: what a sync.Pool's New closure returns must be created inside that closure: an identifier
// captured from the builder that is placed into the returned object (or returned itself) is one object handed
// to every goroutine that misses the pool.  The builder's receiver and parameters are accepted (long-lived
// metadata the pool's values refer to, e.g. the *Field).
func checkSerializerFresh(c *Ctx, r3, r7 *Rule) {
	p := c.P
	serT := p.Named(pkgSchema, "serializer")
	serF := p.Field(serT, "Serializer")
	n3 := 0
	for _, f := range p.FuncsOf(pkgSchema) {
		if f.Lit == nil || f.Body == nil {
			continue
		}
		info := f.Pkg.TypesInfo
		// record.Set(reflect.ValueOf(X.Serializer)...) sites directly in this literal
		var sets []*ast.CallExpr
		ast.Inspect(f.Body, func(n ast.Node) bool {
			if fl, ok := n.(*ast.FuncLit); ok && fl != f.Lit {
				return false
			}
			ce, ok := n.(*ast.CallExpr)
			if !ok {
				return true
			}
			sel, ok := ce.Fun.(*ast.SelectorExpr)
			if !ok || sel.Sel.Name != "Set" || len(ce.Args) != 1 {
				return true
			}
			uses := false
			ast.Inspect(ce.Args[0], func(m ast.Node) bool {
				if s, ok := m.(*ast.SelectorExpr); ok && fieldSel(info, s, serF) {
					uses = true
				}
				return true
			})
			if uses {
				sets = append(sets, ce)
			}
			return true
		})
		if len(sets) == 0 {
			continue
		}
		if r3 == nil {
			continue
		}
		c.Touch(rootFunc(f))
		paths, ok := p.EnumPaths(f, nil, 5000)
		if !ok {
			r3.Unknown(f.Name(), "paths", f.Body.Pos(), "too many paths")
			continue
		}
		for _, set := range sets {
			n3++
			bad, seen := 0, 0
			for _, pr := range paths {
				at := -1
				for i, nd := range pr.Nodes {
					if containsNode(nd, set) {
						at = i
					}
				}
				if at < 0 {
					continue
				}
				seen++
				fresh := false
				for _, nd := range pr.Nodes[at+1:] {
					if as, ok := nd.(*ast.AssignStmt); ok {
						for _, l := range as.Lhs {
							if s, ok := unparen(l).(*ast.SelectorExpr); ok && fieldSel(info, s, serF) {
								fresh = true
							}
						}
					}
				}
				if !fresh {
					bad++
				}
			}
			r3.Check(bad == 0 && seen > 0, f.Name(), "record keeps the scanned serializer", set.Pos(), "the pooled holder gets a new Serializer on every such path", "after the record's field was set from the pooled holder's Serializer the holder keeps that same object on some path: the next row scanned through the pool decodes into memory this record still refers to")
		}
	}
	if r3 != nil && n3 == 0 {
		r3.Bad("schema", "serializer setter", token.NoPos, "no setter that copies the scanned serializer into the record found; rule lost its anchor")
	}
	if r7 == nil {
		return
	}
	// sync.Pool{New: func() interface{} {...}}
	poolT := p.StdNamed("sync", "Pool")
	n7 := 0
	for _, f := range p.FuncsOf(pkgSchema, pkgGorm, pkgCallbacks, pkgClause) {
		if f.Body == nil {
			continue
		}
		info := f.Pkg.TypesInfo
		ast.Inspect(f.Body, func(n ast.Node) bool {
			if fl, ok := n.(*ast.FuncLit); ok && fl != f.Lit {
				return false
			}
			cl, ok := n.(*ast.CompositeLit)
			if !ok || derefNamed(info.TypeOf(cl)) != poolT {
				return true
			}
			nf, _ := compositeField(cl, "New").(*ast.FuncLit)
			if nf == nil {
				return true
			}
			n7++
			root := rootFunc(f)
			isParam := func(o types.Object) bool {
				if root.Decl == nil {
					return false
				}
				lists := []*ast.FieldList{root.Decl.Type.Params, root.Decl.Recv}
				for cur := f; cur != nil; cur = cur.Parent {
					lists = append(lists, cur.Type.Params)
				}
				for _, fl := range lists {
					if fl == nil {
						continue
					}
					for _, fld := range fl.List {
						for _, nm := range fld.Names {
							if info.Defs[nm] == o {
								return true
							}
						}
					}
				}
				return false
			}
			var bads []string
			judge := func(e ast.Expr) {
				e = unparen(e)
				if ce, ok := e.(*ast.CallExpr); ok && len(ce.Args) == 1 {
					// conversions T(x)
					if tv, ok := info.Types[ce.Fun]; ok && tv.IsType() {
						e = unparen(ce.Args[0])
					}
				}
				if ta, ok := e.(*ast.TypeAssertExpr); ok {
					e = unparen(ta.X)
				}
				id, ok := e.(*ast.Ident)
				if !ok {
					return // calls, literals, selectors of fresh values
				}
				o, _ := info.Uses[id].(*types.Var)
				if o == nil || o.Parent() == o.Pkg().Scope() {
					return
				}
				if o.Pos() >= nf.Pos() && o.Pos() < nf.End() {
					return
				}
				if isParam(o) {
					return
				}
				switch o.Type().Underlying().(type) {
				case *types.Pointer, *types.Interface, *types.Map, *types.Slice, *types.Chan:
					bads = append(bads, id.Name)
				}
			}
			ast.Inspect(nf.Body, func(m ast.Node) bool {
				if fl, ok := m.(*ast.FuncLit); ok && fl != nf {
					return false
				}
				ret, ok := m.(*ast.ReturnStmt)
				if !ok {
					return true
				}
				for _, res := range ret.Results {
					e := unparen(res)
					if u, ok := e.(*ast.UnaryExpr); ok && u.Op == token.AND {
						e = unparen(u.X)
					}
					if lit, ok := e.(*ast.CompositeLit); ok {
						for _, el := range lit.Elts {
							if kv, ok := el.(*ast.KeyValueExpr); ok {
								judge(kv.Value)
							} else {
								judge(el)
							}
						}
					} else {
						judge(e)
					}
				}
				return true
			})
			r7.Check(len(bads) == 0, f.Name(), "sync.Pool New", nf.Pos(), "returns objects created inside the closure", "the pool's New hands out `"+strings.Join(bads, ",")+"`, a reference captured from the function that built the pool: every goroutine that misses the pool gets the same object")
			return true
		})
	}
	if n7 == 0 {
		r7.Bad("schema", "pools", token.NoPos, "no sync.Pool literal with a New function found; rule lost its anchor")
	}
}

// C06.fresh-handle: every exported *DB method that returns a *DB hands out either a session / instance
// derived from the receiver (the result of Session, getInstance, another method) or - finishers - the
// instance the operation ran on.  Returning the RECEIVER ITSELF makes "the handle I got back" and "the chain I
// called it on" one object: on a live chain the next chain method then extends the caller's own statement and
// sibling chains accumulate each other's conditions.  Decided on SSA: no return operand of such a method is
// (a phi containing) the bare receiver parameter.
func checkC06FreshHandle(c *Ctx) {
	p := c.P
	r := c.Rule("C06.fresh-handle", "no exported *DB method returns its own receiver as the resulting handle", 45)
	for _, m := range []string{"Commit", "Rollback", "SavePoint", "RollbackTo"} {
		r.Exempt("(*gorm.DB)."+m, "transaction control acts on the transaction handle it is called on and returns that handle so that its Error can be read; it starts no chain")
	}
	p.SSA()
	dbT := p.Named(pkgGorm, "DB")
	ptr := types.NewPointer(dbT)
	ms := types.NewMethodSet(ptr)
	for i := 0; i < ms.Len(); i++ {
		m, _ := ms.At(i).Obj().(*types.Func)
		if m == nil || !m.Exported() {
			continue
		}
		sig := m.Type().(*types.Signature)
		if sig.Results().Len() == 0 || !types.Identical(sig.Results().At(0).Type(), ptr) {
			continue
		}
		fn := p.SSAFunc(m)
		if fn == nil || fn.Blocks == nil || len(fn.Params) == 0 {
			continue
		}
		if r.IsExempt(ssaFuncName(fn)) {
			continue
		}
		recv := fn.Params[0]
		bad := token.NoPos
		var isRecv func(v ssa.Value, seen map[ssa.Value]bool) bool
		isRecv = func(v ssa.Value, seen map[ssa.Value]bool) bool {
			if seen[v] {
				return false
			}
			seen[v] = true
			switch x := v.(type) {
			case *ssa.Parameter:
				return x == recv
			case *ssa.Phi:
				for _, e := range x.Edges {
					if isRecv(e, seen) {
						return true
					}
				}
			case *ssa.UnOp:
				// load of a named result / local cell
				if x.Op == token.MUL {
					if al, ok := x.X.(*ssa.Alloc); ok {
						for _, st := range cellStores(al) {
							if isRecv(st, seen) {
								return true
							}
						}
					}
				}
			}
			return false
		}
		forEachInstrFlat(fn, func(in ssa.Instruction) {
			if ret, ok := in.(*ssa.Return); ok && len(ret.Results) > 0 && isRecv(ret.Results[0], map[ssa.Value]bool{}) {
				bad = ret.Pos()
			}
		})
		r.Check(bad == token.NoPos, ssaFuncName(fn), "resulting handle", fn.Pos(), "derived from the receiver, never the receiver itself", "the method can return its own receiver: called on a live chain the result is that chain, not a handle - later chains extend the caller's statement and siblings accumulate each other's conditions")
	}
}

// C06.arg-handles: a *DB the user passes as an ARGUMENT (group condition Where(h)/Or(h)/Not(h), sub-query in
// a condition / Table / Joins / a bound value) is only read.  It may be a reusable handle: a store into
// memory reachable from it - a field of its Statement, an element of one of its expression lists, an entry of
// one of its maps - or a call of a library function that writes through it changes every chain later derived
// from that handle (finding F13: the group-condition arm of BuildCondition rewrote the handle's first OR
// expression in place and cleared its pending scopes).  Decided on SSA: from every `x.(*DB)` type assertion
// in packages gorm and callbacks, the values and addresses reachable by field selection, loads, map/slice
// indexing and struct copies are collected; no Store / MapUpdate targets shared memory among them and no
// repository function that writes through a parameter receives one of them for that parameter.  A *DB a library
// method derives from the argument (getInstance, Session, executeScopes) is a new instance with a new Statement,
// but Statement.clone is shallow below its maps and slices: what is looked up in them is the argument's again.
func checkC06ArgHandles(c *Ctx) {
	p := c.P
	r := c.Rule("C06.arg-handles", "a *DB received as an argument (group condition, sub-query) is never written through", 3)
	p.SSA()
	// Session's own stores are decided path-sensitively by C06.instance ("only after the statement was replaced by
	// a clone"); as in C06.recv it is trusted here
	eff := p.Effects(p.SSAFunc(p.Method(p.Named(pkgGorm, "DB"), "Session")))
	dbPtr := types.NewPointer(p.Named(pkgGorm, "DB"))
	for _, fn := range p.SSAFuncs() {
		root := rootSSA(fn)
		if fn.Blocks == nil || root.Pkg == nil {
			continue
		}
		if pp := root.Pkg.Pkg.Path(); pp != pkgGorm && pp != pkgCallbacks {
			continue
		}
		var srcs []ssa.Value
		forEachInstrFlat(fn, func(in ssa.Instruction) {
			ta, ok := in.(*ssa.TypeAssert)
			if !ok || !types.Identical(ta.AssertedType, dbPtr) {
				return
			}
			if ta.CommaOk {
				for _, ref := range *ta.Referrers() {
					if ex, ok := ref.(*ssa.Extract); ok && ex.Index == 0 {
						srcs = append(srcs, ex)
					}
				}
			} else {
				srcs = append(srcs, ta)
			}
		})
		for _, src := range srcs {
			val := map[ssa.Value]bool{src: true} // values that are / contain references into the argument
			shared := map[ssa.Value]bool{}       // addresses inside the argument's memory
			holds := map[*ssa.Alloc]bool{}       // local cells holding such a value
			fresh := map[ssa.Value]bool{}        // *DB / *Statement of an instance DERIVED from the argument (getInstance, Session, ...): the structs are new ...
			freshAddr := map[ssa.Value]bool{}    // ... field addresses in them ...
			semi := map[ssa.Value]bool{}         // ... their maps and slices are copies, but the ELEMENTS are still the argument's (Statement.clone is shallow below the containers)
			local := map[ssa.Value]bool{}        // addresses inside such local cells
			var bad []string
			badPos := token.NoPos
			note := func(pos token.Pos, s string) {
				bad = append(bad, p.Pos(pos)+": "+s)
				if badPos == token.NoPos {
					badPos = pos
				}
			}
			for changed := true; changed; {
				changed = false
				add := func(m map[ssa.Value]bool, v ssa.Value) {
					if !m[v] {
						m[v] = true
						changed = true
					}
				}
				forEachInstrFlat(fn, func(in ssa.Instruction) {
					switch x := in.(type) {
					case *ssa.Call:
						// a *DB derived from the argument by a library method
						if sc := x.Call.StaticCallee(); sc != nil && p.InRepo(sc) && types.Identical(x.Type(), dbPtr) {
							for _, a := range x.Call.Args {
								if (val[a] || fresh[a]) && types.Identical(a.Type(), dbPtr) {
									add(fresh, x)
								}
							}
						}
					case *ssa.FieldAddr:
						if fresh[x.X] {
							add(freshAddr, x)
							return
						}
						switch {
						case val[x.X] || shared[x.X]:
							add(shared, x)
						case local[x.X]:
							add(local, x)
						default:
							if al, ok := x.X.(*ssa.Alloc); ok && holds[al] {
								add(local, x)
							}
						}
					case *ssa.IndexAddr:
						if semi[x.X] {
							add(local, x) // an element cell of the instance's own copy; what is loaded from it is the argument's
							return
						}
						switch {
						case val[x.X] || shared[x.X]:
							add(shared, x)
						case local[x.X]:
							add(local, x)
						}
					case *ssa.UnOp:
						if x.Op != token.MUL {
							return
						}
						if freshAddr[x.X] {
							switch t := x.Type().Underlying().(type) {
							case *types.Pointer:
								if _, ok := t.Elem().Underlying().(*types.Struct); ok && (namedOf(x.Type()) == pkgGorm+".Statement" || namedOf(x.Type()) == pkgGorm+".DB") {
									add(fresh, x)
								}
							case *types.Map, *types.Slice:
								add(semi, x)
							}
							return
						}
						if shared[x.X] || local[x.X] {
							add(val, x)
						} else if al, ok := x.X.(*ssa.Alloc); ok && holds[al] {
							add(val, x)
						}
					case *ssa.Field:
						if val[x.X] {
							add(val, x)
						}
					case *ssa.Lookup:
						if val[x.X] || semi[x.X] {
							add(val, x)
						}
					case *ssa.Index:
						if val[x.X] || semi[x.X] {
							add(val, x)
						}
					case *ssa.Range:
						if val[x.X] || semi[x.X] {
							add(val, x)
						}
					case *ssa.Next:
						if val[x.Iter] {
							add(val, x)
						}
					case *ssa.Extract:
						if val[x.Tuple] {
							add(val, x)
						}
					case *ssa.TypeAssert:
						if val[x.X] && x != src {
							add(val, x)
						}
					case *ssa.ChangeInterface:
						if val[x.X] {
							add(val, x)
						}
					case *ssa.ChangeType:
						if val[x.X] {
							add(val, x)
						}
					case *ssa.MakeInterface:
						if val[x.X] {
							add(val, x)
						}
					case *ssa.Slice:
						if val[x.X] {
							add(val, x)
						}
					case *ssa.Phi:
						for _, e := range x.Edges {
							if val[e] {
								add(val, x)
							}
						}
					case *ssa.Store:
						if val[x.Val] {
							if al, ok := x.Addr.(*ssa.Alloc); ok && !holds[al] {
								holds[al] = true
								changed = true
							}
						}
					}
				})
			}
			forEachInstrFlat(fn, func(in ssa.Instruction) {
				switch x := in.(type) {
				case *ssa.Store:
					if shared[x.Addr] {
						note(x.Pos(), "store into the argument's memory")
					}
				case *ssa.MapUpdate:
					if val[x.Map] {
						note(x.Pos(), "map update in the argument's memory")
					}
				case ssa.CallInstruction:
					cc := x.Common()
					callee := cc.StaticCallee()
					if callee == nil || !p.InRepo(callee) {
						return
					}
					for i, a := range cc.Args {
						if !val[a] || !isPointerLike(a.Type()) {
							continue
						}
						if ws, w := eff.WritesThrough(callee, i); w {
							via := ""
							if len(ws) > 0 {
								via = " (" + ws[0].Path + ")"
							}
							note(x.Pos(), "call of "+callee.Name()+", which writes through that parameter"+via)
						}
					}
				}
			})
			pos := src.Pos()
			if badPos != token.NoPos {
				pos = badPos
			}
			r.Check(len(bad) == 0, ssaFuncName(fn), "argument handle", pos, "only read (or derived from first)", "a *DB obtained from an argument is written through - "+strings.Join(bad, "; ")+": if the caller passed a reusable handle, every chain derived from it afterwards is changed")
		}
	}
}

// C02.operator-fixed: clause.Gt/Gte/Lt/Lte/Like (the comparison expressions whose Build writes exactly one
// operator constant) stand for that operator whatever value they carry - this is what makes
// `clause.Like{c, v}` and the raw unit "c LIKE ?" select the same rows.  Decided by path enumeration: every
// path through Build and through NegationBuild writes the operator constant (exactly once), and neither
// delegates to the Build/NegationBuild of another expression type.  Eq/Neq/IN have documented value-dependent
// forms (NULL, lists) and are decided by the negation table only.
func checkC02OperatorFixed(c *Ctx) {
	p := c.P
	r := c.Rule("C02.operator-fixed", "single-operator comparison expressions write their operator on every path of Build/NegationBuild and never delegate to another expression type", 8)
	var pk *types.Package
	for _, q := range p.All {
		if q.PkgPath == pkgClause {
			pk = q.Types
		}
	}
	names := pk.Scope().Names()
	sort.Strings(names)
	for _, name := range names {
		tn, ok := pk.Scope().Lookup(name).(*types.TypeName)
		if !ok {
			continue
		}
		nt, ok := tn.Type().(*types.Named)
		if !ok {
			continue
		}
		bm, nm := p.MethodOpt(nt, "Build"), p.MethodOpt(nt, "NegationBuild")
		if bm == nil || nm == nil {
			continue
		}
		bs, ns := p.SrcOpt(bm), p.SrcOpt(nm)
		if bs == nil || ns == nil {
			continue
		}
		opCalls := func(f *FuncSrc) (ops map[string]bool, calls []*ast.CallExpr, delegates []string) {
			ops = map[string]bool{}
			info := f.Pkg.TypesInfo
			for _, call := range callsIn(f) {
				if sel, ok := call.Fun.(*ast.SelectorExpr); ok && sel.Sel.Name == "WriteString" && len(call.Args) == 1 {
					if s, ok := constString(info, call.Args[0]); ok {
						if op, ok := normSQLOp(s); ok {
							ops[op] = true
							calls = append(calls, call)
						}
					}
				}
				if fn, _ := typeutil.Callee(info, call).(*types.Func); fn != nil && (fn.Name() == "Build" || fn.Name() == "NegationBuild") && fn.Pkg() != nil && fn.Pkg().Path() == pkgClause {
					if sig := fn.Type().(*types.Signature); sig.Recv() != nil {
						if un, ok := sig.Recv().Type().(*types.Named); ok && un != nt {
							delegates = append(delegates, un.Obj().Name()+"."+fn.Name())
						}
					}
				}
			}
			return
		}
		// frozen table (confirmed by reading): the expression types that stand for exactly one operator
		want, single := map[string]string{"Gt": ">", "Gte": ">=", "Lt": "<", "Lte": "<=", "Like": "LIKE"}[name]
		if !single {
			continue
		}
		if bops, _, _ := opCalls(bs); len(bops) != 1 || !bops[want] {
			var l []string
			for o := range bops {
				l = append(l, o)
			}
			sort.Strings(l)
			r.Bad(bs.Name(), "operator", bs.Body.Pos(), name+".Build writes the operators {"+strings.Join(l, ", ")+"} instead of exactly `"+want+"`: for some values the expression no longer selects what the raw unit written with `"+want+"` selects")
			continue
		}
		for _, f := range []*FuncSrc{bs, ns} {
			c.Touch(f)
			ops, calls, delegates := opCalls(f)
			if f == ns && len(ops) == 0 && len(delegates) == 1 {
				r.OK(f.Name(), "operator", f.Body.Pos(), "negation by conversion to "+delegates[0])
				continue
			}
			paths, ok := p.EnumPaths(f, nil, 2000)
			if !ok {
				r.Unknown(f.Name(), "operator", f.Body.Pos(), "too many paths")
				continue
			}
			bad := 0
			for _, pr := range paths {
				k := 0
				for _, nd := range pr.Nodes {
					for _, call := range calls {
						if containsNode(nd, call) {
							k++
						}
					}
				}
				if k != 1 {
					bad++
				}
			}
			var opl []string
			for o := range ops {
				opl = append(opl, o)
			}
			sort.Strings(opl)
			r.Check(bad == 0 && len(ops) == 1 && len(delegates) == 0, f.Name(), "operator", f.Body.Pos(), "`"+strings.Join(opl, " ")+"` on every path", name+" does not render its operator on every path (operators {"+strings.Join(opl, ", ")+"}, delegates to {"+strings.Join(delegates, ", ")+"}, "+fmt.Sprint(bad)+" paths without exactly one operator): the expression and the raw unit written with that operator no longer select the same rows for some values")
		}
	}
}

// C11.join-refs: an association Join attaches the related row by ANDing one equality per reference of the
// relation - key columns and, for polymorphic relations, the constant type column - as separate members of the
// join's ON list; the soft-delete filter and the caller's conditions are grouped separately after them.
// Decided by loop-iteration paths: in BuildQuerySQL every iteration of the loop over `relation.References`
// stores exactly one member into one and the same list on every path.  (A reference that is routed into the
// user-condition group instead - seed S120 - is ORed away by a caller condition containing OR.)
func checkC11JoinRefs(c *Ctx) {
	p := c.P
	r := c.Rule("C11.join-refs", "association Joins: every reference of the relation contributes exactly one member to the join's ON list, on every path", 1)
	refsF := p.Field(p.Named(pkgSchema, "Relationship"), "References")
	root := p.FuncDecl(pkgCallbacks, "BuildQuerySQL")
	n := 0
	for _, f := range append([]*FuncSrc{root}, p.AllLits(root)...) {
		info := f.Pkg.TypesInfo
		ast.Inspect(f.Body, func(x ast.Node) bool {
			if fl, ok := x.(*ast.FuncLit); ok && fl != f.Lit {
				return false
			}
			rs, ok := x.(*ast.RangeStmt)
			if !ok || !fieldSel(info, rs.X, refsF) {
				return true
			}
			n++
			c.Touch(f)
			// stores of a list member inside the loop: L[i] = e / L = append(L, e)
			type st struct {
				node ast.Node
				list string
			}
			var stores []st
			ast.Inspect(rs.Body, func(y ast.Node) bool {
				as, ok := y.(*ast.AssignStmt)
				if !ok || len(as.Lhs) != 1 || len(as.Rhs) != 1 {
					return true
				}
				if ix, ok := unparen(as.Lhs[0]).(*ast.IndexExpr); ok {
					if _, isSlice := info.TypeOf(ix.X).Underlying().(*types.Slice); isSlice {
						stores = append(stores, st{as, canon(info, ix.X)})
					}
				} else if ce, ok := unparen(as.Rhs[0]).(*ast.CallExpr); ok {
					if id, ok := ce.Fun.(*ast.Ident); ok && id.Name == "append" && len(ce.Args) >= 2 && canon(info, ce.Args[0]) == canon(info, as.Lhs[0]) {
						stores = append(stores, st{as, canon(info, as.Lhs[0])})
					}
				}
				return true
			})
			lists := map[string]bool{}
			for _, s := range stores {
				lists[s.list] = true
			}
			paths, okp := p.EnumLoopIterPaths(f, rs, 5000)
			if !okp {
				r.Unknown(f.Name(), "reference loop", rs.Pos(), "iteration paths not enumerable")
				return true
			}
			bad := 0
			for _, nodes := range paths {
				k := 0
				for _, nd := range nodes {
					for _, s := range stores {
						if nd == s.node || containsNode(nd, s.node) {
							k++
						}
					}
				}
				if k != 1 {
					bad++
				}
			}
			r.Check(bad == 0 && len(lists) == 1, f.Name(), "one ON member per reference", rs.Pos(), "every iteration stores one member into the ON list", "an iteration of the loop over the relation's references can complete without adding its equality to the join's ON list (or the members go to different lists): that reference is not ANDed onto the join - routed into the caller's condition group it is ORed away by a condition containing OR, and rows of another owner are attached")
			return true
		})
	}
	if n == 0 {
		r.Bad(root.Name(), "reference loop", root.Body.Pos(), "BuildQuerySQL has no loop over relation.References any more; rule lost its anchor")
	}
}

// C12.append-adds: Append never removes.  On has-one / belongs-to relations Append is implemented through
// Replace, and Replace with no targets is Clear: the call is made only under the fact that targets were given.
func checkC12AppendAdds(c *Ctx) {
	p := c.P
	r := c.Rule("C12.append-adds", "Association.Append reaches Replace only with a non-empty target list (Replace() without targets clears the relation)", 1)
	assocT := p.Named(pkgGorm, "Association")
	f := p.MethodDecl(pkgGorm, "Association", "Append")
	repl := p.Method(assocT, "Replace")
	c.Touch(f)
	info := f.Pkg.TypesInfo
	gs := p.Guards(f, nil)
	n := 0
	for _, call := range callsIn(f) {
		if fn, _ := typeutil.Callee(info, call).(*types.Func); fn != repl {
			continue
		}
		n++
		if !call.Ellipsis.IsValid() || len(call.Args) != 1 {
			r.OK(f.Name(), "Replace with explicit targets", call.Pos(), "fixed argument list")
			continue
		}
		v := canon(info, call.Args[0])
		facts, live := gs.At(call.Pos())
		r.Check(!live || facts.Has(fFalse("len("+v+") == 0")), f.Name(), "Replace("+v+"...)", call.Pos(), "under len("+v+") > 0", "Append forwards to Replace without a dominating test that targets were given: Append() with an empty list clears the has-one / belongs-to link (and deletes the record under Unscoped)", "facts: "+strings.Join(facts.List(), ", "))
	}
	if n == 0 {
		r.OK(f.Name(), "no Replace", f.Body.Pos(), "Append does not go through Replace")
	}
}

// C15.pk-placeholder: FindInBatches orders by and compares `clause.PrimaryKey`, and reads the cursor value of
// the last row from a schema field; First/Last order by the same placeholder.  The placeholder is resolved to
// a column in Statement.QuoteTo.  Writer/reader agreement: the Schema member QuoteTo resolves the placeholder
// through is the member FindInBatches reads the cursor value from (today PrioritizedPrimaryField) - otherwise,
// on a composite key, the cursor compares one column with the values of another.
func checkC15PKPlaceholder(c *Ctx) {
	p := c.P
	r := c.Rule("C15.pk-placeholder", "the primary-key placeholder is rendered from the same schema member the batch cursor value is read from", 2)
	schemaT := p.Named(pkgSchema, "Schema")
	member := func(g *FuncSrc, info *types.Info, e ast.Expr) string {
		// the Schema field selected first in a chain X.Schema.<member>...
		for depth := 0; depth < 12; depth++ {
			e = unparen(e)
			switch x := e.(type) {
			case *ast.Ident:
				d := resolveLocal(g, x)
				if d == nil || d == ast.Expr(x) {
					return ""
				}
				e = d
			case *ast.SelectorExpr:
				if s := info.Selections[x]; s != nil && s.Kind() == types.FieldVal && derefNamed(s.Recv()) == schemaT {
					return x.Sel.Name
				}
				e = x.X
			case *ast.IndexExpr:
				e = x.X
			case *ast.CallExpr:
				e = x.Fun
			default:
				return ""
			}
		}
		return ""
	}
	// writer: QuoteTo, arm guarded by a comparison with clause.PrimaryKey
	qt := p.MethodDecl(pkgGorm, "Statement", "QuoteTo")
	c.Touch(qt)
	pkC := p.Lookup(pkgClause, "PrimaryKey")
	wMember := ""
	var wPos token.Pos
	for _, g := range append([]*FuncSrc{qt}, p.AllLits(qt)...) {
		info := g.Pkg.TypesInfo
		ast.Inspect(g.Body, func(n ast.Node) bool {
			ifs, ok := n.(*ast.IfStmt)
			if !ok || wMember != "" {
				return true
			}
			mentions := false
			ast.Inspect(ifs.Cond, func(m ast.Node) bool {
				if id, ok := m.(*ast.Ident); ok && info.Uses[id] == pkC {
					mentions = true
				}
				if sel, ok := m.(*ast.SelectorExpr); ok && info.Uses[sel.Sel] == pkC {
					mentions = true
				}
				return true
			})
			if !mentions {
				return true
			}
			// first call in the arm whose last argument goes through a Schema member
			ast.Inspect(ifs.Body, func(m ast.Node) bool {
				ce, ok := m.(*ast.CallExpr)
				if !ok || wMember != "" || len(ce.Args) == 0 {
					return true
				}
				if mb := member(g, info, ce.Args[len(ce.Args)-1]); mb != "" {
					wMember, wPos = mb, ce.Pos()
				}
				return true
			})
			return true
		})
	}
	// reader: FindInBatches, `<Schema member>.ValueOf(` on the last row
	fib := p.MethodDecl(pkgGorm, "DB", "FindInBatches")
	c.Touch(fib)
	rMember := ""
	var rPos token.Pos
	{
		info := fib.Pkg.TypesInfo
		for _, call := range callsIn(fib) {
			if sel, ok := call.Fun.(*ast.SelectorExpr); ok && sel.Sel.Name == "ValueOf" {
				if mb := member(fib, info, sel.X); mb != "" {
					rMember, rPos = mb, call.Pos()
				}
			}
		}
	}
	if wMember == "" || rMember == "" {
		r.Unknown(qt.Name(), "placeholder resolution", qt.Body.Pos(), "could not find the placeholder arm of QuoteTo or the cursor read of FindInBatches")
		return
	}
	r.OK(fib.Name(), "cursor value read from Schema."+rMember, rPos, "reader side")
	r.Check(wMember == rMember, qt.Name(), "placeholder rendered from Schema."+wMember, wPos, "same member as the cursor value", "QuoteTo renders the primary-key placeholder from Schema."+wMember+" while FindInBatches reads the cursor value from Schema."+rMember+": on a composite key whose prioritized member is not the first one, ORDER BY / the batch cursor / First(&v, id) use one column and the values of another - rows repeat, are skipped, or are not found")
}

// C16.key-all: when Model(x).Updates(values) pins the UPDATE to x's row (the found arm of FirstOrCreate with
// Assign goes through it), the row is identified by ALL primary fields.  Decided: in ConvertToAssignments every
// WHERE equality whose column is `<field>.DBName` takes <field> from a range over Schema.PrimaryFields.
func checkC16KeyAll(c *Ctx) {
	checkKeyAll(c, c.Rule("C16.key-all", "ConvertToAssignments pins an update to the model's row through every primary field", 1))
}

func checkKeyAll(c *Ctx, r *Rule) {
	p := c.P
	f := p.FuncDecl(pkgCallbacks, "ConvertToAssignments")
	c.Touch(f)
	info := f.Pkg.TypesInfo
	whereT := p.Named(pkgClause, "Where")
	eqT := p.Named(pkgClause, "Eq")
	addClause := p.Method(p.Named(pkgGorm, "Statement"), "AddClause")
	n := 0
	for _, call := range callsIn(f) {
		if fn, _ := typeutil.Callee(info, call).(*types.Func); fn != addClause || len(call.Args) != 1 {
			continue
		}
		if len(litsOfType(info, call.Args[0], whereT, true)) == 0 {
			continue
		}
		for _, eq := range litsOfType(info, call.Args[0], eqT, true) {
			col, ok := unparen(compositeField(eq, "Column")).(*ast.SelectorExpr)
			if !ok || col.Sel.Name != "DBName" {
				continue
			}
			id, ok := unparen(col.X).(*ast.Ident)
			if !ok {
				continue
			}
			n++
			src := rangeSource(f, info, id)
			if src == "" {
				// second idiom: a loop over ALL columns of the schema that turns the key columns into conditions
				// (`for _, dbName := range S.DBNames { field := S.LookUpField(dbName); if !field.PrimaryKey ... else { WHERE } }`)
				if facts, live := p.Guards(f, nil).At(eq.Pos()); live && facts.Has("T:"+id.Name+".PrimaryKey") {
					if d := resolveLocal(f, id); d != nil {
						if ce, ok := unparen(d).(*ast.CallExpr); ok && len(ce.Args) == 1 {
							if aid, ok := unparen(ce.Args[0]).(*ast.Ident); ok && strings.HasSuffix(rangeSource(f, info, aid), ".DBNames") {
								r.OK(f.Name(), "key condition on "+id.Name+".DBName", eq.Pos(), "every column of the schema that is a primary key")
								continue
							}
						}
					}
				}
			}
			r.Check(strings.HasSuffix(src, ".PrimaryFields"), f.Name(), "key condition on "+id.Name+".DBName", eq.Pos(), "for every field of "+src, "the WHERE equality that pins the update to the model's row is built from `"+id.Name+"`, which is not the variable of a loop over Schema.PrimaryFields: on a composite key only part of the key is compared and other rows sharing it are overwritten")
		}
	}
	if n == 0 {
		r.Bad(f.Name(), "key condition", f.Body.Pos(), "ConvertToAssignments no longer adds the model's key as a condition; rule lost its anchor")
	}
}

// ---- round 8 ----

// C01.join-conds: the arguments given to Joins(query, args...) are the values of the `?` in the join's raw SQL;
// they reach the statement only through join.Conds (expanded and bound when the join is built).  Decided by
// path enumeration of chainable_api.joins: on every path that appends a join record, the record's Conds is the
// variadic parameter - set in the literal or assigned before the append.
func checkC01JoinConds(c *Ctx) {
	p := c.P
	r := c.Rule("C01.join-conds", "every join record appended by Joins carries the caller's arguments in Conds, on every path", 2)
	f := p.FuncDecl(pkgGorm, "joins")
	c.Touch(f)
	info := f.Pkg.TypesInfo
	joinT := p.Named(pkgGorm, "join")
	joinsF := p.Field(p.Named(pkgGorm, "Statement"), "Joins")
	// the variadic parameter
	var args types.Object
	if ps := f.Decl.Type.Params.List; len(ps) > 0 {
		last := ps[len(ps)-1]
		if _, ok := last.Type.(*ast.Ellipsis); ok && len(last.Names) == 1 {
			args = info.Defs[last.Names[0]]
		}
	}
	if args == nil {
		r.Unknown(f.Name(), "shape", f.Body.Pos(), "joins has no variadic parameter")
		return
	}
	isArgs := func(e ast.Expr) bool {
		id, ok := unparen(e).(*ast.Ident)
		return ok && info.Uses[id] == args
	}
	setsConds := func(n ast.Node) bool {
		found := false
		ast.Inspect(n, func(x ast.Node) bool {
			switch y := x.(type) {
			case *ast.CompositeLit:
				if derefNamed(info.TypeOf(y)) == joinT {
					if v := compositeField(y, "Conds"); v != nil && isArgs(v) {
						found = true
					}
				}
			case *ast.AssignStmt:
				for i, l := range y.Lhs {
					if sel, ok := unparen(l).(*ast.SelectorExpr); ok && sel.Sel.Name == "Conds" && i < len(y.Rhs) && isArgs(y.Rhs[i]) {
						if derefNamed(info.TypeOf(sel.X)) == joinT {
							found = true
						}
					}
				}
			}
			return true
		})
		return found
	}
	var appends []ast.Node
	ast.Inspect(f.Body, func(n ast.Node) bool {
		as, ok := n.(*ast.AssignStmt)
		if !ok || len(as.Lhs) != 1 || len(as.Rhs) != 1 {
			return true
		}
		if sel, ok := unparen(as.Lhs[0]).(*ast.SelectorExpr); ok && fieldSel(info, sel, joinsF) {
			if ce, ok := unparen(as.Rhs[0]).(*ast.CallExpr); ok {
				if id, ok := ce.Fun.(*ast.Ident); ok && id.Name == "append" {
					appends = append(appends, as)
				}
			}
		}
		return true
	})
	if len(appends) == 0 {
		r.Bad(f.Name(), "join records", f.Body.Pos(), "joins no longer appends to Statement.Joins; rule lost its anchor")
		return
	}
	paths, ok := p.EnumPaths(f, nil, 5000)
	if !ok {
		r.Unknown(f.Name(), "paths", f.Body.Pos(), "too many paths")
		return
	}
	for _, ap := range appends {
		bad, seen := 0, 0
		for _, pr := range paths {
			at := -1
			for i, nd := range pr.Nodes {
				if nd == ap || containsNode(nd, ap) {
					at = i
				}
			}
			if at < 0 {
				continue
			}
			seen++
			okp := false
			for _, nd := range pr.Nodes[:at+1] {
				if setsConds(nd) {
					okp = true
				}
			}
			if !okp {
				bad++
			}
		}
		r.Check(bad == 0 && seen > 0, f.Name(), "join record carries Conds", ap.Pos(), "Conds: args on every path to the append", "a join record is appended on a path where its Conds was not set to the caller's arguments: the `?` of the join's SQL are not expanded and the values (e.g. those of a sub-query handle) are never bound - later values shift onto its placeholders")
	}
}

// C02.not-unwrap: clause.Not(...) may replace its argument list by the members of a single group only when the
// group joins its members with the connective NotConditions.Build puts between members that have no negation
// of their own (AND): Not(And(a, b)) = NOT (a AND b).  Unwrapping an OrConditions the same way renders
// NOT (a AND b) for NOT (a OR b).  Decided: every assignment to the parameter in clause.Not is guarded by a type
// test for AndConditions only.
func checkC02NotUnwrap(c *Ctx) {
	p := c.P
	r := c.Rule("C02.not-unwrap", "clause.Not unwraps only an AndConditions group (the connective NotConditions.Build writes between plain members)", 1)
	f := p.FuncDecl(pkgClause, "Not")
	c.Touch(f)
	info := f.Pkg.TypesInfo
	andT := p.Named(pkgClause, "AndConditions")
	var param types.Object
	if ps := f.Decl.Type.Params.List; len(ps) == 1 && len(ps[0].Names) == 1 {
		param = info.Defs[ps[0].Names[0]]
	}
	parents := parentMap(f.Body)
	n := 0
	ast.Inspect(f.Body, func(x ast.Node) bool {
		as, ok := x.(*ast.AssignStmt)
		if !ok {
			return true
		}
		for _, l := range as.Lhs {
			id, ok := unparen(l).(*ast.Ident)
			if !ok || info.Uses[id] != param {
				continue
			}
			n++
			// the enclosing type test
			var tested []types.Type
			for cur := parents[as]; cur != nil && len(tested) == 0; cur = parents[cur] {
				switch y := cur.(type) {
				case *ast.CaseClause:
					if _, isTS := parents[parents[cur]].(*ast.TypeSwitchStmt); isTS {
						for _, te := range y.List {
							tested = append(tested, info.TypeOf(te))
						}
					}
				case *ast.IfStmt:
					if y.Body.Pos() <= as.Pos() && as.End() <= y.Body.End() {
						ast.Inspect(y, func(m ast.Node) bool {
							if ta, ok := m.(*ast.TypeAssertExpr); ok && ta.Type != nil && m.Pos() < y.Body.Pos() {
								tested = append(tested, info.TypeOf(ta.Type))
							}
							return true
						})
					}
				}
			}
			okT := len(tested) > 0
			var names []string
			for _, t := range tested {
				names = append(names, types.TypeString(t, func(*types.Package) string { return "" }))
				if !types.Identical(t, andT) {
					okT = false
				}
			}
			r.Check(okT, f.Name(), "argument list replaced by a group's members", as.Pos(), "only for AndConditions", "clause.Not unwraps a group of type {"+strings.Join(names, ", ")+"}: NotConditions.Build joins plain members with AND, so Not(Or(a, b)) renders NOT (a AND b) instead of NOT (a OR b)")
		}
		return true
	})
	if n == 0 {
		r.OK(f.Name(), "no unwrapping", f.Body.Pos(), "clause.Not keeps its arguments as given")
	}
}

// C03.lookup-order: rows are scanned back into fields by resolving each result column through
// Schema.LookUpField, while Create takes the column of a field from FieldsByDBName.  A name that is both the
// column of one field and the Go name of another must therefore resolve as a COLUMN first.  Decided on the CFG
// of LookUpField: the FieldsByName lookup is not reachable before the FieldsByDBName lookup.
func checkC03LookupOrder(c *Ctx) {
	p := c.P
	r := c.Rule("C03.lookup-order", "Schema.LookUpField resolves a name as a column (FieldsByDBName) before it tries Go field names", 1)
	f := p.MethodDecl(pkgSchema, "Schema", "LookUpField")
	c.Touch(f)
	info := f.Pkg.TypesInfo
	schemaT := p.Named(pkgSchema, "Schema")
	byDB, byName := p.Field(schemaT, "FieldsByDBName"), p.Field(schemaT, "FieldsByName")
	var dbIx, nameIx *ast.IndexExpr
	ast.Inspect(f.Body, func(n ast.Node) bool {
		if ix, ok := n.(*ast.IndexExpr); ok {
			if fieldSel(info, ix.X, byDB) && dbIx == nil {
				dbIx = ix
			}
			if fieldSel(info, ix.X, byName) && nameIx == nil {
				nameIx = ix
			}
		}
		return true
	})
	if dbIx == nil {
		r.Bad(f.Name(), "column lookup", f.Body.Pos(), "LookUpField no longer consults FieldsByDBName")
		return
	}
	if nameIx == nil {
		r.OK(f.Name(), "column lookup only", dbIx.Pos(), "no Go-name lookup")
		return
	}
	gs := p.Guards(f, nil)
	nameFirst := gs.Reaches(nameIx.Pos(), func(n ast.Node) bool { return containsNode(n, dbIx) })
	dbFirst := gs.Reaches(dbIx.Pos(), func(n ast.Node) bool { return containsNode(n, nameIx) })
	r.Check(dbFirst && !nameFirst, f.Name(), "column names before Go names", nameIx.Pos(), "FieldsByDBName is consulted first", "LookUpField tries the Go field names before the column names: a result column whose name equals another field's Go name is scanned into that other field (Create stored it by column name)")
}

// C08.join-filter-group (finding F14): an association Join merges the joined model's query clauses (the
// soft-delete filter) and the caller's ON conditions (Joins("Rel", db.Where(a).Or(b))) into ONE where clause of
// a scratch statement.  The filter has to restrict the caller's conditions as a whole.  The soft-delete
// modifier regroups lone-OR conditions it FINDS when it is applied - so the caller's conditions must be in the
// scratch statement before the query clauses are added (or be added as one grouped unit).  Decided on the CFG of
// the join closure: the AddClause of the caller's On is not reachable from the loop that adds QueryClauses.
func checkC08JoinFilterGroup(c *Ctx) {
	p := c.P
	r := c.Rule("C08.join-filter-group", "association Joins: the caller's ON conditions are in the scratch statement before the joined model's query clauses are applied (so the soft-delete filter binds to them as a whole)", 1)
	root := p.FuncDecl(pkgCallbacks, "BuildQuerySQL")
	qcF := p.Field(p.Named(pkgSchema, "Schema"), "QueryClauses")
	addClause := p.Method(p.Named(pkgGorm, "Statement"), "AddClause")
	n := 0
	for _, f := range append([]*FuncSrc{root}, p.AllLits(root)...) {
		info := f.Pkg.TypesInfo
		var loops []*ast.RangeStmt
		ast.Inspect(f.Body, func(x ast.Node) bool {
			if fl, ok := x.(*ast.FuncLit); ok && fl != f.Lit {
				return false
			}
			if rs, ok := x.(*ast.RangeStmt); ok && fieldSel(info, rs.X, qcF) {
				loops = append(loops, rs)
			}
			return true
		})
		for _, loop := range loops {
			// receiver the clauses are added to
			recv := ""
			ast.Inspect(loop.Body, func(x ast.Node) bool {
				if ce, ok := x.(*ast.CallExpr); ok {
					if fn, _ := typeutil.Callee(info, ce).(*types.Func); fn == addClause {
						recv = canon(info, ce.Fun.(*ast.SelectorExpr).X)
					}
				}
				return true
			})
			if recv == "" {
				continue
			}
			// AddClause(<x>.On) on the same receiver
			for _, call := range callsIn(f) {
				fn, _ := typeutil.Callee(info, call).(*types.Func)
				if fn != addClause || len(call.Args) != 1 || canon(info, call.Fun.(*ast.SelectorExpr).X) != recv {
					continue
				}
				if loop.Body.Pos() <= call.Pos() && call.End() <= loop.Body.End() {
					continue
				}
				arg := unparen(call.Args[0])
				grouped := false
				ast.Inspect(arg, func(x ast.Node) bool {
					if ce, ok := x.(*ast.CallExpr); ok {
						if g, _ := typeutil.Callee(info, ce).(*types.Func); g != nil && g.Name() == "And" && g.Pkg() != nil && g.Pkg().Path() == pkgClause && ce.Ellipsis.IsValid() {
							grouped = true
						}
					}
					return true
				})
				if !strings.HasSuffix(canon(info, arg), ".On") && !grouped {
					continue
				}
				n++
				c.Touch(f)
				gs := p.Guards(f, nil)
				after := gs.Reaches(loop.X.Pos(), func(nd ast.Node) bool { return containsNode(nd, call) })
				r.Check(grouped || !after, f.Name(), "caller's ON conditions vs query clauses", call.Pos(), "added before the query clauses (or as one grouped unit)", "the caller's ON conditions are merged into the scratch statement AFTER the joined model's query clauses: the soft-delete filter was already added (its regrouping of OR conditions saw nothing), and `deleted_at IS NULL AND a OR b` joins soft-deleted rows matching `b`")
			}
		}
	}
	if n == 0 {
		r.Bad(root.Name(), "join ON conditions", root.Body.Pos(), "no association-join site merging query clauses and caller conditions found; rule lost its anchor")
	}
}

// checkFilterOnce (C09.marker): the missing-WHERE guard discounts ONE automatic soft-delete expression when the
// statement-wide marker is present.  The modifier must therefore add its filter only when that very marker is
// absent (a per-column or otherwise different guard key lets a second filter in, and a chain without any user
// condition passes the guard).
func checkFilterOnce(c *Ctx, r *Rule) {
	p := c.P
	sdq := p.MethodDecl(pkgGorm, "SoftDeleteQueryClause", "ModifyStatement")
	info := sdq.Pkg.TypesInfo
	stmtT := p.Named(pkgGorm, "Statement")
	addClause := p.Method(stmtT, "AddClause")
	whereT := p.Named(pkgClause, "Where")
	clausesF := p.Field(stmtT, "Clauses")
	var filter *ast.CallExpr
	for _, call := range callsIn(sdq) {
		if fn, _ := typeutil.Callee(info, call).(*types.Func); fn == addClause && len(call.Args) == 1 {
			if lit, ok := unparen(call.Args[0]).(*ast.CompositeLit); ok {
				if tv, ok := info.Types[lit]; ok && types.Identical(tv.Type, whereT) {
					filter = call
				}
			}
		}
	}
	if filter == nil {
		r.Bad(sdq.Name(), "filter", sdq.Body.Pos(), "the soft-delete query modifier adds no WHERE filter")
		return
	}
	// the marker the guard reads
	guardKeys := map[string]bool{}
	for _, g := range missingWhereGuards(p) {
		ginfo := g.Pkg.TypesInfo
		ast.Inspect(g.Body, func(n ast.Node) bool {
			if ix, ok := n.(*ast.IndexExpr); ok && fieldSel(ginfo, ix.X, clausesF) {
				if k, ok := constString(ginfo, ix.Index); ok && k != "WHERE" {
					guardKeys[k] = true
				}
			}
			return true
		})
	}
	facts, live := p.Guards(sdq, nil).At(filter.Pos())
	okOnce := false
	var keys []string
	for k := range guardKeys {
		keys = append(keys, k)
		if localFact(sdq, facts, false, filter.Pos(), defIsMapLookupOK(clausesF, k)) {
			okOnce = true
		}
	}
	sort.Strings(keys)
	r.Check(live && okOnce && len(keys) > 0, sdq.Name(), "filter only when the guard's marker is absent", filter.Pos(), "marker "+strings.Join(keys, ",")+" tested", "the soft-delete filter is added without testing the marker the missing-WHERE guard discounts by ("+strings.Join(keys, ",")+"): a second automatic filter (e.g. one per soft-delete column) makes a chain without any user condition look conditioned, and a global update runs")
}

// C13.batch-error: FindInBatches runs Find (and with it the AfterFind hooks and preloads) once per batch; whatever
// error that Find reports - with or without rows loaded - must stop the batches and be returned.  Decided by path
// enumeration of FindInBatches: on every path through the batch query, either its Error is recorded on the
// operation's handle (AddError(result.Error)) or the path has established that it is nil.
func checkC13BatchError(c *Ctx) {
	p := c.P
	r := c.Rule("C13.batch-error", "FindInBatches records the error of every batch query (hook errors included) unless the path established that it is nil", 1)
	f := p.MethodDecl(pkgGorm, "DB", "FindInBatches")
	c.Touch(f)
	info := f.Pkg.TypesInfo
	dbT := p.Named(pkgGorm, "DB")
	findM := p.Method(dbT, "Find")
	errF := p.Field(dbT, "Error")
	// result := <chain>.Find(dest)
	var q *ast.AssignStmt
	var res types.Object
	ast.Inspect(f.Body, func(n ast.Node) bool {
		as, ok := n.(*ast.AssignStmt)
		if !ok || len(as.Lhs) != 1 || len(as.Rhs) != 1 {
			return true
		}
		if ce, ok := unparen(as.Rhs[0]).(*ast.CallExpr); ok {
			if fn, _ := typeutil.Callee(info, ce).(*types.Func); fn == findM {
				if id, ok := as.Lhs[0].(*ast.Ident); ok {
					q, res = as, info.ObjectOf(id)
				}
			}
		}
		return true
	})
	if q == nil {
		r.Bad(f.Name(), "batch query", f.Body.Pos(), "FindInBatches no longer keeps the result of its batch query; rule lost its anchor")
		return
	}
	isResErr := func(e ast.Expr) bool {
		sel, ok := unparen(e).(*ast.SelectorExpr)
		if !ok || !fieldSel(info, sel, errF) {
			return false
		}
		id, ok := unparen(sel.X).(*ast.Ident)
		return ok && info.ObjectOf(id) == res
	}
	resName := res.Name()
	paths, ok := p.EnumPaths(f, nil, 50000)
	if !ok {
		r.Unknown(f.Name(), "paths", f.Body.Pos(), "too many paths")
		return
	}
	bad, seen := 0, 0
	var where token.Pos = q.Pos()
	for _, pr := range paths {
		at := -1
		for i, nd := range pr.Nodes {
			if nd == ast.Node(q) || containsNode(nd, q) {
				at = i
			}
		}
		if at < 0 {
			continue
		}
		seen++
		okp := false
		for i := at + 1; i < len(pr.Nodes) && !okp; i++ {
			ast.Inspect(pr.Nodes[i], func(x ast.Node) bool {
				if ce, ok := x.(*ast.CallExpr); ok && len(ce.Args) == 1 && isResErr(ce.Args[0]) {
					if fn, _ := typeutil.Callee(info, ce).(*types.Func); fn != nil && fn.Name() == "AddError" {
						okp = true
					}
				}
				return true
			})
		}
		nilKnown := func(fs factSet) bool {
			return fs.Has("T:"+resName+".Error == nil") || fs.Has("F:"+resName+".Error != nil") || fs.Has("N:"+resName+".Error")
		}
		if !okp {
			if nilKnown(pr.Facts) {
				okp = true
			}
			for i := at + 1; i < len(pr.Before) && !okp; i++ {
				if nilKnown(pr.Before[i]) {
					okp = true
				}
			}
		}
		if !okp {
			bad++
			where = pr.Exit
		}
	}
	r.Check(bad == 0 && seen > 0, f.Name(), "error of the batch query", where, "recorded or known to be nil on every path", "FindInBatches has a path on which the batch query's Error is neither recorded nor known to be nil: an AfterFind hook (or preload) error of a batch that loaded rows is dropped, later batches keep running and nil is returned")
}

// C12.key-partners: association mode finds the rows to detach / keep by comparing join or foreign-key COLUMNS with
// key VALUES extracted from records.  Where the column-name list is built locally from the relation's references
// (joinPrimaryKeys, joinRelPrimaryKeys, foreignKeys ...), the values must be extracted through the field list built
// next to it from the same references - its partner - and not through some schema-wide list (which differs as soon
// as a relation references a non-primary column).  Decided for every ToQueryValues(table, NAMES, V) in the methods
// of Association where NAMES is a local list: V comes from GetIdentityFieldValuesMap[FromValues](.., FIELDS) with
// FIELDS a local list appended in the same block as NAMES at least once.
func checkC12KeyPartners(c *Ctx) {
	p := c.P
	r := c.Rule("C12.key-partners", "association mode: a locally built column-name list is paired with the field list built next to it from the same references", 4)
	assocT := p.Named(pkgGorm, "Association")
	tqv := p.FuncDecl(pkgSchema, "ToQueryValues").Obj
	gif := p.FuncDecl(pkgSchema, "GetIdentityFieldValuesMap").Obj
	gifv := p.FuncDecl(pkgSchema, "GetIdentityFieldValuesMapFromValues").Obj
	for i := 0; i < assocT.NumMethods(); i++ {
		f := p.SrcOpt(assocT.Method(i))
		if f == nil {
			continue
		}
		info := f.Pkg.TypesInfo
		// blocks in which a local list is appended
		appendBlocks := map[types.Object]map[ast.Node]bool{}
		parents := parentMap(f.Body)
		ast.Inspect(f.Body, func(n ast.Node) bool {
			as, ok := n.(*ast.AssignStmt)
			if !ok || len(as.Lhs) != 1 || len(as.Rhs) != 1 {
				return true
			}
			id, ok := unparen(as.Lhs[0]).(*ast.Ident)
			if !ok {
				return true
			}
			if ce, ok := unparen(as.Rhs[0]).(*ast.CallExpr); ok {
				if fid, ok := ce.Fun.(*ast.Ident); ok && fid.Name == "append" {
					o := info.ObjectOf(id)
					if appendBlocks[o] == nil {
						appendBlocks[o] = map[ast.Node]bool{}
					}
					appendBlocks[o][parents[as]] = true
				}
			}
			return true
		})
		for _, call := range callsIn(f) {
			if fn, _ := typeutil.Callee(info, call).(*types.Func); fn != tqv || len(call.Args) != 3 {
				continue
			}
			nid, ok := unparen(call.Args[1]).(*ast.Ident)
			if !ok || appendBlocks[info.ObjectOf(nid)] == nil {
				continue // a schema-wide name list
			}
			vid, ok := unparen(call.Args[2]).(*ast.Ident)
			if !ok {
				continue
			}
			c.Touch(f)
			// definition of the values
			var fields ast.Expr
			vobj := info.ObjectOf(vid)
			ast.Inspect(f.Body, func(n ast.Node) bool {
				as, ok := n.(*ast.AssignStmt)
				if !ok || len(as.Rhs) != 1 || len(as.Lhs) != 2 {
					return true
				}
				lid, ok := as.Lhs[1].(*ast.Ident)
				if !ok || info.ObjectOf(lid) != vobj || as.Pos() > call.Pos() {
					return true
				}
				if ce, ok := unparen(as.Rhs[0]).(*ast.CallExpr); ok && len(ce.Args) == 3 {
					if fn, _ := typeutil.Callee(info, ce).(*types.Func); fn == gif || fn == gifv {
						fields = ce.Args[2]
					}
				}
				return true
			})
			if fields == nil {
				r.Unknown(f.Name(), "values of "+nid.Name, call.Pos(), "cannot find where the compared values are extracted")
				continue
			}
			okp := false
			if fid, ok := unparen(fields).(*ast.Ident); ok {
				for blk := range appendBlocks[info.ObjectOf(fid)] {
					if appendBlocks[info.ObjectOf(nid)][blk] {
						okp = true
					}
				}
			}
			r.Check(okp, f.Name(), "columns "+nid.Name+" compared with values of "+exprShort(fields), call.Pos(), "partner lists built from the same references", "the column list "+nid.Name+" (built from the relation's references) is compared with values extracted through "+exprShort(fields)+", which is not the field list built next to it: with a relation that references a non-primary column the wrong values are compared - Replace detaches the rows it has just linked")
		}
	}
}

// C11.all-parents: a loaded row is attached to EVERY parent filed under its key (the same parent row can occur more
// than once in the destination slice, several parents can share a belongs-to target).  Decided in callbacks.preload:
// the list looked up in the identity map is ranged over as looked up - its variable has no other definition (no
// re-slicing, filtering or truncation between the look-up and the attaching loop) - and every iteration of that
// loop sets the relation field (no continue / break before the Set).
func checkC11AllParents(c *Ctx) {
	p := c.P
	r := c.Rule("C11.all-parents", "preload attaches a loaded row to every parent filed under its key: the looked-up list is ranged over unchanged", 1)
	f := p.FuncDecl(pkgCallbacks, "preload")
	c.Touch(f)
	info := f.Pkg.TypesInfo
	n := 0
	ast.Inspect(f.Body, func(x ast.Node) bool {
		as, ok := x.(*ast.AssignStmt)
		if !ok || len(as.Lhs) != 2 || len(as.Rhs) != 1 {
			return true
		}
		ix, ok := unparen(as.Rhs[0]).(*ast.IndexExpr)
		if !ok {
			return true
		}
		mt, ok := info.TypeOf(ix.X).Underlying().(*types.Map)
		if !ok || mt.Elem().String() != "[]reflect.Value" {
			return true
		}
		id, ok := as.Lhs[0].(*ast.Ident)
		if !ok {
			return true
		}
		obj := info.ObjectOf(id)
		n++
		// other definitions of the list
		defs := 0
		var loop *ast.RangeStmt
		ast.Inspect(f.Body, func(y ast.Node) bool {
			switch z := y.(type) {
			case *ast.AssignStmt:
				for _, l := range z.Lhs {
					if lid, ok := unparen(l).(*ast.Ident); ok && info.ObjectOf(lid) == obj {
						defs++
					}
				}
			case *ast.RangeStmt:
				if rid, ok := unparen(z.X).(*ast.Ident); ok && info.ObjectOf(rid) == obj {
					loop = z
				}
			}
			return true
		})
		okLoop := loop != nil
		if loop == nil {
			// the list handed on as a whole: append(dst, list...)
			ast.Inspect(f.Body, func(y ast.Node) bool {
				if ce, ok := y.(*ast.CallExpr); ok && ce.Ellipsis.IsValid() && len(ce.Args) > 0 {
					if lid, ok := unparen(ce.Args[len(ce.Args)-1]).(*ast.Ident); ok && info.ObjectOf(lid) == obj {
						okLoop = true
					}
				}
				return true
			})
		}
		if loop != nil {
			ast.Inspect(loop.Body, func(y ast.Node) bool {
				if _, ok := y.(*ast.FuncLit); ok {
					return false
				}
				if br, ok := y.(*ast.BranchStmt); ok && (br.Tok == token.CONTINUE || br.Tok == token.BREAK) {
					// a break inside an inner switch/select/for belongs to that statement
					if br.Tok == token.BREAK {
						return true
					}
					okLoop = false
				}
				return true
			})
		}
		r.Check(defs == 1 && okLoop, f.Name(), "parents filed under the row's key", as.Pos(), "ranged over as looked up", "the list of parents looked up for a loaded row is redefined (re-sliced / filtered / truncated) before it is ranged over, or the attaching loop skips elements: a parent occurring more than once in the destination - or several parents sharing one target - does not get its row")
		return true
	})
	if n == 0 {
		r.Bad(f.Name(), "parent look-up", f.Body.Pos(), "preload no longer looks the parents of a loaded row up in an identity map; rule lost its anchor")
	}
}

// C17.replace-position (finding F15): the sorter resolves a name to the LAST entry carrying it (later
// registrations override earlier ones) and, before that, stably moves the entries that ask for Before("*") /
// After("*") to one end of the list.  A replacement entry without a side request of its own is therefore
// separated from the wildcard entry it replaces: the OLD entry becomes the last one of that name, its handler
// keeps running and the callback moves to the other end of the pipeline.  As long as the sorter reorders by the
// side requests, Replace must give the replacement the side request of the entry it replaces.  Decided: if
// sortCallbacks sorts its list with a comparison that reads .before/.after, (*callback).Replace assigns the
// receiver's before and after from a same-named entry of the processor's list.
func checkC17ReplacePosition(c *Ctx) {
	p := c.P
	r := c.Rule("C17.replace-position", "Replace gives the replacement the Before/After request of the entry it replaces (the sorter reorders entries by those requests before it resolves names)", 1)
	cbT := p.Named(pkgGorm, "callback")
	beforeF, afterF, nameF := p.Field(cbT, "before"), p.Field(cbT, "after"), p.Field(cbT, "name")
	sorter := p.FuncDecl(pkgGorm, "sortCallbacks")
	c.Touch(sorter)
	sinfo := sorter.Pkg.TypesInfo
	presort := false
	for _, call := range callsIn(sorter) {
		name := calleeName(sinfo, call)
		if (name == "sort.SliceStable" || name == "sort.Slice" || name == "sort.Stable" || name == "sort.Sort") && len(call.Args) >= 1 {
			ast.Inspect(call, func(n ast.Node) bool {
				if sel, ok := n.(*ast.SelectorExpr); ok && (fieldSel(sinfo, sel, beforeF) || fieldSel(sinfo, sel, afterF)) {
					presort = true
				}
				return true
			})
		}
	}
	if !presort {
		r.OK(sorter.Name(), "no reordering by side requests", sorter.Body.Pos(), "entries keep their registration order until names are resolved")
		return
	}
	f := p.MethodDecl(pkgGorm, "callback", "Replace")
	c.Touch(f)
	info := f.Pkg.TypesInfo
	recv := recvName(f)
	got := map[string]bool{}
	nameTest := false
	ast.Inspect(f.Body, func(n ast.Node) bool {
		switch x := n.(type) {
		case *ast.AssignStmt:
			if len(x.Lhs) != len(x.Rhs) {
				return true
			}
			for i, l := range x.Lhs {
				ls, ok := unparen(l).(*ast.SelectorExpr)
				if !ok {
					continue
				}
				lid, ok := unparen(ls.X).(*ast.Ident)
				if !ok || lid.Name != recv {
					continue
				}
				rs, ok := unparen(x.Rhs[i]).(*ast.SelectorExpr)
				if !ok {
					continue
				}
				if rid := rootIdentOf(rs.X); rid != nil && rid.Name == recv && !strings.Contains(canon(info, rs.X), ".callbacks") {
					continue // copied from itself
				}
				switch {
				case fieldSel(info, ls, beforeF) && fieldSel(info, rs, beforeF):
					got["before"] = true
				case fieldSel(info, ls, afterF) && fieldSel(info, rs, afterF):
					got["after"] = true
				}
			}
		case *ast.BinaryExpr:
			if x.Op == token.EQL {
				for _, side := range []ast.Expr{x.X, x.Y} {
					if sel, ok := unparen(side).(*ast.SelectorExpr); ok && fieldSel(info, sel, nameF) {
						nameTest = true
					}
				}
			}
		}
		return true
	})
	r.Check(got["before"] && got["after"] && nameTest, f.Name(), "replacement inherits the side request", f.Body.Pos(), "before/after copied from the same-named entry", "sortCallbacks moves Before(\"*\")/After(\"*\") entries before it resolves names to their last entry, but Replace appends a replacement without the side request of the entry it replaces: after Replace of a callback registered Before(\"*\") the OLD handler keeps running and the callback moves to the other end of the pipeline")
}

// C20.fk-flag: DisableForeignKeyConstraintWhenMigrating means "do not CREATE foreign-key constraints" - tables,
// columns and the models a schema refers to are still migrated.  Decided (who-reads with a shape condition):
// every read of that Config field in package migrator is in the condition of an `if` whose body emits a
// constraint (a CreateConstraint call, or the Build of a parsed constraint) and nothing else depends on it.
func checkC20FKFlag(c *Ctx) {
	p := c.P
	r := c.Rule("C20.fk-flag", "DisableForeignKeyConstraintWhenMigrating guards only the creation of foreign-key constraints", 2)
	flag := p.Field(p.Named(pkgGorm, "Config"), "DisableForeignKeyConstraintWhenMigrating")
	for _, f := range p.FuncsOf(pkgMigrator, pkgGorm, pkgCallbacks, pkgSchema) {
		if f.Body == nil {
			continue
		}
		info := f.Pkg.TypesInfo
		parents := parentMap(f.Body)
		ast.Inspect(f.Body, func(n ast.Node) bool {
			if fl, ok := n.(*ast.FuncLit); ok && fl != f.Lit {
				return false
			}
			sel, ok := n.(*ast.SelectorExpr)
			if !ok || !fieldSel(info, sel, flag) {
				return true
			}
			// a store (config plumbing) is not a read
			if as, ok := parents[sel].(*ast.AssignStmt); ok {
				for _, l := range as.Lhs {
					if l == ast.Expr(sel) {
						return true
					}
				}
			}
			c.Touch(f)
			var ifs *ast.IfStmt
			for cur := parents[sel]; cur != nil; cur = parents[cur] {
				if x, ok := cur.(*ast.IfStmt); ok && x.Cond.Pos() <= sel.Pos() && sel.End() <= x.Cond.End() {
					ifs = x
					break
				}
				if _, ok := cur.(ast.Stmt); ok {
					if _, isIf := cur.(*ast.IfStmt); !isIf {
						break
					}
				}
			}
			var ifsList []*ast.IfStmt
			if ifs != nil {
				ifsList = append(ifsList, ifs)
			} else {
				// the flag held in a boolean local: every `if` testing that local is judged
				for cur := parents[sel]; cur != nil; cur = parents[cur] {
					as, ok := cur.(*ast.AssignStmt)
					if !ok {
						if _, isStmt := cur.(ast.Stmt); isStmt {
							break
						}
						continue
					}
					if len(as.Lhs) == 1 {
						if lid, ok := as.Lhs[0].(*ast.Ident); ok {
							obj := info.ObjectOf(lid)
							ast.Inspect(rootFunc(f).Body, func(m ast.Node) bool {
								if x, ok := m.(*ast.IfStmt); ok {
									uses := false
									ast.Inspect(x.Cond, func(q ast.Node) bool {
										if id, ok := q.(*ast.Ident); ok && info.ObjectOf(id) == obj {
											uses = true
										}
										return true
									})
									if uses {
										ifsList = append(ifsList, x)
									}
								}
								return true
							})
						}
					}
					break
				}
			}
			emits := len(ifsList) > 0
			for _, ifs := range ifsList {
				one := false
				ast.Inspect(ifs.Body, func(m ast.Node) bool {
					if ce, ok := m.(*ast.CallExpr); ok {
						if fn, _ := typeutil.Callee(info, ce).(*types.Func); fn != nil {
							switch {
							case fn.Name() == "CreateConstraint":
								one = true
							case fn.Name() == "Build" && fn.Type().(*types.Signature).Recv() != nil && namedOf(fn.Type().(*types.Signature).Recv().Type()) == pkgSchema+".Constraint":
								one = true
							}
						}
					}
					return true
				})
				if !one {
					emits = false
				}
			}
			r.Check(emits, f.Name(), "read of DisableForeignKeyConstraintWhenMigrating", sel.Pos(), "guards the emission of foreign-key constraints", "DisableForeignKeyConstraintWhenMigrating is read where no foreign-key constraint is created: with that option set, something other than constraints (ordering, auto-added referenced models, columns) is skipped and AutoMigrate leaves the schema incomplete")
			return true
		})
	}
}

// C16.rule-copy: the OnConflict rule a Create carries is expanded (UpdateAll -> column list) and stored back.  What
// is stored back must be the caller's rule with nothing but the expansion changed: either the looked-up value
// itself, or a literal that sets every field of clause.OnConflict (UpdateAll may be left out once expanded).
func checkC16RuleCopy(c *Ctx) {
	p := c.P
	r := c.Rule("C16.rule-copy", "the OnConflict rule stored back after expanding UpdateAll is the caller's rule, complete", 1)
	f := p.FuncDecl(pkgCallbacks, "ConvertToCreateValues")
	c.Touch(f)
	info := f.Pkg.TypesInfo
	ocT := p.Named(pkgClause, "OnConflict")
	addClause := p.Method(p.Named(pkgGorm, "Statement"), "AddClause")
	n := 0
	for _, call := range callsIn(f) {
		if fn, _ := typeutil.Callee(info, call).(*types.Func); fn != addClause || len(call.Args) != 1 {
			continue
		}
		arg := unparen(call.Args[0])
		if !types.Identical(info.TypeOf(arg), ocT) {
			continue
		}
		n++
		switch x := arg.(type) {
		case *ast.Ident:
			r.OK(f.Name(), "stores back "+x.Name, call.Pos(), "the looked-up rule itself")
		case *ast.CompositeLit:
			st := ocT.Underlying().(*types.Struct)
			set := map[string]bool{}
			for _, el := range x.Elts {
				if kv, ok := el.(*ast.KeyValueExpr); ok {
					if id, ok := kv.Key.(*ast.Ident); ok {
						set[id.Name] = true
					}
				}
			}
			var missing []string
			for i := 0; i < st.NumFields(); i++ {
				if nm := st.Field(i).Name(); !set[nm] && nm != "UpdateAll" {
					missing = append(missing, nm)
				}
			}
			r.Check(len(missing) == 0, f.Name(), "stores back a rebuilt rule", call.Pos(), "every field copied", "the OnConflict rule stored back after the UpdateAll expansion is rebuilt without "+strings.Join(missing, ", ")+": that part of the caller's rule is lost (e.g. the WHERE of DO UPDATE - colliding rows are overwritten although the condition is false)")
		default:
			r.Unknown(f.Name(), "stores back a rule", call.Pos(), "cannot see what is stored back")
		}
	}
	if n == 0 {
		r.Bad(f.Name(), "rule stored back", f.Body.Pos(), "ConvertToCreateValues no longer stores the expanded OnConflict rule; rule lost its anchor")
	}
}

// ---- round 9 ----

// C06.stmt-slices: the per-chain slices of a Statement (Selects, Omits, Joins, BuildClauses, ...) are shared, up to
// their length, between a reusable handle and the statements cloned from it.  Extending such a slice is safe only
// when the result is stored back into the same field of that statement (Statement.clone gives exact-length copies,
// so the append reallocates).  An `append` onto (a re-slice of) a Statement slice field whose result goes anywhere
// else - a local that is filled and passed on, another statement - may write into the backing array the handle and
// its other chains read.  Decided on SSA for packages gorm and callbacks.
func checkC06StmtSlices(c *Ctx) {
	p := c.P
	r := c.Rule("C06.stmt-slices", "an append onto (a re-slice of) a Statement slice field is stored back into that same field, never into a local or another object", 5)
	p.SSA()
	stmtT := p.Named(pkgGorm, "Statement")
	stT := stmtT.Underlying().(*types.Struct)
	fieldOfLoad := func(v ssa.Value) (*ssa.FieldAddr, bool) {
		u, ok := v.(*ssa.UnOp)
		if !ok || u.Op != token.MUL {
			return nil, false
		}
		fa, ok := u.X.(*ssa.FieldAddr)
		if !ok {
			return nil, false
		}
		st, ok := deref(fa.X.Type()).Underlying().(*types.Struct)
		if !ok || st != stT {
			return nil, false
		}
		if _, isSlice := st.Field(fa.Field).Type().Underlying().(*types.Slice); !isSlice {
			return nil, false
		}
		// Vars is per-build state, handed from an outer statement to its sub-query and back while SQL is generated;
		// its writers are decided by C01 (who-writes Statement.Vars, renumbering)
		if st.Field(fa.Field).Name() == "Vars" {
			return nil, false
		}
		return fa, true
	}
	var base func(v ssa.Value, seen map[ssa.Value]bool) *ssa.FieldAddr
	base = func(v ssa.Value, seen map[ssa.Value]bool) *ssa.FieldAddr {
		if v == nil || seen[v] {
			return nil
		}
		seen[v] = true
		if fa, ok := fieldOfLoad(v); ok {
			return fa
		}
		switch x := v.(type) {
		case *ssa.Slice:
			// a full slice expression s[:n:n] forces reallocation on append
			if x.Max != nil {
				return nil
			}
			return base(x.X, seen)
		case *ssa.Phi:
			for _, e := range x.Edges {
				if fa := base(e, seen); fa != nil {
					return fa
				}
			}
		case *ssa.ChangeType:
			return base(x.X, seen)
		}
		return nil
	}
	for _, fn := range p.SSAFuncs() {
		root := rootSSA(fn)
		if fn.Blocks == nil || root.Pkg == nil {
			continue
		}
		if pp := root.Pkg.Pkg.Path(); pp != pkgGorm && pp != pkgCallbacks {
			continue
		}
		// Statement.clone builds the copies this rule relies on (decided by C06.clone)
		if root.Name() == "clone" && root.Signature.Recv() != nil {
			continue
		}
		forEachInstrFlat(fn, func(in ssa.Instruction) {
			call, ok := in.(*ssa.Call)
			if !ok {
				return
			}
			bi, ok := call.Call.Value.(*ssa.Builtin)
			if !ok || bi.Name() != "append" || len(call.Call.Args) == 0 {
				return
			}
			fa := base(call.Call.Args[0], map[ssa.Value]bool{})
			if fa == nil {
				return
			}
			fname := stT.Field(fa.Field).Name()
			// every use of the result is a store into the same field (of the same statement value)
			okAll := call.Referrers() != nil && len(*call.Referrers()) > 0
			for _, ref := range *call.Referrers() {
				st, isStore := ref.(*ssa.Store)
				if !isStore || st.Val != ssa.Value(call) {
					okAll = false
					continue
				}
				fa2, ok := st.Addr.(*ssa.FieldAddr)
				if !ok || fa2.Field != fa.Field || !sameValue(fa2.X, fa.X) {
					okAll = false
				}
			}
			r.Check(okAll, ssaFuncName(fn), "append onto Statement."+fname, call.Pos(), "stored back into the same field", "the result of an append onto (a re-slice of) Statement."+fname+" is not stored back into that field: filling it writes into the backing array shared with the handle the statement was cloned from - chains derived from that handle later see the overwritten entries")
		})
	}
}

// sameValue: two SSA values denote the same object (identical, or loads of the same cell).
func sameValue(a, b ssa.Value) bool {
	if a == b {
		return true
	}
	ua, ok1 := a.(*ssa.UnOp)
	ub, ok2 := b.(*ssa.UnOp)
	if ok1 && ok2 && ua.Op == token.MUL && ub.Op == token.MUL {
		if ua.X == ub.X {
			return true
		}
		fa, ok1 := ua.X.(*ssa.FieldAddr)
		fb, ok2 := ub.X.(*ssa.FieldAddr)
		if ok1 && ok2 && fa.Field == fb.Field {
			return sameValue(fa.X, fb.X)
		}
	}
	return false
}

// C05.loop-error: an error that a step inside a loop assigns to a variable living OUTSIDE the loop must be looked at
// before the next iteration can overwrite it.  Decided for packages gorm and callbacks: for every assignment in a
// for/range body whose target is an error-typed variable declared outside that loop and whose value comes from a call
// (or a call's .Error), the loop body reads the variable after the assignment (a test, AddError, return, break
// condition).  Otherwise a failure of an earlier element is overwritten by the success of a later one and the
// operation reports success although part of it failed.
func checkC05LoopError(c *Ctx) {
	p := c.P
	r := c.Rule("C05.loop-error", "an error assigned inside a loop to a variable that outlives the iteration is read before the next iteration", 1)
	for _, f := range p.FuncsOf(pkgGorm, pkgCallbacks) {
		if f.Body == nil {
			continue
		}
		info := f.Pkg.TypesInfo
		parents := parentMap(f.Body)
		ast.Inspect(f.Body, func(n ast.Node) bool {
			if fl, ok := n.(*ast.FuncLit); ok && fl != f.Lit {
				return false
			}
			as, ok := n.(*ast.AssignStmt)
			if !ok || as.Tok == token.DEFINE {
				return true
			}
			for i, l := range as.Lhs {
				id, ok := unparen(l).(*ast.Ident)
				if !ok || id.Name == "_" {
					continue
				}
				obj, _ := info.ObjectOf(id).(*types.Var)
				if obj == nil || obj.Type().String() != "error" {
					continue
				}
				// value from a call
				var rhs ast.Expr
				if len(as.Rhs) == len(as.Lhs) {
					rhs = as.Rhs[i]
				} else if len(as.Rhs) == 1 {
					rhs = as.Rhs[0]
				}
				hasCall := false
				ast.Inspect(rhs, func(m ast.Node) bool {
					if _, ok := m.(*ast.CallExpr); ok {
						hasCall = true
					}
					return true
				})
				if !hasCall {
					continue
				}
				// innermost enclosing loop within this function
				var loop ast.Stmt
				var body *ast.BlockStmt
				for cur := parents[as]; cur != nil && loop == nil; cur = parents[cur] {
					switch x := cur.(type) {
					case *ast.ForStmt:
						loop, body = x, x.Body
					case *ast.RangeStmt:
						loop, body = x, x.Body
					case *ast.FuncLit:
						cur = nil
					}
					if cur == nil {
						break
					}
				}
				if loop == nil || (obj.Pos() >= loop.Pos() && obj.Pos() < loop.End()) {
					continue // not in a loop, or declared per iteration
				}
				// named results are read by every return
				read := false
				ast.Inspect(body, func(m ast.Node) bool {
					switch x := m.(type) {
					case *ast.Ident:
						if info.Uses[x] == obj && x.Pos() > as.End() {
							// not merely another assignment target
							if pa, ok := parents[x].(*ast.AssignStmt); ok {
								for _, l2 := range pa.Lhs {
									if l2 == ast.Expr(x) {
										return true
									}
								}
							}
							read = true
						}
					case *ast.ReturnStmt:
						if x.Pos() > as.End() && len(x.Results) == 0 {
							read = true // bare return of named results
						}
					}
					return true
				})
				// the loop's own condition / an if-init on the same statement
				if fs, ok := loop.(*ast.ForStmt); ok && fs.Cond != nil {
					ast.Inspect(fs.Cond, func(m ast.Node) bool {
						if x, ok := m.(*ast.Ident); ok && info.Uses[x] == obj {
							read = true
						}
						return true
					})
				}
				if ifs, ok := parents[as].(*ast.IfStmt); ok && ifs.Init == ast.Stmt(as) {
					read = true // `if err = f(); err != nil`
				}
				c.Touch(f)
				r.Check(read, f.Name(), "error kept across iterations in "+id.Name, as.Pos(), "read before the next iteration", "an error is assigned inside a loop to `"+id.Name+"`, which is declared outside the loop, and is not looked at before the next iteration: a later successful element overwrites the failure and the operation reports success although part of it failed")
			}
			return true
		})
	}
}

// C01.expr-copy: an Expr / NamedExpr whose SQL text is derived from the text of ANOTHER expression or statement
// (`Y.SQL`, e.g. "DISTINCT " + expr.SQL) contains that text's placeholders; it must carry Y's bound values
// (`Vars: Y.Vars`), otherwise the placeholders stay in the SQL, nothing is bound for them and later values shift.
// Editing Y.SQL in place keeps the pairing by construction.  Decided over all packages of the repository.
func checkC01ExprCopy(c *Ctx) {
	p := c.P
	r := c.Rule("C01.expr-copy", "an expression built from another expression's SQL text carries that expression's Vars", 2)
	exprT, nexprT := p.Named(pkgClause, "Expr"), p.Named(pkgClause, "NamedExpr")
	for _, f := range p.FuncsOf(pkgGorm, pkgCallbacks, pkgClause, pkgMigrator, pkgSchema) {
		if f.Body == nil {
			continue
		}
		info := f.Pkg.TypesInfo
		// the text of another expression that flows into e through concatenation and pure string helpers; a text that
		// is handed to some other function first (Dialector.Explain resolves the placeholders) does not count
		var sqlSource func(e ast.Expr) string
		sqlSource = func(e ast.Expr) string {
			switch x := unparen(e).(type) {
			case *ast.BinaryExpr:
				if s := sqlSource(x.X); s != "" {
					return s
				}
				return sqlSource(x.Y)
			case *ast.SelectorExpr:
				if x.Sel.Name == "SQL" {
					if s := info.Selections[x]; s != nil && s.Kind() == types.FieldVal {
						return canon(info, x.X)
					}
				}
			case *ast.CallExpr:
				name := calleeName(info, x)
				if strings.HasPrefix(name, "strings.") || strings.HasPrefix(name, "fmt.Sprint") {
					for _, a := range x.Args {
						if s := sqlSource(a); s != "" {
							return s
						}
					}
					return ""
				}
				if sel, ok := x.Fun.(*ast.SelectorExpr); ok && sel.Sel.Name == "String" && len(x.Args) == 0 {
					return sqlSource(sel.X)
				}
			}
			return ""
		}
		ast.Inspect(f.Body, func(n ast.Node) bool {
			if fl, ok := n.(*ast.FuncLit); ok && fl != f.Lit {
				return false
			}
			switch x := n.(type) {
			case *ast.CompositeLit:
				t := derefNamed(info.TypeOf(x))
				if t != exprT && t != nexprT {
					return true
				}
				sqlV := compositeField(x, "SQL")
				if sqlV == nil {
					return true
				}
				if d := resolveLocal(f, sqlV); d != nil {
					sqlV = d
				}
				y := sqlSource(sqlV)
				if y == "" {
					return true
				}
				c.Touch(f)
				vars := compositeField(x, "Vars")
				okv := vars != nil && canon(info, vars) == y+".Vars"
				r.Check(okv, f.Name(), "expression built from "+y+".SQL", x.Pos(), "Vars: "+y+".Vars", "an expression is built from the SQL text of "+y+" without "+y+".Vars: the placeholders of that text stay in the statement but their values are not bound - later values shift onto them")
			case *ast.AssignStmt:
				for i, l := range x.Lhs {
					sel, ok := unparen(l).(*ast.SelectorExpr)
					if !ok || sel.Sel.Name != "SQL" || i >= len(x.Rhs) {
						continue
					}
					t := derefNamed(info.TypeOf(sel.X))
					if t != exprT && t != nexprT {
						continue
					}
					if y := sqlSource(x.Rhs[i]); y != "" {
						c.Touch(f)
						r.Check(y == canon(info, sel.X), f.Name(), "SQL text edited from "+y+".SQL", x.Pos(), "in place: the Vars stay with the text", "the SQL text of one expression is replaced by text derived from another expression ("+y+") while its own Vars stay: placeholders and bound values no longer belong together")
					}
				}
			}
			return true
		})
	}
}

// C02.and-wrap: BuildCondition's group arm turns a LONE OrConditions of a sub-builder into AndConditions without
// looking at its members - correct because such a lone OrConditions can only be the chained form `.Or(x)` (one
// member): clause.And keeps every other single expression bare but never hands back an OrConditions unwrapped...
// more precisely clause.And(x) returns x itself only when x is NOT an OrConditions.  Decided by truth table of the
// guard of that return: with "x is an OrConditions" true the guard is false for every value of the other atoms.
func checkC02AndWrap(c *Ctx) {
	p := c.P
	r := c.Rule("C02.and-wrap", "clause.And returns a single expression unwrapped only when it is not an OrConditions", 1)
	f := p.FuncDecl(pkgClause, "And")
	c.Touch(f)
	info := f.Pkg.TypesInfo
	orT := p.Named(pkgClause, "OrConditions")
	n := 0
	ast.Inspect(f.Body, func(x ast.Node) bool {
		ifs, ok := x.(*ast.IfStmt)
		if !ok {
			return true
		}
		// if <v>, ok := exprs[0].(OrConditions); <cond> { return exprs[0] }
		as, ok := ifs.Init.(*ast.AssignStmt)
		if !ok || len(as.Lhs) != 2 || len(as.Rhs) != 1 {
			return true
		}
		ta, ok := unparen(as.Rhs[0]).(*ast.TypeAssertExpr)
		if !ok || ta.Type == nil || !types.Identical(info.TypeOf(ta.Type), orT) {
			return true
		}
		okName := ""
		if id, ok := as.Lhs[1].(*ast.Ident); ok {
			okName = id.Name
		}
		returnsBare := false
		ast.Inspect(ifs.Body, func(y ast.Node) bool {
			if rs, ok := y.(*ast.ReturnStmt); ok && len(rs.Results) == 1 && canon(info, rs.Results[0]) == canon(info, ta.X) {
				returnsBare = true
			}
			return true
		})
		if !returnsBare || okName == "" {
			return true
		}
		n++
		bf := boolTable(info, ifs.Cond)
		okf := false
		if bf.has(okName) {
			okf, _ = bf.forAll(map[string]bool{okName: true}, false)
		}
		r.Check(okf, f.Name(), "single expression returned unwrapped", ifs.Pos(), "never for an OrConditions", "clause.And can return a single OrConditions unwrapped: the group arm of BuildCondition converts a lone OrConditions of a sub-builder into AndConditions whatever its members, so the group `(a OR b)` is rendered `(a AND b)`")
		return true
	})
	if n == 0 {
		// no bare return at all: every single expression stays wrapped
		r.OK(f.Name(), "no unwrapped return", f.Body.Pos(), "clause.And always wraps")
	}
}

// C03.map-rows: Create from a slice of maps builds one value list per column; the value of row i has to stand at
// position i of every list (rows may lack keys other rows have).  Decided in ConvertSliceOfMapToValuesForCreate:
// inside the loop over the rows every store into a per-column list is an index store at the loop's own index, and
// no list is extended with append.
func checkC03MapRows(c *Ctx) {
	p := c.P
	r := c.Rule("C03.map-rows", "slice-of-maps create: the value of row i is stored at index i of its column list", 1)
	f := p.FuncDecl(pkgCallbacks, "ConvertSliceOfMapToValuesForCreate")
	c.Touch(f)
	info := f.Pkg.TypesInfo
	// the rows parameter: []map[string]interface{}
	var rows types.Object
	for _, fl := range f.Decl.Type.Params.List {
		for _, nm := range fl.Names {
			if o := info.Defs[nm]; o != nil {
				if sl, ok := o.Type().Underlying().(*types.Slice); ok {
					if _, ok := sl.Elem().Underlying().(*types.Map); ok {
						rows = o
					}
				}
			}
		}
	}
	var loop *ast.RangeStmt
	ast.Inspect(f.Body, func(n ast.Node) bool {
		if rs, ok := n.(*ast.RangeStmt); ok && loop == nil {
			if id, ok := unparen(rs.X).(*ast.Ident); ok && info.Uses[id] == rows {
				loop = rs
			}
		}
		return true
	})
	if rows == nil || loop == nil {
		r.Bad(f.Name(), "row loop", f.Body.Pos(), "no loop over the rows found; rule lost its anchor")
		return
	}
	idx := loopVar(info, loop)
	n, bad := 0, 0
	var where token.Pos = loop.Pos()
	ast.Inspect(loop.Body, func(x ast.Node) bool {
		as, ok := x.(*ast.AssignStmt)
		if !ok || len(as.Lhs) != 1 || len(as.Rhs) != 1 {
			return true
		}
		// target: M[k][i] = v   or   M[k] = <expr>
		lhs := unparen(as.Lhs[0])
		ix, ok := lhs.(*ast.IndexExpr)
		if !ok {
			return true
		}
		// per-column list map: map[string][]interface{}
		isListMap := func(e ast.Expr) bool {
			mt, ok := info.TypeOf(e).Underlying().(*types.Map)
			if !ok {
				return false
			}
			_, isSl := mt.Elem().Underlying().(*types.Slice)
			return isSl
		}
		switch {
		case isListMap(ix.X):
			// M[k] = ... : only a fresh list of the rows' length, never an append
			if ce, ok := unparen(as.Rhs[0]).(*ast.CallExpr); ok {
				if id, ok := ce.Fun.(*ast.Ident); ok && id.Name == "append" {
					n++
					bad++
					where = as.Pos()
				}
			}
		default:
			if inner, ok := unparen(ix.X).(*ast.IndexExpr); ok && isListMap(inner.X) {
				n++
				iid, ok := unparen(ix.Index).(*ast.Ident)
				if !ok || idx == nil || info.ObjectOf(iid) != idx {
					bad++
					where = as.Pos()
				}
			}
		}
		return true
	})
	r.Check(n > 0 && bad == 0, f.Name(), "cell of row i", where, "stored at index i of its column list", "a cell value of a slice-of-maps create is not stored at the row's own index of its column list (appended, or indexed by something else): when rows have different key sets the values of a sparse column slide into other rows")
}

// C11.join-null: when a row of an association Join is scanned, a pointer relation is allocated at the first of its
// columns that is not NULL; "the joined row does not exist" is never concluded from a single NULL column.  The
// per-row map of scanIntoStruct therefore records ALLOCATED relations only.  Decided: on every path through the
// nested loop, a store into that map is preceded by the allocation `X.Set(reflect.New(...))` of the relation value.
func checkC11JoinNull(c *Ctx) {
	p := c.P
	r := c.Rule("C11.join-null", "scanIntoStruct marks a joined pointer relation only when it allocates it (a NULL column alone never decides that the joined row is missing)", 1)
	f := p.MethodDecl(pkgGorm, "DB", "scanIntoStruct")
	c.Touch(f)
	info := f.Pkg.TypesInfo
	// local maps keyed by string declared with make(...) in the function
	var stores []*ast.AssignStmt
	ast.Inspect(f.Body, func(n ast.Node) bool {
		as, ok := n.(*ast.AssignStmt)
		if !ok || len(as.Lhs) != 1 {
			return true
		}
		ix, ok := unparen(as.Lhs[0]).(*ast.IndexExpr)
		if !ok {
			return true
		}
		id, ok := unparen(ix.X).(*ast.Ident)
		if !ok {
			return true
		}
		if mt, ok := info.TypeOf(id).Underlying().(*types.Map); ok {
			if b, ok := mt.Key().Underlying().(*types.Basic); ok && b.Kind() == types.String {
				if v, ok := info.ObjectOf(id).(*types.Var); ok && !v.IsField() && v.Pos() > f.Body.Pos() {
					stores = append(stores, as)
				}
			}
		}
		return true
	})
	if len(stores) == 0 {
		r.Bad(f.Name(), "relation marker", f.Body.Pos(), "scanIntoStruct no longer keeps a per-row map of joined relations; rule lost its anchor")
		return
	}
	isAlloc := func(n ast.Node) bool {
		found := false
		ast.Inspect(n, func(x ast.Node) bool {
			ce, ok := x.(*ast.CallExpr)
			if !ok || len(ce.Args) != 1 {
				return true
			}
			sel, ok := ce.Fun.(*ast.SelectorExpr)
			if !ok || sel.Sel.Name != "Set" {
				return true
			}
			if inner, ok := unparen(ce.Args[0]).(*ast.CallExpr); ok && calleeName(info, inner) == "reflect.New" {
				found = true
			}
			return true
		})
		return found
	}
	parents := parentMap(f.Body)
	for _, st := range stores {
		// the innermost loop around the store: one iteration handles one level of one column
		var loop ast.Stmt
		for cur := parents[st]; cur != nil && loop == nil; cur = parents[cur] {
			switch cur.(type) {
			case *ast.RangeStmt, *ast.ForStmt:
				loop = cur.(ast.Stmt)
			}
		}
		if loop == nil {
			r.Bad(f.Name(), "marks a joined relation", st.Pos(), "the marker is not set inside the per-level loop")
			continue
		}
		iters, ok := p.EnumLoopIterPaths(f, loop, 5000)
		if !ok {
			r.Unknown(f.Name(), "paths", loop.Pos(), "iteration paths not enumerable")
			continue
		}
		bad, seen := 0, 0
		for _, nodes := range iters {
			at := -1
			for i, nd := range nodes {
				if nd == ast.Node(st) || containsNode(nd, st) {
					at = i
					break
				}
			}
			if at < 0 {
				continue
			}
			seen++
			okp := false
			for _, nd := range nodes[:at] {
				if isAlloc(nd) {
					okp = true
				}
			}
			if !okp {
				bad++
			}
		}
		r.Check(seen > 0 && bad == 0, f.Name(), "marks a joined relation", st.Pos(), "only after allocating it", "a joined pointer relation is marked in the per-row map on a path that did not allocate it: the mark then stands for `the joined row is NULL`, decided from one NULL column - an existing child row whose first selected column is NULL is dropped")
	}
}

// C12.values-all: the targets named in an association Delete / Replace are passed as several arguments; every
// argument's key values go into the query.  Decided by loop-iteration paths of
// schema.GetIdentityFieldValuesMapFromValues: each iteration over the arguments appends its values to the returned
// list on every path.
func checkC12ValuesAll(c *Ctx) {
	p := c.P
	r := c.Rule("C12.values-all", "GetIdentityFieldValuesMapFromValues appends the key values of every argument to the returned list", 1)
	f := p.FuncDecl(pkgSchema, "GetIdentityFieldValuesMapFromValues")
	c.Touch(f)
	info := f.Pkg.TypesInfo
	// the []interface{} parameter
	var vals types.Object
	for _, fl := range f.Decl.Type.Params.List {
		for _, nm := range fl.Names {
			if o := info.Defs[nm]; o != nil && o.Type().String() == "[]interface{}" {
				vals = o
			}
		}
	}
	// result list: the slice-typed value returned second
	var loop *ast.RangeStmt
	ast.Inspect(f.Body, func(n ast.Node) bool {
		if rs, ok := n.(*ast.RangeStmt); ok && loop == nil {
			if id, ok := unparen(rs.X).(*ast.Ident); ok && info.Uses[id] == vals {
				loop = rs
			}
		}
		return true
	})
	var resObj types.Object
	ast.Inspect(f.Body, func(n ast.Node) bool {
		if rs, ok := n.(*ast.ReturnStmt); ok && len(rs.Results) == 2 {
			if id, ok := unparen(rs.Results[1]).(*ast.Ident); ok {
				resObj = info.ObjectOf(id)
			}
		}
		return true
	})
	if loop == nil || resObj == nil {
		r.Bad(f.Name(), "argument loop", f.Body.Pos(), "no loop over the arguments / no returned list found; rule lost its anchor")
		return
	}
	var apps []ast.Node
	ast.Inspect(loop.Body, func(n ast.Node) bool {
		as, ok := n.(*ast.AssignStmt)
		if !ok || len(as.Lhs) != 1 || len(as.Rhs) != 1 {
			return true
		}
		if id, ok := unparen(as.Lhs[0]).(*ast.Ident); ok && info.ObjectOf(id) == resObj {
			if ce, ok := unparen(as.Rhs[0]).(*ast.CallExpr); ok {
				if fid, ok := ce.Fun.(*ast.Ident); ok && fid.Name == "append" {
					apps = append(apps, as)
				}
			}
		}
		return true
	})
	paths, okp := p.EnumLoopIterPaths(f, loop, 5000)
	if !okp {
		r.Unknown(f.Name(), "argument loop", loop.Pos(), "iteration paths not enumerable")
		return
	}
	bad := 0
	for _, nodes := range paths {
		k := 0
		for _, nd := range nodes {
			for _, a := range apps {
				if nd == a || containsNode(nd, a) {
					k++
				}
			}
		}
		if k != 1 {
			bad++
		}
	}
	r.Check(len(apps) > 0 && bad == 0, f.Name(), "values of every argument", loop.Pos(), "appended on every iteration path", "an iteration over the arguments can complete without appending that argument's key values to the returned list: targets named in a later argument are left out of the IN (...) list - Delete keeps their link, Replace removes the rows it has just inserted")
}

// C15.limit-merge: LIMIT and OFFSET live in ONE clause; Limit(n) and Offset(n) - also with the cancelling negative
// values - merge a clause.Limit that sets only their own part (clause.Limit.MergeClause keeps the other).  Decided
// by path enumeration of (*DB).Limit and (*DB).Offset: every path adds a clause.Limit through AddClause, and neither
// method deletes from or stores into Statement.Clauses itself.
func checkC15LimitMerge(c *Ctx) {
	p := c.P
	r := c.Rule("C15.limit-merge", "Limit/Offset always merge a clause.Limit and never remove the shared LIMIT/OFFSET clause", 2)
	stmtT := p.Named(pkgGorm, "Statement")
	addClause := p.Method(stmtT, "AddClause")
	clausesF := p.Field(stmtT, "Clauses")
	limitT := p.Named(pkgClause, "Limit")
	for _, name := range []string{"Limit", "Offset"} {
		f := p.MethodDecl(pkgGorm, "DB", name)
		c.Touch(f)
		info := f.Pkg.TypesInfo
		direct := false
		ast.Inspect(f.Body, func(n ast.Node) bool {
			switch x := n.(type) {
			case *ast.CallExpr:
				if id, ok := x.Fun.(*ast.Ident); ok && id.Name == "delete" && len(x.Args) == 2 && fieldSel(info, x.Args[0], clausesF) {
					direct = true
				}
			case *ast.AssignStmt:
				for _, l := range x.Lhs {
					if ix, ok := unparen(l).(*ast.IndexExpr); ok && fieldSel(info, ix.X, clausesF) {
						direct = true
					}
				}
			}
			return true
		})
		var adds []*ast.CallExpr
		for _, call := range callsIn(f) {
			if fn, _ := typeutil.Callee(info, call).(*types.Func); fn == addClause && len(call.Args) == 1 && types.Identical(info.TypeOf(call.Args[0]), limitT) {
				adds = append(adds, call)
			}
		}
		paths, ok := p.EnumPaths(f, nil, 2000)
		if !ok {
			r.Unknown(f.Name(), "paths", f.Body.Pos(), "too many paths")
			continue
		}
		bad := 0
		for _, pr := range paths {
			k := 0
			for _, nd := range pr.Nodes {
				for _, a := range adds {
					if containsNode(nd, a) {
						k++
					}
				}
			}
			if k != 1 {
				bad++
			}
		}
		r.Check(!direct && len(paths) > 0 && bad == 0, f.Name(), "merges a clause.Limit", f.Body.Pos(), "AddClause(clause.Limit{..}) on every path, no direct write of Clauses", "(*DB)."+name+" has a path that does not merge a clause.Limit, or writes Statement.Clauses directly: cancelling one of LIMIT/OFFSET with a negative value removes the other one too")
	}
}

// C17.compile-purge: compile drops the remove markers (and the entries they remove) from the processor's list, so
// that a name removed once can be registered again.  Decided on the CFG of compile: the list stored into
// p.callbacks is stored AFTER the purge - the call of removeCallbacks is not reachable from that store.
func checkC17CompilePurge(c *Ctx) {
	p := c.P
	r := c.Rule("C17.compile-purge", "compile stores the PURGED list back into the processor (remove markers do not accumulate)", 1)
	f := p.MethodDecl(pkgGorm, "processor", "compile")
	c.Touch(f)
	info := f.Pkg.TypesInfo
	cbF := p.Field(p.Named(pkgGorm, "processor"), "callbacks")
	purgeFn := p.FuncDecl(pkgGorm, "removeCallbacks").Obj
	var store *ast.AssignStmt
	var purge *ast.CallExpr
	ast.Inspect(f.Body, func(n ast.Node) bool {
		switch x := n.(type) {
		case *ast.AssignStmt:
			for _, l := range x.Lhs {
				if sel, ok := unparen(l).(*ast.SelectorExpr); ok && fieldSel(info, sel, cbF) {
					store = x
				}
			}
		case *ast.CallExpr:
			if fn, _ := typeutil.Callee(info, x).(*types.Func); fn == purgeFn {
				purge = x
			}
		}
		return true
	})
	if store == nil || purge == nil {
		r.Bad(f.Name(), "purge / store", f.Body.Pos(), "compile no longer purges removed callbacks or no longer stores the list back; rule lost its anchor")
		return
	}
	gs := p.Guards(f, nil)
	after := gs.Reaches(store.Pos(), func(n ast.Node) bool { return containsNode(n, purge) })
	before := gs.Reaches(purge.Pos(), func(n ast.Node) bool { return n == ast.Node(store) || containsNode(n, store) })
	r.Check(before && !after, f.Name(), "list stored back after the purge", store.Pos(), "the purged list", "compile stores the processor's list back before the removed callbacks are purged from it: the remove marker stays in the list for ever, and a later Register/Replace of that name is purged again at once - it returns nil and the callback never runs")
}

// C20.column-passthrough: AutoMigrate decides what exists by comparing what the database reports (migrator.ColumnType
// accessors) with the schema's names and types.  The accessors hand the reported values on unchanged: every
// returned expression is a field of one of the receiver's `...Value` members, a constant, or the result of the same
// accessor of the wrapped driver column type - no other call is applied to them.
func checkC20ColumnPassthrough(c *Ctx) {
	p := c.P
	r := c.Rule("C20.column-passthrough", "migrator.ColumnType accessors return the reported values unchanged", 8)
	ctT := p.Named(pkgMigrator, "ColumnType")
	for i := 0; i < ctT.NumMethods(); i++ {
		f := p.SrcOpt(ctT.Method(i))
		if f == nil || f.Body == nil {
			continue
		}
		info := f.Pkg.TypesInfo
		recv := recvName(f)
		bad := ""
		ast.Inspect(f.Body, func(n ast.Node) bool {
			rs, ok := n.(*ast.ReturnStmt)
			if !ok {
				return true
			}
			for _, res := range rs.Results {
				ast.Inspect(res, func(m ast.Node) bool {
					ce, ok := m.(*ast.CallExpr)
					if !ok {
						return true
					}
					// forwarding to the wrapped column type
					if sel, ok := ce.Fun.(*ast.SelectorExpr); ok && strings.HasPrefix(canon(info, sel.X), recv+".") && sel.Sel.Name == f.Decl.Name.Name && len(ce.Args) == 0 {
						return false
					}
					// conversions
					if tv, ok := info.Types[ce.Fun]; ok && tv.IsType() {
						return true
					}
					bad = types.ExprString(ce.Fun)
					return false
				})
			}
			return true
		})
		c.Touch(f)
		r.Check(bad == "", f.Name(), "reported value handed on", f.Body.Pos(), "unchanged", "the accessor passes what the database reported through "+bad+"(...) before returning it: AutoMigrate compares it with the schema's own spelling (e.g. exact column names) - an existing column then looks missing, is added again and the migration fails or never converges")
	}
}

// C16.block-keeps-chain: a chain such as db.Clauses(OnConflict{..}).Session(&Session{CreateBatchSize: n}).Create(rows)
// runs its batches inside Transaction(fc); the handle the block receives is built in two sibling places - the nested
// arm of Transaction and Begin (top-level arm).  It must still carry the chain's statement (its ON CONFLICT rule,
// Select/Omit, Table) unless the receiver is a root handle.  Decided: both places pass a Session literal whose NewDB
// is the same expression over the receiver's clone state, and that expression is not a constant.
func checkC16BlockKeepsChain(c *Ctx, r *Rule) {
	p := c.P
	sessT := p.Named(pkgGorm, "Session")
	type site struct {
		f   *FuncSrc
		val string
		pos token.Pos
		cst bool
	}
	var sites []site
	for _, name := range []string{"Transaction", "Begin"} {
		f := p.MethodDecl(pkgGorm, "DB", name)
		c.Touch(f)
		info := f.Pkg.TypesInfo
		recv := recvName(f)
		for _, lit := range litsOfType(info, f.Body, sessT, true) {
			v := compositeField(lit, "NewDB")
			if v == nil {
				continue
			}
			_, isConst := constBool(info, v)
			sites = append(sites, site{f, strings.ReplaceAll(canon(info, v), recv+".", "$recv."), lit.Pos(), isConst})
		}
	}
	if len(sites) < 2 {
		r.Bad("gorm.(*DB).Transaction", "block handle", token.NoPos, "the two places that build the handle of a transaction block (nested arm, Begin) no longer both decide NewDB; rule lost its anchor")
		return
	}
	for _, s := range sites {
		okv := !s.cst && s.val == sites[0].val
		r.Check(okv, s.f.Name(), "statement of the block's handle", s.pos, "NewDB: "+s.val+" (a new statement only for a root handle)", "the handle a transaction block receives decides NewDB as `"+s.val+"` here and as `"+sites[0].val+"` in "+sites[0].f.Name()+" (or as a constant): the block loses the chain's statement - batched creates run without the chain's ON CONFLICT rule, Select/Omit and Table")
	}
}

// ---- round 10 ----

// C01.args-used: the variadic `args ...interface{}` of the chain and finisher methods are the values of the `?` in
// the text given next to them.  On every path through such a method the arguments are handed on (stored in an
// expression, passed to a callee) - or the path has established that there are none.  A path that neither uses them
// nor knows them to be absent drops bound values while the placeholders stay in the text.  Decided by path
// enumeration with path-sensitive facts over every exported *DB method with a variadic interface{} parameter.
func checkC01ArgsUsed(c *Ctx) {
	checkArgsUsed(c, c.Rule("C01.args-used", "exported *DB methods hand their variadic arguments on, on every path that has not established that there are none", 10), nil)
}

func checkArgsUsed(c *Ctx, r *Rule, only map[string]bool) {
	p := c.P
	dbT := p.Named(pkgGorm, "DB")
	ptr := types.NewPointer(dbT)
	ms := types.NewMethodSet(ptr)
	for i := 0; i < ms.Len(); i++ {
		m, _ := ms.At(i).Obj().(*types.Func)
		if m == nil || !m.Exported() || (only != nil && !only[m.Name()]) {
			continue
		}
		sig := m.Type().(*types.Signature)
		if !sig.Variadic() {
			continue
		}
		last := sig.Params().At(sig.Params().Len() - 1)
		sl, ok := last.Type().(*types.Slice)
		if !ok {
			continue
		}
		if it, ok := sl.Elem().Underlying().(*types.Interface); !ok || it.NumMethods() != 0 {
			continue
		}
		f := p.SrcOpt(m)
		if f == nil || f.Body == nil || f.Decl == nil {
			continue
		}
		info := f.Pkg.TypesInfo
		// the parameter object
		var args types.Object
		ps := f.Decl.Type.Params.List
		if len(ps) > 0 && len(ps[len(ps)-1].Names) == 1 {
			args = info.Defs[ps[len(ps)-1].Names[0]]
		}
		if args == nil {
			continue
		}
		name := args.Name()
		uses := func(n ast.Node) bool {
			found := false
			var walk func(n ast.Node, inLen bool)
			walk = func(n ast.Node, inLen bool) {
				ast.Inspect(n, func(x ast.Node) bool {
					switch y := x.(type) {
					case *ast.CallExpr:
						if id, ok := y.Fun.(*ast.Ident); ok && id.Name == "len" && len(y.Args) == 1 {
							return false // len(args) is a test, not a use
						}
					case *ast.Ident:
						if info.Uses[y] == args {
							found = true
						}
					}
					return true
				})
			}
			walk(n, false)
			return found
		}
		paths, ok := p.EnumPaths(f, nil, 20000)
		if !ok {
			r.Unknown(f.Name(), "paths", f.Body.Pos(), "too many paths")
			continue
		}
		bad := 0
		var where token.Pos = f.Body.Pos()
		for _, pr := range paths {
			used := false
			for _, nd := range pr.Nodes {
				if uses(nd) {
					used = true
				}
			}
			if used {
				continue
			}
			none := func(fs factSet) bool {
				return fs.Has("T:len("+name+") == 0") || fs.Has("F:len("+name+") > 0") || fs.Has("F:len("+name+") != 0") || fs.Has("F:len("+name+") >= 1")
			}
			okp := none(pr.Facts)
			for _, b := range pr.Before {
				if none(b) {
					okp = true
				}
			}
			if !okp {
				bad++
				where = pr.Exit
			}
		}
		c.Touch(f)
		r.Check(len(paths) > 0 && bad == 0, f.Name(), "variadic "+name, where, "handed on, or known to be empty, on every path", "a path through (*DB)."+m.Name()+" neither hands `"+name+"` on nor has established that it is empty: the `?` of the text given with them stay in the statement while their values are never bound")
	}
}

// C09.session-flags (also C19: DryRun): Session copies the options that exist under the same name in Session and
// Config onto the new handle's configuration - each under a test of that very option.  Decided: for every field name
// shared by gorm.Session and gorm.Config (AllowGlobalUpdate, DryRun, SkipDefaultTransaction, PropagateUnscoped, ...)
// there is an `if` in (*DB).Session whose condition reads config.<F> and whose body stores Config.<F>; and no such
// `if` stores a DIFFERENT shared field (turning on, say, AllowGlobalUpdate for a PropagateUnscoped session).
func checkSessionFlags(c *Ctx, r *Rule) {
	p := c.P
	f := p.MethodDecl(pkgGorm, "DB", "Session")
	c.Touch(f)
	info := f.Pkg.TypesInfo
	sessS := p.Named(pkgGorm, "Session").Underlying().(*types.Struct)
	confS := p.Named(pkgGorm, "Config").Underlying().(*types.Struct)
	confFields := map[string]*types.Var{}
	for i := 0; i < confS.NumFields(); i++ {
		confFields[confS.Field(i).Name()] = confS.Field(i)
	}
	shared := map[string]*types.Var{} // name -> Session field
	for i := 0; i < sessS.NumFields(); i++ {
		sf := sessS.Field(i)
		if cf, ok := confFields[sf.Name()]; ok && types.Identical(cf.Type(), sf.Type()) {
			shared[sf.Name()] = sf
		}
	}
	copied := map[string]bool{}
	ast.Inspect(f.Body, func(n ast.Node) bool {
		ifs, ok := n.(*ast.IfStmt)
		if !ok {
			return true
		}
		// the shared Session options the condition reads
		var reads []string
		ast.Inspect(ifs.Cond, func(m ast.Node) bool {
			if sel, ok := m.(*ast.SelectorExpr); ok {
				if sf, ok := shared[sel.Sel.Name]; ok && fieldSel(info, sel, sf) {
					reads = append(reads, sel.Sel.Name)
				}
			}
			return true
		})
		if len(reads) != 1 {
			return true
		}
		F := reads[0]
		ast.Inspect(ifs.Body, func(m ast.Node) bool {
			as, ok := m.(*ast.AssignStmt)
			if !ok {
				return true
			}
			for _, l := range as.Lhs {
				sel, ok := unparen(l).(*ast.SelectorExpr)
				if !ok {
					continue
				}
				cf, isConf := confFields[sel.Sel.Name]
				if !isConf || !fieldSel(info, sel, cf) {
					continue
				}
				G := sel.Sel.Name
				if _, isShared := shared[G]; !isShared {
					continue
				}
				if G == F {
					copied[F] = true
				} else {
					r.Bad(f.Name(), "option "+F+" stores Config."+G, as.Pos(), "a session asking for "+F+" turns on "+G+" instead: e.g. a PropagateUnscoped session silently gets AllowGlobalUpdate - a condition-free Update/Delete through it runs against the whole table")
				}
			}
			return true
		})
		return true
	})
	var names []string
	for n := range shared {
		names = append(names, n)
	}
	sort.Strings(names)
	for _, n := range names {
		r.Check(copied[n], f.Name(), "option "+n, f.Body.Pos(), "copied onto Config."+n+" under a test of config."+n, "Session does not copy the option "+n+" onto the same-named configuration field of the new handle: the session option is ignored")
	}
}

// C02.nil-agree: "nil values mean IS NULL" is decided in clause.Eq.Build and, for the negated unit, in
// clause.Neq.Build; what counts as nil (plain nil, typed nil pointers, NULL-valued driver.Valuers) must be the same
// on both sides, otherwise a unit and its negation are not complementary for some values.  Decided as sibling
// agreement: the conditions that guard the IS NULL / IS NOT NULL arms are the same expression over the receiver's
// Value.
func checkC02NilAgree(c *Ctx) {
	p := c.P
	r := c.Rule("C02.nil-agree", "Eq.Build and Neq.Build decide NULL-ness of their value by the same test", 2)
	conds := map[string]string{}
	var poss = map[string]token.Pos{}
	for _, tn := range []string{"Eq", "Neq"} {
		f := p.MethodDecl(pkgClause, tn, "Build")
		c.Touch(f)
		info := f.Pkg.TypesInfo
		recv := recvName(f)
		ast.Inspect(f.Body, func(n ast.Node) bool {
			ifs, ok := n.(*ast.IfStmt)
			if !ok {
				return true
			}
			// the then-branch writes IS NULL / IS NOT NULL
			writes := false
			for _, st := range ifs.Body.List {
				ast.Inspect(st, func(m ast.Node) bool {
					if ce, ok := m.(*ast.CallExpr); ok && len(ce.Args) == 1 {
						if s, ok := constString(info, ce.Args[0]); ok {
							if op, ok := normSQLOp(s); ok && (op == "IS NULL" || op == "IS NOT NULL") {
								writes = true
							}
						}
					}
					return true
				})
			}
			if writes {
				conds[tn] = strings.ReplaceAll(canon(info, ifs.Cond), recv+".", "$r.")
				poss[tn] = ifs.Pos()
			}
			return true
		})
	}
	if conds["Eq"] == "" || conds["Neq"] == "" {
		r.Bad("clause.Eq/Neq", "NULL arms", token.NoPos, "Eq.Build or Neq.Build has no IS NULL / IS NOT NULL arm any more; rule lost its anchor")
		return
	}
	r.OK("clause.(Eq).Build", "NULL test", poss["Eq"], conds["Eq"])
	r.Check(conds["Eq"] == conds["Neq"], "clause.(Neq).Build", "NULL test", poss["Neq"], "same test as Eq.Build: "+conds["Eq"], "Neq.Build decides NULL-ness by `"+conds["Neq"]+"`, Eq.Build by `"+conds["Eq"]+"`: for the values on which the two disagree (e.g. a NULL-valued driver.Valuer) the unit renders IS NULL but its negation renders `<> NULL`, which selects nothing")
}

// C04.conn-release: (*DB).Connection pins a connection for a block (a Transaction block may run inside it); "in every
// case the connection goes back to the pool" includes the block ending by panic.  Decided by path enumeration: on
// every path that reaches the call of the user function, a `defer <conn>.Close()` of the acquired connection has
// been registered before it.
func checkC04ConnRelease(c *Ctx) {
	p := c.P
	r := c.Rule("C04.conn-release", "Connection releases the pinned connection by a deferred Close registered before the user function runs", 1)
	f := p.MethodDecl(pkgGorm, "DB", "Connection")
	c.Touch(f)
	info := f.Pkg.TypesInfo
	// the func parameter
	var fc types.Object
	for _, fl := range f.Decl.Type.Params.List {
		for _, nm := range fl.Names {
			if o := info.Defs[nm]; o != nil {
				if _, ok := o.Type().Underlying().(*types.Signature); ok {
					fc = o
				}
			}
		}
	}
	var call *ast.CallExpr
	for _, ce := range callsIn(f) {
		if id, ok := unparen(ce.Fun).(*ast.Ident); ok && info.Uses[id] == fc {
			call = ce
		}
	}
	if fc == nil || call == nil {
		r.Bad(f.Name(), "user function", f.Body.Pos(), "Connection no longer calls its function parameter; rule lost its anchor")
		return
	}
	isDeferClose := func(n ast.Node) bool {
		ds, ok := n.(*ast.DeferStmt)
		if !ok {
			return false
		}
		sel, ok := ds.Call.Fun.(*ast.SelectorExpr)
		if !ok || sel.Sel.Name != "Close" {
			return false
		}
		return namedOf(info.TypeOf(sel.X)) == "database/sql.Conn"
	}
	paths, ok := p.EnumPaths(f, nil, 2000)
	if !ok {
		r.Unknown(f.Name(), "paths", f.Body.Pos(), "too many paths")
		return
	}
	bad, seen := 0, 0
	for _, pr := range paths {
		at := -1
		for i, nd := range pr.Nodes {
			if containsNode(nd, call) {
				at = i
				break
			}
		}
		if at < 0 {
			continue
		}
		seen++
		okp := false
		for _, nd := range pr.Nodes[:at] {
			if isDeferClose(nd) {
				okp = true
			}
		}
		if !okp {
			bad++
		}
	}
	r.Check(seen > 0 && bad == 0, f.Name(), "connection released on every outcome", call.Pos(), "defer conn.Close() before the block runs", "the user function of Connection runs on a path where no deferred Close of the pinned connection has been registered: when the block (e.g. a Transaction inside it) panics, the connection is never returned to the pool")
}

// C08.assoc-unscoped: association mode works on the handle the user prepared - db.Unscoped().Model(&x).Association(..)
// - and its statements on the related table inherit that handle's Unscoped because they are derived from it with its
// statement.  A session that starts a NEW statement (NewDB: true) inside a method of Association drops the flag: the
// Unscoped delete mode then only marks rows.  Decided: no Session literal with NewDB: true in the methods of
// Association unless the same function re-applies Unscoped() under a test of the handle's Unscoped.
func checkC08AssocUnscoped(c *Ctx) {
	p := c.P
	r := c.Rule("C08.assoc-unscoped", "association-mode statements keep the handle's Unscoped: no new-statement session without re-applying it", 8)
	assocT := p.Named(pkgGorm, "Association")
	sessT := p.Named(pkgGorm, "Session")
	unscopedF := p.Field(p.Named(pkgGorm, "Statement"), "Unscoped")
	for i := 0; i < assocT.NumMethods(); i++ {
		f := p.SrcOpt(assocT.Method(i))
		if f == nil || f.Body == nil {
			continue
		}
		info := f.Pkg.TypesInfo
		var fresh []*ast.CompositeLit
		for _, lit := range litsOfType(info, f.Body, sessT, true) {
			if v := compositeField(lit, "NewDB"); v != nil {
				if b, isC := constBool(info, v); !isC || b {
					fresh = append(fresh, lit)
				}
			}
		}
		reapplied := false
		ast.Inspect(f.Body, func(n ast.Node) bool {
			ifs, ok := n.(*ast.IfStmt)
			if !ok {
				return true
			}
			reads := false
			ast.Inspect(ifs.Cond, func(m ast.Node) bool {
				if sel, ok := m.(*ast.SelectorExpr); ok && fieldSel(info, sel, unscopedF) {
					reads = true
				}
				return true
			})
			if reads {
				ast.Inspect(ifs.Body, func(m ast.Node) bool {
					if ce, ok := m.(*ast.CallExpr); ok {
						if fn, _ := typeutil.Callee(info, ce).(*types.Func); fn != nil && fn.Name() == "Unscoped" {
							reapplied = true
						}
					}
					return true
				})
			}
			return true
		})
		c.Touch(f)
		r.Check(len(fresh) == 0 || reapplied, f.Name(), "statements on the related table", f.Body.Pos(), "derived from the association's handle with its statement", "a method of Association derives a handle with a NEW statement (Session{NewDB: true}) and does not re-apply Unscoped(): db.Unscoped()...Association(..).Unscoped().Clear()/Replace() then only soft-deletes the related rows")
	}
}

// C05.err-overwrite: straight-line version of C05.loop-error - an error-typed local that receives the result of a
// call and is assigned again before anything read it loses the first error (e.g. the result of the AfterCreate hook
// overwritten by the result of AfterSave).  Decided on the CFG of every function of packages gorm and callbacks:
// from an assignment `x = <call>` of an error variable no path reaches another assignment of x without passing a
// read of x.
func checkC05ErrOverwrite(c *Ctx) {
	p := c.P
	r := c.Rule("C05.err-overwrite", "an error received from a call is read before the variable holding it is assigned again", 20)
	for _, f := range p.FuncsOf(pkgGorm, pkgCallbacks) {
		if f.Body == nil {
			continue
		}
		info := f.Pkg.TypesInfo
		g := p.CFG(f)
		if g == nil {
			continue
		}
		type asg struct {
			node ast.Node
			obj  types.Object
		}
		var asgs []asg
		assignsTo := func(n ast.Node, obj types.Object) bool {
			hit := false
			ast.Inspect(n, func(m ast.Node) bool {
				if _, ok := m.(*ast.FuncLit); ok {
					return false
				}
				if as, ok := m.(*ast.AssignStmt); ok {
					for _, l := range as.Lhs {
						if id, ok := unparen(l).(*ast.Ident); ok && info.ObjectOf(id) == obj {
							hit = true
						}
					}
				}
				return true
			})
			return hit
		}
		readsOf := func(n ast.Node, obj types.Object) bool {
			hit := false
			ast.Inspect(n, func(m ast.Node) bool {
				if _, ok := m.(*ast.FuncLit); ok {
					// a closure capturing the variable may read it
					ast.Inspect(m, func(q ast.Node) bool {
						if id, ok := q.(*ast.Ident); ok && info.Uses[id] == obj {
							hit = true
						}
						return true
					})
					return false
				}
				switch x := m.(type) {
				case *ast.AssignStmt:
					for _, rhs := range x.Rhs {
						ast.Inspect(rhs, func(q ast.Node) bool {
							if id, ok := q.(*ast.Ident); ok && info.Uses[id] == obj {
								hit = true
							}
							return true
						})
					}
					// x op= ... reads x
					if x.Tok != token.ASSIGN && x.Tok != token.DEFINE {
						hit = hit || assignsTo(x, obj)
					}
					return false
				case *ast.Ident:
					if info.Uses[x] == obj {
						hit = true
					}
				case *ast.ReturnStmt:
					if len(x.Results) == 0 {
						hit = true // bare return reads named results
					}
				}
				return true
			})
			return hit
		}
		for _, b := range g.Blocks {
			for _, nd := range b.Nodes {
				as, ok := nd.(*ast.AssignStmt)
				if !ok {
					continue
				}
				for i, l := range as.Lhs {
					id, ok := unparen(l).(*ast.Ident)
					if !ok || id.Name == "_" {
						continue
					}
					obj, _ := info.ObjectOf(id).(*types.Var)
					if obj == nil || obj.Type().String() != "error" {
						continue
					}
					var rhs ast.Expr
					if len(as.Rhs) == len(as.Lhs) {
						rhs = as.Rhs[i]
					} else if len(as.Rhs) == 1 {
						rhs = as.Rhs[0]
					}
					isCall := false
					if rhs != nil {
						ast.Inspect(rhs, func(m ast.Node) bool {
							if _, ok := m.(*ast.CallExpr); ok {
								isCall = true
							}
							return true
						})
					}
					if isCall {
						asgs = append(asgs, asg{nd, obj})
					}
				}
			}
		}
		for _, a := range asgs {
			// DFS from the node after a.node
			lost := token.NoPos
			seen := map[*cfg.Block]bool{}
			var walk func(b *cfg.Block, from int)
			walk = func(b *cfg.Block, from int) {
				for i := from; i < len(b.Nodes) && lost == token.NoPos; i++ {
					n := b.Nodes[i]
					if readsOf(n, a.obj) {
						return
					}
					if assignsTo(n, a.obj) {
						lost = n.Pos()
						return
					}
				}
				for _, s := range b.Succs {
					if !seen[s] && lost == token.NoPos {
						seen[s] = true
						walk(s, 0)
					}
				}
			}
			for _, b := range g.Blocks {
				for i, n := range b.Nodes {
					if n == a.node {
						// the statement itself may test the value: `if err = f(); err != nil`
						walk(b, i+1)
					}
				}
			}
			c.Touch(f)
			r.Check(lost == token.NoPos, f.Name(), "error in "+a.obj.Name(), a.node.Pos(), "read before it is assigned again", "the error a call returned into `"+a.obj.Name()+"` can be overwritten (at "+p.Pos(lost)+") before anything read it: a failing step - e.g. a hook - is reported as success when the next step succeeds")
		}
	}
}

// C03.fresh-row: when rows are read into a slice, every row is scanned into a value of its own, freshly created
// (reflect.New) - NULL columns leave the setter alone, so a recycled slot would keep what it held before.  Only the
// write-back modes (RETURNING into the records just written, guarded by `update`) scan into existing records.
// Decided in gorm.Scan: every assignment to the value handed to scanIntoStruct inside the row loop is a reflect.New
// call, or lies under the fact that the scan is in update mode.
func checkC03FreshRow(c *Ctx) {
	p := c.P
	r := c.Rule("C03.fresh-row", "gorm.Scan reads every row of a slice destination into a freshly created value (existing records only in update mode)", 2)
	f := p.FuncDecl(pkgGorm, "Scan")
	c.Touch(f)
	info := f.Pkg.TypesInfo
	sis := p.Method(p.Named(pkgGorm, "DB"), "scanIntoStruct")
	gs := p.Guards(f, nil)
	parents := parentMap(f.Body)
	n := 0
	for _, call := range callsIn(f) {
		if fn, _ := typeutil.Callee(info, call).(*types.Func); fn != sis || len(call.Args) < 2 {
			continue
		}
		id, ok := unparen(call.Args[1]).(*ast.Ident)
		if !ok {
			continue
		}
		// only the call inside a row loop (slice / array destinations)
		var loop ast.Node
		for cur := parents[call]; cur != nil && loop == nil; cur = parents[cur] {
			if _, ok := cur.(*ast.ForStmt); ok {
				loop = cur
			}
		}
		if loop == nil {
			continue
		}
		obj := info.ObjectOf(id)
		ast.Inspect(loop, func(x ast.Node) bool {
			as, ok := x.(*ast.AssignStmt)
			if !ok || as.Pos() > call.Pos() {
				return true
			}
			for i, l := range as.Lhs {
				lid, ok := unparen(l).(*ast.Ident)
				if !ok || info.ObjectOf(lid) != obj || i >= len(as.Rhs) {
					continue
				}
				n++
				fresh := false
				if ce, ok := unparen(as.Rhs[i]).(*ast.CallExpr); ok && calleeName(info, ce) == "reflect.New" {
					fresh = true
				}
				facts, live := gs.At(as.Pos())
				upd := false
				for fct := range facts {
					if strings.HasPrefix(fct, "T:") && (strings.HasSuffix(fct, "update") || strings.Contains(fct, "ScanUpdate")) {
						upd = true
					}
				}
				r.Check(fresh || upd || !live, f.Name(), "value a row is scanned into", as.Pos(), "reflect.New(...) or an existing record in update mode", "a row of a slice destination is scanned into `"+types.ExprString(as.Rhs[i])+"`, which is neither freshly created nor a record being written back: NULL columns (and columns not selected) keep whatever that slot held before")
			}
			return true
		})
	}
	if n == 0 {
		r.Bad(f.Name(), "row loop", f.Body.Pos(), "no row loop handing a value to scanIntoStruct found in gorm.Scan; rule lost its anchor")
	}
}

// C11.key-verbatim: parents are filed and children looked up under utils.ToStringKey of their key values; the key
// text must distinguish whatever the database distinguishes.  Decided: ToStringKey returns the plain strings.Join of
// the rendered values - no case folding, trimming or other string transformation is applied to the key.
func checkC11KeyVerbatim(c *Ctx) {
	p := c.P
	r := c.Rule("C11.key-verbatim", "utils.ToStringKey returns the verbatim join of the rendered key values (no folding of the key text)", 1)
	f := p.FuncDecl(pkgUtils, "ToStringKey")
	c.Touch(f)
	info := f.Pkg.TypesInfo
	n := 0
	ast.Inspect(f.Body, func(x ast.Node) bool {
		rs, ok := x.(*ast.ReturnStmt)
		if !ok || len(rs.Results) != 1 {
			return true
		}
		n++
		e := unparen(rs.Results[0])
		if d := resolveLocal(f, e); d != nil {
			e = unparen(d)
		}
		ce, isCall := e.(*ast.CallExpr)
		okv := isCall && calleeName(info, ce) == "strings.Join"
		r.Check(okv, f.Name(), "key text", rs.Pos(), "strings.Join(rendered values, sep)", "ToStringKey passes the joined key through `"+types.ExprString(e)+"`: keys the database distinguishes (e.g. by letter case) fall into one identity bucket and preload attaches the rows of one parent to another")
		return true
	})
	if n == 0 {
		r.Bad(f.Name(), "key text", f.Body.Pos(), "ToStringKey has no return; rule lost its anchor")
	}
}

// C12.chain-result: the chain methods of *DB (Where, Select, Omit, Order, Joins, ... everything declared in
// chainable_api.go, plus Session/WithContext/Debug/Unscoped) return the handle that carries their effect; called on a
// Session handle they leave the receiver untouched.  A call whose result is discarded is a no-op - e.g.
// `tx.Omit(clause.Associations)` instead of `tx = tx.Omit(...)` silently saves the associations of association
// targets.  Decided over all repository packages: no chain-method call stands alone as a statement.
func checkChainResult(c *Ctx, r *Rule) {
	p := c.P
	dbT := p.Named(pkgGorm, "DB")
	chain := map[*types.Func]bool{}
	for i := 0; i < dbT.NumMethods(); i++ {
		m := dbT.Method(i)
		sig := m.Type().(*types.Signature)
		if sig.Results().Len() != 1 || !types.Identical(sig.Results().At(0).Type(), types.NewPointer(dbT)) {
			continue
		}
		src := p.SrcOpt(m)
		if src == nil {
			continue
		}
		file := p.Fset.Position(src.Body.Pos()).Filename
		if strings.HasSuffix(file, "chainable_api.go") || m.Name() == "Session" || m.Name() == "WithContext" || m.Name() == "Debug" {
			chain[m] = true
		}
	}
	used, bad := 0, 0
	for _, f := range p.FuncsOf(pkgGorm, pkgCallbacks, pkgMigrator, pkgSchema) {
		if f.Body == nil {
			continue
		}
		info := f.Pkg.TypesInfo
		ast.Inspect(f.Body, func(n ast.Node) bool {
			if fl, ok := n.(*ast.FuncLit); ok && fl != f.Lit {
				return false
			}
			switch x := n.(type) {
			case *ast.ExprStmt:
				if ce, ok := unparen(x.X).(*ast.CallExpr); ok {
					if fn, _ := typeutil.Callee(info, ce).(*types.Func); fn != nil && chain[fn] && receiverIsHandle(p, f, info, ce) {
						bad++
						c.Touch(f)
						r.Bad(f.Name(), "discarded result of "+fn.Name(), ce.Pos(), "the result of the chain method "+fn.Name()+" is discarded: on a Session handle the call changes nothing - the condition / selection it was meant to add is silently missing from the statement that follows")
					}
				}
			case *ast.CallExpr:
				if fn, _ := typeutil.Callee(info, x).(*types.Func); fn != nil && chain[fn] {
					used++
				}
			}
			return true
		})
	}
	if bad == 0 {
		r.OK("gorm", "chain-method calls", token.NoPos, fmt.Sprintf("%d calls, every result used", used))
	}
	if used < 20 {
		r.Unknown("gorm", "chain-method calls", token.NoPos, "fewer chain-method calls found than expected; rule lost its anchor")
	}
}

// C13.assoc-distinct: when a slice of parents is saved, the belongs-to / has-one records several parents share are
// saved (and their hooks fired) ONCE: the savers build, next to the full list used to set the references, a
// de-duplicated list filled under an identity-map test, and that list is what saveAssociations receives.
func checkC13AssocDistinct(c *Ctx) {
	p := c.P
	r := c.Rule("C13.assoc-distinct", "association savers hand saveAssociations the de-duplicated list wherever they build one", 2)
	saveFn := p.FuncDecl(pkgCallbacks, "saveAssociations").Obj
	for _, rootName := range []string{"SaveBeforeAssociations", "SaveAfterAssociations"} {
		root := p.FuncDecl(pkgCallbacks, rootName)
		for _, f := range p.AllLits(root) {
			info := f.Pkg.TypesInfo
			parents := parentMap(f.Body)
			// distinct lists: X = reflect.Append(X, ..) under an `if` whose condition indexes a map[string]bool
			type dl struct {
				obj   types.Object
				scope ast.Node // enclosing case clause / block
			}
			var dls []dl
			relT := types.NewPointer(p.Named(pkgSchema, "Relationship"))
			scopeOf := func(n ast.Node) ast.Node {
				// the arm handling one kind of destination for one relation: the nearest case clause, else the loop over
				// the relations of one kind
				for cur := parents[n]; cur != nil; cur = parents[cur] {
					switch x := cur.(type) {
					case *ast.CaseClause:
						return x
					case *ast.RangeStmt:
						if id, ok := x.Value.(*ast.Ident); ok && types.Identical(info.TypeOf(id), relT) {
							return x
						}
					}
				}
				return f.Body
			}
			ast.Inspect(f.Body, func(n ast.Node) bool {
				as, ok := n.(*ast.AssignStmt)
				if !ok || len(as.Lhs) != 1 || len(as.Rhs) != 1 {
					return true
				}
				id, ok := unparen(as.Lhs[0]).(*ast.Ident)
				ce, ok2 := unparen(as.Rhs[0]).(*ast.CallExpr)
				if !ok || !ok2 || calleeName(info, ce) != "reflect.Append" {
					return true
				}
				for cur := parents[as]; cur != nil; cur = parents[cur] {
					ifs, ok := cur.(*ast.IfStmt)
					if !ok {
						continue
					}
					dedupe := false
					ast.Inspect(ifs.Cond, func(m ast.Node) bool {
						if ix, ok := m.(*ast.IndexExpr); ok {
							if mt, ok := info.TypeOf(ix.X).Underlying().(*types.Map); ok {
								if b, ok := mt.Elem().Underlying().(*types.Basic); ok && b.Kind() == types.Bool {
									dedupe = true
								}
							}
						}
						return true
					})
					if dedupe {
						dls = append(dls, dl{info.ObjectOf(id), scopeOf(as)})
						break
					}
				}
				return true
			})
			for _, call := range callsIn(f) {
				if fn, _ := typeutil.Callee(info, call).(*types.Func); fn != saveFn || len(call.Args) < 3 {
					continue
				}
				sc := scopeOf(call)
				for _, d := range dls {
					if d.scope != sc {
						continue
					}
					c.Touch(root)
					aid, ok := unparen(call.Args[2]).(*ast.Ident)
					r.Check(ok && info.ObjectOf(aid) == d.obj, f.Name(), "records saved for a slice of parents", call.Pos(), "the de-duplicated list "+d.obj.Name(), "saveAssociations receives `"+types.ExprString(call.Args[2])+"` although a de-duplicated list ("+d.obj.Name()+") was built next to it: a record shared by several parents is saved once per parent and its hooks fire that many times")
				}
			}
		}
	}
}

// C14.tx-nil-guard: in prepared-statement mode a failed Begin still hands out a PreparedStmtTX whose Tx holds a TYPED
// nil *sql.Tx (the interface is non-nil); "a clean error" for Commit/Rollback on it needs the reflect IsNil test that
// (*DB).Commit/Rollback also make.  Decided with guard facts: every forward to the wrapped transaction's Commit /
// Rollback in PreparedStmtTX is under the fact that reflect.ValueOf(tx.Tx).IsNil() is false.
func checkC14TxNilGuard(c *Ctx) {
	p := c.P
	r := c.Rule("C14.tx-nil-guard", "PreparedStmtTX.Commit/Rollback forward to the wrapped transaction only when it is not a typed nil", 2)
	for _, name := range []string{"Commit", "Rollback"} {
		f := p.MethodDecl(pkgGorm, "PreparedStmtTX", name)
		c.Touch(f)
		info := f.Pkg.TypesInfo
		gs := p.Guards(f, nil)
		n := 0
		for _, call := range callsIn(f) {
			fn, _ := typeutil.Callee(info, call).(*types.Func)
			k, _, ok := p.driverCallee(fn)
			if !ok || !((name == "Commit" && k == DrvCommit) || (name == "Rollback" && k == DrvRollback)) {
				continue
			}
			n++
			facts, live := gs.At(call.Pos())
			okg := false
			for fct := range facts {
				if strings.HasPrefix(fct, "F:") && strings.Contains(fct, "IsNil()") {
					okg = true
				}
			}
			r.Check(!live || okg, f.Name(), "forward to the wrapped transaction", call.Pos(), "under !reflect.ValueOf(tx.Tx).IsNil()", "PreparedStmtTX."+name+" calls the wrapped transaction without the typed-nil test: after a failed Begin in prepared-statement mode (the wrapper holds a typed nil *sql.Tx) "+name+" panics with a nil dereference instead of returning an error")
		}
		if n == 0 {
			r.Bad(f.Name(), "forward", f.Body.Pos(), "PreparedStmtTX."+name+" no longer forwards to the wrapped transaction")
		}
	}
}

// C16.donothing-wins: an OnConflict rule with DoNothing set leaves colliding rows untouched whatever else the rule
// carries.  Decided by truth table in clause.OnConflict.Build: the guard of WriteString("DO NOTHING") is true for
// every assignment of its atoms in which onConflict.DoNothing is true.
func checkC16DoNothingWins(c *Ctx) {
	p := c.P
	r := c.Rule("C16.donothing-wins", "OnConflict.Build renders DO NOTHING whenever DoNothing is set", 1)
	f := p.MethodDecl(pkgClause, "OnConflict", "Build")
	c.Touch(f)
	info := f.Pkg.TypesInfo
	recv := recvName(f)
	n := 0
	ast.Inspect(f.Body, func(x ast.Node) bool {
		ifs, ok := x.(*ast.IfStmt)
		if !ok {
			return true
		}
		writes := false
		for _, st := range ifs.Body.List {
			ast.Inspect(st, func(m ast.Node) bool {
				if ce, ok := m.(*ast.CallExpr); ok && len(ce.Args) == 1 {
					if s, ok := constString(info, ce.Args[0]); ok && strings.TrimSpace(s) == "DO NOTHING" {
						writes = true
					}
				}
				return true
			})
		}
		if !writes {
			return true
		}
		n++
		bf := boolTable(info, ifs.Cond)
		atom := recv + ".DoNothing"
		okf := false
		if bf.has(atom) {
			okf, _ = bf.forAll(map[string]bool{atom: true}, true)
		}
		r.Check(okf, f.Name(), "DO NOTHING arm", ifs.Pos(), "taken for every rule with DoNothing set", "OnConflict.Build renders DO NOTHING only when further conditions hold besides DoNothing: a rule with DoNothing set and assignments present (or UpdateAll expanded) becomes DO UPDATE SET ... and colliding rows are overwritten")
		return true
	})
	if n == 0 {
		r.Bad(f.Name(), "DO NOTHING arm", f.Body.Pos(), "OnConflict.Build has no DO NOTHING arm; rule lost its anchor")
	}
}

// C17.side-writers: the Before/After request of a registration record is written by the registration API
// ((*callback).Before/After/Replace and the processor's constructors) and, under the keep-constraints rule, by the
// sorter.  Nothing else - in particular not the purge of removed callbacks - edits the requests of surviving records.
func checkC17SideWriters(c *Ctx) {
	p := c.P
	r := c.Rule("C17.side-writers", "callback.before/after are written only by Before/After/Replace, the processor's constructors and the sorter", 4)
	cbT := p.Named(pkgGorm, "callback")
	beforeF, afterF := p.Field(cbT, "before"), p.Field(cbT, "after")
	allowed := map[string]bool{"gorm.(*callback).Before": true, "gorm.(*callback).After": true, "gorm.(*callback).Replace": true, "gorm.sortCallbacks": true}
	for _, f := range p.FuncsOf(pkgGorm, pkgCallbacks) {
		if f.Body == nil {
			continue
		}
		info := f.Pkg.TypesInfo
		ast.Inspect(f.Body, func(n ast.Node) bool {
			if fl, ok := n.(*ast.FuncLit); ok && fl != f.Lit {
				return false
			}
			as, ok := n.(*ast.AssignStmt)
			if !ok {
				return true
			}
			for _, l := range as.Lhs {
				sel, ok := unparen(l).(*ast.SelectorExpr)
				if !ok || !(fieldSel(info, sel, beforeF) || fieldSel(info, sel, afterF)) {
					continue
				}
				c.Touch(f)
				rootName := rootFunc(f).Name()
				r.Check(allowed[rootName], f.Name(), "writes ."+sel.Sel.Name, as.Pos(), "registration API / sorter", "the Before/After request of a registration record is rewritten in "+f.Name()+": a surviving callback loses (or changes) the side it asked for - e.g. after Remove(N) and a new Register(N) a callback registered After(N) runs before N")
			}
			return true
		})
	}
}

// C19.batch-tx: ToSQL and DryRun sessions run with SkipDefaultTransaction; CreateInBatches opens its explicit
// transaction around several batches only when the default transaction is wanted.  Decided with guard facts: the
// call of (*DB).Transaction in CreateInBatches is under the fact that SkipDefaultTransaction is false.
func checkC19BatchTx(c *Ctx) {
	p := c.P
	r := c.Rule("C19.batch-tx", "CreateInBatches opens its explicit transaction only under !SkipDefaultTransaction (ToSQL / DryRun sessions begin nothing)", 1)
	f := p.MethodDecl(pkgGorm, "DB", "CreateInBatches")
	c.Touch(f)
	info := f.Pkg.TypesInfo
	txM := p.Method(p.Named(pkgGorm, "DB"), "Transaction")
	gs := p.Guards(f, nil)
	n := 0
	for _, call := range callsIn(f) {
		if fn, _ := typeutil.Callee(info, call).(*types.Func); fn != txM {
			continue
		}
		n++
		facts, live := gs.At(call.Pos())
		okg := false
		for fct := range facts {
			if strings.HasPrefix(fct, "F:") && strings.HasSuffix(fct, "SkipDefaultTransaction") {
				okg = true
			}
		}
		r.Check(!live || okg, f.Name(), "explicit transaction around the batches", call.Pos(), "only under !SkipDefaultTransaction", "CreateInBatches wraps its batches in Transaction(...) without testing SkipDefaultTransaction: a ToSQL / DryRun batch insert with more rows than the batch size begins and commits a real transaction on the driver")
	}
	if n == 0 {
		r.OK(f.Name(), "no explicit transaction", f.Body.Pos(), "CreateInBatches does not call Transaction")
	}
}

// C20.index-lookup: HasIndex / CreateIndex resolve the name they are given through Schema.LookIndex - an index name,
// or the Go name of an indexed field.  Column names are not a third key space (an index may be NAMED like a column of
// another index).  Decided: every comparison with the parameter in LookIndex compares a `.Name` field.
func checkC20IndexLookup(c *Ctx) {
	p := c.P
	r := c.Rule("C20.index-lookup", "Schema.LookIndex matches index names and Go field names only", 2)
	f := p.MethodDecl(pkgSchema, "Schema", "LookIndex")
	c.Touch(f)
	info := f.Pkg.TypesInfo
	var param types.Object
	if ps := f.Decl.Type.Params.List; len(ps) == 1 && len(ps[0].Names) == 1 {
		param = info.Defs[ps[0].Names[0]]
	}
	n := 0
	ast.Inspect(f.Body, func(x ast.Node) bool {
		be, ok := x.(*ast.BinaryExpr)
		if !ok || be.Op != token.EQL {
			return true
		}
		var other ast.Expr
		if id, ok := unparen(be.Y).(*ast.Ident); ok && info.Uses[id] == param {
			other = be.X
		} else if id, ok := unparen(be.X).(*ast.Ident); ok && info.Uses[id] == param {
			other = be.Y
		}
		if other == nil {
			return true
		}
		n++
		sel, ok := unparen(other).(*ast.SelectorExpr)
		r.Check(ok && sel.Sel.Name == "Name", f.Name(), "name compared with "+types.ExprString(other), be.Pos(), "an index name or a Go field name", "LookIndex also matches `"+types.ExprString(other)+"`: an index NAMED like the column of another index resolves to that other index - HasIndex reports it as present and AutoMigrate never creates it")
		return true
	})
	if n == 0 {
		r.Bad(f.Name(), "comparisons", f.Body.Pos(), "LookIndex no longer compares its parameter; rule lost its anchor")
	}
}

// receiverIsHandle: the receiver of the chain call is a local whose value was last produced by a handle maker
// (Session / WithContext / Debug / Begin): such a handle copies its statement on the next chain call, so a discarded
// result is a lost effect.  A receiver produced by a chain method (Model, Where, ...) or getInstance is an instance
// under construction - chain calls extend it in place and may stand alone.
func receiverIsHandle(p *Program, f *FuncSrc, info *types.Info, ce *ast.CallExpr) bool {
	sel, ok := ce.Fun.(*ast.SelectorExpr)
	if !ok {
		return false
	}
	id, ok := unparen(sel.X).(*ast.Ident)
	if !ok {
		return false
	}
	obj := info.ObjectOf(id)
	isHandleMaker := func(e ast.Expr) bool {
		if rc, ok := unparen(e).(*ast.CallExpr); ok {
			if rs, ok := rc.Fun.(*ast.SelectorExpr); ok {
				switch rs.Sel.Name {
				case "Session", "WithContext", "Debug", "Begin":
					return true
				}
			}
		}
		return false
	}
	// reaching definitions of the receiver at the call, over the CFG of the function that contains it
	g := p.CFG(f)
	if g == nil {
		return false
	}
	preds := map[*cfg.Block][]*cfg.Block{}
	for _, b := range g.Blocks {
		for _, sc := range b.Succs {
			preds[sc] = append(preds[sc], b)
		}
	}
	defOf := func(n ast.Node) (ast.Expr, bool) {
		var rhs ast.Expr
		found := false
		ast.Inspect(n, func(m ast.Node) bool {
			if _, ok := m.(*ast.FuncLit); ok {
				return false
			}
			if as, ok := m.(*ast.AssignStmt); ok && len(as.Lhs) == len(as.Rhs) {
				for i, l := range as.Lhs {
					if lid, ok := unparen(l).(*ast.Ident); ok && info.ObjectOf(lid) == obj {
						rhs, found = as.Rhs[i], true
					}
				}
			}
			return true
		})
		return rhs, found
	}
	var start *cfg.Block
	startIdx := -1
	for _, b := range g.Blocks {
		for i, n := range b.Nodes {
			if containsNode(n, ce) {
				start, startIdx = b, i
			}
		}
	}
	if start == nil {
		return false
	}
	handle := false
	seen := map[*cfg.Block]bool{}
	var back func(b *cfg.Block, from int)
	back = func(b *cfg.Block, from int) {
		for i := from; i >= 0; i-- {
			if rhs, ok := defOf(b.Nodes[i]); ok {
				if isHandleMaker(rhs) {
					handle = true
				}
				return
			}
		}
		for _, pb := range preds[b] {
			if !seen[pb] {
				seen[pb] = true
				back(pb, len(pb.Nodes)-1)
			}
		}
	}
	back(start, startIdx-1)
	return handle
}

// ---- round 11 ----

// C01.merge-unconditional (also C02): when a list-carrying clause (WHERE, GROUP BY/HAVING, ORDER BY, RETURNING) is
// merged into an existing one, the EARLIER list - with the bound values of its expressions - is kept whatever the
// new clause carries.  Decided: in each MergeClause, the store that builds <recv>.<List> from the earlier clause's
// list is not nested in a condition that reads the receiver's own lists (it may depend on the earlier list only).
func checkMergeUnconditional(c *Ctx, r *Rule) {
	p := c.P
	// Returning is left out: an empty column list there means RETURNING * - a new clause without columns legitimately
	// supersedes the earlier list, and the clause carries no bound values
	lists := map[string][]string{"Where": {"Exprs"}, "GroupBy": {"Columns", "Having"}, "OrderBy": {"Columns"}}
	var tnames []string
	for n := range lists {
		tnames = append(tnames, n)
	}
	sort.Strings(tnames)
	for _, tn := range tnames {
		f := p.MethodDecl(pkgClause, tn, "MergeClause")
		c.Touch(f)
		info := f.Pkg.TypesInfo
		recv := recvName(f)
		parents := parentMap(f.Body)
		for _, lf := range lists[tn] {
			var store *ast.AssignStmt
			ast.Inspect(f.Body, func(n ast.Node) bool {
				as, ok := n.(*ast.AssignStmt)
				if !ok || len(as.Lhs) != 1 {
					return true
				}
				if sel, ok := unparen(as.Lhs[0]).(*ast.SelectorExpr); ok && sel.Sel.Name == lf {
					if id, ok := unparen(sel.X).(*ast.Ident); ok && id.Name == recv {
						store = as
					}
				}
				return true
			})
			if store == nil {
				r.Bad(f.Name(), "merge of "+lf, f.Body.Pos(), "MergeClause no longer builds "+recv+"."+lf+" from the earlier clause")
				continue
			}
			bad := ""
			for cur := parents[store]; cur != nil; cur = parents[cur] {
				ifs, ok := cur.(*ast.IfStmt)
				if !ok {
					continue
				}
				ast.Inspect(ifs.Cond, func(m ast.Node) bool {
					if sel, ok := m.(*ast.SelectorExpr); ok {
						if id, ok := unparen(sel.X).(*ast.Ident); ok && id.Name == recv && info.Uses[id] != nil {
							bad = types.ExprString(ifs.Cond)
						}
					}
					return true
				})
			}
			r.Check(bad == "", f.Name(), "earlier "+lf+" kept", store.Pos(), "whatever the new clause carries", tn+".MergeClause keeps the earlier clause's "+lf+" only under `"+bad+"`, a condition on the NEW clause: a later call that carries none (e.g. Group after Having) drops the earlier expressions together with their bound values")
		}
	}
}

// C02.inline-and: the inline conditions of a finisher are ANDed onto the chain's conditions - they are merged with
// AddClause.  AddClauseIfNotExists would silently drop them whenever the chain already has a WHERE.  Decided: no
// clause.Where reaches AddClauseIfNotExists in packages gorm and callbacks.
func checkC02InlineAnd(c *Ctx) {
	p := c.P
	r := c.Rule("C02.inline-and", "WHERE conditions are always merged (AddClause), never added only-if-absent", 10)
	stmtT := p.Named(pkgGorm, "Statement")
	addClause := p.Method(stmtT, "AddClause")
	addIfNot := p.Method(stmtT, "AddClauseIfNotExists")
	whereT := p.Named(pkgClause, "Where")
	for _, f := range p.FuncsOf(pkgGorm, pkgCallbacks) {
		if f.Body == nil {
			continue
		}
		info := f.Pkg.TypesInfo
		for _, call := range callsIn(f) {
			fn, _ := typeutil.Callee(info, call).(*types.Func)
			if (fn != addClause && fn != addIfNot) || len(call.Args) != 1 {
				continue
			}
			if !types.Identical(info.TypeOf(call.Args[0]), whereT) {
				continue
			}
			c.Touch(f)
			r.Check(fn == addClause, f.Name(), "WHERE added", call.Pos(), "merged with the statement's conditions", "a WHERE clause is added with AddClauseIfNotExists: when the chain already has conditions, this one (e.g. the inline condition of Delete) is silently dropped and the statement matches more rows")
		}
	}
}

// C03.value-owned: what a serializer's Value hands to database/sql is read by the driver AFTER Value returned (all
// arguments of a statement are converted first).  It must not alias memory that the function gives back to a pool.
// Decided for all repository functions: a function that Puts a local into a sync.Pool does not return an expression
// that mentions that local.
func checkC03ValueOwned(c *Ctx) {
	p := c.P
	r := c.Rule("C03.value-owned", "no function returns memory of an object it has handed back to a sync.Pool", 1)
	poolT := p.StdNamed("sync", "Pool")
	n := 0
	for _, f := range p.FuncsOf(pkgSchema, pkgGorm, pkgCallbacks, pkgClause, pkgMigrator) {
		if f.Body == nil {
			continue
		}
		info := f.Pkg.TypesInfo
		var puts []types.Object
		ast.Inspect(f.Body, func(x ast.Node) bool {
			if fl, ok := x.(*ast.FuncLit); ok && fl != f.Lit {
				return false
			}
			ce, ok := x.(*ast.CallExpr)
			if !ok || len(ce.Args) != 1 {
				return true
			}
			sel, ok := ce.Fun.(*ast.SelectorExpr)
			if !ok || sel.Sel.Name != "Put" {
				return true
			}
			if derefNamed(info.TypeOf(sel.X)) != poolT {
				// FieldNewValuePool interface of schema
				if nm := namedOf(info.TypeOf(sel.X)); nm != pkgSchema+".FieldNewValuePool" {
					return true
				}
			}
			if id := rootIdentOf(ce.Args[0]); id != nil {
				if o := info.ObjectOf(id); o != nil {
					puts = append(puts, o)
				}
			}
			return true
		})
		if len(puts) == 0 {
			continue
		}
		n++
		bad := ""
		ast.Inspect(f.Body, func(x ast.Node) bool {
			if fl, ok := x.(*ast.FuncLit); ok && fl != f.Lit {
				return false
			}
			rs, ok := x.(*ast.ReturnStmt)
			if !ok {
				return true
			}
			for _, res := range rs.Results {
				ast.Inspect(res, func(m ast.Node) bool {
					if id, ok := m.(*ast.Ident); ok {
						for _, o := range puts {
							if info.Uses[id] == o {
								bad = types.ExprString(res)
							}
						}
					}
					return true
				})
			}
			return true
		})
		c.Touch(f)
		r.Check(bad == "", f.Name(), "pooled object", f.Body.Pos(), "nothing of it is returned", "the function returns `"+bad+"` although it hands that object back to a pool: the caller (for a serializer's Value: database/sql, which converts every argument before it runs the statement) reads memory the next user of the pool is already overwriting")
	}
	if n == 0 {
		r.Unknown("schema", "pools", token.NoPos, "no function putting an object back into a pool found")
	}
}

// C04.err-unchanged: "errors and panics propagate to the caller unchanged": the clean-up of a Transaction block
// (its deferred functions) only READS the named result; the result is assigned from the block's function, from
// Commit and from the failure to begin - never from the rollback that the clean-up performs.
func checkC04ErrUnchanged(c *Ctx) {
	p := c.P
	r := c.Rule("C04.err-unchanged", "the deferred clean-up of Transaction never assigns the named result", 2)
	f := p.MethodDecl(pkgGorm, "DB", "Transaction")
	c.Touch(f)
	info := f.Pkg.TypesInfo
	var res types.Object
	if f.Decl.Type.Results != nil {
		for _, fl := range f.Decl.Type.Results.List {
			for _, nm := range fl.Names {
				res = info.Defs[nm]
			}
		}
	}
	if res == nil {
		r.Bad(f.Name(), "named result", f.Body.Pos(), "Transaction has no named error result any more; rule lost its anchor")
		return
	}
	ast.Inspect(f.Body, func(n ast.Node) bool {
		ds, ok := n.(*ast.DeferStmt)
		if !ok {
			return true
		}
		bad := token.NoPos
		ast.Inspect(ds, func(m ast.Node) bool {
			if as, ok := m.(*ast.AssignStmt); ok {
				for _, l := range as.Lhs {
					if id, ok := unparen(l).(*ast.Ident); ok && info.ObjectOf(id) == res {
						bad = as.Pos()
					}
				}
			}
			return true
		})
		pos := ds.Pos()
		if bad != token.NoPos {
			pos = bad
		}
		r.Check(bad == token.NoPos, f.Name(), "deferred clean-up", pos, "reads the result only", "the deferred clean-up of a Transaction block assigns the named result: the error (or commit failure) the caller should receive is replaced by the outcome of the rollback - e.g. sql.ErrTxDone after a failed COMMIT")
		return true
	})
}

// C05.nested-unconditional: the error of a nested finisher (the saves of associated records) is recorded on the
// operation whenever it is non-nil - not only when it differs from some other error value.  Decided in package
// callbacks: where the .Error of a finisher call is bound by an `if` initialiser, the condition is a plain nil test
// of it.
func checkC05NestedUnconditional(c *Ctx) {
	p := c.P
	r := c.Rule("C05.nested-unconditional", "the error of a nested finisher is recorded whenever it is non-nil (no comparison with another error decides)", 1)
	dbT := p.Named(pkgGorm, "DB")
	errF := p.Field(dbT, "Error")
	fins := map[*types.Func]bool{}
	for fn := range finisherSet(p) {
		if o, ok := fn.Object().(*types.Func); ok {
			fins[o] = true
		}
	}
	n := 0
	for _, f := range p.FuncsOf(pkgCallbacks) {
		if f.Body == nil {
			continue
		}
		info := f.Pkg.TypesInfo
		isFinErr := func(e ast.Expr) bool {
			sel, ok := unparen(e).(*ast.SelectorExpr)
			if !ok || !fieldSel(info, sel, errF) {
				return false
			}
			ce, ok := unparen(sel.X).(*ast.CallExpr)
			if !ok {
				return false
			}
			fn, _ := typeutil.Callee(info, ce).(*types.Func)
			return fn != nil && fins[fn]
		}
		ast.Inspect(f.Body, func(x ast.Node) bool {
			if fl, ok := x.(*ast.FuncLit); ok && fl != f.Lit {
				return false
			}
			switch y := x.(type) {
			case *ast.IfStmt:
				as, ok := y.Init.(*ast.AssignStmt)
				if !ok || len(as.Lhs) != 1 || len(as.Rhs) != 1 || !isFinErr(as.Rhs[0]) {
					return true
				}
				id, ok := as.Lhs[0].(*ast.Ident)
				if !ok {
					return true
				}
				n++
				c.Touch(f)
				okc := false
				if be, ok := unparen(y.Cond).(*ast.BinaryExpr); ok && (be.Op == token.NEQ || be.Op == token.EQL) {
					l, r2 := unparen(be.X), unparen(be.Y)
					isV := func(e ast.Expr) bool { i, ok := e.(*ast.Ident); return ok && i.Name == id.Name }
					isNil := func(e ast.Expr) bool { i, ok := e.(*ast.Ident); return ok && i.Name == "nil" }
					okc = (isV(l) && isNil(r2)) || (isNil(l) && isV(r2))
				}
				r.Check(okc, f.Name(), "error of a nested finisher", y.Pos(), "tested against nil only", "the error of a nested finisher is recorded only under `"+types.ExprString(y.Cond)+"`: when that comparison is false for a real failure (e.g. the nested call ran on the very handle it is compared with) the failure of an association save is lost and the operation commits")
			case *ast.CallExpr:
				if fn, _ := typeutil.Callee(info, y).(*types.Func); fn != nil && fn.Name() == "AddError" && len(y.Args) == 1 && isFinErr(y.Args[0]) {
					n++
					c.Touch(f)
					r.OK(f.Name(), "error of a nested finisher", y.Pos(), "handed to AddError directly")
				}
			}
			return true
		})
	}
	if n == 0 {
		r.Unknown("callbacks", "nested finishers", token.NoPos, "no nested finisher error found in package callbacks")
	}
}

// C07.cache-append: a value loaded from a shared cache (sync.Map Load / LoadOrStore) is read-only for everybody who
// loads it; appending to a slice obtained from it writes into a backing array other goroutines are reading.
// Decided on SSA for all repository packages.
func checkC07CacheAppend(c *Ctx) {
	p := c.P
	r := c.Rule("C07.cache-append", "slices loaded from a sync.Map cache are never appended to or stored into", 3)
	p.SSA()
	isLoad := func(v ssa.Value) bool {
		call, ok := v.(*ssa.Call)
		if !ok {
			return false
		}
		sc := call.Call.StaticCallee()
		if sc == nil || sc.Signature.Recv() == nil {
			return false
		}
		return namedOf(sc.Signature.Recv().Type()) == "sync.Map" && (sc.Name() == "Load" || sc.Name() == "LoadOrStore")
	}
	returnsCache := map[*ssa.Function]bool{} // functions that hand a loaded cache value to their caller
	var fromCache func(v ssa.Value, seen map[ssa.Value]bool) bool
	fromCache = func(v ssa.Value, seen map[ssa.Value]bool) bool {
		if v == nil || seen[v] {
			return false
		}
		seen[v] = true
		if isLoad(v) {
			return true
		}
		switch x := v.(type) {
		case *ssa.Call:
			if sc := x.Call.StaticCallee(); sc != nil && returnsCache[sc] {
				return true
			}
		case *ssa.Extract:
			return fromCache(x.Tuple, seen)
		case *ssa.TypeAssert:
			return fromCache(x.X, seen)
		case *ssa.Phi:
			for _, e := range x.Edges {
				if fromCache(e, seen) {
					return true
				}
			}
		case *ssa.Slice:
			return fromCache(x.X, seen)
		case *ssa.ChangeType:
			return fromCache(x.X, seen)
		case *ssa.UnOp:
			if x.Op == token.MUL {
				if al, ok := x.X.(*ssa.Alloc); ok {
					for _, st := range cellStores(al) {
						if fromCache(st, seen) {
							return true
						}
					}
				}
				// a field of a local struct: what was stored into that field
				if fa, ok := x.X.(*ssa.FieldAddr); ok {
					if al, ok := fa.X.(*ssa.Alloc); ok && al.Referrers() != nil {
						for _, ref := range *al.Referrers() {
							if fa2, ok := ref.(*ssa.FieldAddr); ok && fa2.Field == fa.Field && fa2.Referrers() != nil {
								for _, r2 := range *fa2.Referrers() {
									if st, ok := r2.(*ssa.Store); ok && st.Addr == ssa.Value(fa2) && fromCache(st.Val, seen) {
										return true
									}
								}
							}
						}
					}
				}
			}
		}
		return false
	}
	for changed := true; changed; {
		changed = false
		for _, fn := range p.SSAFuncs() {
			if fn.Blocks == nil || returnsCache[fn] {
				continue
			}
			forEachInstrFlat(fn, func(in ssa.Instruction) {
				if ret, ok := in.(*ssa.Return); ok {
					for _, res := range ret.Results {
						if _, isSl := res.Type().Underlying().(*types.Slice); isSl && fromCache(res, map[ssa.Value]bool{}) && !returnsCache[fn] {
							returnsCache[fn] = true
							changed = true
						}
					}
				}
			})
		}
	}
	for _, fn := range p.SSAFuncs() {
		if fn.Blocks == nil {
			continue
		}
		loads, bad := 0, 0
		forEachInstrFlat(fn, func(in ssa.Instruction) {
			if v, ok := in.(ssa.Value); ok && isLoad(v) {
				loads++
			}
			switch x := in.(type) {
			case *ssa.Call:
				if bi, ok := x.Call.Value.(*ssa.Builtin); ok && bi.Name() == "append" && len(x.Call.Args) > 0 {
					if _, isSl := x.Call.Args[0].Type().Underlying().(*types.Slice); isSl && fromCache(x.Call.Args[0], map[ssa.Value]bool{}) {
						bad++
						r.Bad(ssaFuncName(fn), "append onto a cached slice", x.Pos(), "a slice loaded from a sync.Map cache is appended to: with spare capacity the append writes into the backing array every other goroutine loading the same entry reads")
					}
				}
			case *ssa.Store:
				if ia, ok := x.Addr.(*ssa.IndexAddr); ok && fromCache(ia.X, map[ssa.Value]bool{}) {
					if _, isSl := ia.X.Type().Underlying().(*types.Slice); isSl {
						bad++
						r.Bad(ssaFuncName(fn), "store into a cached slice", x.Pos(), "an element of a slice loaded from a sync.Map cache is overwritten")
					}
				}
			}
		})
		if loads > 0 && bad == 0 {
			r.OK(ssaFuncName(fn), "loads from a shared cache", fn.Pos(), "the loaded value is only read")
		}
	}
}

// C09.scopes-drained: a scope may register further scopes (d.Scopes(a, b)); the conditions they add are conditions
// of the chain.  processor.Execute therefore runs scopes UNTIL NONE ARE LEFT before it builds the statement and
// before the missing-WHERE guard looks at it.  Decided: the call of executeScopes in Execute is the body of a loop
// whose condition reads Statement.scopes.
func checkC09ScopesDrained(c *Ctx) {
	p := c.P
	r := c.Rule("C09.scopes-drained", "processor.Execute runs scopes in a loop until none are registered", 1)
	f := p.MethodDecl(pkgGorm, "processor", "Execute")
	c.Touch(f)
	info := f.Pkg.TypesInfo
	es := p.Method(p.Named(pkgGorm, "DB"), "executeScopes")
	scopesF := p.Field(p.Named(pkgGorm, "Statement"), "scopes")
	parents := parentMap(f.Body)
	n := 0
	for _, call := range callsIn(f) {
		if fn, _ := typeutil.Callee(info, call).(*types.Func); fn != es {
			continue
		}
		n++
		okl := false
		for cur := parents[call]; cur != nil; cur = parents[cur] {
			if fs, ok := cur.(*ast.ForStmt); ok {
				// `for len(scopes) > 0 {..}` or `for { if len(scopes) == 0 { break } .. }`
				var conds []ast.Node
				if fs.Cond != nil {
					conds = append(conds, fs.Cond)
				} else {
					ast.Inspect(fs.Body, func(m ast.Node) bool {
						if ifs, ok := m.(*ast.IfStmt); ok {
							hasBreak := false
							ast.Inspect(ifs.Body, func(q ast.Node) bool {
								if br, ok := q.(*ast.BranchStmt); ok && br.Tok == token.BREAK {
									hasBreak = true
								}
								return true
							})
							if hasBreak {
								conds = append(conds, ifs.Cond)
							}
						}
						return true
					})
				}
				for _, cnd := range conds {
					ast.Inspect(cnd, func(m ast.Node) bool {
						if sel, ok := m.(*ast.SelectorExpr); ok && fieldSel(info, sel, scopesF) {
							okl = true
						}
						return true
					})
				}
			}
		}
		r.Check(okl, f.Name(), "scopes run before the statement is built", call.Pos(), "in a loop over Statement.scopes", "Execute runs the registered scopes once instead of until none are left: scopes registered by a scope never run, their conditions are missing - a chain whose only condition sits in a nested scope is rejected with ErrMissingWhereClause, or runs without that condition")
	}
	if n == 0 {
		r.Bad(f.Name(), "scopes", f.Body.Pos(), "Execute no longer runs scopes; rule lost its anchor")
	}
}

// C11.unscoped-nested: every statement a preload runs - also below an association-joined relation - is derived through
// preloadDB; it carries the Unscoped of the handle it is derived from, unconditionally.
func checkC11UnscopedNested(c *Ctx) {
	p := c.P
	r := c.Rule("C11.unscoped-nested", "preloadDB copies Statement.Unscoped from the handle it derives the preload session from", 1)
	f := p.FuncDecl(pkgCallbacks, "preloadDB")
	c.Touch(f)
	info := f.Pkg.TypesInfo
	unscopedF := p.Field(p.Named(pkgGorm, "Statement"), "Unscoped")
	var param types.Object
	if ps := f.Decl.Type.Params.List; len(ps) > 0 && len(ps[0].Names) > 0 {
		param = info.Defs[ps[0].Names[0]]
	}
	okc := false
	var pos token.Pos = f.Body.Pos()
	for _, st := range f.Body.List {
		fromParam := func(e ast.Expr) bool {
			rs, ok := unparen(e).(*ast.SelectorExpr)
			if !ok || !fieldSel(info, rs, unscopedF) {
				return false
			}
			id := rootIdentOf(rs.X)
			return id != nil && info.Uses[id] == param
		}
		// the session is fresh (NewDB): `if db.Statement.Unscoped { tx.Statement.Unscoped = true }` is the same copy
		if ifs, ok := st.(*ast.IfStmt); ok && ifs.Init == nil && fromParam(ifs.Cond) && len(ifs.Body.List) == 1 {
			if as, ok := ifs.Body.List[0].(*ast.AssignStmt); ok && len(as.Lhs) == 1 && len(as.Rhs) == 1 {
				if ls, ok := unparen(as.Lhs[0]).(*ast.SelectorExpr); ok && fieldSel(info, ls, unscopedF) {
					if b, isC := constBool(info, as.Rhs[0]); isC && b {
						okc, pos = true, as.Pos()
					}
				}
			}
			continue
		}
		as, ok := st.(*ast.AssignStmt)
		if !ok || len(as.Lhs) != 1 || len(as.Rhs) != 1 {
			continue
		}
		if ls, ok := unparen(as.Lhs[0]).(*ast.SelectorExpr); ok && fieldSel(info, ls, unscopedF) && fromParam(as.Rhs[0]) {
			okc, pos = true, as.Pos()
		}
	}
	r.Check(okc, f.Name(), "Unscoped of the preload session", pos, "copied from the deriving handle, unconditionally", "preloadDB no longer copies Statement.Unscoped from the handle it derives from: preloads below a joined relation run scoped although the query is Unscoped - soft-deleted rows of that level are missing")
}

// C13.rollback-on-error: "a hook error is returned ... and everything the operation did is rolled back" - whatever the
// error is.  Decided with guard facts in CommitOrRollbackTransaction: the Commit of the implicit transaction is under
// the fact that the operation's Error is nil.
func checkC13RollbackOnError(c *Ctx) {
	p := c.P
	r := c.Rule("C13.rollback-on-error", "the implicit transaction is committed only when the operation's Error is nil (every hook error rolls back)", 1)
	f := p.FuncDecl(pkgCallbacks, "CommitOrRollbackTransaction")
	c.Touch(f)
	info := f.Pkg.TypesInfo
	commitM := p.Method(p.Named(pkgGorm, "DB"), "Commit")
	gs := p.Guards(f, nil)
	n := 0
	for _, call := range callsIn(f) {
		if fn, _ := typeutil.Callee(info, call).(*types.Func); fn != commitM {
			continue
		}
		n++
		recv := canon(info, call.Fun.(*ast.SelectorExpr).X)
		facts, live := gs.At(call.Pos())
		okf := facts.Has("T:"+recv+".Error == nil") || facts.Has("F:"+recv+".Error != nil") || facts.Has("N:"+recv+".Error")
		r.Check(!live || okf, f.Name(), "commit of the implicit transaction", call.Pos(), "only under Error == nil", "CommitOrRollbackTransaction commits on a path where the operation's Error may be non-nil: a hook (or statement) error of that kind is returned to the caller while everything the operation wrote stays committed", "facts: "+strings.Join(facts.List(), ", "))
	}
	if n == 0 {
		r.Bad(f.Name(), "commit", f.Body.Pos(), "CommitOrRollbackTransaction no longer commits; rule lost its anchor")
	}
}

// C12.target-keys-kept: association Append/Replace save their targets with one batch INSERT ... ON CONFLICT; a target
// that already has a primary key keeps it only if the key column is part of that INSERT.  The per-field list of
// explicitly given default-column values is therefore allocated when the FIRST row that has such a value is met -
// whichever row that is: the allocation is guarded by the emptiness of the list itself, not by the row index.
func checkC12TargetKeysKept(c *Ctx) {
	p := c.P
	r := c.Rule("C12.target-keys-kept", "batch create: the list of explicitly given default-column values (e.g. keys of existing targets) is allocated on first need, not by row position", 1)
	f := p.FuncDecl(pkgCallbacks, "ConvertToCreateValues")
	c.Touch(f)
	info := f.Pkg.TypesInfo
	parents := parentMap(f.Body)
	n := 0
	ast.Inspect(f.Body, func(x ast.Node) bool {
		as, ok := x.(*ast.AssignStmt)
		if !ok || len(as.Lhs) != 1 || len(as.Rhs) != 1 {
			return true
		}
		ix, ok := unparen(as.Lhs[0]).(*ast.IndexExpr)
		if !ok {
			return true
		}
		mt, ok := info.TypeOf(ix.X).Underlying().(*types.Map)
		if !ok {
			return true
		}
		if _, isSl := mt.Elem().Underlying().(*types.Slice); !isSl {
			return true
		}
		ce, ok := unparen(as.Rhs[0]).(*ast.CallExpr)
		if !ok {
			return true
		}
		if id, ok := ce.Fun.(*ast.Ident); !ok || id.Name != "make" {
			return true
		}
		// inside a row loop?
		var loop *ast.ForStmt
		for cur := parents[as]; cur != nil && loop == nil; cur = parents[cur] {
			if fs, ok := cur.(*ast.ForStmt); ok {
				loop = fs
			}
		}
		if loop == nil {
			return true
		}
		n++
		m := canon(info, ix.X)
		okc := false
		if ifs, ok := parents[parents[as]].(*ast.IfStmt); ok && containsNode(ifs.Body, as) {
			// whenever the list is empty, the allocation runs - whatever else the condition mentions
			bf := boolTable(info, ifs.Cond)
			fixed := map[string]bool{}
			for _, a := range bf.atoms {
				if a == "len("+m+"["+canon(info, ix.Index)+"]) == 0" || a == m+"["+canon(info, ix.Index)+"] == nil" {
					fixed[a] = true
				}
			}
			if init, ok := ifs.Init.(*ast.AssignStmt); ok && len(init.Lhs) == 2 && len(init.Rhs) == 1 {
				if lx, ok := unparen(init.Rhs[0]).(*ast.IndexExpr); ok && canon(info, lx) == canon(info, ix) {
					if id, ok := init.Lhs[1].(*ast.Ident); ok {
						fixed[id.Name] = false
					}
				}
			}
			if len(fixed) > 0 {
				okc, _ = bf.forAll(fixed, true)
			}
		}
		r.Check(okc, f.Name(), "allocation of "+m+"[..]", as.Pos(), "runs whenever the list itself is still empty", "the per-field list of explicitly given values is allocated by row position (or unguarded) instead of on first need: when the first row has no value for a default column (a new target before an existing one), the column is left out of the INSERT for ALL rows - the existing target loses its key and a copy is inserted")
		return true
	})
	if n == 0 {
		r.Bad(f.Name(), "explicit default values", f.Body.Pos(), "ConvertToCreateValues no longer collects explicitly given default-column values per row; rule lost its anchor")
	}
}

// C14.begin-no-leak: PreparedStmtDB.BeginTx hands every transaction the driver began to its caller (wrapped), or
// rolls it back: no return after a Begin drops it.  Decided by path enumeration: on every path through the driver's
// BeginTx call, the return mentions the begun transaction or a Rollback of it precedes.
func checkC14BeginNoLeak(c *Ctx) {
	p := c.P
	r := c.Rule("C14.begin-no-leak", "PreparedStmtDB.BeginTx returns every transaction it began (or rolls it back)", 2)
	f := p.MethodDecl(pkgGorm, "PreparedStmtDB", "BeginTx")
	c.Touch(f)
	info := f.Pkg.TypesInfo
	type begun struct {
		as   *ast.AssignStmt
		objs map[types.Object]bool
		err  string
	}
	var begins []*begun
	ast.Inspect(f.Body, func(n ast.Node) bool {
		as, ok := n.(*ast.AssignStmt)
		if !ok || len(as.Rhs) != 1 || len(as.Lhs) != 2 {
			return true
		}
		if ce, ok := unparen(as.Rhs[0]).(*ast.CallExpr); ok {
			if sel, ok := ce.Fun.(*ast.SelectorExpr); ok && sel.Sel.Name == "BeginTx" {
				if id, ok := as.Lhs[0].(*ast.Ident); ok {
					b := &begun{as: as, objs: map[types.Object]bool{info.ObjectOf(id): true}}
					if e, ok := as.Lhs[1].(*ast.Ident); ok {
						b.err = e.Name
					}
					begins = append(begins, b)
				}
			}
		}
		return true
	})
	if len(begins) == 0 {
		r.Bad(f.Name(), "driver Begin", f.Body.Pos(), "BeginTx no longer keeps the transaction the driver began; rule lost its anchor")
		return
	}
	paths, ok := p.EnumPaths(f, nil, 2000)
	if !ok {
		r.Unknown(f.Name(), "paths", f.Body.Pos(), "too many paths")
		return
	}
	for _, b := range begins {
		mentions := func(n ast.Node) bool {
			hit := false
			ast.Inspect(n, func(m ast.Node) bool {
				if id, ok := m.(*ast.Ident); ok && b.objs[info.Uses[id]] {
					hit = true
				}
				return true
			})
			return hit
		}
		// values derived by a type assertion / conversion of the begun pool (`tx, ok := connPool.(Tx)`)
		assertOK := map[string]bool{}
		for changed := true; changed; {
			changed = false
			ast.Inspect(f.Body, func(n ast.Node) bool {
				as, ok := n.(*ast.AssignStmt)
				if !ok || len(as.Rhs) != 1 || as == b.as {
					return true
				}
				if ta, ok := unparen(as.Rhs[0]).(*ast.TypeAssertExpr); ok && mentions(ta.X) {
					if id, ok := as.Lhs[0].(*ast.Ident); ok && !b.objs[info.ObjectOf(id)] {
						b.objs[info.ObjectOf(id)] = true
						changed = true
					}
					if len(as.Lhs) == 2 {
						assertOK[fFalse(fIs(canon(info, ta)))] = true
					}
				}
				return true
			})
		}
		bad, seen := 0, 0
		var where token.Pos = b.as.Pos()
		for _, pr := range paths {
			at := -1
			for i, nd := range pr.Nodes {
				if nd == ast.Node(b.as) || containsNode(nd, b.as) {
					at = i
				}
			}
			if at < 0 {
				continue
			}
			seen++
			okp := pr.Return != nil && mentions(pr.Return)
			// nothing was begun (the driver failed), or what was begun is no transaction that could be rolled back
			if b.err != "" && (pr.Facts.Has(fNonNil(b.err)) || pr.Facts.Has("T:"+b.err+" != nil") || pr.Facts.Has("F:"+b.err+" == nil")) {
				okp = true
			}
			for k := range assertOK {
				if pr.Facts.Has(k) {
					okp = true
				}
			}
			for _, nd := range pr.Nodes[at+1:] {
				ast.Inspect(nd, func(m ast.Node) bool {
					if ce, ok := m.(*ast.CallExpr); ok {
						if sel, ok := ce.Fun.(*ast.SelectorExpr); ok && sel.Sel.Name == "Rollback" && mentions(sel.X) {
							okp = true
						}
					}
					return true
				})
			}
			if !okp {
				bad++
				where = pr.Exit
			}
		}
		r.Check(seen > 0 && bad == 0, f.Name(), "transaction begun by "+types.ExprString(b.as.Rhs[0]), where, "returned (wrapped) or rolled back on every path", "BeginTx has a path that returns without the transaction the driver just began and without rolling it back: the *sql.Tx and its connection are leaked - with a bounded pool later operations block forever")
	}
}

// C15.pluck-select: Pluck reports the values the chain's own select list yields; it adds its column as SELECT only
// when the chain has none (AddClauseIfNotExists) - a select expression with bound values given earlier stays.
func checkC15PluckSelect(c *Ctx) {
	p := c.P
	r := c.Rule("C15.pluck-select", "Pluck adds its column as the SELECT clause only if the chain has none", 1)
	f := p.MethodDecl(pkgGorm, "DB", "Pluck")
	c.Touch(f)
	info := f.Pkg.TypesInfo
	stmtT := p.Named(pkgGorm, "Statement")
	addClause, addIfNot := p.Method(stmtT, "AddClause"), p.Method(stmtT, "AddClauseIfNotExists")
	selT := p.Named(pkgClause, "Select")
	n := 0
	for _, call := range callsIn(f) {
		fn, _ := typeutil.Callee(info, call).(*types.Func)
		if (fn != addClause && fn != addIfNot) || len(call.Args) != 1 || !types.Identical(info.TypeOf(call.Args[0]), selT) {
			continue
		}
		n++
		r.Check(fn == addIfNot, f.Name(), "SELECT of the plucked column", call.Pos(), "only if the chain has no select list", "Pluck overwrites the chain's SELECT clause with its plain column: a select expression given with bound values (Select(\"age + ? AS age\", 100)) is replaced, and Pluck reports other values than Find / Scan on the same chain (or fails on the alias)")
	}
	if n == 0 {
		r.Bad(f.Name(), "SELECT", f.Body.Pos(), "Pluck no longer adds a SELECT clause; rule lost its anchor")
	}
}

// C19.foc-handle: FirstOrCreate's look-up and its Create are two statements; the Create runs on the chain's handle,
// not on the handle that has just executed the look-up (which, in a dry run, still holds the look-up's SQL - the
// create callback then builds nothing and DryRun/ToSQL show the SELECT while a real run sends the INSERT).
func checkC19FOCHandle(c *Ctx, r *Rule) {
	p := c.P
	f := p.MethodDecl(pkgGorm, "DB", "FirstOrCreate")
	c.Touch(f)
	info := f.Pkg.TypesInfo
	dbT := p.Named(pkgGorm, "DB")
	createM := p.Method(dbT, "Create")
	isLookup := map[*types.Func]bool{p.Method(dbT, "First"): true, p.Method(dbT, "Find"): true, p.Method(dbT, "Take"): true, p.Method(dbT, "Last"): true}
	var lookup types.Object
	ast.Inspect(f.Body, func(n ast.Node) bool {
		as, ok := n.(*ast.AssignStmt)
		if !ok || len(as.Lhs) != 1 || len(as.Rhs) != 1 {
			return true
		}
		if ce, ok := unparen(as.Rhs[0]).(*ast.CallExpr); ok {
			if fn, _ := typeutil.Callee(info, ce).(*types.Func); isLookup[fn] {
				if id, ok := as.Lhs[0].(*ast.Ident); ok {
					lookup = info.ObjectOf(id)
				}
			}
		}
		// `if result := q.First(dest); ...`
		return true
	})
	ast.Inspect(f.Body, func(n ast.Node) bool {
		if ifs, ok := n.(*ast.IfStmt); ok {
			if as, ok := ifs.Init.(*ast.AssignStmt); ok && len(as.Lhs) == 1 && len(as.Rhs) == 1 {
				if ce, ok := unparen(as.Rhs[0]).(*ast.CallExpr); ok {
					if fn, _ := typeutil.Callee(info, ce).(*types.Func); isLookup[fn] {
						if id, ok := as.Lhs[0].(*ast.Ident); ok {
							lookup = info.ObjectOf(id)
						}
					}
				}
			}
		}
		return true
	})
	n := 0
	for _, call := range callsIn(f) {
		if fn, _ := typeutil.Callee(info, call).(*types.Func); fn != createM {
			continue
		}
		n++
		root := rootIdentOf(call.Fun.(*ast.SelectorExpr).X)
		r.Check(root != nil && lookup != nil && info.ObjectOf(root) != lookup, f.Name(), "handle of the insert", call.Pos(), "the chain's handle, not the look-up's", "FirstOrCreate runs its Create on the handle that has just executed the look-up: in a dry run that handle still holds the SELECT, the create callback builds nothing, and DryRun / ToSQL expose the SELECT while a real run sends the INSERT")
	}
	if n == 0 || lookup == nil {
		r.Bad(f.Name(), "look-up / create", f.Body.Pos(), "FirstOrCreate no longer has a First look-up and a Create; rule lost its anchor")
	}
}

// C20.check-expr: a named CHECK constraint `check:name,expr` keeps its whole expression - everything after the first
// comma (expressions contain commas: IN (..), coalesce(..)).  Decided in ParseCheckConstraints: no CheckConstraint
// literal takes a single element of the comma-split tag as its Constraint.
func checkC20CheckExpr(c *Ctx) {
	p := c.P
	r := c.Rule("C20.check-expr", "ParseCheckConstraints keeps the whole expression of a check (never one element of the comma split)", 1)
	f := p.MethodDecl(pkgSchema, "Schema", "ParseCheckConstraints")
	c.Touch(f)
	info := f.Pkg.TypesInfo
	chkT := p.Named(pkgSchema, "CheckConstraint")
	n := 0
	for _, lit := range litsOfType(info, f.Body, chkT, true) {
		v := compositeField(lit, "Constraint")
		if v == nil {
			continue
		}
		n++
		_, isIndex := unparen(v).(*ast.IndexExpr)
		r.Check(!isIndex, f.Name(), "expression of the check", lit.Pos(), "the whole remainder of the tag", "the Constraint of a parsed CHECK is a single element of the comma-split tag (`"+types.ExprString(v)+"`): an expression containing a comma is cut at it - CREATE TABLE / the migration of that model fails or creates a different constraint")
	}
	if n == 0 {
		r.Bad(f.Name(), "check literals", f.Body.Pos(), "ParseCheckConstraints builds no CheckConstraint; rule lost its anchor")
	}
}
