package main

// Rules added in seeding round 6.

import (
	"go/ast"
	"go/token"
	"go/types"
	"sort"
	"strings"

	"golang.org/x/tools/go/ssa"
	"golang.org/x/tools/go/types/typeutil"
)

// C07.field-closures: the accessor closures a schema.Field carries (ValueOf, ReflectValueOf, Set, the pool's
// New) are built once per Field and then run by every goroutine that uses any handle sharing the schema
// cache.  Whatever they capture from the function that built them is therefore shared state: a closure may
// read it, but an assignment inside the closure whose target is rooted at a variable declared OUTSIDE the
// closure is an unsynchronised write to state shared by all of them.  (Writes to the record the caller
// passes in go through reflect calls, not through assignments to captured variables, and are per call.)
// Decided: the assignment targets inside these closures.  Not decided: mutation through method calls on a
// captured value.
func checkC07FieldClosures(c *Ctx) {
	p := c.P
	r := c.Rule("C07.field-closures", "closures stored in a schema.Field (ValueOf/ReflectValueOf/Set/NewValuePool) never assign to a variable captured from the function that built them", 14)
	fieldT := p.Named(pkgSchema, "Field")
	slots := map[string]bool{"ValueOf": true, "ReflectValueOf": true, "Set": true, "NewValuePool": true}
	builders := 0
	for _, f := range p.Funcs {
		if f.Pkg.PkgPath != pkgSchema || f.Body == nil || f.Decl == nil {
			continue
		}
		info := f.Pkg.TypesInfo
		// does this function store into one of the Field's closure slots?
		stores := false
		ast.Inspect(f.Body, func(n ast.Node) bool {
			as, ok := n.(*ast.AssignStmt)
			if !ok {
				return true
			}
			for _, l := range as.Lhs {
				sel, ok := unparen(l).(*ast.SelectorExpr)
				if !ok || !slots[sel.Sel.Name] {
					continue
				}
				if s := info.Selections[sel]; s != nil && s.Kind() == types.FieldVal {
					if v, ok := s.Obj().(*types.Var); ok && v.IsField() && derefNamed(s.Recv()) == fieldT {
						stores = true
					}
				}
			}
			return true
		})
		if !stores {
			continue
		}
		builders++
		c.Touch(f)
		// top-level function literals of the builder
		var tops []*ast.FuncLit
		ast.Inspect(f.Body, func(n ast.Node) bool {
			if fl, ok := n.(*ast.FuncLit); ok {
				tops = append(tops, fl)
				return false
			}
			return true
		})
		for _, fl := range tops {
			bad := 0
			var check func(lhs ast.Expr, pos token.Pos)
			check = func(lhs ast.Expr, pos token.Pos) {
				id := rootIdentOf(lhs)
				if id == nil || id.Name == "_" {
					return
				}
				obj, _ := info.Uses[id].(*types.Var)
				if obj == nil || obj.IsField() {
					return
				}
				if obj.Pos() >= fl.Pos() && obj.Pos() < fl.End() {
					return // declared inside the closure: per call
				}
				bad++
				r.Bad(f.Name(), "closure assigns captured "+id.Name, pos, "the accessor closure assigns to `"+types.ExprString(lhs)+"`, rooted at a variable declared outside the closure and so shared by every goroutine using the schema")
			}
			ast.Inspect(fl.Body, func(n ast.Node) bool {
				switch x := n.(type) {
				case *ast.AssignStmt:
					for _, l := range x.Lhs {
						if x.Tok == token.DEFINE {
							// a redeclaration in a multi-value := still assigns already-declared names
							if id, ok := l.(*ast.Ident); ok && info.Defs[id] != nil {
								continue
							}
						}
						check(l, x.Pos())
					}
				case *ast.IncDecStmt:
					check(x.X, x.Pos())
				case *ast.RangeStmt:
					if x.Tok == token.ASSIGN {
						if x.Key != nil {
							check(x.Key, x.Pos())
						}
						if x.Value != nil {
							check(x.Value, x.Pos())
						}
					}
				}
				return true
			})
			if bad == 0 {
				r.OK(f.Name(), "closure", fl.Pos(), "no assignment to a captured variable")
			}
		}
	}
	if builders == 0 {
		r.Unknown("schema", "builders", token.NoPos, "no function storing a Field accessor closure found")
	}
}

func derefNamed(t types.Type) *types.Named {
	if pt, ok := t.Underlying().(*types.Pointer); ok {
		t = pt.Elem()
	}
	n, _ := t.(*types.Named)
	return n
}

// C12.owners-all: Replace (and has-one Append) on a slice of owners first collects the CURRENT related
// records of every owner (schema.GetRelationsValues) and then detaches those that are not among the new
// targets.  The collection is a per-element action over the owners: one iteration of the owner loop that
// completes without calling the per-owner collector leaves that owner's current relations out, and the later
// "not in the new set" condition then degenerates for it.  Decided: in GetRelationsValues every loop over
// the incoming value calls the local collector closure exactly once on every iteration path, with the loop's
// own element as the argument (the collector itself normalises pointers through Field.ValueOf /
// ReflectValueOf).  Not decided: what the collector appends.
func checkC12OwnersAll(c *Ctx) {
	p := c.P
	r := c.Rule("C12.owners-all", "GetRelationsValues visits every owner: each iteration of the owner loop calls the per-owner collector exactly once, on the loop's element", 2)
	f := p.FuncDecl(pkgSchema, "GetRelationsValues")
	c.Touch(f)
	info := f.Pkg.TypesInfo
	// local closures: name := func(...) {...}
	closures := map[types.Object]bool{}
	ast.Inspect(f.Body, func(n ast.Node) bool {
		if as, ok := n.(*ast.AssignStmt); ok && len(as.Lhs) == 1 && len(as.Rhs) == 1 {
			if _, ok := as.Rhs[0].(*ast.FuncLit); ok {
				if id, ok := as.Lhs[0].(*ast.Ident); ok {
					if o := info.ObjectOf(id); o != nil {
						closures[o] = true
					}
				}
			}
		}
		return true
	})
	isCollect := func(call *ast.CallExpr) bool {
		id, ok := unparen(call.Fun).(*ast.Ident)
		return ok && closures[info.ObjectOf(id)]
	}
	// the value parameter (reflect.Value)
	var param types.Object
	for _, fl := range f.Decl.Type.Params.List {
		for _, nm := range fl.Names {
			if o := info.ObjectOf(nm); o != nil && o.Type().String() == "reflect.Value" {
				param = o
			}
		}
	}
	if param == nil || len(closures) == 0 {
		r.Unknown(f.Name(), "shape", f.Body.Pos(), "no reflect.Value parameter or no local collector closure")
		return
	}
	direct := 0
	var loops []ast.Stmt
	var visit func(n ast.Node, inLit bool)
	ast.Inspect(f.Body, func(n ast.Node) bool {
		switch x := n.(type) {
		case *ast.FuncLit:
			return false
		case *ast.ForStmt:
			loops = append(loops, x)
		case *ast.RangeStmt:
			loops = append(loops, x)
		case *ast.CallExpr:
			if isCollect(x) && len(x.Args) == 1 {
				if id, ok := unparen(x.Args[0]).(*ast.Ident); ok && info.ObjectOf(id) == param {
					direct++
				}
			}
		}
		return true
	})
	_ = visit
	r.Check(direct >= 1, f.Name(), "single owner", f.Body.Pos(), "the collector runs on a single (struct) owner", "a single struct owner is no longer collected")
	n := 0
	for _, loop := range loops {
		var body *ast.BlockStmt
		switch x := loop.(type) {
		case *ast.ForStmt:
			body = x.Body
		case *ast.RangeStmt:
			// the outer loop over the relationships is not an owner loop
			if !containsCollectorLoop(x.Body, isCollect) {
				continue
			}
			if rootIdentOf(x.X) == nil || info.ObjectOf(rootIdentOf(x.X)) != param {
				continue
			}
			body = x.Body
		}
		var calls []*ast.CallExpr
		ast.Inspect(body, func(m ast.Node) bool {
			if _, ok := m.(*ast.FuncLit); ok {
				return false
			}
			if ce, ok := m.(*ast.CallExpr); ok && isCollect(ce) {
				calls = append(calls, ce)
			}
			return true
		})
		if len(calls) == 0 {
			if fs, ok := loop.(*ast.ForStmt); ok && fs.Cond != nil && rootIdentOf(lenSubject(fs.Cond)) != nil && info.ObjectOf(rootIdentOf(lenSubject(fs.Cond))) == param {
				r.Bad(f.Name(), "owner loop", loop.Pos(), "a loop over the owners does not call the per-owner collector")
				n++
			}
			continue
		}
		n++
		paths, ok := p.EnumLoopIterPaths(f, loop, 2000)
		if !ok {
			r.Unknown(f.Name(), "owner loop", loop.Pos(), "iteration paths not enumerable")
			continue
		}
		bad := 0
		for _, nodes := range paths {
			k := 0
			for _, nd := range nodes {
				for _, call := range calls {
					if containsNode(nd, call) {
						k++
					}
				}
			}
			if k != 1 {
				bad++
			}
		}
		r.Check(bad == 0, f.Name(), "owner loop", loop.Pos(), "every iteration calls the collector exactly once", "an iteration of the owner loop can complete without (or with more than one) call of the per-owner collector: that owner's current relations are not collected")
		// argument: an element of the parameter
		for _, call := range calls {
			okArg := false
			if len(call.Args) == 1 {
				arg := unparen(call.Args[0])
				if d := resolveLocal(f, arg); d != nil {
					arg = d
				}
				if ce, ok := arg.(*ast.CallExpr); ok {
					if sel, ok := ce.Fun.(*ast.SelectorExpr); ok && sel.Sel.Name == "Index" {
						if id := rootIdentOf(sel.X); id != nil && info.ObjectOf(id) == param && len(ce.Args) == 1 {
							// indexed by the loop's own variable
							if ix, ok := unparen(ce.Args[0]).(*ast.Ident); ok && loopVar(info, loop) != nil && info.ObjectOf(ix) == loopVar(info, loop) {
								okArg = true
							}
						}
					}
				}
			}
			r.Check(okArg, f.Name(), "collector argument", call.Pos(), "the loop's own element", "the collector is not called on the loop's own element of the incoming value")
		}
	}
	if n == 0 {
		r.Bad(f.Name(), "owner loop", f.Body.Pos(), "GetRelationsValues has no loop over a slice of owners")
	}
}

func containsCollectorLoop(body ast.Node, isCollect func(*ast.CallExpr) bool) bool {
	found := false
	ast.Inspect(body, func(n ast.Node) bool {
		if _, ok := n.(*ast.FuncLit); ok {
			return false
		}
		if ce, ok := n.(*ast.CallExpr); ok && isCollect(ce) {
			found = true
		}
		return !found
	})
	return found
}

// lenSubject: in `i < X.Len()` / `i < len(X)` the X.
func lenSubject(cond ast.Expr) ast.Expr {
	be, ok := unparen(cond).(*ast.BinaryExpr)
	if !ok {
		return nil
	}
	ce, ok := unparen(be.Y).(*ast.CallExpr)
	if !ok {
		return nil
	}
	if sel, ok := ce.Fun.(*ast.SelectorExpr); ok && sel.Sel.Name == "Len" {
		return sel.X
	}
	if id, ok := ce.Fun.(*ast.Ident); ok && id.Name == "len" && len(ce.Args) == 1 {
		return ce.Args[0]
	}
	return nil
}

// loopVar: the index variable of `for i := ...; ...; i++` or `for i := range ...`.
func loopVar(info *types.Info, loop ast.Stmt) types.Object {
	switch x := loop.(type) {
	case *ast.ForStmt:
		if as, ok := x.Init.(*ast.AssignStmt); ok && len(as.Lhs) == 1 {
			if id, ok := as.Lhs[0].(*ast.Ident); ok {
				return info.ObjectOf(id)
			}
		}
	case *ast.RangeStmt:
		if id, ok := x.Key.(*ast.Ident); ok {
			return info.ObjectOf(id)
		}
	}
	return nil
}

// C19.vars-frozen: the bound values of a built statement are the []interface{} in Statement.Vars; a dry run
// hands exactly that slice to the caller, a real run hands it to the driver.  The two agree only if nothing
// rewrites an ELEMENT of that slice in between (AddVar appends, the reset replaces the slice).  Decided, on
// SSA: no store `x[i] = v` anywhere in the library where x may be (a phi / re-slice / local copy of) a load
// of Statement.Vars.  Instances: the functions that load Statement.Vars.
func checkC19VarsFrozen(c *Ctx) {
	p := c.P
	r := c.Rule("C19.vars-frozen", "no element of (an alias of) Statement.Vars is overwritten: the values a dry run exposes are the ones a real run binds", 8)
	p.SSA()
	varsF := p.Field(p.Named(pkgGorm, "Statement"), "Vars")
	isVarsLoad := func(v ssa.Value) bool {
		u, ok := v.(*ssa.UnOp)
		if !ok || u.Op != token.MUL {
			return false
		}
		fa, ok := u.X.(*ssa.FieldAddr)
		if !ok {
			return false
		}
		st, ok := deref(fa.X.Type()).Underlying().(*types.Struct)
		return ok && st.Field(fa.Field) == varsF
	}
	var mayBeVars func(v ssa.Value, seen map[ssa.Value]bool) bool
	mayBeVars = func(v ssa.Value, seen map[ssa.Value]bool) bool {
		if v == nil || seen[v] {
			return false
		}
		seen[v] = true
		if isVarsLoad(v) {
			return true
		}
		switch x := v.(type) {
		case *ssa.Phi:
			for _, e := range x.Edges {
				if mayBeVars(e, seen) {
					return true
				}
			}
		case *ssa.Slice:
			return mayBeVars(x.X, seen)
		case *ssa.ChangeType:
			return mayBeVars(x.X, seen)
		case *ssa.UnOp:
			if x.Op != token.MUL {
				return false
			}
			cell := x.X
			if fv, ok := cell.(*ssa.FreeVar); ok {
				if b := freeVarBinding(fv); b != nil {
					cell = b
				}
			}
			if al, ok := cell.(*ssa.Alloc); ok {
				for _, st := range cellStores(al) {
					if mayBeVars(st, seen) {
						return true
					}
				}
			}
		}
		return false
	}
	for _, fn := range p.SSAFuncs() {
		if fn.Blocks == nil || fn.Pkg == nil || !strings.HasPrefix(fn.Pkg.Pkg.Path(), pkgGorm) {
			continue
		}
		loads, bad := 0, 0
		forEachInstrFlat(fn, func(in ssa.Instruction) {
			if v, ok := in.(ssa.Value); ok && isVarsLoad(v) {
				loads++
			}
			st, ok := in.(*ssa.Store)
			if !ok {
				return
			}
			ia, ok := st.Addr.(*ssa.IndexAddr)
			if !ok {
				return
			}
			if mayBeVars(ia.X, map[ssa.Value]bool{}) {
				bad++
				r.Bad(ssaFuncName(fn), "element store into Statement.Vars", st.Pos(), "an element of a slice that may be Statement.Vars itself is overwritten: a dry run (which keeps Vars) then exposes other values than a real run sent")
			}
		})
		if loads > 0 && bad == 0 {
			r.OK(ssaFuncName(fn), "reads Statement.Vars", fn.Pos(), "no element store through an alias")
		}
	}
}

// cellStores: the values stored into a local's cell, in the declaring function and in closures capturing it.
func cellStores(al *ssa.Alloc) []ssa.Value {
	var out []ssa.Value
	var visit func(cell ssa.Value, fn *ssa.Function, depth int)
	visit = func(cell ssa.Value, fn *ssa.Function, depth int) {
		if depth > 4 || cell.Referrers() == nil {
			return
		}
		for _, ref := range *cell.Referrers() {
			switch x := ref.(type) {
			case *ssa.Store:
				if x.Addr == cell {
					out = append(out, x.Val)
				}
			case *ssa.MakeClosure:
				if cf, ok := x.Fn.(*ssa.Function); ok {
					for i, b := range x.Bindings {
						if b == cell && i < len(cf.FreeVars) {
							visit(cf.FreeVars[i], cf, depth+1)
						}
					}
				}
			}
		}
	}
	visit(al, al.Parent(), 0)
	return out
}

func deref(t types.Type) types.Type {
	if pt, ok := t.Underlying().(*types.Pointer); ok {
		return pt.Elem()
	}
	return t
}

// C16.name-lookup: a column name the USER supplied (the key of a condition map, the column of an Eq built from
// "name = ?" or from Attrs/Assign pairs) may be either the database name or the Go field name; only
// Schema.LookUpField resolves both.  The name maps FieldsByDBName / FieldsByName are therefore indexed
// directly only with names that come from schema metadata.  Decided: every index read of these maps outside
// package schema has a key that is (a) a `.DBName` / `.Name` attribute of a schema.Field, the `.Name` of a column
// ranged out of a `.Columns` list (the clause.Values the create path builds from schema names), or (b) the
// variable of a range over a schema name list (`DBNames`, `PrimaryFieldDBNames`).  Not decided: whether a
// clause.Column reaching such a site was itself built from schema names.
func checkC16NameLookup(c *Ctx) {
	p := c.P
	r := c.Rule("C16.name-lookup", "Schema.FieldsByDBName/FieldsByName are indexed directly only with schema-derived names; user-supplied names go through LookUpField", 4)
	schemaT := p.Named(pkgSchema, "Schema")
	byDB := p.Field(schemaT, "FieldsByDBName")
	byName := p.Field(schemaT, "FieldsByName")
	for _, f := range p.Funcs {
		if f.Body == nil || f.Pkg.PkgPath == pkgSchema {
			continue
		}
		info := f.Pkg.TypesInfo
		ast.Inspect(f.Body, func(n ast.Node) bool {
			if fl, ok := n.(*ast.FuncLit); ok && fl != f.Lit {
				return false
			}
			ix, ok := n.(*ast.IndexExpr)
			if !ok || !(fieldSel(info, ix.X, byDB) || fieldSel(info, ix.X, byName)) {
				return true
			}
			key := unparen(ix.Index)
			okKey, why := false, ""
			switch k := key.(type) {
			case *ast.SelectorExpr:
				if s := info.Selections[k]; s != nil && s.Kind() == types.FieldVal && (k.Sel.Name == "DBName" || k.Sel.Name == "Name") {
					switch derefNamed(s.Recv()) {
					case p.Named(pkgSchema, "Field"):
						okKey, why = true, "Field attribute "+k.Sel.Name
					case p.Named(pkgClause, "Column"):
						// only a column of a clause.Values the library built from the schema's own names
						if id, ok := unparen(k.X).(*ast.Ident); ok {
							if src := rangeSource(rootFunc(f), info, id); strings.HasSuffix(src, ".Columns") {
								okKey, why = true, "column of "+src
							}
						}
					}
				}
			case *ast.Ident:
				if src := rangeSource(rootFunc(f), info, k); src != "" && (strings.HasSuffix(src, ".DBNames") || strings.HasSuffix(src, ".PrimaryFieldDBNames")) {
					okKey, why = true, "range over "+src
				}
			}
			r.Check(okKey, f.Name(), "direct name-map lookup", ix.Pos(), why, "Schema."+types.ExprString(ix.X)[strings.LastIndex(types.ExprString(ix.X), ".")+1:]+" is indexed with `"+types.ExprString(key)+"`, which is not a schema-derived name: a user-supplied name written as the Go field name (or the column name, for FieldsByName) is silently not found - use LookUpField")
			return true
		})
	}
}

// rangeSource: id is the value (or key) variable of a `for ... := range X`; returns canon(X).
func rangeSource(f *FuncSrc, info *types.Info, id *ast.Ident) string {
	obj := info.ObjectOf(id)
	if obj == nil {
		return ""
	}
	src := ""
	ast.Inspect(f.Body, func(n ast.Node) bool {
		rs, ok := n.(*ast.RangeStmt)
		if !ok {
			return true
		}
		for _, kv := range []ast.Expr{rs.Key, rs.Value} {
			if kid, ok := kv.(*ast.Ident); ok && info.ObjectOf(kid) == obj {
				src = canon(info, rs.X)
			}
		}
		return true
	})
	return src
}

// C08.clause-config: the three statement modifiers of a soft-delete field (query filter, update filter,
// delete rewrite) must agree on what "live" means - the column and the zero value taken from the field's
// tag.  Decided: DeletedAt.QueryClauses/UpdateClauses/DeleteClauses each return a modifier literal that sets
// EVERY field of its struct, and same-named fields get the same expression in all three.
func checkC08ClauseConfig(c *Ctx) {
	p := c.P
	r := c.Rule("C08.clause-config", "DeletedAt.{Query,Update,Delete}Clauses configure their modifiers alike: every field set, same sources (column, zero value)", 3)
	ref := map[string]string{}
	refFn := ""
	for _, m := range []string{"QueryClauses", "UpdateClauses", "DeleteClauses"} {
		f := p.MethodDecl(pkgGorm, "DeletedAt", m)
		c.Touch(f)
		info := f.Pkg.TypesInfo
		var lits []*ast.CompositeLit
		ast.Inspect(f.Body, func(n ast.Node) bool {
			if cl, ok := n.(*ast.CompositeLit); ok {
				if _, ok := info.TypeOf(cl).Underlying().(*types.Struct); ok {
					if nm, ok := info.TypeOf(cl).(*types.Named); ok && nm.Obj().Pkg() != nil && nm.Obj().Pkg().Path() == pkgGorm {
						lits = append(lits, cl)
					}
				}
			}
			return true
		})
		if len(lits) != 1 {
			r.Bad(f.Name(), "modifier literal", f.Body.Pos(), "expected exactly one statement-modifier literal")
			continue
		}
		lit := lits[0]
		st := info.TypeOf(lit).Underlying().(*types.Struct)
		// parameter names differ between siblings: normalise the field parameter to "$f"
		param := ""
		if ps := f.Decl.Type.Params.List; len(ps) == 1 && len(ps[0].Names) == 1 {
			param = ps[0].Names[0].Name
		}
		got := map[string]string{}
		for _, el := range lit.Elts {
			if kv, ok := el.(*ast.KeyValueExpr); ok {
				if id, ok := kv.Key.(*ast.Ident); ok {
					e := kv.Value
					if d := resolveLocal(f, e); d != nil {
						e = d
					}
					got[id.Name] = normParam(canon(info, e), param)
				}
			}
		}
		missing := []string{}
		for i := 0; i < st.NumFields(); i++ {
			if _, ok := got[st.Field(i).Name()]; !ok {
				missing = append(missing, st.Field(i).Name())
			}
		}
		diff := []string{}
		if refFn == "" {
			refFn = f.Name()
			for k, v := range got {
				ref[k] = v
			}
		} else {
			for k, v := range got {
				if rv, ok := ref[k]; ok && rv != v {
					diff = append(diff, k+": "+v+" vs "+rv)
				}
			}
		}
		sort.Strings(diff)
		r.Check(len(missing) == 0 && len(diff) == 0, f.Name(), "modifier configuration", lit.Pos(), "all fields set, same sources as the siblings", "the soft-delete modifier built here leaves "+strings.Join(missing, ",")+" unset or configures it differently from "+refFn+" ("+strings.Join(diff, "; ")+"): with a zeroValue tag the filters no longer agree on which rows are live")
	}
}

func normParam(s, param string) string {
	if param == "" {
		return s
	}
	out := strings.ReplaceAll(s, "("+param+")", "($f)")
	if out == param {
		return "$f"
	}
	return out
}

// C20.add-exec: AutoMigrate adds a column for every new field through Migrator.AddColumn and trusts a nil
// result.  Decided: inside AddColumn a literal `nil` is returned only under the fact that the field is marked
// IgnoreMigration; every other success comes from the executed ALTER TABLE (its .Error).
func checkC20AddExec(c *Ctx) {
	p := c.P
	r := c.Rule("C20.add-exec", "Migrator.AddColumn reports success without executing ALTER TABLE ... ADD only for fields marked IgnoreMigration", 2)
	f := p.MethodDecl(pkgMigrator, "Migrator", "AddColumn")
	c.Touch(f)
	ignoreF := p.Field(p.Named(pkgSchema, "Field"), "IgnoreMigration")
	n := 0
	for _, g := range append([]*FuncSrc{f}, p.AllLits(f)...) {
		info := g.Pkg.TypesInfo
		gs := p.Guards(g, nil)
		hasExec := false
		for _, call := range callsIn(g) {
			if fn, _ := typeutil.Callee(info, call).(*types.Func); fn != nil && fn.Name() == "Exec" {
				hasExec = true
			}
		}
		if !hasExec {
			continue
		}
		ast.Inspect(g.Body, func(x ast.Node) bool {
			if fl, ok := x.(*ast.FuncLit); ok && fl != g.Lit {
				return false
			}
			ret, ok := x.(*ast.ReturnStmt)
			if !ok || len(ret.Results) != 1 {
				return true
			}
			id, ok := unparen(ret.Results[0]).(*ast.Ident)
			if !ok || id.Name != "nil" {
				n++
				r.OK(g.Name(), "return", ret.Pos(), "an error or the result of the statement")
				return true
			}
			n++
			facts, live := gs.At(ret.Pos())
			okf := !live
			for fct := range facts {
				if strings.HasPrefix(fct, "T:") && strings.HasSuffix(fct, ".IgnoreMigration") {
					okf = true
				}
			}
			_ = ignoreF
			r.Check(okf, g.Name(), "success without ALTER TABLE", ret.Pos(), "only for IgnoreMigration fields", "AddColumn returns nil on a path that neither executed ALTER TABLE ... ADD nor established that the field is excluded from migration: AutoMigrate reports success while the new field's column is missing")
			return true
		})
	}
	if n == 0 {
		r.Unknown(f.Name(), "shape", f.Body.Pos(), "no closure executing the statement found in AddColumn")
	}
}
