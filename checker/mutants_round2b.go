package main

// Hand mutants and behaviour-preserving edits for the rules added after seed round 2 (batch B).

func init() {
	addMutants(
		Mutant{Name: "c14-hit-ignores-transaction-flag", Property: "C14", Rule: "C14.inprogress", Edits: []Edit{{"prepare_stmt.go",
			"\tdb.Mux.RLock()\n\tif stmt, ok := db.Stmts[query]; ok && (!stmt.Transaction || isTransaction) {", "\tdb.Mux.RLock()\n\tif stmt, ok := db.Stmts[query]; ok && (!stmt.Transaction || !isTransaction || isTransaction) {"}},
			Note: "tautology: a transaction-bound statement is handed to a pool caller"},
		Mutant{Name: "c14-second-hit-only-for-pool-entries", Property: "C14", Rule: "C14.inprogress", Edits: []Edit{{"prepare_stmt.go",
			"\t// double check\n\tif stmt, ok := db.Stmts[query]; ok && (!stmt.Transaction || isTransaction) {", "\t// double check\n\tif stmt, ok := db.Stmts[query]; ok && !stmt.Transaction && !isTransaction {"}}},
		Mutant{Name: "c07-lock-parent-write-child", Property: "C07", Rule: "C07.foreign-map", Edits: []Edit{{"schema/relationship.go",
			"\t\t\trelation.FieldSchema.Relationships.Mux.Lock()\n", "\t\t\tschema.Relationships.Mux.Lock()\n"},
			{"schema/relationship.go", "\t\t\trelation.FieldSchema.Relationships.Mux.Unlock()\n", "\t\t\tschema.Relationships.Mux.Unlock()\n"}}},
		Mutant{Name: "c10-write-tag-only-clears-on-exact-words", Property: "C10", Rule: "C10.tags", Edits: []Edit{{"schema/field.go",
			"\t\t\tif !strings.Contains(v, \"update\") {\n\t\t\t\tfield.Updatable = false\n\t\t\t}\n", "\t\t\tif !strings.Contains(v, \"update\") {\n\t\t\t\tfield.Updatable = field.Creatable\n\t\t\t}\n"}},
			Note: "`<-:false` keeps ... no: create-only keeps update permission"},
		Mutant{Name: "c10-readonly-tag-keeps-updatable", Property: "C10", Rule: "C10.tags", Edits: []Edit{{"schema/field.go",
			"\tif v, ok := field.TagSettings[\"->\"]; ok {\n\t\tfield.Creatable = false\n\t\tfield.Updatable = false\n", "\tif v, ok := field.TagSettings[\"->\"]; ok {\n\t\tfield.Creatable = false\n"}}},
		Mutant{Name: "c10-ignore-tag-keeps-readable", Property: "C10", Rule: "C10.tags", Edits: []Edit{{"schema/field.go",
			"\t\tcase \"-\":\n\t\t\tfield.Creatable = false\n\t\t\tfield.Updatable = false\n\t\t\tfield.Readable = false\n", "\t\tcase \"-\":\n\t\t\tfield.Creatable = false\n\t\t\tfield.Updatable = false\n"},
			{"schema/field.go", "\t\tcase \"all\":\n\t\t\tfield.Creatable = false\n\t\t\tfield.Updatable = false\n\t\t\tfield.Readable = false\n", "\t\tcase \"all\":\n\t\t\tfield.Creatable = false\n\t\t\tfield.Updatable = false\n"}}},
		Mutant{Name: "c12-has-one-upserts-first-reference-only", Property: "C12", Rule: "C12.upsert-columns", Edits: []Edit{{"callbacks/associations.go",
			"\t\t\t\t\tfor _, ref := range rel.References {\n\t\t\t\t\t\tassignmentColumns = append(assignmentColumns, ref.ForeignKey.DBName)\n\t\t\t\t\t}\n\n\t\t\t\t\tsaveAssociations(db, rel, elems, selectColumns, restricted, assignmentColumns)\n\t\t\t\t}\n\t\t\t}\n\n\t\t\t// Save Many2Many associations",
			"\t\t\t\t\tfor _, ref := range rel.References {\n\t\t\t\t\t\tif ref.PrimaryValue == \"\" {\n\t\t\t\t\t\t\tassignmentColumns = append(assignmentColumns, ref.ForeignKey.DBName)\n\t\t\t\t\t\t}\n\t\t\t\t\t}\n\n\t\t\t\t\tsaveAssociations(db, rel, elems, selectColumns, restricted, assignmentColumns)\n\t\t\t\t}\n\t\t\t}\n\n\t\t\t// Save Many2Many associations"}}},
		Mutant{Name: "c13-save-fallback-inherits-skiphooks", Property: "C13", Rule: "C13.dispatch", Edits: []Edit{{"finisher_api.go",
			"return tx.Session(&Session{SkipHooks: true}).Clauses(clause.OnConflict{UpdateAll: true}).Create(value)", "return tx.Session(&Session{}).Clauses(clause.OnConflict{UpdateAll: true}).Create(value)"}}},

		Mutant{Name: "n19-prepare-hit-condition-reordered", Property: "*", Rule: "NEUTRAL", Edits: []Edit{
			{"prepare_stmt.go", "\tdb.Mux.RLock()\n\tif stmt, ok := db.Stmts[query]; ok && (!stmt.Transaction || isTransaction) {", "\tdb.Mux.RLock()\n\tif stmt, ok := db.Stmts[query]; ok && (isTransaction || !stmt.Transaction) {"},
			{"prepare_stmt.go", "\t// double check\n\tif stmt, ok := db.Stmts[query]; ok && (!stmt.Transaction || isTransaction) {", "\t// double check\n\tif stmt, ok := db.Stmts[query]; ok && !(stmt.Transaction && !isTransaction) {"}}},
		Mutant{Name: "n20-write-tag-parsed-with-locals", Property: "*", Rule: "NEUTRAL", Edits: []Edit{{"schema/field.go",
			"\t\tfield.Creatable = true\n\t\tfield.Updatable = true\n\n\t\tif v != \"<-\" {\n\t\t\tif !strings.Contains(v, \"create\") {\n\t\t\t\tfield.Creatable = false\n\t\t\t}\n\n\t\t\tif !strings.Contains(v, \"update\") {\n\t\t\t\tfield.Updatable = false\n\t\t\t}\n\t\t}",
			"\t\tif v == \"<-\" {\n\t\t\tfield.Creatable = true\n\t\t\tfield.Updatable = true\n\t\t} else {\n\t\t\tif strings.Contains(v, \"create\") {\n\t\t\t\tfield.Creatable = true\n\t\t\t} else {\n\t\t\t\tfield.Creatable = false\n\t\t\t}\n\t\t\tif strings.Contains(v, \"update\") {\n\t\t\t\tfield.Updatable = true\n\t\t\t} else {\n\t\t\t\tfield.Updatable = false\n\t\t\t}\n\t\t}"}}},
		Mutant{Name: "n21-relation-child-lock-through-local", Property: "*", Rule: "NEUTRAL", Edits: []Edit{{"schema/relationship.go",
			"\t\t\trelation.FieldSchema.Relationships.Mux.Lock()\n\t\t\trelation.FieldSchema.Relationships.Relations[\"_\"+relation.Schema.Name+\"_\"+relation.Name] = relation\n\t\t\trelation.FieldSchema.Relationships.Mux.Unlock()\n",
			"\t\t\trelation.FieldSchema.Relationships.Mux.Lock()\n\t\t\tkey := \"_\" + relation.Schema.Name + \"_\" + relation.Name\n\t\t\trelation.FieldSchema.Relationships.Relations[key] = relation\n\t\t\trelation.FieldSchema.Relationships.Mux.Unlock()\n"}}},
		Mutant{Name: "n22-save-fallback-session-in-local", Property: "*", Rule: "NEUTRAL", Edits: []Edit{{"finisher_api.go",
			"\t\t\treturn tx.Session(&Session{SkipHooks: true}).Clauses(clause.OnConflict{UpdateAll: true}).Create(value)", "\t\t\tinsertTx := tx.Session(&Session{SkipHooks: true}).Clauses(clause.OnConflict{UpdateAll: true})\n\t\t\treturn insertTx.Create(value)"}}},
	)
}
