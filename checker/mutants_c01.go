package main

func init() {
	addMutants(
		Mutant{Name: "c01-limit-written-as-text", Property: "C01", Rule: "C01.taint", Edits: []Edit{
			{"clause/limit.go", "\t\tbuilder.WriteString(\"LIMIT \")\n\t\tbuilder.AddVar(builder, *limit.Limit)", "\t\tbuilder.WriteString(\"LIMIT \" + strconv.Itoa(*limit.Limit))"},
			{"clause/limit.go", "package clause\n", "package clause\n\nimport \"strconv\"\n"}}},
		Mutant{Name: "c01-eq-value-sprinted", Property: "C01", Rule: "C01.taint", Edits: []Edit{
			{"clause/expression.go", "\t\t\tbuilder.WriteString(\" = \")\n\t\t\tbuilder.AddVar(builder, eq.Value)", "\t\t\tbuilder.WriteString(\" = \" + fmt.Sprint(eq.Value))"},
			{"clause/expression.go", "import (\n\t\"database/sql\"", "import (\n\t\"fmt\"\n\t\"database/sql\""}}},
		Mutant{Name: "c01-in-single-value-quoted-as-identifier", Property: "C01", Rule: "C01.taint", Edits: []Edit{
			{"clause/expression.go", "\t\t\tbuilder.WriteString(\" = \")\n\t\t\tbuilder.AddVar(builder, in.Values[0])", "\t\t\tbuilder.WriteString(\" = \")\n\t\t\tbuilder.WriteQuoted(in.Values[0])"}}},
		Mutant{Name: "c01-buildcondition-sprintf", Property: "C01", Rule: "C01.taint", Edits: []Edit{
			{"statement.go", "\t\t\tif len(args) == 0 || (len(args) > 0 && strings.Contains(s, \"?\")) {\n\t\t\t\t// looks like a where condition\n\t\t\t\treturn []clause.Expression{clause.Expr{SQL: s, Vars: args}}",
				"\t\t\tif len(args) == 0 || (len(args) > 0 && strings.Contains(s, \"?\")) {\n\t\t\t\t// looks like a where condition\n\t\t\t\treturn []clause.Expression{clause.Expr{SQL: fmt.Sprintf(strings.ReplaceAll(s, \"?\", \"%v\"), args...)}}"}}},
		Mutant{Name: "c01-helper-writes-value-as-text", Property: "C01", Rule: "C01.taint", Edits: []Edit{
			{"clause/expression.go", "func (gt Gt) Build(builder Builder) {\n\tbuilder.WriteQuoted(gt.Column)\n\tbuilder.WriteString(\" > \")\n\tbuilder.AddVar(builder, gt.Value)\n}",
				"func (gt Gt) Build(builder Builder) {\n\tbuilder.WriteQuoted(gt.Column)\n\tbuilder.WriteString(\" > \")\n\twriteLiteral(builder, gt.Value)\n}\n\nfunc writeLiteral(b Builder, v interface{}) {\n\tif rv := reflect.ValueOf(v); rv.Kind() == reflect.Int {\n\t\tb.WriteString(strconv.FormatInt(rv.Int(), 10))\n\t\treturn\n\t}\n\tb.AddVar(b, v)\n}"},
			{"clause/expression.go", "import (\n\t\"database/sql\"", "import (\n\t\"strconv\"\n\t\"database/sql\""}},
			Note: "two cooperating sites: the helper looks like an optimisation for ints, the caller routes a user value into it"},
		Mutant{Name: "c01-namedexpr-value-spliced", Property: "C01", Rule: "C01.taint", Edits: []Edit{
			{"clause/expression.go", "\t\tif nv, ok := namedMap[string(name)]; ok {\n\t\t\tbuilder.AddVar(builder, nv)\n\t\t} else {\n\t\t\tbuilder.WriteByte('@')\n\t\t\tbuilder.WriteString(string(name))\n\t\t}\n\t}\n}",
				"\t\tif nv, ok := namedMap[string(name)]; ok {\n\t\t\tif s, isStr := nv.(string); isStr && s == \"\" {\n\t\t\t\tbuilder.WriteString(\"'\" + s + \"'\")\n\t\t\t} else {\n\t\t\t\tbuilder.AddVar(builder, nv)\n\t\t\t}\n\t\t} else {\n\t\t\tbuilder.WriteByte('@')\n\t\t\tbuilder.WriteString(string(name))\n\t\t}\n\t}\n}"}}},
		Mutant{Name: "c01-bytes-arm-no-placeholder", Property: "C01", Rule: "C01.pair", Edits: []Edit{
			{"statement.go", "\t\tcase []byte:\n\t\t\tstmt.Vars = append(stmt.Vars, v)\n\t\t\tstmt.DB.Dialector.BindVarTo(writer, stmt, v)", "\t\tcase []byte:\n\t\t\tstmt.Vars = append(stmt.Vars, v)"}}},
		Mutant{Name: "c01-default-arm-literal-questionmark", Property: "C01", Rule: "C01.pair", Edits: []Edit{
			{"statement.go", "\t\t\tdefault:\n\t\t\t\tstmt.Vars = append(stmt.Vars, v)\n\t\t\t\tstmt.DB.Dialector.BindVarTo(writer, stmt, v)", "\t\t\tdefault:\n\t\t\t\tstmt.Vars = append(stmt.Vars, v)\n\t\t\t\twriter.WriteByte('?')"}}},
		Mutant{Name: "c01-valuer-arm-binds-other-value", Property: "C01", Rule: "C01.pair", Edits: []Edit{
			{"statement.go", "\t\tcase driver.Valuer:\n\t\t\tstmt.Vars = append(stmt.Vars, v)\n\t\t\tstmt.DB.Dialector.BindVarTo(writer, stmt, v)", "\t\tcase driver.Valuer:\n\t\t\tstmt.Vars = append(stmt.Vars, v, v)\n\t\t\tstmt.DB.Dialector.BindVarTo(writer, stmt, v)"}}},
		Mutant{Name: "c01-execute-reslices-vars", Property: "C01", Rule: "C01.pair", Edits: []Edit{
			{"callbacks.go", "\t\tstmt.SQL.Reset()\n\t\tstmt.Vars = nil", "\t\tstmt.SQL.Reset()\n\t\tstmt.Vars = stmt.Vars[:0]"}}},
		Mutant{Name: "c01-values-row-bound-twice", Property: "C01", Rule: "C01.once", Edits: []Edit{
			{"clause/values.go", "\t\t\tbuilder.WriteByte('(')\n\t\t\tbuilder.AddVar(builder, value...)\n\t\t\tbuilder.WriteByte(')')", "\t\t\tbuilder.WriteByte('(')\n\t\t\tbuilder.AddVar(builder, value...)\n\t\t\tbuilder.AddVar(builder, value...)\n\t\t\tbuilder.WriteByte(')')"}}},
		Mutant{Name: "c01-set-skips-nil-values", Property: "C01", Rule: "C01.once", Edits: []Edit{
			{"clause/set.go", "\t\t\tbuilder.AddVar(builder, assignment.Value)", "\t\t\tif assignment.Value != nil {\n\t\t\t\tbuilder.AddVar(builder, assignment.Value)\n\t\t\t}"}}},
		Mutant{Name: "c01-eq-empty-slice-renders-nothing", Property: "C01", Rule: "C01.once", Edits: []Edit{
			{"clause/expression.go", "\t\tif rv.Len() == 0 {\n\t\t\tbuilder.WriteString(\" IN (NULL)\")\n\t\t} else {\n\t\t\tbuilder.WriteString(\" IN (\")", "\t\tif rv.Len() == 0 {\n\t\t\tbuilder.WriteString(\" IN ()\")\n\t\t} else {\n\t\t\tbuilder.WriteString(\" IN (\")"}}},
	)
}

func init() {
	addMutants(
		Mutant{Name: "c01-expr-cursor-not-advanced-after-slice", Property: "C01", Rule: "C01.once", Edits: []Edit{{"clause/expression.go",
			"\t\t\t} else {\n\t\t\t\tbuilder.AddVar(builder, expr.Vars[idx])\n\t\t\t}\n\n\t\t\tidx++\n\t\t} else {\n\t\t\tif v == '(' {\n\t\t\t\tafterParenthesis = true\n\t\t\t} else {\n\t\t\t\tafterParenthesis = false\n\t\t\t}\n\t\t\tbuilder.WriteByte(v)\n\t\t}\n\t}\n\n\tif idx < len(expr.Vars) {",
			"\t\t\t\tidx++\n\t\t\t} else {\n\t\t\t\tbuilder.AddVar(builder, expr.Vars[idx])\n\t\t\t}\n\t\t} else {\n\t\t\tif v == '(' {\n\t\t\t\tafterParenthesis = true\n\t\t\t} else {\n\t\t\t\tafterParenthesis = false\n\t\t\t}\n\t\t\tbuilder.WriteByte(v)\n\t\t}\n\t}\n\n\tif idx < len(expr.Vars) {"}},
			Note: "idx++ moved into the parenthesised arm only: a plain `?` re-binds the same argument"},
	)
}
