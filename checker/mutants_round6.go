package main

func init() {
	addMutants(
		// C11.descent
		Mutant{Name: "c11-struct-descent-drops-preload-map", Property: "C11", Rule: "C11.descent", Edits: []Edit{{"callbacks/preload.go",
			"\t\t\t\t\ttx := preloadDB(db, reflectValue, reflectValue.Interface())\n\t\t\t\t\tif err := preloadEntryPoint(tx, nestedJoins, &tx.Statement.Schema.Relationships, preloadMap[name], associationsConds); err != nil {\n\t\t\t\t\t\treturn err\n\t\t\t\t\t}\n\t\t\t\tdefault:",
			"\t\t\t\t\ttx := preloadDB(db, reflectValue, reflectValue.Interface())\n\t\t\t\t\tif err := preloadEntryPoint(tx, nestedJoins, &tx.Statement.Schema.Relationships, preloadMap[name], nil); err != nil {\n\t\t\t\t\t\treturn err\n\t\t\t\t\t}\n\t\t\t\tdefault:"}},
			Note: "the single-parent descent drops the association conditions: the siblings disagree"},
		Mutant{Name: "c11-slice-descent-passes-current-joins", Property: "C11", Rule: "C11.descent", Edits: []Edit{{"callbacks/preload.go",
			"\t\t\t\t\t\ttx := preloadDB(db, reflectValue, reflectValue.Interface())\n\t\t\t\t\t\tif err := preloadEntryPoint(tx, nestedJoins,",
			"\t\t\t\t\t\ttx := preloadDB(db, reflectValue, reflectValue.Interface())\n\t\t\t\t\t\tif err := preloadEntryPoint(tx, joins,"}}},
		// C04.block-handle
		Mutant{Name: "c04-batch-closure-uses-outer-handle", Property: "C04", Rule: "C04.block-handle", Edits: []Edit{{"finisher_api.go",
			"\t\t\t\tsubtx := tx.getInstance()\n\t\t\t\tsubtx.Statement.Dest = reflectValue.Slice(i, ends).Interface()",
			"\t\t\t\tsubtx := db.getInstance()\n\t\t\t\tsubtx.Statement.Dest = reflectValue.Slice(i, ends).Interface()"}},
			Note: "the batches run on the receiver, outside the transaction the block was given"},
		// C02.regroup-scan
		Mutant{Name: "c02-batch-regroup-looks-at-first-member-only", Property: "C02", Rule: "C02.regroup-scan", Edits: []Edit{{"finisher_api.go",
			"\t\t\tfor _, expr := range where.Exprs {\n\t\t\t\tif orCond, ok := expr.(clause.OrConditions); ok && len(orCond.Exprs) == 1 {\n\t\t\t\t\twhere.Exprs = []clause.Expression{clause.And(where.Exprs...)}\n\t\t\t\t\tc.Expression = where\n\t\t\t\t\ttx.Statement.Clauses[\"WHERE\"] = c\n\t\t\t\t\tbreak\n\t\t\t\t}\n\t\t\t}",
			"\t\t\tfor _, expr := range where.Exprs {\n\t\t\t\tif orCond, ok := expr.(clause.OrConditions); ok && len(orCond.Exprs) == 1 {\n\t\t\t\t\twhere.Exprs = []clause.Expression{clause.And(where.Exprs...)}\n\t\t\t\t\tc.Expression = where\n\t\t\t\t\ttx.Statement.Clauses[\"WHERE\"] = c\n\t\t\t\t}\n\t\t\t\tbreak\n\t\t\t}"}},
			Note: "the break moved out of the if: only the first member is inspected"},
		// C07.field-closures
		Mutant{Name: "c07-valueof-closure-caches-in-captured-var", Property: "C07", Rule: "C07.field-closures", Edits: []Edit{{"schema/field.go",
			"\t\t\tfieldValue := reflect.Indirect(value).Field(fieldIndex)\n\t\t\treturn fieldValue.Interface(), fieldValue.IsZero()",
			"\t\t\tfieldIndex = field.StructField.Index[0]\n\t\t\tfieldValue := reflect.Indirect(value).Field(fieldIndex)\n\t\t\treturn fieldValue.Interface(), fieldValue.IsZero()"}},
			Note: "the accessor re-assigns the captured index on every call"},
		// C12.owners-all
		Mutant{Name: "c12-owner-loop-skips-nil-kind", Property: "C12", Rule: "C12.owners-all", Edits: []Edit{{"schema/utils.go",
			"\t\t\tfor i := 0; i < reflectValue.Len(); i++ {\n\t\t\t\tappendToResults(reflectValue.Index(i))\n\t\t\t}",
			"\t\t\tfor i := 0; i < reflectValue.Len(); i++ {\n\t\t\t\tif reflectValue.Index(i).Kind() == reflect.Ptr {\n\t\t\t\t\tcontinue\n\t\t\t\t}\n\t\t\t\tappendToResults(reflectValue.Index(i))\n\t\t\t}"}}},
		Mutant{Name: "c12-owner-loop-collects-first-owner", Property: "C12", Rule: "C12.owners-all", Edits: []Edit{{"schema/utils.go",
			"\t\t\t\tappendToResults(reflectValue.Index(i))", "\t\t\t\tappendToResults(reflectValue.Index(0))"}},
			Note: "still one call per iteration, but not on the loop's own element... the argument is rooted at the parameter: caught only if the index is the loop variable"},

		// neutral edits for the round-6 rules
		Mutant{Name: "n67-owner-element-in-a-local", Property: "*", Rule: "NEUTRAL", Edits: []Edit{{"schema/utils.go",
			"\t\t\t\tappendToResults(reflectValue.Index(i))", "\t\t\t\towner := reflectValue.Index(i)\n\t\t\t\tappendToResults(owner)"}}},
		Mutant{Name: "n68-setter-closure-local-scratch-renamed", Property: "*", Rule: "NEUTRAL", Edits: []Edit{{"schema/field.go",
			"\t\t\t\t\tfieldValue := field.ReflectValueOf(ctx, value)\n\t\t\t\t\tif fieldValue.IsNil() {\n\t\t\t\t\t\tfieldValue.Set(reflect.New(field.FieldType.Elem()))\n\t\t\t\t\t}\n\t\t\t\t\tfieldValue.Elem().Set(reflect.ValueOf(v))",
			"\t\t\t\t\tvar fv reflect.Value\n\t\t\t\t\tfv = field.ReflectValueOf(ctx, value)\n\t\t\t\t\tif fv.IsNil() {\n\t\t\t\t\t\tfv.Set(reflect.New(field.FieldType.Elem()))\n\t\t\t\t\t}\n\t\t\t\t\tfv.Elem().Set(reflect.ValueOf(v))"}}},
		Mutant{Name: "n69-batch-block-renames-its-handle", Property: "*", Rule: "NEUTRAL", Edits: []Edit{{"finisher_api.go",
			"\t\tcallFc := func(tx *DB) error {\n\t\t\tfor i := 0; i < reflectLen; i += batchSize {\n\t\t\t\tends := i + batchSize\n\t\t\t\tif ends > reflectLen {\n\t\t\t\t\tends = reflectLen\n\t\t\t\t}\n\n\t\t\t\tsubtx := tx.getInstance()",
			"\t\tcallFc := func(blockTx *DB) error {\n\t\t\tfor i := 0; i < reflectLen; i += batchSize {\n\t\t\t\tends := i + batchSize\n\t\t\t\tif ends > reflectLen {\n\t\t\t\t\tends = reflectLen\n\t\t\t\t}\n\n\t\t\t\tsubtx := blockTx.getInstance()"}}},
		Mutant{Name: "n70-descent-arguments-in-locals", Property: "*", Rule: "NEUTRAL", Edits: []Edit{{"callbacks/preload.go",
			"\t\t\t\t\ttx := preloadDB(db, reflectValue, reflectValue.Interface())\n\t\t\t\t\tif err := preloadEntryPoint(tx, nestedJoins, &tx.Statement.Schema.Relationships, preloadMap[name], associationsConds); err != nil {\n\t\t\t\t\t\treturn err\n\t\t\t\t\t}\n\t\t\t\tdefault:",
			"\t\t\t\t\ttx := preloadDB(db, reflectValue, reflectValue.Interface())\n\t\t\t\t\terr := preloadEntryPoint(tx, nestedJoins, &tx.Statement.Schema.Relationships, preloadMap[name], associationsConds)\n\t\t\t\t\tif err != nil {\n\t\t\t\t\t\treturn err\n\t\t\t\t\t}\n\t\t\t\tdefault:"}}},
		Mutant{Name: "n71-batch-regroup-found-flag", Property: "*", Rule: "NEUTRAL", Edits: []Edit{{"finisher_api.go",
			"\t\t\tfor _, expr := range where.Exprs {\n\t\t\t\tif orCond, ok := expr.(clause.OrConditions); ok && len(orCond.Exprs) == 1 {\n\t\t\t\t\twhere.Exprs = []clause.Expression{clause.And(where.Exprs...)}\n\t\t\t\t\tc.Expression = where\n\t\t\t\t\ttx.Statement.Clauses[\"WHERE\"] = c\n\t\t\t\t\tbreak\n\t\t\t\t}\n\t\t\t}",
			"\t\t\tloneOr := false\n\t\t\tfor _, expr := range where.Exprs {\n\t\t\t\tif orCond, ok := expr.(clause.OrConditions); ok && len(orCond.Exprs) == 1 {\n\t\t\t\t\tloneOr = true\n\t\t\t\t\tbreak\n\t\t\t\t}\n\t\t\t}\n\t\t\tif loneOr {\n\t\t\t\twhere.Exprs = []clause.Expression{clause.And(where.Exprs...)}\n\t\t\t\tc.Expression = where\n\t\t\t\ttx.Statement.Clauses[\"WHERE\"] = c\n\t\t\t}"}}},
	)
}

func init() {
	addMutants(
		// C08.clause-config
		Mutant{Name: "c08-update-clause-drops-zero-value", Property: "C08", Rule: "C08.clause-config", Edits: []Edit{{"soft_delete.go",
			"SoftDeleteUpdateClause{Field: f, ZeroValue: parseZeroValueTag(f)}", "SoftDeleteUpdateClause{Field: f}"}}},
		Mutant{Name: "c08-query-clause-fixed-null", Property: "C08", Rule: "C08.clause-config", Edits: []Edit{{"soft_delete.go",
			"SoftDeleteQueryClause{Field: f, ZeroValue: parseZeroValueTag(f)}", "SoftDeleteQueryClause{Field: f, ZeroValue: sql.NullString{}}"}}},
		// C16.name-lookup
		Mutant{Name: "c16-column-condition-by-db-name-only", Property: "C16", Rule: "C16.name-lookup", Edits: []Edit{{"finisher_api.go",
			"\t\t\t\t\t\tif field := db.Statement.Schema.LookUpField(column.Name); field != nil {", "\t\t\t\t\t\tif field := db.Statement.Schema.FieldsByDBName[column.Name]; field != nil {"}}},
		// C19.vars-frozen
		Mutant{Name: "c19-trace-filter-rewrites-vars", Property: "C19", Rule: "C19.vars-frozen", Edits: []Edit{{"callbacks.go",
			"\t\t\treturn db.Dialector.Explain(sql, vars...), db.RowsAffected", "\t\t\tif len(vars) > 0 && vars[0] == nil {\n\t\t\t\tvars[0] = \"NULL\"\n\t\t\t}\n\t\t\treturn db.Dialector.Explain(sql, vars...), db.RowsAffected"}}},
		Mutant{Name: "c19-dryrun-keeps-resliced-vars-edited", Property: "C19", Rule: "C19.vars-frozen", Edits: []Edit{{"callbacks.go",
			"\tif !stmt.DB.DryRun {\n\t\tstmt.SQL.Reset()\n\t\tstmt.Vars = nil\n\t}", "\tif !stmt.DB.DryRun {\n\t\tstmt.SQL.Reset()\n\t\tstmt.Vars = nil\n\t} else if kept := stmt.Vars[:len(stmt.Vars):len(stmt.Vars)]; len(kept) > 64 {\n\t\tkept[64] = \"...\"\n\t}"}}},
		// C20.add-exec
		Mutant{Name: "c20-addcolumn-skips-when-table-missing", Property: "C20", Rule: "C20.add-exec", Edits: []Edit{{"migrator/migrator.go",
			"\t\tif !f.IgnoreMigration {\n\t\t\treturn m.DB.Exec(\n\t\t\t\t\"ALTER TABLE ? ADD ? ?\",", "\t\tif f.DataType == \"\" {\n\t\t\treturn nil\n\t\t}\n\t\tif !f.IgnoreMigration {\n\t\t\treturn m.DB.Exec(\n\t\t\t\t\"ALTER TABLE ? ADD ? ?\","}}},

		Mutant{Name: "n72-delete-clause-zero-value-in-local", Property: "*", Rule: "NEUTRAL", Edits: []Edit{{"soft_delete.go",
			"\treturn []clause.Interface{SoftDeleteDeleteClause{Field: f, ZeroValue: parseZeroValueTag(f)}}", "\tzero := parseZeroValueTag(f)\n\treturn []clause.Interface{SoftDeleteDeleteClause{Field: f, ZeroValue: zero}}"}}},
		Mutant{Name: "n73-update-clauses-parameter-renamed", Property: "*", Rule: "NEUTRAL", Edits: []Edit{{"soft_delete.go",
			"func (DeletedAt) UpdateClauses(f *schema.Field) []clause.Interface {\n\treturn []clause.Interface{SoftDeleteUpdateClause{Field: f, ZeroValue: parseZeroValueTag(f)}}", "func (DeletedAt) UpdateClauses(field *schema.Field) []clause.Interface {\n\treturn []clause.Interface{SoftDeleteUpdateClause{ZeroValue: parseZeroValueTag(field), Field: field}}"}}},
		Mutant{Name: "n74-trace-copies-vars-before-editing", Property: "*", Rule: "NEUTRAL", Edits: []Edit{{"callbacks.go",
			"\t\t\treturn db.Dialector.Explain(sql, vars...), db.RowsAffected", "\t\t\tshown := make([]interface{}, len(vars))\n\t\t\tcopy(shown, vars)\n\t\t\tfor i := range shown {\n\t\t\t\tif shown[i] == nil {\n\t\t\t\t\tshown[i] = nil\n\t\t\t\t}\n\t\t\t}\n\t\t\treturn db.Dialector.Explain(sql, shown...), db.RowsAffected"}}},
		Mutant{Name: "n75-addcolumn-early-return-for-ignored", Property: "*", Rule: "NEUTRAL", Edits: []Edit{{"migrator/migrator.go",
			"\t\tif !f.IgnoreMigration {\n\t\t\treturn m.DB.Exec(\n\t\t\t\t\"ALTER TABLE ? ADD ? ?\",\n\t\t\t\tm.CurrentTable(stmt), clause.Column{Name: f.DBName}, m.DB.Migrator().FullDataTypeOf(f),\n\t\t\t).Error\n\t\t}\n\n\t\treturn nil", "\t\tif f.IgnoreMigration {\n\t\t\treturn nil\n\t\t}\n\n\t\treturn m.DB.Exec(\n\t\t\t\"ALTER TABLE ? ADD ? ?\",\n\t\t\tm.CurrentTable(stmt), clause.Column{Name: f.DBName}, m.DB.Migrator().FullDataTypeOf(f),\n\t\t).Error"}}},
		Mutant{Name: "n76-create-values-field-lookup-by-lookupfield", Property: "*", Rule: "NEUTRAL", Edits: []Edit{{"callbacks/create.go",
			"\t\t\tfor idx, column := range values.Columns {\n\t\t\t\tfield := stmt.Schema.FieldsByDBName[column.Name]\n\t\t\t\tif values.Values[0][idx], isZero", "\t\t\tfor idx, column := range values.Columns {\n\t\t\t\tfield := stmt.Schema.LookUpField(column.Name)\n\t\t\t\tif values.Values[0][idx], isZero"}}},
	)
}

func init() {
	addMutants(
		Mutant{Name: "c07-create-executor-narrows-captured-flag", Property: "C07", Rule: "C07.escaping-closures", Edits: []Edit{{"callbacks/create.go",
			"\t\tif db.Statement.SQL.Len() == 0 {\n\t\t\tdb.Statement.SQL.Grow(180)", "\t\tsupportReturning = supportReturning && !db.Statement.SkipHooks\n\t\tif db.Statement.SQL.Len() == 0 {\n\t\t\tdb.Statement.SQL.Grow(180)"}},
			Note: "the registered create executor re-assigns the flag it captured from Create(config): one cell for all goroutines"},
		Mutant{Name: "n77-create-executor-shadows-captured-flag", Property: "*", Rule: "NEUTRAL", Edits: []Edit{{"callbacks/create.go",
			"\t\tif db.Statement.SQL.Len() == 0 {\n\t\t\tdb.Statement.SQL.Grow(180)", "\t\tsupportReturning := supportReturning\n\t\tif db.Statement.SQL.Len() == 0 {\n\t\t\tdb.Statement.SQL.Grow(180)"}}},
	)
}

func init() {
	addMutants(
		// C06.arg-handles (finding F13)
		Mutant{Name: "c06-group-condition-runs-scopes-on-argument", Property: "C06", Rule: "C06.arg-handles", Edits: []Edit{{"statement.go",
			"\t\t\tv = v.getInstance().executeScopes()\n", "\t\t\tv.executeScopes()\n"}}, Note: "reverts half of fix 59916d2"},
		Mutant{Name: "c06-group-condition-rewrites-argument-expression", Property: "C06", Rule: "C06.arg-handles", Edits: []Edit{{"statement.go",
			"\t\t\t\t\t\t\texprs = []clause.Expression{clause.AndConditions(orConds)}", "\t\t\t\t\t\t\texprs[0] = clause.AndConditions(orConds)"}}, Note: "reverts the other half of fix 59916d2"},
		Mutant{Name: "c06-subquery-argument-marked-dryrun-in-place", Property: "C06", Rule: "C06.arg-handles", Edits: []Edit{{"statement.go",
			"\t\t\tsubdb := v.Session(&Session{Logger: logger.Discard, DryRun: true}).getInstance()", "\t\t\tv.Statement.SkipHooks = true\n\t\t\tsubdb := v.Session(&Session{Logger: logger.Discard, DryRun: true}).getInstance()"}}},
		// C06.fresh-handle
		Mutant{Name: "c06-debug-returns-receiver-when-already-info", Property: "C06", Rule: "C06.fresh-handle", Edits: []Edit{{"gorm.go",
			"func (db *DB) Debug() (tx *DB) {\n", "func (db *DB) Debug() (tx *DB) {\n\tif db.DryRun {\n\t\treturn db\n\t}\n"}}},
		// C04.tx-errors
		Mutant{Name: "c04-begin-drops-tx-beginner-error", Property: "C04", Rule: "C04.tx-errors", Edits: []Edit{{"finisher_api.go",
			"\t\ttx.Statement.ConnPool, err = beginner.BeginTx(tx.Statement.Context, opt)\n\tcase ConnPoolBeginner:", "\t\ttx.Statement.ConnPool, _ = beginner.BeginTx(tx.Statement.Context, opt)\n\tcase ConnPoolBeginner:"}}},
		// C01.taint: valuer source
		Mutant{Name: "c01-valuer-result-written-as-text", Property: "C01", Rule: "C01.taint", Edits: []Edit{{"statement.go",
			"\t\tcase driver.Valuer:\n\t\t\tstmt.Vars = append(stmt.Vars, v)\n\t\t\tstmt.DB.Dialector.BindVarTo(writer, stmt, v)", "\t\tcase driver.Valuer:\n\t\t\tif dv, err := v.Value(); err == nil {\n\t\t\t\tif s, ok := dv.(string); ok {\n\t\t\t\t\twriter.WriteString(s)\n\t\t\t\t\treturn\n\t\t\t\t}\n\t\t\t}\n\t\t\tstmt.Vars = append(stmt.Vars, v)\n\t\t\tstmt.DB.Dialector.BindVarTo(writer, stmt, v)"}}},
		// C03.serializer-fresh / C07.pool-fresh
		Mutant{Name: "c03-serializer-holder-reset-only-on-pointer-type", Property: "C03", Rule: "C03.serializer-fresh", Edits: []Edit{{"schema/field.go",
			"\t\t\t\t\tsi := reflect.New(serializerType)\n\t\t\t\t\tsi.Elem().Set(serializerValue)\n\t\t\t\t\ts.Serializer = si.Interface().(SerializerInterface)\n\t\t\t\t}\n\t\t\t} else {", "\t\t\t\t\tif !sameElemType {\n\t\t\t\t\t\tsi := reflect.New(serializerType)\n\t\t\t\t\t\tsi.Elem().Set(serializerValue)\n\t\t\t\t\t\ts.Serializer = si.Interface().(SerializerInterface)\n\t\t\t\t\t}\n\t\t\t\t}\n\t\t\t} else {"}}},
		Mutant{Name: "c07-pool-new-returns-captured-holder", Property: "C07", Rule: "C07.pool-fresh", Edits: []Edit{{"schema/field.go",
			"\t\tserializerType := serializerValue.Type()\n\t\tfield.NewValuePool = &sync.Pool{\n\t\t\tNew: func() interface{} {\n\t\t\t\tsi := reflect.New(serializerType)\n\t\t\t\tsi.Elem().Set(serializerValue)\n\t\t\t\treturn &serializer{\n\t\t\t\t\tField:      field,\n\t\t\t\t\tSerializer: si.Interface().(SerializerInterface),\n\t\t\t\t}\n\t\t\t},\n\t\t}",
			"\t\tserializerType := serializerValue.Type()\n\t\tsi := reflect.New(serializerType)\n\t\tsi.Elem().Set(serializerValue)\n\t\tholder := &serializer{Field: field, Serializer: si.Interface().(SerializerInterface)}\n\t\tfield.NewValuePool = &sync.Pool{\n\t\t\tNew: func() interface{} {\n\t\t\t\treturn holder\n\t\t\t},\n\t\t}"}}},

		Mutant{Name: "n78-group-condition-instance-in-a-local", Property: "*", Rule: "NEUTRAL", Edits: []Edit{{"statement.go",
			"\t\t\tv = v.getInstance().executeScopes()\n", "\t\t\tgroup := v.getInstance()\n\t\t\tv = group.executeScopes()\n"}}},
		Mutant{Name: "n79-pool-new-type-hoisted-value-built-inside", Property: "*", Rule: "NEUTRAL", Edits: []Edit{{"schema/field.go",
			"\t\t\t\tsi := reflect.New(serializerType)\n\t\t\t\tsi.Elem().Set(serializerValue)\n\t\t\t\treturn &serializer{\n\t\t\t\t\tField:      field,\n\t\t\t\t\tSerializer: si.Interface().(SerializerInterface),\n\t\t\t\t}",
			"\t\t\t\tsi := reflect.New(serializerType)\n\t\t\t\tsi.Elem().Set(serializerValue)\n\t\t\t\tfresh := si.Interface().(SerializerInterface)\n\t\t\t\treturn &serializer{\n\t\t\t\t\tField:      field,\n\t\t\t\t\tSerializer: fresh,\n\t\t\t\t}"}}},
		Mutant{Name: "n80-serializer-holder-reset-through-helper-local", Property: "*", Rule: "NEUTRAL", Edits: []Edit{{"schema/field.go",
			"\t\t\t\t\tsi := reflect.New(serializerType)\n\t\t\t\t\tsi.Elem().Set(serializerValue)\n\t\t\t\t\ts.Serializer = si.Interface().(SerializerInterface)\n\t\t\t\t}\n\t\t\t} else {", "\t\t\t\t\tsi := reflect.New(serializerType)\n\t\t\t\t\tsi.Elem().Set(serializerValue)\n\t\t\t\t\tnext := si.Interface().(SerializerInterface)\n\t\t\t\t\ts.Serializer = next\n\t\t\t\t}\n\t\t\t} else {"}}},
		Mutant{Name: "n81-withcontext-through-a-local-session", Property: "*", Rule: "NEUTRAL", Edits: []Edit{{"gorm.go",
			"\treturn db.Session(&Session{Context: ctx})", "\ttx := db.Session(&Session{Context: ctx})\n\treturn tx"}}},
		Mutant{Name: "n82-begin-error-through-a-local", Property: "*", Rule: "NEUTRAL", Edits: []Edit{{"finisher_api.go",
			"\t\ttx.Statement.ConnPool, err = beginner.BeginTx(tx.Statement.Context, opt)\n\tcase ConnPoolBeginner:", "\t\tsqlTx, beginErr := beginner.BeginTx(tx.Statement.Context, opt)\n\t\ttx.Statement.ConnPool, err = sqlTx, beginErr\n\tcase ConnPoolBeginner:"}}},
	)
}

func init() {
	addMutants(
		Mutant{Name: "c02-gt-with-nil-renders-is-not-null", Property: "C02", Rule: "C02.operator-fixed", Edits: []Edit{{"clause/expression.go",
			"func (gt Gt) Build(builder Builder) {\n", "func (gt Gt) Build(builder Builder) {\n\tif gt.Value == nil {\n\t\tbuilder.WriteQuoted(gt.Column)\n\t\tbuilder.WriteString(\" IS NOT NULL\")\n\t\treturn\n\t}\n"}}},
		Mutant{Name: "n83-like-operator-in-a-constant", Property: "*", Rule: "NEUTRAL", Edits: []Edit{{"clause/expression.go",
			"func (like Like) Build(builder Builder) {\n\tbuilder.WriteQuoted(like.Column)\n\tbuilder.WriteString(\" LIKE \")", "const likeOperator = \" LIKE \"\n\nfunc (like Like) Build(builder Builder) {\n\tbuilder.WriteQuoted(like.Column)\n\tbuilder.WriteString(likeOperator)"}}},
	)
}
