package main

// Hand mutants and behaviour-preserving edits for the rules added after seed round 3.

func init() {
	addMutants(
		Mutant{Name: "c01-byte-slice-by-kind-of-slice-type", Property: "C01", Rule: "C01.byte-slice", Edits: []Edit{{"statement.go",
			"} else if rv.Type().Elem() == reflect.TypeOf(uint8(0)) {", "} else if rv.Type().Elem().Kind() == reflect.Uint8 || rv.Type().Elem().Kind() == reflect.Int8 {"}}},
		Mutant{Name: "c01-every-slice-bound-whole", Property: "C01", Rule: "C01.byte-slice", Edits: []Edit{{"statement.go",
			"} else if rv.Type().Elem() == reflect.TypeOf(uint8(0)) {", "} else if rv.Type().Elem() == reflect.TypeOf(uint8(0)) || rv.Len() == 1 {"}}},
		Mutant{Name: "c02-gte-negated-as-lte", Property: "C02", Rule: "C02.negation-table", Edits: []Edit{{"clause/expression.go",
			"func (gte Gte) NegationBuild(builder Builder) {\n\tLt(gte).Build(builder)", "func (gte Gte) NegationBuild(builder Builder) {\n\tLte(gte).Build(builder)"}}},
		Mutant{Name: "c02-like-negation-writes-like", Property: "C02", Rule: "C02.negation-table", Edits: []Edit{{"clause/expression.go",
			"\tbuilder.WriteString(\" NOT LIKE \")", "\tbuilder.WriteString(\" LIKE \")"}}},
		Mutant{Name: "c02-in-single-value-negated-as-equal", Property: "C02", Rule: "C02.negation-table", Edits: []Edit{{"clause/expression.go",
			"\t\t\tbuilder.WriteString(\" <> \")\n\t\t\tbuilder.AddVar(builder, in.Values[0])", "\t\t\tbuilder.WriteString(\" = \")\n\t\t\tbuilder.AddVar(builder, in.Values[0])"}},
			Note: "set-level check: '=' is the complement of nothing IN.Build renders except '<>'... it is rendered by Build itself"},
		Mutant{Name: "c04-session-installs-base-pool-over-transaction", Property: "C04", Rule: "C04.pool-kept", Edits: []Edit{{"gorm.go",
			"\t\tswitch t := tx.Statement.ConnPool.(type) {\n\t\tcase Tx:\n\t\t\ttx.Statement.ConnPool = &PreparedStmtTX{\n\t\t\t\tTx:             t,\n\t\t\t\tPreparedStmtDB: preparedStmt,\n\t\t\t}\n\t\tdefault:",
			"\t\tswitch tx.Statement.ConnPool.(type) {\n\t\tdefault:"}},
			Note: "Session(PrepareStmt) inside a transaction would run on the pool"},
		Mutant{Name: "c04-commit-callback-resets-pool-when-skipping", Property: "C04", Rule: "C04.pool-kept", Edits: []Edit{{"callbacks/transaction.go",
			"func CommitOrRollbackTransaction(db *gorm.DB) {\n\tif !db.Config.SkipDefaultTransaction {", "func CommitOrRollbackTransaction(db *gorm.DB) {\n\tif db.Config.SkipDefaultTransaction {\n\t\tdb.Statement.ConnPool = db.ConnPool\n\t}\n\tif !db.Config.SkipDefaultTransaction {"}}},
		Mutant{Name: "c05-before-update-error-on-hook-session", Property: "C05", Rule: "C05.errors", Edits: []Edit{{"callbacks/update.go",
			"\t\t\t\t\tdb.AddError(i.BeforeUpdate(tx))", "\t\t\t\t\ttx.AddError(i.BeforeUpdate(tx))"}}},
		Mutant{Name: "c13-after-delete-error-on-hook-session", Property: "C13", Rule: "C13.sites", Edits: []Edit{{"callbacks/delete.go",
			"db.AddError(i.AfterDelete(tx))", "tx.AddError(i.AfterDelete(tx))"}}},

		Mutant{Name: "n34-byte-type-from-schema-package", Property: "*", Rule: "NEUTRAL", Edits: []Edit{{"statement.go",
			"} else if rv.Type().Elem() == reflect.TypeOf(uint8(0)) {", "} else if schema.ByteReflectType == rv.Type().Elem() {"}}},
		Mutant{Name: "n35-byte-type-by-kind-and-pkgpath", Property: "*", Rule: "NEUTRAL", Edits: []Edit{{"statement.go",
			"} else if rv.Type().Elem() == reflect.TypeOf(uint8(0)) {", "} else if et := rv.Type().Elem(); et.Kind() == reflect.Uint8 && et.PkgPath() == \"\" {"}}},
		Mutant{Name: "n36-commit-callback-early-returns", Property: "*", Rule: "NEUTRAL", Edits: []Edit{{"callbacks/transaction.go",
			"\tif !db.Config.SkipDefaultTransaction {\n\t\tif _, ok := db.InstanceGet(\"gorm:started_transaction\"); ok {\n\t\t\tif db.Error != nil {\n\t\t\t\tdb.Rollback()\n\t\t\t} else {\n\t\t\t\tdb.Commit()\n\t\t\t}\n\n\t\t\tdb.Statement.ConnPool = db.ConnPool\n\t\t}\n\t}\n}",
			"\tif db.Config.SkipDefaultTransaction {\n\t\treturn\n\t}\n\tif _, ok := db.InstanceGet(\"gorm:started_transaction\"); !ok {\n\t\treturn\n\t}\n\tif db.Error != nil {\n\t\tdb.Rollback()\n\t} else {\n\t\tdb.Commit()\n\t}\n\tdb.Statement.ConnPool = db.ConnPool\n}"}}},
		Mutant{Name: "n37-lt-negation-inline", Property: "*", Rule: "NEUTRAL", Edits: []Edit{{"clause/expression.go",
			"func (lt Lt) NegationBuild(builder Builder) {\n\tGte(lt).Build(builder)\n}", "func (lt Lt) NegationBuild(builder Builder) {\n\tbuilder.WriteQuoted(lt.Column)\n\tbuilder.WriteString(\" >= \")\n\tbuilder.AddVar(builder, lt.Value)\n}"}}},
	)
}

func init() {
	addMutants(
		Mutant{Name: "c08-count-deletes-where-afterwards", Property: "C08", Rule: "C08.where-kept", Edits: []Edit{{"finisher_api.go",
			"\ttx.Statement.Dest = count\n\ttx = tx.callbacks.Query().Execute(tx)\n", "\ttx.Statement.Dest = count\n\ttx = tx.callbacks.Query().Execute(tx)\n\tif len(db.Statement.Clauses) == 0 {\n\t\tdelete(tx.Statement.Clauses, \"WHERE\")\n\t}\n"}}},
		Mutant{Name: "c08-scopes-drop-marker", Property: "C08", Rule: "C08.where-kept", Edits: []Edit{{"callbacks/query.go",
			"\t\tdb.Statement.Clauses[\"FROM\"] = fromClause", "\t\tdb.Statement.Clauses[\"FROM\"] = fromClause\n\t\tdelete(db.Statement.Clauses, \"soft_delete_enabled\")"}}},
		Mutant{Name: "c09-assoc-delete-not-skipped-without-keys", Property: "C09", Rule: "C09.assoc-delete", Edits: []Edit{{"callbacks/delete.go",
			"\t\t\t\tif !withoutConditions && db.AddError(", "\t\t\t\tif (!withoutConditions || rel.Polymorphic != nil) && db.AddError("}}},
		Mutant{Name: "c09-assoc-delete-flag-from-first-condition-only", Property: "C09", Rule: "C09.assoc-delete", Edits: []Edit{{"callbacks/delete.go",
			"\t\t\t\tfor _, cond := range queryConds {\n\t\t\t\t\tif c, ok := cond.(clause.IN); ok && len(c.Values) == 0 {\n\t\t\t\t\t\twithoutConditions = true\n\t\t\t\t\t\tbreak\n\t\t\t\t\t}\n\t\t\t\t}\n",
			"\t\t\t\tif len(queryConds) > 0 {\n\t\t\t\t\tif c, ok := queryConds[0].(clause.IN); ok && len(c.Values) == 0 {\n\t\t\t\t\t\twithoutConditions = true\n\t\t\t\t\t}\n\t\t\t\t}\n"}}},
		Mutant{Name: "c12-cursor-skips-before-row-loop", Property: "C12", Rule: "C12.returning-cursor", Edits: []Edit{{"scan.go",
			"\t\t\tfor initialized || rows.Next() {\n\t\t\tBEGIN:", "\t\t\tif update && onConflictDonothing && reflectValue.Len() > 0 {\n\t\t\t\tdb.RowsAffected += 0\n\t\t\t}\n\t\t\tfor initialized || rows.Next() {\n\t\t\tBEGIN:"}}},
		Mutant{Name: "c13-batches-in-own-transactions", Property: "C13", Rule: "C13.dispatch", Edits: []Edit{{"finisher_api.go",
			"if tx.SkipDefaultTransaction || reflectLen <= batchSize {", "if tx.SkipDefaultTransaction || reflectLen <= batchSize*2 {"}}},
		Mutant{Name: "n38-assoc-delete-flag-without-break", Property: "*", Rule: "NEUTRAL", Edits: []Edit{{"callbacks/delete.go",
			"\t\t\t\t\tif c, ok := cond.(clause.IN); ok && len(c.Values) == 0 {\n\t\t\t\t\t\twithoutConditions = true\n\t\t\t\t\t\tbreak\n\t\t\t\t\t}", "\t\t\t\t\tif in, isIn := cond.(clause.IN); isIn && len(in.Values) == 0 {\n\t\t\t\t\t\twithoutConditions = true\n\t\t\t\t\t}"}}},
		Mutant{Name: "n39-count-select-restore-renamed", Property: "*", Rule: "NEUTRAL", Edits: []Edit{{"finisher_api.go",
			"\t\tdefer delete(tx.Statement.Clauses, \"SELECT\")", "\t\tdefer func() { delete(tx.Statement.Clauses, \"SELECT\") }()"}}},
	)
}

func init() {
	addMutants(
		Mutant{Name: "c15-batch-cursor-without-regroup", Property: "C15", Rule: "C15.cursor-group", Edits: []Edit{{"finisher_api.go",
			"\t\t\t\tif orCond, ok := expr.(clause.OrConditions); ok && len(orCond.Exprs) == 1 {\n\t\t\t\t\twhere.Exprs = []clause.Expression{clause.And(where.Exprs...)}\n\t\t\t\t\tc.Expression = where\n\t\t\t\t\ttx.Statement.Clauses[\"WHERE\"] = c\n\t\t\t\t\tbreak\n\t\t\t\t}", "\t\t\t\t_ = expr"}},
			Note: "reverts fix 0cba5d2"},
		Mutant{Name: "c15-regroup-keeps-only-or-units", Property: "C15", Rule: "C15.cursor-group", Edits: []Edit{{"finisher_api.go",
			"\t\t\t\t\twhere.Exprs = []clause.Expression{clause.And(where.Exprs...)}\n\t\t\t\t\tc.Expression = where\n\t\t\t\t\ttx.Statement.Clauses[\"WHERE\"] = c\n\t\t\t\t\tbreak", "\t\t\t\t\twhere.Exprs = []clause.Expression{clause.And(orCond.Exprs...)}\n\t\t\t\t\tc.Expression = where\n\t\t\t\t\ttx.Statement.Clauses[\"WHERE\"] = c\n\t\t\t\t\tbreak"}}},
		Mutant{Name: "c15-map-scan-leaves-invalid-columns", Property: "C15", Rule: "C15.map-complete", Edits: []Edit{{"scan.go",
			"\t\t} else {\n\t\t\tmapValue[column] = nil\n\t\t}", "\t\t}"}}},
		Mutant{Name: "c16-save-zero-key-checks-first-primary-field", Property: "C16", Rule: "C16.save", Edits: []Edit{{"finisher_api.go",
			"\t\t\tfor _, pf := range tx.Statement.Schema.PrimaryFields {\n\t\t\t\tif _, isZero := pf.ValueOf(tx.Statement.Context, reflectValue); isZero {\n\t\t\t\t\treturn tx.callbacks.Create().Execute(tx)\n\t\t\t\t}\n\t\t\t}", "\t\t\tif pfs := tx.Statement.Schema.PrimaryFields; len(pfs) > 0 {\n\t\t\t\tif _, isZero := pfs[0].ValueOf(tx.Statement.Context, reflectValue); isZero {\n\t\t\t\t\treturn tx.callbacks.Create().Execute(tx)\n\t\t\t\t}\n\t\t\t}"}}},
		Mutant{Name: "c20-unique-name-published-from-go-name", Property: "C20", Rule: "C20.name-agree", Edits: []Edit{{"schema/constraint.go",
			"name := schema.namer.UniqueName(schema.Table, field.DBName)", "name := schema.namer.UniqueName(schema.Table, field.Name)"}}},
		Mutant{Name: "n44-find-in-batches-regroup-with-index-loop", Property: "*", Rule: "NEUTRAL", Edits: []Edit{{"finisher_api.go",
			"\t\t\tfor _, expr := range where.Exprs {\n\t\t\t\tif orCond, ok := expr.(clause.OrConditions); ok && len(orCond.Exprs) == 1 {\n\t\t\t\t\twhere.Exprs = []clause.Expression{clause.And(where.Exprs...)}", "\t\t\tfor i := range where.Exprs {\n\t\t\t\tif orCond, isOr := where.Exprs[i].(clause.OrConditions); isOr && len(orCond.Exprs) == 1 {\n\t\t\t\t\twhere.Exprs = []clause.Expression{clause.And(where.Exprs...)}"}}},
		Mutant{Name: "n45-map-scan-nil-first", Property: "*", Rule: "NEUTRAL", Edits: []Edit{{"scan.go",
			"\t\tif reflectValue := reflect.Indirect(reflect.Indirect(reflect.ValueOf(values[idx]))); reflectValue.IsValid() {\n\t\t\tmapValue[column] = reflectValue.Interface()", "\t\tmapValue[column] = nil\n\t\tif reflectValue := reflect.Indirect(reflect.Indirect(reflect.ValueOf(values[idx]))); reflectValue.IsValid() {\n\t\t\tmapValue[column] = reflectValue.Interface()"}}},
	)
}
