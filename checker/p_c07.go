package main

// C07 — one shared handle can be used from many goroutines at once, including first use (narrow).

import (
	"go/ast"
	"go/token"
	"go/types"
	"strings"

	"golang.org/x/tools/go/ssa"
	"golang.org/x/tools/go/types/typeutil"
)

func init() {
	register("C07", checkC07,
		"Protocol clauses of C07 decided statically (general race freedom of the reflection-heavy code is NOT decided): (cache) in the schema parser every *Schema taken from the shared cache is returned only after a receive from its initialized channel, the schema under construction is published only with LoadOrStore after `defer close(initialized)` was registered, and the non-waiting accessor getOrParse is called only from relation/embedded-field parsing; (foreign-map) every write to another schema's Relationships.Relations map holds that schema's Relationships.Mux; (globals) no package-level variable of the 8 packages is stored to outside package initialisation unless it has a sync/atomic type; (callbacks) the compiled callback list and registration records are written only by registration/compilation code, never on the execution path; (immutability) the C06 rules recv/clone/merge-alias/build-pure (a write into memory shared by all chains of a handle is a data race as soon as two goroutines use it); (pool) scanIntoStruct returns each pooled scan value exactly once per row on every path and never touches it afterwards; (stmt-cache) the C14 lock rules. NOT decided: absence of data races in general (e.g. cross-schema field writes during relation guessing), equality with a serial run, lost updates.")
}

func checkC07(c *Ctx) {
	p := c.P
	checkC07Cache(c)
	checkC07ForeignMap(c)
	checkC07FieldMeta(c)
	checkC07FieldClosures(c)
	checkC07EscapingClosures(c)
	checkC07CacheAppend(c)
	checkSerializerFresh(c, nil, c.Rule("C07.pool-fresh", "a sync.Pool New closure hands out only objects created inside it (plus the builder's receiver/parameters)", 2))
	checkC07Globals(c)
	checkC07Callbacks(c)
	checkC06Recv(c, c.Rule("C07.immutability-recv", "exported *DB methods never write through their receiver (shared by all goroutines using the handle)", 55))
	checkC06Clone(c, c.Rule("C07.immutability-clone", "Statement.clone gives every derived chain its own copy of the per-chain maps and in-place-extended slices (two goroutines deriving from one handle never share a backing array)", 20), nil)
	checkC06MergeAlias(c, c.Rule("C07.immutability-merge", "MergeClause never appends onto / stores into a slice shared with the handle's clause", 16))
	checkC06BuildPure(c, c.Rule("C07.immutability-build", "Build/NegationBuild/buildExprs never store into slices shared with the handle's clauses", 30))
	checkC07Pool(c)
	checkC14Into(c, "C07.stmt-cache")
	_ = p
}

// ---- C07.cache ----

func checkC07Cache(c *Ctx) {
	p := c.P
	r := c.Rule("C07.cache", "schema cache: wait on initialized before returning a cached schema; publish with LoadOrStore after defer close; getOrParse only from relation/embedded parsing", 6)
	parse := p.FuncDecl(pkgSchema, "ParseWithSpecialTableName")
	c.Touch(parse)
	info := parse.Pkg.TypesInfo
	schemaT := p.Named(pkgSchema, "Schema")
	initF := p.Field(schemaT, "initialized")
	syncMap := p.StdNamed("sync", "Map")
	conf := &GuardConfig{Name: "c07-cache", Events: func(info *types.Info, n ast.Node) []string {
		var out []string
		if d, ok := n.(*ast.DeferStmt); ok {
			if id, ok := d.Call.Fun.(*ast.Ident); ok && id.Name == "close" && len(d.Call.Args) == 1 && fieldSel(info, d.Call.Args[0], initF) {
				out = append(out, "defer-close:"+canon(info, d.Call.Args[0]))
			}
		}
		ast.Inspect(n, func(x ast.Node) bool {
			switch x := x.(type) {
			case *ast.FuncLit:
				return false
			case *ast.UnaryExpr:
				if x.Op == token.ARROW && fieldSel(info, x.X, initF) {
					out = append(out, "recv:"+canon(info, x.X))
				}
			}
			return true
		})
		return out
	}}
	gs := p.Guards(parse, conf)
	// returns of cached schemas
	nRet := 0
	ast.Inspect(parse.Body, func(n ast.Node) bool {
		if _, ok := n.(*ast.FuncLit); ok {
			return false
		}
		rs, ok := n.(*ast.ReturnStmt)
		if !ok || len(rs.Results) != 2 {
			return true
		}
		id, ok := unparen(rs.Results[0]).(*ast.Ident)
		if !ok {
			return true
		}
		def := resolveLocalNearest(parse, id, rs.Pos())
		ta, isAssert := unparen(def).(*ast.TypeAssertExpr)
		if def == nil || !isAssert {
			return true // the schema built by this call (or nil)
		}
		_ = ta
		nRet++
		facts, live := gs.At(rs.Pos())
		r.Check(live && facts.Has(fEvent("recv:"+id.Name+".initialized")), parse.Name(), "return cached schema "+id.Name, rs.Pos(), "after <-"+id.Name+".initialized", "a schema taken from the shared cache is returned without waiting for its initialisation by the goroutine that is still building it")
		return true
	})
	r.Check(nRet >= 2, parse.Name(), "cached-schema returns", parse.Body.Pos(), "cache hits return the cached schema", "no return of a cached schema found; rule lost its anchor")
	// publication
	nPub := 0
	for _, call := range callsIn(parse) {
		fn, _ := typeutil.Callee(info, call).(*types.Func)
		if fn == nil {
			continue
		}
		sig := fn.Type().(*types.Signature)
		if sig.Recv() == nil || !p.isNamedPtr(sig.Recv().Type(), syncMap) {
			continue
		}
		switch fn.Name() {
		case "Store", "Swap", "CompareAndSwap":
			r.Bad(parse.Name(), "cacheStore."+fn.Name(), call.Pos(), "the schema cache is written with "+fn.Name()+": two goroutines parsing the same model for the first time both publish, and users of the first one keep a schema nobody else sees")
		case "LoadOrStore":
			nPub++
			facts, live := gs.At(call.Pos())
			var stored string
			if len(call.Args) == 2 {
				stored = canon(info, call.Args[1])
			}
			r.Check(live && facts.Has(fEvent("defer-close:"+stored+".initialized")), parse.Name(), "publish after defer close", call.Pos(), "defer close("+stored+".initialized) registered before publication", "the schema under construction is published before `defer close(initialized)` is registered: an early return after publication leaves every other goroutine blocked forever")
		}
	}
	r.Check(nPub == 1, parse.Name(), "single publication", parse.Body.Pos(), "published once with LoadOrStore", "schema is not published with exactly one LoadOrStore")
	// getOrParse callers
	gop := p.FuncDecl(pkgSchema, "getOrParse")
	allowed := map[string]bool{"schema.(*Schema).parseRelation": true, "schema.(*Schema).ParseField": true}
	n := 0
	for _, f := range p.Funcs {
		for _, call := range callsIn(f) {
			if fn, _ := typeutil.Callee(f.Pkg.TypesInfo, call).(*types.Func); fn == gop.Obj {
				n++
				root := rootFunc(f)
				r.Check(allowed[root.Name()], f.Name(), "calls getOrParse", call.Pos(), "relation / embedded-field parsing (may meet a schema that is still being built by the same goroutine)", "getOrParse returns a cached schema WITHOUT waiting for its initialisation; calling it from "+root.Name()+" hands out half-built schemas")
			}
		}
	}
	r.Check(n >= 1, gop.Name(), "callers", gop.Body.Pos(), "has callers", "getOrParse has no callers; rule lost its anchor")
}

// resolveLocalNearest returns the RHS of the closest preceding definition of id (by position) in f.
func resolveLocalNearest(f *FuncSrc, id *ast.Ident, before token.Pos) ast.Expr {
	info := f.Pkg.TypesInfo
	obj := info.Uses[id]
	if obj == nil {
		return nil
	}
	var def ast.Expr
	ast.Inspect(f.Body, func(x ast.Node) bool {
		if as, ok := x.(*ast.AssignStmt); ok && as.Pos() < before && len(as.Lhs) == len(as.Rhs) {
			for i, l := range as.Lhs {
				if lid, ok := l.(*ast.Ident); ok && (info.Defs[lid] == obj || info.Uses[lid] == obj) {
					def = as.Rhs[i]
				}
			}
		}
		return true
	})
	return def
}

// ---- C07.foreign-map ----

func checkC07ForeignMap(c *Ctx) {
	p := c.P
	r := c.Rule("C07.foreign-map", "writes to another schema's Relationships.Relations hold that schema's Relationships.Mux", 1)
	r.Exempt("gorm.(*DB).SetupJoinTable", "documented set-up API that rewires a join table before the models are used; not on the concurrent path")
	relsT := p.Named(pkgSchema, "Relationships")
	rwm := p.StdNamed("sync", "RWMutex")
	la := &lockAnalysis{p: p, muxF: p.Field(relsT, "Mux"), stmtsF: p.Field(relsT, "Relations"), rw: map[string]*types.Func{}, writesOnly: true}
	for _, n := range []string{"Lock", "RLock", "Unlock", "RUnlock"} {
		la.rw[n] = p.Method(rwm, n)
	}
	r.Exempt("schema.(*Schema).buildMany2ManyRelation", "writes the relation map of the join-table schema it has just synthesised (reflect.StructOf) for the relation under construction")
	la.exemptWrite = func(f *FuncSrc, base ast.Expr) bool {
		// the schema under construction: rooted at the method receiver, directly or through a
		// local that is only ever assigned receiver-rooted values (walking embedded relation maps)
		recv := recvName(rootFunc(f))
		if recv == "" {
			return false
		}
		root := selRootIdent(base)
		if root == recv {
			return true
		}
		ok, n := true, 0
		ast.Inspect(rootFunc(f).Body, func(x ast.Node) bool {
			if as, isAs := x.(*ast.AssignStmt); isAs && len(as.Lhs) == len(as.Rhs) {
				for i, l := range as.Lhs {
					if id, isID := l.(*ast.Ident); isID && id.Name == root {
						n++
						rhs := as.Rhs[i]
						if u, isU := unparen(rhs).(*ast.UnaryExpr); isU && u.Op == token.AND {
							rhs = u.X
						}
						if rr := selRootIdent(rhs); rr != recv && rr != root {
							ok = false
						}
					}
				}
			}
			return true
		})
		return ok && n > 0
	}
	la.violate = func(rule string, f *FuncSrc, desc string, pos token.Pos, msg string) {
		if rule == "C14.map" {
			msg = "another schema's relation map is written without holding its Relationships.Mux: concurrent first use of two related models races on the map"
		}
		r.Bad(f.Name(), desc, pos, msg)
	}
	la.okay = func(rule string, f *FuncSrc, desc string, pos token.Pos, msg string) {
		r.OK(f.Name(), desc, pos, msg)
	}
	for _, f := range p.FuncsOf(pkgSchema, pkgGorm, pkgCallbacks, pkgMigrator) {
		info := f.Pkg.TypesInfo
		mentions := false
		ast.Inspect(f.Body, func(n ast.Node) bool {
			if _, ok := n.(*ast.FuncLit); ok {
				return false
			}
			if as, ok := n.(*ast.AssignStmt); ok {
				for _, l := range as.Lhs {
					if ix, ok := unparen(l).(*ast.IndexExpr); ok && fieldSel(info, ix.X, la.stmtsF) {
						mentions = true
					}
				}
			}
			if sel, ok := n.(*ast.SelectorExpr); ok && fieldSel(info, sel, la.muxF) {
				mentions = true
			}
			return true
		})
		if !mentions {
			continue
		}
		if r.IsExempt(rootFunc(f).Name()) {
			continue
		}
		c.Touch(f)
		la.runLockset(f)
	}
}

// ---- C07.globals ----

func isSyncType(t types.Type) bool {
	if pt, ok := t.(*types.Pointer); ok {
		t = pt.Elem()
	}
	n, ok := t.(*types.Named)
	if !ok || n.Obj().Pkg() == nil {
		return false
	}
	pp := n.Obj().Pkg().Path()
	return pp == "sync" || pp == "sync/atomic"
}

func checkC07Globals(c *Ctx) {
	p := c.P
	r := c.Rule("C07.globals", "package-level variables are written only during package initialisation, or have a sync/atomic type", 15)
	p.SSA()
	writes := map[*ssa.Global][]string{}
	for _, fn := range p.SSAFuncs() {
		if fn.Name() == "init" || strings.HasPrefix(fn.Name(), "init#") || (fn.Parent() != nil && rootSSA(fn).Name() == "init") {
			continue
		}
		if fn.Pkg != nil && fn.Pkg.Pkg.Path() == pkgUtilTests {
			continue
		}
		for _, b := range fn.Blocks {
			for _, in := range b.Instrs {
				var addr ssa.Value
				switch in := in.(type) {
				case *ssa.Store:
					addr = in.Addr
				case *ssa.MapUpdate:
					addr = in.Map
				default:
					continue
				}
				// walk to the root
				v := addr
				for depth := 0; depth < 10; depth++ {
					switch x := v.(type) {
					case *ssa.FieldAddr:
						v = x.X
						continue
					case *ssa.IndexAddr:
						v = x.X
						continue
					case *ssa.UnOp:
						if x.Op == token.MUL {
							v = x.X
							continue
						}
					}
					break
				}
				if g, ok := v.(*ssa.Global); ok && p.ssaPkgs[g.Pkg.Pkg.Path()] != nil {
					writes[g] = append(writes[g], ssaFuncName(fn)+" at "+p.Pos(in.Pos()))
				}
			}
		}
	}
	for _, path := range repoPkgs {
		if path == pkgUtilTests {
			continue
		}
		sp := p.ssaPkgs[path]
		var names []string
		for n, m := range sp.Members {
			if _, ok := m.(*ssa.Global); ok && !strings.HasPrefix(n, "init$") {
				names = append(names, n)
			}
		}
		sortStrings(names)
		for _, n := range names {
			g := sp.Members[n].(*ssa.Global)
			elem := g.Type().(*types.Pointer).Elem()
			c.TouchName(path + "." + n)
			w := writes[g]
			// a package-level OBJECT whose methods keep internal state is shared mutable state even when the variable is
			// never stored to: third-party struct/interface values and the std types known to be stateful are accepted
			// only from the frozen list of types documented as safe for concurrent use
			if why := statefulObjectType(p, elem); why != "" {
				r.Bad(sp.Pkg.Name()+"."+n, "global", g.Pos(), "package-level variable of type "+elem.String()+" ("+why+"): its methods may keep internal state, and every goroutine using any handle shares the one object")
				continue
			}
			switch {
			case len(w) == 0:
				r.OK(sp.Pkg.Name()+"."+n, "global", g.Pos(), "never stored to after package initialisation")
			case isSyncType(elem):
				r.OK(sp.Pkg.Name()+"."+n, "global", g.Pos(), "synchronised type "+elem.String())
			default:
				r.Bad(sp.Pkg.Name()+"."+n, "global", g.Pos(), "package-level variable is written at run time without synchronisation; every goroutine using any handle shares it", w...)
			}
		}
	}
}

func sortStrings(s []string) {
	for i := 1; i < len(s); i++ {
		for j := i; j > 0 && s[j] < s[j-1]; j-- {
			s[j], s[j-1] = s[j-1], s[j]
		}
	}
}

// ---- C07.callbacks ----

func checkC07Callbacks(c *Ctx) {
	p := c.P
	r := c.Rule("C07.callbacks", "the compiled callback list and registration records are written only by registration/compilation code", 8)
	procT := p.Named(pkgGorm, "processor")
	cbT := p.Named(pkgGorm, "callback")
	allowedFns := map[string]bool{
		"compile": true, "Register": true, "Remove": true, "Replace": true, "Before": true, "After": true, "Match": true,
		"sortCallbacks": true, "initializeCallbacks": true, "RegisterDefaultCallbacks": true, "removeCallbacks": true,
	}
	var fields []*types.Var
	for _, t := range []*types.Named{procT, cbT} {
		st := t.Underlying().(*types.Struct)
		for i := 0; i < st.NumFields(); i++ {
			fields = append(fields, st.Field(i))
		}
	}
	for _, fld := range fields {
		for _, st := range p.FieldStores(fld) {
			name := ssaFuncName(st.Fn)
			root := rootSSA(st.Fn)
			c.TouchName(name)
			r.Check(allowedFns[root.Name()], name, "store:"+fld.Name(), st.Pos, "registration/compilation code", "field "+fld.Name()+" of the callback processor is written by "+root.Name()+": the compiled list is read without locks by every executing goroutine")
		}
	}
	// element stores into the compiled list
	fnsF := p.Field(procT, "fns")
	for _, fn := range p.SSAFuncs() {
		forEachInstrFlat(fn, func(in ssa.Instruction) {
			st, ok := in.(*ssa.Store)
			if !ok {
				return
			}
			ia, ok := st.Addr.(*ssa.IndexAddr)
			if !ok {
				return
			}
			for _, pth := range valuePaths(ia.X) {
				if strings.HasSuffix(pth, "."+fnsF.Name()) && strings.Contains(pth, "fns") {
					if ld, ok := ia.X.(*ssa.UnOp); ok {
						if fa, ok := ld.X.(*ssa.FieldAddr); ok && fieldVar(fa.X.Type(), fa.Field) == fnsF {
							r.Bad(ssaFuncName(fn), "element store:fns", st.Pos(), "an element of the compiled callback list is overwritten in place")
						}
					}
				}
			}
		})
	}
}

func forEachInstrFlat(fn *ssa.Function, visit func(in ssa.Instruction)) {
	for _, b := range fn.Blocks {
		for _, in := range b.Instrs {
			visit(in)
		}
	}
}

// ---- C07.pool ----

func checkC07Pool(c *Ctx) {
	p := c.P
	r := c.Rule("C07.pool", "scanIntoStruct: one Put per Get on every path of a row, no use of the pooled value after Put", 3)
	f := p.MethodDecl(pkgGorm, "DB", "scanIntoStruct")
	c.Touch(f)
	info := f.Pkg.TypesInfo
	poolI := p.Named(pkgSchema, "FieldNewValuePool")
	getM := p.Method(poolI, "Get")
	putM := p.Method(poolI, "Put")
	isCall := func(n ast.Node, m *types.Func) *ast.CallExpr {
		var found *ast.CallExpr
		ast.Inspect(n, func(x ast.Node) bool {
			if _, ok := x.(*ast.FuncLit); ok {
				return false
			}
			if ce, ok := x.(*ast.CallExpr); ok {
				if fn, _ := typeutil.Callee(info, ce).(*types.Func); fn == m {
					found = ce
				}
			}
			return true
		})
		return found
	}
	// loops containing Get / Put
	var getLoop, putLoop *ast.RangeStmt
	var getCall, putCall *ast.CallExpr
	ast.Inspect(f.Body, func(n ast.Node) bool {
		rs, ok := n.(*ast.RangeStmt)
		if !ok {
			return true
		}
		if ce := isCall(rs.Body, getM); ce != nil && getLoop == nil {
			getLoop, getCall = rs, ce
		}
		if ce := isCall(rs.Body, putM); ce != nil && putLoop == nil {
			putLoop, putCall = rs, ce
		}
		return true
	})
	if getLoop == nil || putLoop == nil {
		r.Unknown(f.Name(), "loops", f.Body.Pos(), "cannot find the Get and Put loops")
		return
	}
	gs := p.Guards(f, nil)
	gf, _ := gs.At(getCall.Pos())
	pf, _ := gs.At(putCall.Pos())
	// the guard under which a value is taken from the pool must also hold where it is returned
	fieldVarName := ""
	if id, ok := getLoop.Value.(*ast.Ident); ok {
		fieldVarName = id.Name
	}
	putVarName := ""
	if id, ok := putLoop.Value.(*ast.Ident); ok {
		putVarName = id.Name
	}
	r.Check(gf.Has(fNonNil(fieldVarName)) && pf.Has(fNonNil(putVarName)) || !gf.Has(fNonNil(fieldVarName)), f.Name(), "Get and Put under the same field != nil condition", putCall.Pos(), "values taken for non-nil fields are returned for non-nil fields", "pooled values are taken and returned under different conditions")
	// both loops range over the same slice
	r.Check(canon(info, getLoop.X) == canon(info, putLoop.X), f.Name(), "Get loop and Put loop range over the same fields", putLoop.Pos(), "same range expression", "the loop returning pooled values ranges over a different list than the loop taking them")
	// ONCE: exactly one Put on every iteration path on which the field is non-nil
	paths, ok := p.EnumLoopIterPaths(f, putLoop, 5000)
	if !ok {
		r.Unknown(f.Name(), "paths", putLoop.Pos(), "too many paths through the loop body")
		return
	}
	badOnce, afterUse := 0, 0
	var witness []string
	for _, nodes := range paths {
		puts := 0
		skipped := false
		for i, n := range nodes {
			if isCall(n, putM) != nil {
				puts++
				// no later node of this iteration may mention the pooled value
				arg := canon(info, putCall.Args[0])
				for _, later := range nodes[i+1:] {
					ast.Inspect(later, func(x ast.Node) bool {
						if e, ok := x.(ast.Expr); ok && canon(info, e) == arg {
							afterUse++
							witness = append(witness, "use after Put at "+p.Pos(later.Pos()))
						}
						return true
					})
				}
			}
			// `if field == nil { continue }` : iterations for nil fields took nothing from the pool
			if e, ok := n.(ast.Expr); ok && canon(info, e) == putVarName+" == nil" && i == len(nodes)-1 {
				skipped = true
			}
			if bs, ok := n.(*ast.BranchStmt); ok && bs.Tok == token.CONTINUE && puts == 0 {
				skipped = true
			}
		}
		if !skipped && puts != 1 {
			badOnce++
			last := putLoop.Pos()
			if len(nodes) > 0 {
				last = nodes[len(nodes)-1].Pos()
			}
			witness = append(witness, "iteration path ending at "+p.Pos(last)+" has "+itoa(puts)+" Put calls")
		}
	}
	r.Check(badOnce == 0, f.Name(), "ONCE(Put per row and field)", putCall.Pos(), "exactly one Put on each of "+itoa(len(paths))+" iteration paths", "a path through one row returns a pooled scan value zero or several times: the pool hands the same buffer to two goroutines, or leaks", witness...)
	r.Check(afterUse == 0, f.Name(), "no use after Put", putCall.Pos(), "the pooled value is not touched after it was returned", "a pooled scan value is used after Put: another goroutine may already be scanning into it", witness...)
}

func itoa(n int) string {
	if n == 0 {
		return "0"
	}
	neg := n < 0
	if neg {
		n = -n
	}
	s := ""
	for n > 0 {
		s = string(rune('0'+n%10)) + s
		n /= 10
	}
	if neg {
		s = "-" + s
	}
	return s
}

// statefulObjectType classifies the type of a package-level variable.  "" = fine (basic types, functions, slices and
// maps - whose element writes the who-writes part of the rule sees -, repository types, and the frozen list of
// std types documented as safe for concurrent use or immutable).
func statefulObjectType(p *Program, t types.Type) string {
	if pt, ok := t.(*types.Pointer); ok {
		t = pt.Elem()
	}
	n, ok := t.(*types.Named)
	if !ok || n.Obj().Pkg() == nil {
		return ""
	}
	switch n.Underlying().(type) {
	case *types.Struct, *types.Interface:
	default:
		return ""
	}
	path := n.Obj().Pkg().Path()
	full := path + "." + n.Obj().Name()
	if p.ssaPkgs[path] != nil || strings.HasPrefix(path, pkgGorm) {
		return ""
	}
	safe := map[string]bool{
		"sync.Map": true, "sync.Pool": true, "sync.Mutex": true, "sync.RWMutex": true, "sync.Once": true, "sync.WaitGroup": true,
		"regexp.Regexp": true, "reflect.Type": true, "time.Location": true, "time.Time": true, "strings.Replacer": true,
		"errors.errorString": true, "context.Context": true, "database/sql.NullString": true,
	}
	if safe[full] {
		return ""
	}
	if !strings.Contains(strings.SplitN(path, "/", 2)[0], ".") {
		// std: only the types known to keep state between calls
		stateful := map[string]bool{"strings.Builder": true, "bytes.Buffer": true, "math/rand.Rand": true, "bufio.Reader": true, "bufio.Writer": true, "bufio.Scanner": true, "text/template.Template": false}
		if stateful[full] {
			return "stateful std type"
		}
		return ""
	}
	return "type of another module, not on the list of types safe for concurrent use"
}
