package main

func init() {
	addMutants(
		Mutant{Name: "c05-create-registered-before-begin", Property: "C05", Rule: "C05.bracket", Edits: []Edit{{"callbacks/callbacks.go",
			"\tcreateCallback.Match(enableTransaction).Register(\"gorm:begin_transaction\", BeginTransaction)\n\tcreateCallback.Register(\"gorm:before_create\", BeforeCreate)\n",
			"\tcreateCallback.Register(\"gorm:before_create\", BeforeCreate)\n\tcreateCallback.Match(enableTransaction).Register(\"gorm:begin_transaction\", BeginTransaction)\n"}}},
		Mutant{Name: "c05-after-delete-registered-after-commit", Property: "C05", Rule: "C05.bracket", Edits: []Edit{{"callbacks/callbacks.go",
			"\tdeleteCallback.Register(\"gorm:after_delete\", AfterDelete)\n\tdeleteCallback.Match(enableTransaction).Register(\"gorm:commit_or_rollback_transaction\", CommitOrRollbackTransaction)\n",
			"\tdeleteCallback.Match(enableTransaction).Register(\"gorm:commit_or_rollback_transaction\", CommitOrRollbackTransaction)\n\tdeleteCallback.Register(\"gorm:after_delete\", AfterDelete)\n"}}},
		Mutant{Name: "c05-update-commit-unmatched", Property: "C05", Rule: "C05.bracket", Edits: []Edit{{"callbacks/callbacks.go",
			"\tupdateCallback.Match(enableTransaction).Register(\"gorm:commit_or_rollback_transaction\", CommitOrRollbackTransaction)", "\tupdateCallback.Register(\"gorm:commit_or_rollback_transaction\", CommitOrRollbackTransaction)"}}},
		Mutant{Name: "c05-create-registered-with-after", Property: "C05", Rule: "C05.bracket", Edits: []Edit{{"callbacks/callbacks.go",
			"\tcreateCallback.Register(\"gorm:create\", Create(config))", "\tcreateCallback.After(\"gorm:commit_or_rollback_transaction\").Register(\"gorm:create\", Create(config))"}}},
		Mutant{Name: "c05-commit-rollback-arms-swapped", Property: "C05", Rule: "C05.commit-or-rollback", Edits: []Edit{{"callbacks/transaction.go",
			"\t\t\tif db.Error != nil {\n\t\t\t\tdb.Rollback()\n\t\t\t} else {\n\t\t\t\tdb.Commit()\n\t\t\t}", "\t\t\tif db.Error != nil {\n\t\t\t\tdb.Commit()\n\t\t\t} else {\n\t\t\t\tdb.Rollback()\n\t\t\t}"}}},
		Mutant{Name: "c05-no-rollback-on-error", Property: "C05", Rule: "C05.commit-or-rollback", Edits: []Edit{{"callbacks/transaction.go",
			"\t\t\tif db.Error != nil {\n\t\t\t\tdb.Rollback()\n\t\t\t} else {\n\t\t\t\tdb.Commit()\n\t\t\t}", "\t\t\tif db.Error == nil {\n\t\t\t\tdb.Commit()\n\t\t\t}"}}},
		Mutant{Name: "c05-pool-not-restored", Property: "C05", Rule: "C05.commit-or-rollback", Edits: []Edit{{"callbacks/transaction.go", "\t\t\tdb.Statement.ConnPool = db.ConnPool\n", ""}}},
		Mutant{Name: "c05-marker-not-set", Property: "C05", Rule: "C05.commit-or-rollback", Edits: []Edit{{"callbacks/transaction.go", "\t\t\tdb.InstanceSet(\"gorm:started_transaction\", true)\n", ""}}},
		Mutant{Name: "c05-begin-error-swallowed", Property: "C05", Rule: "C05.commit-or-rollback", Edits: []Edit{{"callbacks/transaction.go",
			"\t\t} else {\n\t\t\tdb.Error = tx.Error\n\t\t}", "\t\t}"}}},
		Mutant{Name: "c05-save-after-associations-unguarded", Property: "C05", Rule: "C05.entry-guard", Edits: []Edit{{"callbacks/associations.go",
			"func SaveAfterAssociations(create bool) func(db *gorm.DB) {\n\treturn func(db *gorm.DB) {\n\t\tif db.Error == nil && db.Statement.Schema != nil {", "func SaveAfterAssociations(create bool) func(db *gorm.DB) {\n\treturn func(db *gorm.DB) {\n\t\tif db.Statement.Schema != nil {"}}},
		Mutant{Name: "c05-after-create-hooks-run-after-error", Property: "C05", Rule: "C05.entry-guard", Edits: []Edit{{"callbacks/create.go",
			"if db.Error == nil && db.Statement.Schema != nil && !db.Statement.SkipHooks && (db.Statement.Schema.AfterSave || db.Statement.Schema.AfterCreate) {", "if db.Statement.Schema != nil && !db.Statement.SkipHooks && (db.Statement.Schema.AfterSave || db.Statement.Schema.AfterCreate) {"}}},
		Mutant{Name: "c05-preload-after-error", Property: "C05", Rule: "C05.entry-guard", Edits: []Edit{{"callbacks/query.go", "if db.Error == nil && len(db.Statement.Preloads) > 0 {", "if len(db.Statement.Preloads) > 0 {"}}},
		Mutant{Name: "c05-delete-associations-after-error", Property: "C05", Rule: "C05.entry-guard", Edits: []Edit{{"callbacks/delete.go",
			"func DeleteBeforeAssociations(db *gorm.DB) {\n\tif db.Error == nil && db.Statement.Schema != nil {", "func DeleteBeforeAssociations(db *gorm.DB) {\n\tif db.Statement.Schema != nil {"}}},
		Mutant{Name: "c05-update-exec-error-dropped", Property: "C05", Rule: "C05.errors", Edits: []Edit{{"callbacks/update.go",
			"\t\t\t\tresult, err := db.Statement.ConnPool.ExecContext(db.Statement.Context, db.Statement.SQL.String(), db.Statement.Vars...)\n\n\t\t\t\tif db.AddError(err) == nil {\n\t\t\t\t\tdb.RowsAffected, _ = result.RowsAffected()\n\t\t\t\t}",
			"\t\t\t\tresult, _ := db.Statement.ConnPool.ExecContext(db.Statement.Context, db.Statement.SQL.String(), db.Statement.Vars...)\n\n\t\t\t\tif result != nil {\n\t\t\t\t\tdb.RowsAffected, _ = result.RowsAffected()\n\t\t\t\t}"}}},
		Mutant{Name: "c05-join-table-create-error-dropped", Property: "C05", Rule: "C05.errors", Edits: []Edit{{"callbacks/associations.go",
			"\t\t\t\t\tdb.AddError(db.Session(&gorm.Session{NewDB: true}).Clauses(clause.OnConflict{DoNothing: true}).Session(&gorm.Session{\n\t\t\t\t\t\tSkipHooks:                db.Statement.SkipHooks,\n\t\t\t\t\t\tDisableNestedTransaction: true,\n\t\t\t\t\t}).Create(joins.Interface()).Error)",
			"\t\t\t\t\tdb.Session(&gorm.Session{NewDB: true}).Clauses(clause.OnConflict{DoNothing: true}).Session(&gorm.Session{\n\t\t\t\t\t\tSkipHooks:                db.Statement.SkipHooks,\n\t\t\t\t\t\tDisableNestedTransaction: true,\n\t\t\t\t\t}).Create(joins.Interface())"}}},
		Mutant{Name: "c05-before-create-hook-error-dropped", Property: "C05", Rule: "C05.errors", Edits: []Edit{{"callbacks/create.go", "\t\t\t\t\tdb.AddError(i.BeforeCreate(tx))", "\t\t\t\t\ti.BeforeCreate(tx)"}}},
		Mutant{Name: "c05-rows-close-error-dropped", Property: "C05", Rule: "C05.errors", Edits: []Edit{{"callbacks/delete.go", "\t\t\t\tgorm.Scan(rows, db, mode)\n\t\t\t\tdb.AddError(rows.Close())", "\t\t\t\tgorm.Scan(rows, db, mode)\n\t\t\t\trows.Close()"}}},
		Mutant{Name: "c05-scan-error-dropped", Property: "C05", Rule: "C05.errors", Edits: []Edit{{"scan.go", "\tdb.RowsAffected++\n\tdb.AddError(rows.Scan(values...))\n\tjoinedNestedSchemaMap", "\tdb.RowsAffected++\n\trows.Scan(values...)\n\tjoinedNestedSchemaMap"}}},
		Mutant{Name: "c05-savepoint-error-dropped", Property: "C05", Rule: "C05.errors", Edits: []Edit{{"finisher_api.go", "\t\tdb.AddError(savePointer.SavePoint(db, name))", "\t\tsavePointer.SavePoint(db, name)"}}},
		Mutant{Name: "c05-association-delete-error-dropped", Property: "C05", Rule: "C05.errors", Edits: []Edit{{"callbacks/delete.go",
			"if !withoutConditions && db.AddError(tx.Clauses(clause.Where{Exprs: queryConds}).Delete(modelValue).Error) != nil {\n\t\t\t\t\treturn\n\t\t\t\t}", "if !withoutConditions {\n\t\t\t\t\ttx.Clauses(clause.Where{Exprs: queryConds}).Delete(modelValue)\n\t\t\t\t}"}}},
		Mutant{Name: "c05-save-associations-on-fresh-handle", Property: "C05", Rule: "C05.same-handle", Edits: []Edit{{"callbacks/associations.go",
			"\ttx := db.Session(&gorm.Session{NewDB: true}).Clauses(onConflict)", "\ttx := (&gorm.DB{Config: db.Config, Statement: &gorm.Statement{ConnPool: db.Config.ConnPool, Context: db.Statement.Context, Clauses: map[string]clause.Clause{}}}).Session(&gorm.Session{NewDB: true}).Clauses(onConflict)"}}},
		Mutant{Name: "c05-batches-outside-transaction", Property: "C05", Rule: "C05.batch", Edits: []Edit{{"finisher_api.go", "if tx.SkipDefaultTransaction || reflectLen <= batchSize {", "if tx.SkipDefaultTransaction || reflectLen > 0 {"}}},
	)
}

func init() {
	addMutants(
		Mutant{Name: "c05-marker-key-mismatch", Property: "C05", Rule: "C05.commit-or-rollback", Edits: []Edit{{"callbacks/transaction.go",
			"if _, ok := db.InstanceGet(\"gorm:started_transaction\"); ok {", "if _, ok := db.InstanceGet(\"gorm:transaction_started\"); ok {"}},
			Note: "the implicit transaction is begun but never finished; no test counts open transactions"},
		Mutant{Name: "c05-installs-outer-pool", Property: "C05", Rule: "C05.commit-or-rollback", Edits: []Edit{{"callbacks/transaction.go",
			"\t\t\tdb.Statement.ConnPool = tx.Statement.ConnPool\n", "\t\t\tdb.Statement.ConnPool = tx.ConnPool\n"}}},
	)
}
