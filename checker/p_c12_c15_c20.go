package main

// C12 (narrow), C15 (narrow), C20 (narrow).

import (
	"go/ast"
	"go/token"
	"go/types"
	"strings"

	"golang.org/x/tools/go/ssa"
	"golang.org/x/tools/go/types/typeutil"
)

func init() {
	register("C12", checkC12,
		"Narrow structural clause of C12 ('only links are removed - associated records survive - unless Unscoped'): in association mode every Delete whose model argument is a record of the related model (built from Relationship.FieldSchema.ModelType) is dominated by association.Unscope being true; deletes of join-table rows (JoinTable.ModelType) are link deletions; the non-unscoped arms detach by UpdateColumns with a map whose values are all nil. NOT decided: which links exist after a sequence of operations, counts, the in-memory relation field.")
	register("C15", checkC15,
		"Narrow structural clauses of C15: (arm) Statement.RaiseErrorOnNotFound is set to true only by the single-record finders First/Take/Last, each of which applies Limit(1) and runs the query pipeline, First/Last ordering by the primary key ascending/descending; the only other writer is clone copying it; (raise) ErrRecordNotFound is raised only in gorm.Scan, only under RowsAffected == 0, RaiseErrorOnNotFound and Error == nil, after all row loops; (tick) RowsAffected is reset before the destination switch and every rows.Scan executed under rows.Next() is paired with exactly one RowsAffected++ in the same row iteration. NOT decided: equality of the row sets of the read paths, FindInBatches boundary arithmetic, Limit.MergeClause override/cancel rules, destination conversions.")
	register("C20", checkC20,
		"Narrow structural clauses of C20: (no-destructive) no destructive migrator method (DropTable, DropColumn, DropIndex, DropView, RenameTable, RenameColumn, RenameIndex) is reachable from Migrator.AutoMigrate through static calls and in-tree implementations of gorm.Migrator, and no reachable function carries a DROP TABLE/COLUMN/INDEX or RENAME SQL template; DropConstraint (reached through MigrateColumnUnique when a unique tag was removed) is exempt: no row data involved; (guarded-add) in AutoMigrate, CreateTable runs only when HasTable is false, AddColumn only when no column of that name was found and MigrateColumn only when one was, CreateConstraint/CreateIndex only under the negative HasConstraint/HasIndex test of the same name. NOT decided: whether MigrateColumn decides 'no change' for a matching column (run-time strings from the dialect), dialect migrators outside the tree, preservation of row contents by ALTER.")
}

// ---------------------------------------------------------------- C12

func checkC12(c *Ctx) {
	p := c.P
	checkC12OwnersAll(c)
	checkC12AppendAdds(c)
	checkC12KeyPartners(c)
	checkC12ValuesAll(c)
	checkC12TargetKeysKept(c)
	checkChainResult(c, c.Rule("C12.chain-result", "no chain-method call of *DB stands alone as a statement (its result carries the effect)", 1))
	r := c.Rule("C12.records-survive", "association mode deletes records of the related model only under Unscope; otherwise detaches with nil foreign keys", 7)
	dbT := p.Named(pkgGorm, "DB")
	assocT := p.Named(pkgGorm, "Association")
	deleteM := p.Method(dbT, "Delete")
	updColsM := p.Method(dbT, "UpdateColumns")
	nRecord, nLink, nDetach := 0, 0, 0
	for i := 0; i < assocT.NumMethods(); i++ {
		f := p.SrcOpt(assocT.Method(i))
		if f == nil {
			continue
		}
		for _, g := range append([]*FuncSrc{f}, p.AllLits(f)...) {
			info := g.Pkg.TypesInfo
			recv := recvName(f)
			for _, call := range callsIn(g) {
				fn, _ := typeutil.Callee(info, call).(*types.Func)
				switch fn {
				case deleteM:
					if len(call.Args) < 1 {
						continue
					}
					c.Touch(g)
					def := call.Args[0]
					if d := resolveLocal(g, def); d != nil {
						def = d
					}
					cs := canon(info, def)
					facts, live := p.Guards(g, nil).At(call.Pos())
					switch {
					case strings.Contains(cs, ".JoinTable.ModelType"):
						nLink++
						r.OK(g.Name(), "Delete(join row)", call.Pos(), "removes a link (join-table row)")
					case strings.Contains(cs, ".FieldSchema.ModelType"):
						nRecord++
						r.Check(live && facts.Has(fTrue(recv+".Unscope")), g.Name(), "Delete(associated record)", call.Pos(), "only under "+recv+".Unscope", "association mode deletes records of the associated model without Unscoped(): Delete/Clear/Replace must only remove the link, the associated records must survive", "facts: "+strings.Join(facts.List(), ", "))
					default:
						r.Bad(g.Name(), "Delete(?)", call.Pos(), "association mode deletes a value the rule cannot classify as join row or associated record: "+cs)
					}
				case updColsM:
					if len(call.Args) != 1 {
						continue
					}
					c.Touch(g)
					id, ok := unparen(call.Args[0]).(*ast.Ident)
					if !ok {
						continue
					}
					nDetach++
					obj := info.Uses[id]
					allNil, n := true, 0
					ast.Inspect(rootFunc(g).Body, func(x ast.Node) bool {
						as, ok := x.(*ast.AssignStmt)
						if !ok || len(as.Lhs) != 1 {
							return true
						}
						ix, ok := unparen(as.Lhs[0]).(*ast.IndexExpr)
						if !ok {
							return true
						}
						if mid, ok := unparen(ix.X).(*ast.Ident); ok && info.Uses[mid] == obj {
							n++
							if !isNilIdent(info, as.Rhs[0]) {
								allNil = false
							}
						}
						return true
					})
					r.Check(allNil && n > 0, g.Name(), "detach by UpdateColumns("+id.Name+")", call.Pos(), "all foreign keys set to nil", "the detaching update writes something other than NULL foreign keys")
				}
			}
		}
	}
	// identity maps of the named targets are read-only for the clean-up
	rt2 := c.Rule("C12.targets-readonly", "identity maps obtained from schema.GetIdentityFieldValuesMap* in association mode are only read (the set of named targets is the same for every parent record)", 1)
	for i := 0; i < assocT.NumMethods(); i++ {
		f := p.SrcOpt(assocT.Method(i))
		if f == nil {
			continue
		}
		info := f.Pkg.TypesInfo
		maps := map[types.Object]*ast.Ident{}
		ast.Inspect(f.Body, func(n ast.Node) bool {
			as, ok := n.(*ast.AssignStmt)
			if !ok || len(as.Rhs) != 1 || len(as.Lhs) != 2 {
				return true
			}
			ce, ok := unparen(as.Rhs[0]).(*ast.CallExpr)
			if !ok {
				return true
			}
			fn, _ := typeutil.Callee(info, ce).(*types.Func)
			if fn == nil || fn.Pkg() == nil || fn.Pkg().Path() != pkgSchema || !strings.HasPrefix(fn.Name(), "GetIdentityFieldValuesMap") {
				return true
			}
			if id, ok := as.Lhs[0].(*ast.Ident); ok && id.Name != "_" {
				if o := info.Defs[id]; o != nil {
					maps[o] = id
				} else if o := info.Uses[id]; o != nil {
					maps[o] = id
				}
			}
			return true
		})
		for obj, id := range maps {
			var writes []string
			ast.Inspect(f.Body, func(n ast.Node) bool {
				switch x := n.(type) {
				case *ast.AssignStmt:
					for _, l := range x.Lhs {
						if ix, ok := unparen(l).(*ast.IndexExpr); ok {
							if mid, ok := unparen(ix.X).(*ast.Ident); ok && info.Uses[mid] == obj {
								writes = append(writes, p.Pos(x.Pos())+": element assignment")
							}
						}
					}
				case *ast.CallExpr:
					if fid, ok := x.Fun.(*ast.Ident); ok && fid.Name == "delete" && len(x.Args) == 2 {
						if mid, ok := unparen(x.Args[0]).(*ast.Ident); ok && info.Uses[mid] == obj {
							writes = append(writes, p.Pos(x.Pos())+": delete")
						}
					}
				}
				return true
			})
			c.Touch(f)
			rt2.Check(len(writes) == 0, f.Name(), "identity map "+id.Name+" read-only", id.Pos(), "the set of named targets stays fixed during the operation", "the identity map of the targets named in the call is modified while it is being used: records processed later (or duplicates in the relation field) are judged against a different target set, so the in-memory relation and the stored links disagree", writes...)
		}
	}

	// saving has-one / has-many targets upserts every foreign-key column of the relation (for polymorphic
	// relations that includes the type column): the list handed to saveAssociations gets one append per reference
	ru := c.Rule("C12.upsert-columns", "association saves list the foreign key of every reference as conflict-update column", 3)
	for _, fac := range []string{"SaveAfterAssociations"} {
		fsrc := p.FuncDecl(pkgCallbacks, fac)
		for _, f := range p.AllLits(fsrc) {
			if f.Parent != fsrc {
				continue
			}
			info := f.Pkg.TypesInfo
			parents := parentMap(f.Body)
			ast.Inspect(f.Body, func(n ast.Node) bool {
				as, ok := n.(*ast.AssignStmt)
				if !ok || len(as.Lhs) != 1 || len(as.Rhs) != 1 {
					return true
				}
				ce, ok := unparen(as.Rhs[0]).(*ast.CallExpr)
				if !ok {
					return true
				}
				fid, _ := ce.Fun.(*ast.Ident)
				if fid == nil || fid.Name != "append" || len(ce.Args) != 2 || canon(info, ce.Args[0]) != canon(info, as.Lhs[0]) {
					return true
				}
				if !strings.HasSuffix(canon(info, ce.Args[1]), ".ForeignKey.DBName") {
					return true
				}
				// is the accumulated list passed to saveAssociations?
				id, _ := as.Lhs[0].(*ast.Ident)
				if id == nil {
					return true
				}
				c.Touch(f)
				// the append must sit directly in the body of a range over <rel>.References
				direct := false
				if blk, ok := parents[as].(*ast.BlockStmt); ok {
					if rs, ok := parents[blk].(*ast.RangeStmt); ok && strings.HasSuffix(canon(info, rs.X), ".References") {
						direct = true
					}
				}
				ru.Check(direct, f.Name(), "foreign key of every reference listed: "+id.Name, as.Pos(), "one unconditional append per reference", "the conflict-update column list of an association save skips some references: re-linking an existing target leaves part of its foreign key (e.g. the polymorphic type column) pointing at the old owner")
				return true
			})
		}
	}

	// Unscoped() yields a NEW association handle: the handle it is called on keeps removing links only
	// (methods of *Association that return *Association do not write through their receiver)
	runs := c.Rule("C12.unscoped-copy", "methods deriving an *Association (Unscoped) do not write through their receiver", 1)
	{
		assocT := p.Named(pkgGorm, "Association")
		eff := p.Effects()
		n := 0
		for i := 0; i < assocT.NumMethods(); i++ {
			m := assocT.Method(i)
			sig := m.Type().(*types.Signature)
			if sig.Results().Len() != 1 || !p.isNamedPtr(sig.Results().At(0).Type(), assocT) {
				continue
			}
			if _, ok := sig.Recv().Type().(*types.Pointer); !ok {
				continue
			}
			n++
			fn := p.SSAFunc(m)
			c.TouchName("gorm.(*Association)." + m.Name())
			ws, bad := eff.WritesThrough(fn, 0)
			var wit []string
			for _, w := range ws {
				wit = append(wit, w.Path+" at "+p.Pos(w.Instr.Pos()))
			}
			runs.Check(!bad, "gorm.(*Association)."+m.Name(), "receiver read-only", fn.Pos(), "returns a fresh handle", "the method changes the association handle it is called on instead of deriving a new one: after assoc.Unscoped() every later Delete/Replace/Clear through the original handle deletes the associated records too", wit...)
		}
		if n == 0 {
			runs.Bad("gorm.Association", "deriving methods", 0, "no method of *Association returns *Association any more; rule lost its anchor")
		}
	}

	// Replace empties the in-memory relation field once per source record, not once per target argument:
	// inside a loop whose iterations work on the SAME source, the `clear` argument is true for the first
	// iteration only
	rclr := c.Rule("C12.clear-once", "saveAssociation clears the in-memory field once per source record", 2)
	{
		sa := p.MethodDecl(pkgGorm, "Association", "saveAssociation")
		info := sa.Pkg.TypesInfo
		clearParam := paramName(sa, 0)
		for _, f := range append([]*FuncSrc{sa}, p.AllLits(sa)...) {
			parents := parentMap(f.Body)
			ast.Inspect(f.Body, func(n ast.Node) bool {
				if lit, ok := n.(*ast.FuncLit); ok && lit != f.Lit {
					return false
				}
				call, ok := n.(*ast.CallExpr)
				if !ok || len(call.Args) != 3 {
					return true
				}
				id, ok := call.Fun.(*ast.Ident)
				if !ok {
					return true
				}
				// a call of a local closure whose last argument involves the clear parameter
				if _, isVar := info.Uses[id].(*types.Var); !isVar {
					return true
				}
				mentionsClear := false
				ast.Inspect(call.Args[2], func(x ast.Node) bool {
					if cid, ok := x.(*ast.Ident); ok && cid.Name == clearParam {
						mentionsClear = true
					}
					return true
				})
				if !mentionsClear {
					return true
				}
				c.Touch(sa)
				// enclosing loop and its index variable
				var loopVars []string
				for cur := ast.Node(call); cur != nil; cur = parents[cur] {
					switch l := parents[cur].(type) {
					case *ast.RangeStmt:
						if k, ok := l.Key.(*ast.Ident); ok && k.Name != "_" {
							loopVars = append(loopVars, k.Name)
						}
						if v, ok := l.Value.(*ast.Ident); ok && v.Name != "_" {
							loopVars = append(loopVars, v.Name)
						}
						if l.Key == nil || func() bool { k, ok := l.Key.(*ast.Ident); return ok && k.Name == "_" }() {
							loopVars = append(loopVars, "\x00noindex")
						}
					case *ast.ForStmt:
						if as, ok := l.Init.(*ast.AssignStmt); ok && len(as.Lhs) == 1 {
							if k, ok := as.Lhs[0].(*ast.Ident); ok {
								loopVars = append(loopVars, k.Name)
							}
						}
					}
				}
				if len(loopVars) == 0 {
					rclr.OK(sa.Name(), "clear outside a loop", call.Pos(), "single call")
					return true
				}
				// does the source (first argument) change with the loop?
				srcVaries := false
				ast.Inspect(call.Args[0], func(x ast.Node) bool {
					if vid, ok := x.(*ast.Ident); ok {
						for _, lv := range loopVars {
							if vid.Name == lv {
								srcVaries = true
							}
						}
					}
					return true
				})
				if srcVaries {
					rclr.OK(sa.Name(), "clear per source record", call.Pos(), "the source changes with the loop")
					return true
				}
				// same source on every iteration: clear only on the first one
				bf := boolTable(info, call.Args[2])
				firstOnly := false
				for name, e := range bf.exprs {
					// a boolean local defined once as `<index> == 0` stands for that test
					test := name
					if id, ok := unparen(e).(*ast.Ident); ok {
						if ds := localDefs(f, id.Name, id.Pos()); len(ds) == 1 && ds[0].rhs != nil {
							test = canon(info, ds[0].rhs)
						}
					}
					for _, lv := range loopVars {
						if test == lv+" == 0" {
							if okf, _ := bf.forAll(map[string]bool{name: false}, false); okf {
								firstOnly = true
							}
						}
					}
				}
				rclr.Check(firstOnly, sa.Name(), "clear only on the first target", call.Pos(), "clear && idx == 0", "every target argument of one Replace call empties the in-memory relation field of the same record again: only the last argument's targets survive (the others are unlinked or never inserted)")
				return true
			})
		}
	}

	checkReturningCursor(c, c.Rule("C12.returning-cursor", "gorm.Scan advances the record cursor only under rows.Next()", 4))

	r.Check(nRecord >= 3 && nLink >= 2 && nDetach >= 3, "gorm.Association", "census", assocT.Obj().Pos(), itoa(nRecord)+" record deletions, "+itoa(nLink)+" link deletions, "+itoa(nDetach)+" detaching updates", "association mode lost its record/link deletion sites; rule lost its anchors")
}

// ---------------------------------------------------------------- C15

func checkC15(c *Ctx) {
	p := c.P
	checkC15PKPlaceholder(c)
	checkC15LimitMerge(c)
	checkC15PluckSelect(c)
	// the inline conditions of the finders are conditions: First/Take/Last/Find hand them on on every path (same rule as C01.args-used)
	checkArgsUsed(c, c.Rule("C15.finder-conds", "First/Take/Last/Find apply their inline conditions on every path that has not established that there are none", 4), map[string]bool{"First": true, "Take": true, "Last": true, "Find": true})
	// First/Take/Last arm the not-found error on the statement; every derivation of that statement (a scope that opens a
	// session, WithContext) must carry the flag (same rule as C06.clone, restricted to the flag)
	checkC06Clone(c, c.Rule("C15.clone-flag", "Statement.clone carries RaiseErrorOnNotFound (a scope deriving a session keeps the armed not-found error)", 1), map[string]bool{"RaiseErrorOnNotFound": true})
	// the ORDER BY a finisher adds (primary key asc/desc, batch order) lives in a merged clause: merging must not write into
	// the backing array of the chain it was derived from (same rule as C06.merge-alias)
	checkC06MergeAlias(c, c.Rule("C15.clause-merge", "MergeClause never appends onto / stores into a slice shared with the chain the finisher was derived from (ORDER BY, LIMIT, WHERE added by First/Last/FindInBatches stay per chain)", 16))
	dbT := p.Named(pkgGorm, "DB")
	stmtT := p.Named(pkgGorm, "Statement")
	raiseF := p.Field(stmtT, "RaiseErrorOnNotFound")

	// ---- C15.arm ----
	ra := c.Rule("C15.arm", "RaiseErrorOnNotFound is armed only by First/Take/Last (Limit(1) + query pipeline); First/Last order by primary key asc/desc", 6)
	limitM := p.Method(dbT, "Limit")
	accQuery := p.Method(p.Named(pkgGorm, "callbacks"), "Query")
	armed := map[string]bool{}
	for _, st := range p.FieldStores(raiseF) {
		name := ssaFuncName(st.Fn)
		c.TouchName(name)
		if st.Val == nil {
			ra.Bad(name, "addr", st.Pos, "address of RaiseErrorOnNotFound escapes")
			continue
		}
		vp := valuePaths(st.Val)
		switch {
		case len(vp) == 1 && vp[0] == "const:true":
			f := p.SrcOpt(st.Fn.Object().(*types.Func))
			okf := f != nil
			if okf {
				info := f.Pkg.TypesInfo
				lim, qry := false, false
				for _, call := range callsIn(f) {
					fn, _ := typeutil.Callee(info, call).(*types.Func)
					if fn == limitM && len(call.Args) == 1 {
						if tv, ok := info.Types[call.Args[0]]; ok && tv.Value != nil && tv.Value.ExactString() == "1" {
							lim = true
						}
					}
					if fn == accQuery {
						qry = true
					}
				}
				okf = lim && qry
			}
			armed[st.Fn.Name()] = true
			ra.Check(okf, name, "arms not-found", st.Pos, "single-record finder: Limit(1) + query pipeline", "RaiseErrorOnNotFound is armed by a function that is not a Limit(1) query finisher: a multi-row read reports ErrRecordNotFound / the flag leaks into other finishers")
		case allSuffix(vp, ".RaiseErrorOnNotFound"):
			ra.OK(name, "copies the flag", st.Pos, "statement derivation")
		default:
			ra.Bad(name, "RaiseErrorOnNotFound = "+strings.Join(vp, "|"), st.Pos, "RaiseErrorOnNotFound is computed from something else than a constant or the parent's flag")
		}
	}
	for _, n := range []string{"First", "Take", "Last"} {
		ra.Check(armed[n], "gorm.(*DB)."+n, "arms not-found", p.MethodDecl(pkgGorm, "DB", n).Body.Pos(), "single-record finder raises ErrRecordNotFound", n+" no longer arms RaiseErrorOnNotFound: a miss returns a zero record without error")
	}
	obcT := p.Named(pkgClause, "OrderByColumn")
	for name, wantDesc := range map[string]bool{"First": false, "Last": true} {
		f := p.MethodDecl(pkgGorm, "DB", name)
		c.Touch(f)
		info := f.Pkg.TypesInfo
		okl := false
		for _, lit := range litsOfType(info, f.Body, obcT, false) {
			col := compositeField(lit, "Column")
			desc := compositeField(lit, "Desc")
			isPK := false
			if cl, ok := unparen(col).(*ast.CompositeLit); ok && col != nil {
				if nm := compositeField(cl, "Name"); nm != nil && canon(info, nm) == "clause.PrimaryKey" {
					isPK = true
				}
			}
			d := false
			if desc != nil {
				d, _ = constBool(info, desc)
			}
			if isPK && d == wantDesc {
				okl = true
			}
		}
		dir := "ascending"
		if wantDesc {
			dir = "descending"
		}
		ra.Check(okl, f.Name(), "orders by primary key "+dir, f.Body.Pos(), "lowest/highest key", name+" does not order by the primary key "+dir+": it no longer returns the record with the "+map[bool]string{false: "lowest", true: "highest"}[wantDesc]+" key")
	}

	// ---- C15.batch-size ----
	// FindInBatches may only shrink the requested batch size to a *positive* total limit: a cancelled
	// (negative) or absent limit must leave the batch size alone.
	rbs := c.Rule("C15.batch-size", "FindInBatches adjusts the batch size from the user's limit only under limit > 0", 2)
	{
		fib := p.MethodDecl(pkgGorm, "DB", "FindInBatches")
		c.Touch(fib)
		info := fib.Pkg.TypesInfo
		bs := paramName(fib, 1)
		// the variable holding the user's total limit: assigned from *X.Limit
		total := ""
		ast.Inspect(fib.Body, func(n ast.Node) bool {
			if as, ok := n.(*ast.AssignStmt); ok && len(as.Lhs) == 1 && len(as.Rhs) == 1 {
				if st, ok := unparen(as.Rhs[0]).(*ast.StarExpr); ok && strings.HasSuffix(canon(info, st.X), ".Limit") {
					if id, ok := as.Lhs[0].(*ast.Ident); ok {
						total = id.Name
					}
				}
			}
			return true
		})
		n := 0
		ast.Inspect(fib.Body, func(x ast.Node) bool {
			as, ok := x.(*ast.AssignStmt)
			if !ok || len(as.Lhs) != 1 || len(as.Rhs) != 1 {
				return true
			}
			if id, ok := as.Lhs[0].(*ast.Ident); !ok || id.Name != bs {
				return true
			}
			n++
			facts, live := p.Guards(fib, nil).At(as.Pos())
			rbs.Check(live && total != "" && facts.Has(fTrue(total+" > 0")), fib.Name(), bs+" = "+exprShort(as.Rhs[0]), as.Pos(), "only for a positive total limit", "the batch size is replaced from the user's limit without a dominating `"+total+" > 0` test: a cancelled (negative) or zero limit turns into the batch size and batches grow beyond the requested size / the loop degenerates", "facts: "+strings.Join(facts.List(), ", "))
			return true
		})
		rbs.Check(n >= 1 && total != "", fib.Name(), "limit-aware batch size", fib.Body.Pos(), "batch size follows a positive user limit", "FindInBatches no longer adapts the batch size to the user's limit; rule lost its anchor")
	}

	// ---- C15.raise ----
	rr := c.Rule("C15.raise", "ErrRecordNotFound raised only in gorm.Scan under RowsAffected == 0 && RaiseErrorOnNotFound && Error == nil, after the row loops", 2)
	errNF := p.Lookup(pkgGorm, "ErrRecordNotFound")
	scan := p.FuncDecl(pkgGorm, "Scan")
	nRaise := 0
	for _, f := range p.FuncsOf(pkgGorm, pkgCallbacks, pkgMigrator, pkgSchema, pkgClause) {
		info := f.Pkg.TypesInfo
		for _, call := range callsIn(f) {
			if !isAddErrorOf(info, call, errNF) {
				continue
			}
			nRaise++
			c.Touch(f)
			if rootFunc(f) != scan {
				rr.Bad(f.Name(), "raises ErrRecordNotFound", call.Pos(), "ErrRecordNotFound is raised outside gorm.Scan: a read path other than the single-record finders can report not-found")
				continue
			}
			db := ""
			if sel, ok := call.Fun.(*ast.SelectorExpr); ok {
				db = canon(info, sel.X)
			}
			gs := p.Guards(f, nil)
			facts, live := gs.At(call.Pos())
			okg := live && facts.Has(fTrue(db+".RowsAffected == 0")) && facts.Has(fTrue(db+".Statement.RaiseErrorOnNotFound")) && facts.Has(fNil(db+".Error"))
			rr.Check(okg, f.Name(), "raise guard", call.Pos(), "RowsAffected == 0 && RaiseErrorOnNotFound && Error == nil", "ErrRecordNotFound is raised under a different condition: found records report not-found, or misses do not", "facts: "+strings.Join(facts.List(), ", "))
			back := gs.Reaches(call.Pos(), func(n ast.Node) bool {
				return containsCallNamed(info, n, "Next") || containsCallNamed(info, n, "scanIntoStruct")
			})
			rr.Check(!back, f.Name(), "raise after all row loops", call.Pos(), "decided once all rows were scanned", "the not-found decision can be followed by more row scanning")
		}
	}
	rr.Check(nRaise >= 1, scan.Name(), "raises", scan.Body.Pos(), "ErrRecordNotFound is raised", "nothing raises ErrRecordNotFound any more")

	checkC15MapComplete(c, c.Rule("C15.map-complete", "scanIntoMap stores an entry for every column on every path of an iteration", 1))

	// a reader chained on Count's result sees the caller's SELECT again (Count and Find agree on one chain)
	checkCountRestores(c, c.Rule("C15.count-restore", "Count restores its temporary SELECT / ORDER BY changes on the statement it made them on", 2))

	checkRowsCount(c)

	// ---- C15.cursor-group ----
	// FindInBatches continues after the last key of a batch by adding `pk > ?` to the chain.  Like the
	// soft-delete filter this restriction has to apply to the WHOLE user condition: with a lone OR unit in the
	// WHERE clause (`a OR b`) an appended AND binds to the last unit only (`a OR b AND pk > ?`) and the rows
	// matching `a` come back in every batch.  Sibling rule of C08.regroup: the statement the cursor is added
	// to has its lone-OR conditions regrouped into one AND unit first.
	rcg := c.Rule("C15.cursor-group", "FindInBatches regroups lone-OR conditions before adding the batch cursor", 1)
	checkCursorGroup(c, rcg)

	// ---- C15.tick ----
	rt := c.Rule("C15.tick", "RowsAffected reset before the destination switch; each rows.Scan under rows.Next() paired with one RowsAffected++", 5)
	raF := p.Field(dbT, "RowsAffected")
	sis := p.MethodDecl(pkgGorm, "DB", "scanIntoStruct")
	c.Touch(scan)
	c.Touch(sis)
	isTick := func(info *types.Info, n ast.Node) bool {
		ids, ok := n.(*ast.IncDecStmt)
		return ok && ids.Tok == token.INC && fieldSel(info, ids.X, raF)
	}
	for _, f := range []*FuncSrc{scan, sis} {
		info := f.Pkg.TypesInfo
		parents := parentMap(f.Body)
		for _, call := range callsIn(f) {
			fn, _ := typeutil.Callee(info, call).(*types.Func)
			if fn == nil || fn.Name() != "Scan" || fn.Pkg() == nil {
				continue
			}
			sig := fn.Type().(*types.Signature)
			if sig.Recv() == nil || !(namedOf(sig.Recv().Type()) == "gorm.io/gorm.Rows" || namedOf(sig.Recv().Type()) == "database/sql.Rows") {
				continue
			}
			// enclosing statement and its block
			var stmt ast.Node = call
			for parents[stmt] != nil {
				if _, ok := parents[stmt].(*ast.BlockStmt); ok {
					break
				}
				if _, ok := parents[stmt].(*ast.CaseClause); ok {
					break
				}
				stmt = parents[stmt]
			}
			var siblings []ast.Stmt
			switch b := parents[stmt].(type) {
			case *ast.BlockStmt:
				siblings = b.List
			case *ast.CaseClause:
				siblings = b.Body
			}
			// is this Scan under rows.Next()? (f == scanIntoStruct is called once per row)
			underNext := f == sis
			for cur := parents[stmt]; cur != nil && !underNext; cur = parents[cur] {
				switch x := cur.(type) {
				case *ast.ForStmt:
					if x.Cond != nil && containsCallNamed(info, x.Cond, "Next") {
						underNext = true
					}
				case *ast.IfStmt:
					if containsCallNamed(info, x.Cond, "Next") {
						underNext = true
					}
				}
			}
			if !underNext {
				rt.Exempt("gorm.Scan$default-dest", "rows.Scan(dest) in the fallback arm for unknown destination kinds is not under rows.Next()")
				rt.IsExempt("gorm.Scan$default-dest")
				continue
			}
			ticks := 0
			for _, s := range siblings {
				if isTick(info, s) {
					ticks++
				}
			}
			rt.Check(ticks == 1, f.Name(), "rows.Scan paired with one RowsAffected++", call.Pos(), "one tick per scanned row", "a scanned row is counted "+itoa(ticks)+" times in RowsAffected: RowsAffected no longer equals the rows returned (and the not-found decision breaks)")
		}
	}
	// every row-loop iteration that scans through scanIntoStruct does so exactly once
	{
		info := scan.Pkg.TypesInfo
		ast.Inspect(scan.Body, func(n ast.Node) bool {
			fs, ok := n.(*ast.ForStmt)
			if !ok || fs.Cond == nil || !containsCallNamed(info, fs.Cond, "Next") {
				return true
			}
			hasSIS := false
			ast.Inspect(fs.Body, func(x ast.Node) bool {
				if ce, ok := x.(*ast.CallExpr); ok {
					if fn, _ := typeutil.Callee(info, ce).(*types.Func); fn == sis.Obj {
						hasSIS = true
					}
				}
				return true
			})
			if !hasSIS {
				return true
			}
			paths, ok := p.EnumLoopIterPaths(scan, fs, 5000)
			bad := 0
			for _, nodes := range paths {
				k := 0
				returns := false
				for _, nd := range nodes {
					ast.Inspect(nd, func(x ast.Node) bool {
						if ce, ok := x.(*ast.CallExpr); ok {
							if fn, _ := typeutil.Callee(info, ce).(*types.Func); fn == sis.Obj {
								k++
							}
						}
						return true
					})
					if _, ok := nd.(*ast.ReturnStmt); ok {
						returns = true
					}
				}
				if !returns && k != 1 {
					bad++
				}
			}
			rt.Check(ok && bad == 0, scan.Name(), "struct rows: one scanIntoStruct per iteration", fs.Pos(), "one row per rows.Next()", "an iteration of the struct row loop scans zero or several rows")
			return true
		})
		// reset before the switch
		var reset *ast.AssignStmt
		var sw *ast.TypeSwitchStmt
		ast.Inspect(scan.Body, func(n ast.Node) bool {
			if as, ok := n.(*ast.AssignStmt); ok && len(as.Lhs) == 1 && fieldSel(info, as.Lhs[0], raF) && isZeroLit(as.Rhs[0]) && reset == nil {
				reset = as
			}
			if ts, ok := n.(*ast.TypeSwitchStmt); ok && sw == nil {
				sw = ts
			}
			return true
		})
		rt.Check(reset != nil && sw != nil && reset.Pos() < sw.Pos() && parentMap(scan.Body)[reset] == ast.Node(scan.Body), scan.Name(), "RowsAffected = 0 before the destination switch", scan.Body.Pos(), "count starts at zero for every scan", "RowsAffected is not reset unconditionally before rows are scanned: counts accumulate across finishers on one instance")
	}
}

func containsCallNamed(info *types.Info, n ast.Node, name string) bool {
	found := false
	ast.Inspect(n, func(x ast.Node) bool {
		if _, ok := x.(*ast.FuncLit); ok {
			return false
		}
		if ce, ok := x.(*ast.CallExpr); ok {
			if fn, _ := typeutil.Callee(info, ce).(*types.Func); fn != nil && fn.Name() == name {
				found = true
			}
		}
		return true
	})
	return found
}

// ---------------------------------------------------------------- C20

var destructiveMigratorMethods = map[string]bool{"DropTable": true, "DropColumn": true, "DropIndex": true, "DropView": true, "RenameTable": true, "RenameColumn": true, "RenameIndex": true}

func checkC20(c *Ctx) {
	p := c.P
	p.SSA()
	migT := p.Named(pkgMigrator, "Migrator")
	migI := p.Iface(pkgGorm, "Migrator")
	auto := p.SSAFunc(p.Method(migT, "AutoMigrate"))

	// ---- C20.no-destructive ----
	rn := c.Rule("C20.no-destructive", "REACH(AutoMigrate -> destructive migrator methods / destructive SQL templates) is empty", 10)
	rn.Exempt("migrator.(Migrator).DropConstraint", "reachable through MigrateColumnUnique when a unique tag was removed from the model; drops a constraint, no row data")
	implOf := func(m *types.Func) *ssa.Function {
		// in-tree implementation of a gorm.Migrator method
		for i := 0; i < migI.NumMethods(); i++ {
			if migI.Method(i) == m || migI.Method(i).Name() == m.Name() {
				if mm := p.MethodOpt(migT, m.Name()); mm != nil {
					return p.SSAFunc(mm)
				}
			}
		}
		return nil
	}
	parent := map[*ssa.Function]*ssa.Function{}
	seen := map[*ssa.Function]bool{auto: true}
	queue := []*ssa.Function{auto}
	for len(queue) > 0 {
		fn := queue[0]
		queue = queue[1:]
		forEachInstr(fn, func(owner *ssa.Function, in ssa.Instruction) {
			ci, ok := in.(ssa.CallInstruction)
			if !ok {
				return
			}
			cc := ci.Common()
			var callee *ssa.Function
			if cc.IsInvoke() {
				if types.Identical(cc.Value.Type().Underlying(), migI) || types.Implements(cc.Value.Type(), migI) {
					callee = implOf(cc.Method)
				}
			} else if sc := cc.StaticCallee(); sc != nil && p.InRepo(sc) {
				callee = sc
			}
			if callee == nil || seen[rootSSA(callee)] {
				return
			}
			callee = rootSSA(callee)
			seen[callee] = true
			parent[callee] = fn
			queue = append(queue, callee)
		})
	}
	pathTo := func(fn *ssa.Function) []string {
		var out []string
		for f := fn; f != nil; f = parent[f] {
			out = append([]string{ssaFuncName(f)}, out...)
		}
		return out
	}
	for fn := range seen {
		name := ssaFuncName(fn)
		c.TouchName(name)
		isMig := fn.Signature.Recv() != nil && namedOf(fn.Signature.Recv().Type()) == pkgMigrator+".Migrator"
		if isMig && destructiveMigratorMethods[fn.Name()] {
			rn.Bad(name, "reachable from AutoMigrate", fn.Pos(), "destructive migrator method "+fn.Name()+" is reachable from AutoMigrate: running AutoMigrate can drop or rename tables/columns/indexes and lose data", "path: "+strings.Join(pathTo(fn), " -> "))
			continue
		}
		if isMig && fn.Name() == "DropConstraint" {
			rn.IsExempt("migrator.(Migrator).DropConstraint")
			continue
		}
		// SQL templates
		var bad []string
		forEachInstr(fn, func(owner *ssa.Function, in ssa.Instruction) {
			for _, op := range in.Operands(nil) {
				if op == nil || *op == nil {
					continue
				}
				if k, ok := (*op).(*ssa.Const); ok && k.Value != nil && k.Value.Kind().String() == "String" {
					s := strings.ToUpper(k.Value.ExactString())
					for _, kw := range []string{"DROP TABLE", "DROP COLUMN", "DROP INDEX", "DROP VIEW", "RENAME "} {
						if strings.Contains(s, kw) {
							bad = append(bad, kw+" in "+p.Pos(in.Pos()))
						}
					}
				}
			}
		})
		rn.Check(len(bad) == 0, name, "no destructive SQL template", fn.Pos(), "reachable from AutoMigrate, additive only", "a function reachable from AutoMigrate carries a destructive SQL template", bad...)
	}

	// ---- C20.index-last ----
	// Creating a constraint on an existing table may rebuild the table in a dialect migrator (SQLite),
	// which drops its indexes: the "create missing indexes" step must not be followed by constraint
	// creation, otherwise indexes that existed (or were just created) silently disappear.
	ri := c.Rule("C20.index-last", "ORDER: in AutoMigrate no constraint is created after the missing-index step", 1)
	{
		afx := p.MethodDecl(pkgMigrator, "Migrator", "AutoMigrate")
		for _, f := range append([]*FuncSrc{afx}, p.AllLits(afx)...) {
			info := f.Pkg.TypesInfo
			gs := p.Guards(f, nil)
			for _, call := range callsIn(f) {
				fn, _ := typeutil.Callee(info, call).(*types.Func)
				if fn == nil || fn.Name() != "CreateIndex" {
					continue
				}
				c.Touch(f)
				after := gs.Reaches(call.Pos(), func(n ast.Node) bool {
					return containsCallNamed(info, n, "CreateConstraint") || containsCallNamed(info, n, "AddColumn") || containsCallNamed(info, n, "MigrateColumn")
				})
				ri.Check(!after, f.Name(), "indexes are (re)created last", call.Pos(), "no column/constraint DDL after the index step", "AutoMigrate alters columns or creates constraints after the missing-index step: a dialect that rebuilds the table for such DDL drops the indexes again and nothing recreates them")
			}
		}
	}

	checkC20Default(c)
	checkC20NameAgree(c)
	checkC20CreateAgree(c)
	checkC20DDLTable(c)
	checkC20AddExec(c)
	checkC20FKFlag(c)
	checkC20ColumnPassthrough(c)
	checkC20IndexLookup(c)
	checkC20CheckExpr(c)

	// ---- C20.guarded-add ----
	rg := c.Rule("C20.guarded-add", "every additive DDL call in AutoMigrate is conditional on absence (and MigrateColumn on presence)", 6)
	af := p.MethodDecl(pkgMigrator, "Migrator", "AutoMigrate")
	for _, f := range append([]*FuncSrc{af}, p.AllLits(af)...) {
		info := f.Pkg.TypesInfo
		gs := p.Guards(f, nil)
		// the variable holding the column found in the database: third argument of MigrateColumn
		foundVar := ""
		for _, call := range callsIn(f) {
			if fn, _ := typeutil.Callee(info, call).(*types.Func); fn != nil && fn.Name() == "MigrateColumn" && len(call.Args) == 3 {
				foundVar = canon(info, call.Args[2])
			}
		}
		for _, call := range callsIn(f) {
			fn, _ := typeutil.Callee(info, call).(*types.Func)
			if fn == nil {
				continue
			}
			sig := fn.Type().(*types.Signature)
			if sig.Recv() == nil || !(types.Identical(sig.Recv().Type().Underlying(), migI)) {
				continue
			}
			facts, live := gs.At(call.Pos())
			has := func(prefix string, mustContain ...string) bool {
				for fc := range facts {
					if !strings.HasPrefix(fc, prefix) {
						continue
					}
					okAll := true
					for _, m := range mustContain {
						if !strings.Contains(fc, m) {
							okAll = false
						}
					}
					if okAll {
						return true
					}
				}
				return false
			}
			argStr := func(i int) string {
				if i < len(call.Args) {
					return canon(info, call.Args[i])
				}
				return ""
			}
			c.Touch(f)
			switch fn.Name() {
			case "CreateTable":
				rg.Check(live && has("F:", ".HasTable("+argStr(0)+")"), f.Name(), "CreateTable only when !HasTable", call.Pos(), "additive", "AutoMigrate creates the table without a negative HasTable test of the same model: re-running it on an existing table fails or recreates it")
			case "AddColumn":
				rg.Check(live && foundVar != "" && facts.Has(fNil(foundVar)), f.Name(), "AddColumn only when the column was not found", call.Pos(), "additive", "AutoMigrate adds a column although a column of that name was found (or without looking)", "facts: "+strings.Join(facts.List(), ", "))
			case "MigrateColumn":
				rg.Check(live && foundVar != "" && facts.Has(fNonNil(foundVar)), f.Name(), "MigrateColumn only for an existing column", call.Pos(), "compares with the existing column type", "AutoMigrate migrates a column without having found it")
			case "CreateConstraint":
				rg.Check(live && has("F:", ".HasConstraint(", argStr(1)+")"), f.Name(), "CreateConstraint only when !HasConstraint(same name)", call.Pos(), "additive", "AutoMigrate creates constraint "+argStr(1)+" without a negative HasConstraint test of the same name: the second run fails or duplicates it")
			case "CreateIndex":
				rg.Check(live && has("F:", ".HasIndex(", argStr(1)+")"), f.Name(), "CreateIndex only when !HasIndex(same name)", call.Pos(), "additive", "AutoMigrate creates index "+argStr(1)+" without a negative HasIndex test of the same name")
			case "DropTable", "DropColumn", "DropIndex", "DropConstraint", "RenameColumn", "RenameTable", "RenameIndex", "AlterColumn":
				rg.Bad(f.Name(), fn.Name()+" in AutoMigrate", call.Pos(), "AutoMigrate itself calls "+fn.Name())
			}
		}
	}
}

// checkReturningCursor: RETURNING rows are assigned to the in-memory records (Append/Replace of new and
// existing targets in one call, batch Create with DB-generated keys) through the cursor db.RowsAffected: it
// advances - also past records that hit ON CONFLICT DO NOTHING - only while a returned row is pending, i.e.
// inside a loop/branch controlled by rows.Next().  Shared by C12 and C03.
func checkReturningCursor(c *Ctx, rcur *Rule) {
	p := c.P
	{
		scan := p.FuncDecl(pkgGorm, "Scan")
		c.Touch(scan)
		info := scan.Pkg.TypesInfo
		raF := p.Field(p.Named(pkgGorm, "DB"), "RowsAffected")
		nextM := p.Iface(pkgGorm, "Rows")
		isNext := func(e ast.Expr) bool {
			found := false
			ast.Inspect(e, func(x ast.Node) bool {
				if ce, ok := x.(*ast.CallExpr); ok {
					if fn, _ := typeutil.Callee(info, ce).(*types.Func); fn != nil && fn.Name() == "Next" {
						if sig := fn.Type().(*types.Signature); sig.Recv() != nil && types.Identical(sig.Recv().Type().Underlying(), nextM) {
							found = true
						}
					}
				}
				return true
			})
			return found
		}
		parents := parentMap(scan.Body)
		ast.Inspect(scan.Body, func(n ast.Node) bool {
			var target ast.Expr
			switch x := n.(type) {
			case *ast.IncDecStmt:
				if x.Tok == token.INC {
					target = x.X
				}
			case *ast.AssignStmt:
				if x.Tok == token.ADD_ASSIGN && len(x.Lhs) == 1 {
					target = x.Lhs[0]
				}
			}
			if target == nil || !fieldSel(info, target, raF) {
				return true
			}
			under := false
			for cur := ast.Node(n); cur != nil; cur = parents[cur] {
				switch pp := parents[cur].(type) {
				case *ast.ForStmt:
					if pp.Cond != nil && isNext(pp.Cond) && cur == ast.Node(pp.Body) {
						under = true
					}
				case *ast.IfStmt:
					if isNext(pp.Cond) && cur == ast.Node(pp.Body) {
						under = true
					}
				}
			}
			rcur.Check(under, scan.Name(), "cursor advance", n.Pos(), "inside a loop/branch controlled by rows.Next()", "the record cursor RowsAffected advances outside the row loop: returned rows are no longer re-aligned per row with the in-memory records (records stored earlier in the same slice get another record's generated key, or valid input fails)")
			return true
		})
	}
}

// checkCursorGroup: see C15.cursor-group (also instantiated as C02.cursor-group).
func checkCursorGroup(c *Ctx, rcg *Rule) {
	p := c.P
	fib := p.MethodDecl(pkgGorm, "DB", "FindInBatches")
	c.Touch(fib)
	info := fib.Pkg.TypesInfo
	gtT := p.Named(pkgClause, "Gt")
	clausesM := p.Method(p.Named(pkgGorm, "DB"), "Clauses")
	var cursor *ast.CallExpr
	for _, call := range callsIn(fib) {
		if fn, _ := typeutil.Callee(info, call).(*types.Func); fn == clausesM {
			if len(litsOfType(info, call, gtT, false)) > 0 {
				cursor = call
			}
		}
	}
	if cursor == nil {
		rcg.Bad(fib.Name(), "cursor", fib.Body.Pos(), "FindInBatches no longer adds a `primary key > last` cursor condition; rule lost its anchor")
	} else {
		store, hasAnd := findRegroup(p, fib)
		okc := store != nil && hasAnd && regroupScansAll(fib, store)
		if okc {
			gs := p.Guards(fib, nil)
			// the regroup happens before the cursor is first added and on the statement the cursor extends
			okc = gs.Reaches(store.Pos(), func(n ast.Node) bool { return containsNode(n, cursor) })
			if ix, ok := store.Lhs[0].(*ast.IndexExpr); ok {
				if sel, ok := cursor.Fun.(*ast.SelectorExpr); ok {
					okc = okc && strings.HasPrefix(canon(info, ix.X), canon(info, sel.X)+".")
				}
			}
		}
		rcg.Check(okc, fib.Name(), "cursor restricts the whole condition", cursor.Pos(), "lone-OR conditions regrouped (clause.And(all...)) on the cursor's statement first", "the batch cursor `pk > ?` is ANDed onto a WHERE clause that may contain a lone OR unit without regrouping it first: `a OR b AND pk > ?` returns the rows matching `a` in every batch (rows delivered repeatedly, FindInBatches may never terminate)")
	}
}
