package main

// C05 — each single write operation is all-or-nothing under any failure and reports it.

import (
	"go/ast"
	"go/token"
	"go/types"
	"strings"

	"golang.org/x/tools/go/ssa"
	"golang.org/x/tools/go/types/typeutil"
)

func init() {
	register("C05", checkC05,
		"Structural clauses of C05 decided on every path/site of the current source: (bracket) in the create, update and delete pipelines the first registered callback begins the implicit transaction and the last one commits or rolls back, both behind the same Match predicate, and no default registration uses Before/After (registration order is execution order); (commit-or-rollback) path enumeration: under the started-transaction marker exactly one of Rollback (only when Error != nil) or Commit (only when Error == nil) runs and the statement's pool is restored; BeginTransaction stores the transaction pool and the marker together and only when Begin succeeded, and propagates other Begin errors; (entry-guard) every effect site of every executor (driver call, hook invocation, nested finisher, call of a function that may drive/run hooks/execute a pipeline) is dominated by a db.Error == nil test; (errors) every error produced by a driver call, Rows.Scan/Close/Err, a hook, a save-point dialector call, or carried by the *DB a nested finisher returns, flows into AddError, an Error field, a returned error, or is exempted by name; (same-handle) every nested finisher/driver call in package callbacks runs on a handle derived from the executor's own *DB (so it rides the operation's transaction pool); (batch) CreateInBatches runs its batch loop inside Transaction unless default transactions are skipped or a single batch suffices. NOT decided: atomicity actually delivered by the database, faults inside the driver, user hooks that swallow errors.")
}

// hookInterfaces returns the hook interfaces of package callbacks: name -> method.
func hookInterfaces(p *Program) map[string]*types.Func {
	out := map[string]*types.Func{}
	dbT := p.Named(pkgGorm, "DB")
	sc := p.Pkg(pkgCallbacks).Types.Scope()
	for _, n := range sc.Names() {
		tn, ok := sc.Lookup(n).(*types.TypeName)
		if !ok {
			continue
		}
		it, ok := tn.Type().Underlying().(*types.Interface)
		if !ok || it.NumMethods() != 1 {
			continue
		}
		m := it.Method(0)
		sig := m.Type().(*types.Signature)
		if sig.Params().Len() == 1 && sig.Results().Len() == 1 && p.isNamedPtr(sig.Params().At(0).Type(), dbT) && sig.Results().At(0).Type().String() == "error" {
			out[m.Name()] = m
		}
	}
	if len(out) == 0 {
		fatalf("anchor: no hook interfaces found in package callbacks")
	}
	return out
}

// effectfulFuncs computes the repo functions from which a driver call, a hook invocation or a
// pipeline execution is reachable through static calls (closures included).
func effectfulFuncs(p *Program) map[*ssa.Function]string {
	p.SSA()
	hooks := hookInterfaces(p)
	hookSet := map[*types.Func]bool{}
	for _, m := range hooks {
		hookSet[m] = true
	}
	procExec := p.SSAFunc(p.Method(p.Named(pkgGorm, "processor"), "Execute"))
	eff := map[*ssa.Function]string{procExec: "executes a pipeline"}
	direct := func(fn *ssa.Function) string {
		why := ""
		forEachInstr(fn, func(owner *ssa.Function, in ssa.Instruction) {
			ci, ok := in.(ssa.CallInstruction)
			if !ok || why != "" {
				return
			}
			cc := ci.Common()
			if cc.IsInvoke() {
				if hookSet[cc.Method] {
					why = "invokes hook " + cc.Method.Name()
				}
				if k, _, ok := p.driverCallee(cc.Method); ok && (k == DrvStmt || k == DrvBegin || k == DrvCommit || k == DrvRollback || k == DrvPrepare) {
					why = "driver call " + cc.Method.Name()
				}
				return
			}
			if callee := cc.StaticCallee(); callee != nil && callee.Object() != nil {
				if fo, ok := callee.Object().(*types.Func); ok {
					if k, _, ok := p.driverCallee(fo); ok && (k == DrvStmt || k == DrvBegin || k == DrvCommit || k == DrvRollback || k == DrvPrepare) {
						why = "driver call " + fo.Name()
					}
				}
				return
			}
			// dynamic call of a function-typed parameter (callMethod's fc)
			if prm, ok := cc.Value.(*ssa.Parameter); ok {
				if _, isSig := prm.Type().Underlying().(*types.Signature); isSig && fn.Pkg != nil && fn.Pkg.Pkg.Path() == pkgCallbacks {
					why = "calls its function parameter " + prm.Name()
				}
			}
		})
		return why
	}
	funcs := p.SSAFuncs()
	for _, fn := range funcs {
		if fn.Parent() != nil {
			continue
		}
		if w := direct(fn); w != "" {
			eff[fn] = w
		}
	}
	for changed := true; changed; {
		changed = false
		for _, fn := range funcs {
			if fn.Parent() != nil || eff[fn] != "" {
				continue
			}
			forEachInstr(fn, func(owner *ssa.Function, in ssa.Instruction) {
				if eff[fn] != "" {
					return
				}
				if ci, ok := in.(ssa.CallInstruction); ok {
					if callee := ci.Common().StaticCallee(); callee != nil && eff[rootSSA(callee)] != "" && p.InRepo(callee) {
						eff[fn] = "calls " + ssaFuncName(rootSSA(callee))
						changed = true
					}
				}
			})
		}
	}
	return eff
}

func checkC05(c *Ctx) {
	p := c.P
	execs, regs := executorSet(p)
	dbT := p.Named(pkgGorm, "DB")
	beginM := p.Method(dbT, "Begin")
	commitM := p.Method(dbT, "Commit")
	rollbackM := p.Method(dbT, "Rollback")
	hooks := hookInterfaces(p)

	callsMethod := func(f *FuncSrc, m *types.Func) *ast.CallExpr {
		for _, g := range append([]*FuncSrc{f}, p.AllLits(f)...) {
			for _, call := range callsIn(g) {
				if fn, _ := typeutil.Callee(g.Pkg.TypesInfo, call).(*types.Func); fn == m {
					return call
				}
			}
		}
		return nil
	}

	// ---- C05.bracket ----
	rb := c.Rule("C05.bracket", "write pipelines: begin first, commit-or-rollback last, same Match predicate, no Before/After in default registrations", 9)
	byPipe := map[string][]*Registration{}
	for _, r := range regs {
		byPipe[r.Pipeline] = append(byPipe[r.Pipeline], r)
	}
	for _, pl := range []string{"create", "update", "delete"} {
		rs := byPipe[pl]
		if len(rs) < 3 {
			rb.Bad("callbacks.RegisterDefaultCallbacks", "pipeline:"+pl, regs[0].Call.Pos(), "write pipeline "+pl+" has fewer than 3 registrations")
			continue
		}
		first, last := rs[0], rs[len(rs)-1]
		c.Touch(first.Fn)
		c.Touch(last.Fn)
		rb.Check(callsMethod(first.Fn, beginM) != nil, "callbacks.RegisterDefaultCallbacks", pl+": first callback begins the transaction", first.Call.Pos(), first.Name+" calls (*DB).Begin", "the first callback of the "+pl+" pipeline ("+first.Name+") does not begin the implicit transaction: earlier steps run outside it")
		rb.Check(callsMethod(last.Fn, commitM) != nil && callsMethod(last.Fn, rollbackM) != nil, "callbacks.RegisterDefaultCallbacks", pl+": last callback commits or rolls back", last.Call.Pos(), last.Name+" calls Commit and Rollback", "the last callback of the "+pl+" pipeline ("+last.Name+") does not finish the implicit transaction: steps registered after it run outside the transaction / it stays open")
		rb.Check(first.Matched != "" && first.Matched == last.Matched, "callbacks.RegisterDefaultCallbacks", pl+": same Match predicate", first.Call.Pos(), "both behind Match("+first.Matched+")", "begin and commit/rollback are registered behind different predicates ("+first.Matched+" vs "+last.Matched+"): a transaction can be opened and never finished")
		// begin must not appear elsewhere in the pipeline, nor commit before the last
		for _, r := range rs[1 : len(rs)-1] {
			if callsMethod(r.Fn, commitM) != nil && r.Fn == last.Fn {
				rb.Bad("callbacks.RegisterDefaultCallbacks", pl+": commit before the end", r.Call.Pos(), "commit-or-rollback is registered before the end of the "+pl+" pipeline")
			}
		}
	}
	for _, r := range regs {
		rb.Check(!r.BeforeAfter, "callbacks.RegisterDefaultCallbacks", "registration "+r.Pipeline+"/"+r.Name+" in source order", r.Call.Pos(), "no Before/After: registration order is execution order", "default callback "+r.Name+" is registered with Before/After: the static pipeline order no longer describes execution order")
	}

	// ---- C05.commit-or-rollback ----
	rc := c.Rule("C05.commit-or-rollback", "CommitOrRollbackTransaction / BeginTransaction decision paths", 6)
	for _, pl := range []string{"create"} {
		rs := byPipe[pl]
		last, first := rs[len(rs)-1].Fn, rs[0].Fn
		c.Touch(last)
		info := last.Pkg.TypesInfo
		db := dbParamName(p, last)
		paths, ok := p.EnumPaths(last, nil, 4096)
		if !ok {
			rc.Unknown(last.Name(), "paths", last.Body.Pos(), "too many paths")
		}
		isCallTo := func(m *types.Func) func(*ast.CallExpr) bool {
			return func(ce *ast.CallExpr) bool {
				fn, _ := typeutil.Callee(info, ce).(*types.Func)
				return fn == m
			}
		}
		stmtT := p.Named(pkgGorm, "Statement")
		poolF := p.Field(stmtT, "ConnPool")
		nFinish, nIdle := 0, 0
		for _, pr := range paths {
			nc := pathCountCalls(info, pr, isCallTo(commitM))
			nr := pathCountCalls(info, pr, isCallTo(rollbackM))
			marker := localFact(last, pr.Facts, true, pr.Exit, defIsResultOf(p.Method(dbT, "InstanceGet"), 1))
			desc := "path to " + p.Pos(pr.Exit)
			if nc+nr > 0 {
				nFinish++
				okp := nc+nr == 1
				if nc == 1 && !pr.Facts.Has(fNil(db+".Error")) {
					okp = false
				}
				if nr == 1 && !pr.Facts.Has(fNonNil(db+".Error")) {
					okp = false
				}
				// the error Commit/Rollback recorded on the handle survives: no store to db.Error after finishing
				finished := false
				for _, n := range pr.Nodes {
					for _, ce := range evaluatedCalls(n) {
						if fn, _ := typeutil.Callee(info, ce).(*types.Func); fn == commitM || fn == rollbackM {
							finished = true
						}
					}
					if as, ok := n.(*ast.AssignStmt); ok && finished {
						for _, l := range as.Lhs {
							if canon(info, l) == db+".Error" {
								rc.Bad(last.Name(), "error store after finishing ("+desc+")", as.Pos(), "db.Error is overwritten after Commit/Rollback ran: a failure of the COMMIT itself is wiped and the operation reports success although nothing was stored")
							}
						}
					}
				}
				// pool restored after finishing
				restored := false
				for _, n := range pr.Nodes {
					if as, ok := n.(*ast.AssignStmt); ok && len(as.Lhs) == 1 && fieldSel(info, as.Lhs[0], poolF) && canon(info, as.Rhs[0]) == db+".Config.ConnPool" {
						restored = true
					}
				}
				rc.Check(okp && restored, last.Name(), desc, pr.Exit, "exactly one of Commit (Error == nil) / Rollback (Error != nil), pool restored", "commit/rollback decision is wrong on this path (commits="+itoa(nc)+", rollbacks="+itoa(nr)+", pool restored="+boolStr(restored)+")", "facts: "+strings.Join(pr.Facts.List(), ", "))
			} else if marker && pr.Facts.Has(fFalse(db+".Config.SkipDefaultTransaction")) {
				rc.Bad(last.Name(), desc, pr.Exit, "a path with the started-transaction marker present finishes without Commit or Rollback: the implicit transaction stays open", "facts: "+strings.Join(pr.Facts.List(), ", "))
			} else {
				// no implicit transaction was finished on this path: the statement's pool is left alone
				// (inside an explicit transaction it is the user's transaction)
				touched := false
				for _, n := range pr.Nodes {
					if as, ok := n.(*ast.AssignStmt); ok {
						for _, l := range as.Lhs {
							if fieldSel(info, l, poolF) {
								touched = true
							}
						}
					}
				}
				nIdle++
				rc.Check(!touched, last.Name(), "idle "+desc, pr.Exit, "without a finished implicit transaction the statement's pool is not touched", "the statement's pool is reset on a path that finished no implicit transaction: inside an explicit transaction the handle is re-pointed at the connection pool and its next write escapes the transaction", "facts: "+strings.Join(pr.Facts.List(), ", "))
			}
		}
		rc.Check(nIdle >= 1, last.Name(), "idle paths exist", last.Body.Pos(), "paths without marker / with SkipDefaultTransaction", "CommitOrRollbackTransaction has no path that leaves an operation without implicit transaction alone")
		rc.Check(nFinish >= 2, last.Name(), "commit and rollback paths exist", last.Body.Pos(), "both decisions reachable", "CommitOrRollbackTransaction lacks a commit or a rollback path")

		// BeginTransaction
		c.Touch(first)
		finfo := first.Pkg.TypesInfo
		fdb := dbParamName(p, first)
		gs := p.Guards(first, nil)
		instSet := p.Method(dbT, "InstanceSet")
		var storePos, markerPos ast.Node
		ast.Inspect(first.Body, func(n ast.Node) bool {
			switch n := n.(type) {
			case *ast.AssignStmt:
				if len(n.Lhs) == 1 && fieldSel(finfo, n.Lhs[0], poolF) && strings.HasPrefix(canon(finfo, n.Lhs[0]), fdb+".") {
					storePos = n
				}
			case *ast.CallExpr:
				if fn, _ := typeutil.Callee(finfo, n).(*types.Func); fn == instSet {
					markerPos = n
				}
			}
			return true
		})
		if storePos == nil || markerPos == nil {
			rc.Bad(first.Name(), "pool+marker", first.Body.Pos(), "BeginTransaction does not store the transaction pool and the started-transaction marker")
		} else {
			fs, _ := gs.At(storePos.Pos())
			fm, _ := gs.At(markerPos.Pos())
			txOK := func(f factSet) bool {
				for k := range f {
					if strings.HasPrefix(k, "N:") && strings.HasSuffix(k, ".Error") && k != fNil(fdb+".Error") {
						return true
					}
				}
				return false
			}
			rc.Check(txOK(fs) && txOK(fm), first.Name(), "PAIR(pool store, marker) under Begin success", storePos.Pos(), "both only when Begin succeeded", "the transaction pool or the marker is stored although Begin failed")
			okp, _ := gs.MustPass(storePos.Pos(), func(n ast.Node) bool { return containsNode(n, markerPos) })
			rc.Check(okp, first.Name(), "marker follows pool store on every path", storePos.Pos(), "marker always set with the pool", "the transaction pool is installed on the statement without setting the marker: CommitOrRollbackTransaction will never finish this transaction")
			rc.Check(fs.Has(fNil(fdb+".Error")) && fs.Has(fFalse(fdb+".Config.SkipDefaultTransaction")), first.Name(), "begin only without prior error and with default transactions", storePos.Pos(), "guarded by Error == nil && !SkipDefaultTransaction", "BeginTransaction opens a transaction although an error is already recorded or default transactions are disabled")
		}
		// the marker key written by BeginTransaction is the key read by CommitOrRollbackTransaction
		instGet := p.Method(dbT, "InstanceGet")
		keyOf := func(f *FuncSrc, m *types.Func) (string, string) {
			for _, call := range callsIn(f) {
				if fn, _ := typeutil.Callee(f.Pkg.TypesInfo, call).(*types.Func); fn == m && len(call.Args) >= 1 {
					k, _ := constString(f.Pkg.TypesInfo, call.Args[0])
					return k, recvOfExpr(f.Pkg.TypesInfo, call)
				}
			}
			return "", ""
		}
		setKey, setRecv := keyOf(first, instSet)
		getKey, getRecv := keyOf(last, instGet)
		rc.Check(setKey != "" && setKey == getKey, last.Name(), "TABLE-AGREE(marker key set by begin, read by commit)", last.Body.Pos(), "same instance key "+setKey, "the started-transaction marker is stored under key "+setKey+" but looked up under "+getKey+": the implicit transaction is never committed nor rolled back")
		rc.Check(setRecv == fdb && getRecv == db, last.Name(), "marker set and read on the operation's handle", last.Body.Pos(), "instance-scoped to the executor's *DB", "the marker is stored or read on a handle other than the executor's own *DB")
		// Commit/Rollback run on the executor's own handle; the pool installed is the begun transaction's
		for _, call := range callsIn(last) {
			if fn, _ := typeutil.Callee(info, call).(*types.Func); fn == commitM || fn == rollbackM {
				rc.Check(recvOfExpr(info, call) == db, last.Name(), fn.Name()+" on the operation's handle", call.Pos(), "finishes the transaction the operation ran on", fn.Name()+" is called on "+recvOfExpr(info, call)+", not on the executor's handle whose pool is the implicit transaction")
			}
		}
		if sp, ok := storePos.(*ast.AssignStmt); ok && sp != nil {
			var beginVar string
			ast.Inspect(first.Body, func(n ast.Node) bool {
				if as, ok := n.(*ast.AssignStmt); ok && len(as.Lhs) == 1 && len(as.Rhs) == 1 {
					if ce, ok := unparen(as.Rhs[0]).(*ast.CallExpr); ok {
						if fn, _ := typeutil.Callee(finfo, ce).(*types.Func); fn == beginM {
							beginVar = canon(finfo, as.Lhs[0])
						}
					}
				}
				return true
			})
			rc.Check(beginVar != "" && canon(finfo, sp.Rhs[0]) == beginVar+".Statement.ConnPool", first.Name(), "installed pool is the begun transaction", sp.Pos(), "db.Statement.ConnPool = <begun>.Statement.ConnPool", "BeginTransaction installs "+canon(finfo, sp.Rhs[0])+" instead of the pool of the transaction it has just begun")
		}
		// other Begin errors reach db.Error
		propagates := false
		ast.Inspect(first.Body, func(n ast.Node) bool {
			if as, ok := n.(*ast.AssignStmt); ok && len(as.Lhs) == 1 && canon(finfo, as.Lhs[0]) == fdb+".Error" && strings.HasSuffix(canon(finfo, as.Rhs[0]), ".Error") {
				propagates = true
			}
			if ce, ok := n.(*ast.CallExpr); ok {
				if fn, _ := typeutil.Callee(finfo, ce).(*types.Func); fn != nil && fn.Name() == "AddError" && len(ce.Args) == 1 && strings.HasSuffix(canon(finfo, ce.Args[0]), ".Error") {
					propagates = true
				}
			}
			return true
		})
		rc.Check(propagates, first.Name(), "Begin errors propagate", first.Body.Pos(), "tx.Error reaches db.Error", "a failed Begin is swallowed: the write runs without a transaction and reports success")
	}

	// ---- C05.entry-guard ----
	re := c.Rule("C05.entry-guard", "GUARD(effect site in an executor, db.Error == nil)", 35)
	re.Exempt("callbacks.CommitOrRollbackTransaction", "must run when an error occurred: it is what rolls back")
	eff := effectfulFuncs(p)
	hookSet := map[*types.Func]bool{}
	for _, m := range hooks {
		hookSet[m] = true
	}
	seenFn := map[*FuncSrc]bool{}
	for f, reg := range execs {
		if seenFn[f] {
			continue
		}
		seenFn[f] = true
		if re.IsExempt(rootFunc(f).Name()) && rootFunc(f) == f || rootFunc(reg.Fn).Name() == "callbacks.CommitOrRollbackTransaction" {
			re.IsExempt("callbacks.CommitOrRollbackTransaction")
			continue
		}
		info := f.Pkg.TypesInfo
		db := dbParamName(p, reg.Fn)
		for _, call := range callsIn(f) {
			why := ""
			switch callee := typeutil.Callee(info, call).(type) {
			case *types.Func:
				if hookSet[callee] {
					why = "hook " + callee.Name()
				} else if k, _, ok := p.driverCallee(callee); ok && (k == DrvStmt || k == DrvBegin || k == DrvPrepare) {
					why = "driver " + callee.Name()
				} else if sf := p.SSA().FuncValue(callee); sf != nil && eff[sf] != "" && p.InRepo(sf) {
					// rows.Close()/Scan etc. are not effect sites; AddError is not effectful
					why = callee.Name() + " (" + eff[sf] + ")"
				}
			}
			if why == "" {
				continue
			}
			c.Touch(f)
			// facts at the site, or - inside a closure - at the closure's position in its parents
			guarded := false
			var seenFacts []string
			site := call.Pos()
			for g := f; g != nil; g = g.Parent {
				facts, live := p.Guards(g, nil).At(site)
				if live {
					seenFacts = append(seenFacts, facts.List()...)
					if facts.Has(fNil(db + ".Error")) {
						guarded = true
					}
				}
				if g.Lit == nil {
					break
				}
				site = g.Lit.Pos()
			}
			re.Check(guarded, f.Name(), "effect:"+why+"@"+reg.Pipeline+"/"+reg.Name, call.Pos(), "reached only after a "+db+".Error == nil test", "effect site ("+why+") in "+reg.Name+" is not dominated by a "+db+".Error == nil test: after an earlier step failed the operation keeps writing / running hooks", "facts: "+strings.Join(seenFacts, ", "))
		}
	}

	// ---- C05.errors ----
	checkC05Errors(c, eff)
	checkC05LoopError(c)
	checkC05ErrOverwrite(c)
	checkC05NestedUnconditional(c)
	// "the implicit transaction is always finished": CommitOrRollbackTransaction finishes through (*DB).Commit/Rollback,
	// which must reach the pool on every path (same rule as C04.forward)
	checkTxForward(c, c.Rule("C05.finish-forward", "the Commit/Rollback that finish an implicit transaction reach the pool's Commit/Rollback (or report ErrInvalidTransaction) on every path", 6))

	// ---- C05.same-handle ----
	rh := c.Rule("C05.same-handle", "nested finisher/driver calls in package callbacks run on a handle derived from the enclosing function's own *DB", 15)
	finishers := finisherSet(p)
	for _, fn := range p.SSAFuncs() {
		if fn.Pkg == nil && fn.Parent() == nil {
			continue
		}
		if rootSSA(fn).Pkg == nil || rootSSA(fn).Pkg.Pkg.Path() != pkgCallbacks {
			continue
		}
		forEachInstrFlat(fn, func(in ssa.Instruction) {
			ci, ok := in.(ssa.CallInstruction)
			if !ok {
				return
			}
			cc := ci.Common()
			var recv ssa.Value
			name := ""
			if cc.IsInvoke() {
				if k, _, ok := p.driverCallee(cc.Method); ok && (k == DrvStmt || k == DrvBegin) {
					recv, name = cc.Value, cc.Method.Name()
				}
			} else if callee := cc.StaticCallee(); callee != nil && finishers[callee] && len(cc.Args) > 0 {
				recv, name = cc.Args[0], callee.Name()
			}
			if recv == nil {
				return
			}
			paths := valuePaths(recv)
			okh := len(paths) > 0
			for _, pth := range paths {
				root := pth
				if i := strings.IndexAny(pth, ".["); i >= 0 {
					root = pth[:i]
				}
				if !isParamOfNamed(fn, root, dbT) {
					okh = false
				}
			}
			c.TouchName(ssaFuncName(fn))
			rh.Check(okh, ssaFuncName(fn), "nested "+name, in.Pos(), "runs on "+strings.Join(paths, "|"), "nested "+name+" runs on a handle that does not derive from the operation's own *DB ("+strings.Join(paths, "|")+"): it does not use the operation's transaction")
		})
	}

	checkC05ScanErr(c, c.Rule("C05.scan-err", "gorm.Scan consults rows.Err() before every exit that follows row iteration", 2))

	// ---- C05.batch ----
	checkBatchBracket(c, c.Rule("C05.batch", "CreateInBatches: batch loop runs inside Transaction unless SkipDefaultTransaction or a single batch", 2))
}

// checkBatchBracket: all batches of one CreateInBatches call share one transaction (shared with C13:
// "everything the operation did is rolled back" when a hook of a later batch fails).
func checkBatchBracket(c *Ctx, rbt *Rule) {
	p := c.P
	dbT := p.Named(pkgGorm, "DB")
	cib := p.MethodDecl(pkgGorm, "DB", "CreateInBatches")
	c.Touch(cib)
	{
		info := cib.Pkg.TypesInfo
		txM := p.Method(dbT, "Transaction")
		_ = p.Guards
		viaTx, direct := false, 0
		var loopFn string
		for _, call := range callsIn(cib) {
			if fn, _ := typeutil.Callee(info, call).(*types.Func); fn == txM && len(call.Args) >= 1 {
				if id, ok := unparen(call.Args[0]).(*ast.Ident); ok {
					loopFn = id.Name
					viaTx = true
				}
			}
		}
		// the batch loop: for i := 0; i < L; i += B  -> L (bound) and B (step)
		bound, step := "", ""
		for _, lit := range p.AllLits(cib) {
			ast.Inspect(lit.Body, func(n ast.Node) bool {
				fs, ok := n.(*ast.ForStmt)
				if !ok || fs.Cond == nil || fs.Post == nil {
					return true
				}
				if be, ok := unparen(fs.Cond).(*ast.BinaryExpr); ok && be.Op == token.LSS {
					if as, ok := fs.Post.(*ast.AssignStmt); ok && as.Tok == token.ADD_ASSIGN && len(as.Rhs) == 1 {
						bound, step = canon(info, be.Y), canon(info, as.Rhs[0])
					}
				}
				return true
			})
		}
		singleBatch := func(e ast.Expr) bool {
			be, ok := unparen(e).(*ast.BinaryExpr)
			if !ok || bound == "" {
				return false
			}
			x, y := canon(info, be.X), canon(info, be.Y)
			switch be.Op {
			case token.LEQ, token.LSS:
				return x == bound && y == step
			case token.GEQ, token.GTR:
				return x == step && y == bound
			}
			return false
		}
		for _, call := range callsIn(cib) {
			if id, ok := unparen(call.Fun).(*ast.Ident); ok && id.Name == loopFn && loopFn != "" {
				direct++
				// the innermost if whose then-branch contains the direct call
				var guard ast.Expr
				ast.Inspect(cib.Body, func(n ast.Node) bool {
					if ifs, ok := n.(*ast.IfStmt); ok && ifs.Body.Pos() <= call.Pos() && call.End() <= ifs.Body.End() {
						guard = ifs.Cond
					}
					return true
				})
				okd := guard != nil
				var bad []string
				var disj func(e ast.Expr)
				disj = func(e ast.Expr) {
					e = unparen(e)
					if be, ok := e.(*ast.BinaryExpr); ok && be.Op == token.LOR {
						disj(be.X)
						disj(be.Y)
						return
					}
					cs := canon(info, e)
					if strings.HasSuffix(cs, ".Config.SkipDefaultTransaction") || singleBatch(e) {
						return
					}
					okd = false
					bad = append(bad, cs)
				}
				if guard != nil {
					disj(guard)
				}
				rbt.Check(okd, cib.Name(), "direct batch loop", call.Pos(), "only when SkipDefaultTransaction || "+bound+" <= "+step, "the batch loop runs outside one transaction under a condition that is neither SkipDefaultTransaction nor 'all records fit into one batch' ("+bound+" <= "+step+"): "+strings.Join(bad, ", ")+" - a failure in a later batch leaves earlier batches committed")
			}
		}
		rbt.Check(viaTx, cib.Name(), "batch loop through Transaction", cib.Body.Pos(), "Transaction(callFc)", "CreateInBatches never wraps its batches in one transaction")
		_ = direct
	}
}

func recvOrTx(f factSet) string { return "tx" }

func boolStr(b bool) string {
	if b {
		return "true"
	}
	return "false"
}

// finisherSet: exported *DB methods returning *DB from which (*processor).Execute is reachable statically.
func finisherSet(p *Program) map[*ssa.Function]bool {
	procExec := p.SSAFunc(p.Method(p.Named(pkgGorm, "processor"), "Execute"))
	dbT := p.Named(pkgGorm, "DB")
	reach := map[*ssa.Function]bool{procExec: true}
	for changed := true; changed; {
		changed = false
		for _, fn := range p.SSAFuncs() {
			if fn.Pkg == nil || fn.Pkg.Pkg.Path() != pkgGorm || fn.Parent() != nil || reach[fn] {
				continue
			}
			forEachInstr(fn, func(owner *ssa.Function, in ssa.Instruction) {
				if ci, ok := in.(ssa.CallInstruction); ok && !reach[fn] {
					if callee := ci.Common().StaticCallee(); callee != nil && reach[callee] {
						reach[fn] = true
						changed = true
					}
				}
			})
		}
	}
	out := map[*ssa.Function]bool{}
	for _, m := range exportedDBMethods(p) {
		fn := p.SSAFunc(m)
		sig := m.Type().(*types.Signature)
		if reach[fn] && sig.Results().Len() == 1 && p.isNamedPtr(sig.Results().At(0).Type(), dbT) {
			switch m.Name() {
			case "Limit", "Offset", "Order", "Where", "Not", "Or", "Select", "Omit", "Joins", "InnerJoins", "Group", "Having", "Clauses", "Table", "Model", "Distinct", "Scopes", "Preload", "Attrs", "Assign", "Unscoped", "Raw", "Session", "WithContext", "Debug", "Set", "InstanceSet", "MapColumns":
				// chain methods reach Execute only through sub-query rendering in AddVar
				continue
			}
			out[fn] = true
		}
	}
	return out
}

// checkC05Errors: repo-specific error discipline.
func checkC05Errors(c *Ctx, eff map[*ssa.Function]string) {
	r := c.Rule("C05.errors", "errors of driver calls, Rows.Scan/Close/Err, hooks, save-point dialector calls and nested finishers reach AddError / an Error field / a returned error", 40)
	r.Exempt("gorm.(*DB).Transaction$rollback", "best-effort Rollback/RollbackTo in Transaction's deferred closure: the original error or panic is what propagates")
	r.Exempt("callbacks.CommitOrRollbackTransaction$finish", "Commit/Rollback on the operation's own handle record their error into that handle (AddError on the receiver)")
	r.Exempt("gorm.(*DB).Connection$close", "deferred conn.Close() after the user function: its error cannot change the outcome of the block")
	r.Exempt("gorm.Open$close", "closing the pool after Initialize failed: the initialisation error is what is reported")
	checkErrorFlow(c, r, nil)
}

// checkErrorFlow is the error-discipline rule; only (when non-nil) restricts it to the named root functions.
func checkErrorFlow(c *Ctx, r *Rule, only map[string]bool) {
	p := c.P
	dbT := p.Named(pkgGorm, "DB")
	assocT := p.Named(pkgGorm, "Association")
	errF := p.Field(dbT, "Error")
	aerrF := p.Field(assocT, "Error")
	hooks := hookInterfaces(p)
	hookSet := map[*types.Func]bool{}
	for _, m := range hooks {
		hookSet[m] = true
	}
	rowsI := p.Named(pkgGorm, "Rows")
	spI := p.Named(pkgGorm, "SavePointerDialectorInterface")
	finishers := finisherSet(p)
	isErr := func(t types.Type) bool { return t.String() == "error" }

	// hook closures: function literals handed to callMethod; their *gorm.DB parameter is the throw-away
	// hook session, an error recorded there never reaches the operation
	hookClosures := hookClosureSet(p)
	onHookSession := func(recv ssa.Value) bool {
		for depth := 0; depth < 6; depth++ {
			switch x := recv.(type) {
			case *ssa.Parameter:
				return hookClosures[x.Parent()]
			case *ssa.UnOp:
				recv = x.X
			case *ssa.Phi:
				for _, e := range x.Edges {
					if pm, ok := e.(*ssa.Parameter); ok && hookClosures[pm.Parent()] {
						return true
					}
				}
				return false
			default:
				return false
			}
		}
		return false
	}

	// sinkOK: does value v (an error or a *DB carrying one) reach an accepted sink?
	var sinkOK func(v ssa.Value, depth int, seen map[ssa.Value]bool) bool
	sinkOK = func(v ssa.Value, depth int, seen map[ssa.Value]bool) bool {
		if depth > 8 || seen[v] || v.Referrers() == nil {
			return false
		}
		seen[v] = true
		for _, ref := range *v.Referrers() {
			switch ref := ref.(type) {
			case *ssa.Return:
				return true
			case *ssa.Store:
				if ref.Val != v {
					continue
				}
				switch a := ref.Addr.(type) {
				case *ssa.FieldAddr:
					fv := fieldVar(a.X.Type(), a.Field)
					if fv == errF || fv == aerrF || fv.Name() == "err" || fv.Name() == "prepareErr" {
						return true
					}
				case *ssa.Alloc:
					// named result or captured variable: follow loads
					for _, r2 := range *a.Referrers() {
						if ld, ok := r2.(*ssa.UnOp); ok && sinkOK(ld, depth+1, seen) {
							return true
						}
						if _, ok := r2.(*ssa.Return); ok {
							return true
						}
					}
					// named results are returned implicitly
					if a.Comment != "" && isNamedResult(a) {
						return true
					}
				}
			case ssa.CallInstruction:
				cc := ref.Common()
				name := ""
				if cc.IsInvoke() {
					name = cc.Method.Name()
				} else if sc := cc.StaticCallee(); sc != nil {
					name = sc.Name()
				}
				if name == "AddError" || name == "Errorf" || name == "Is" || name == "As" || name == "Join" {
					if name == "AddError" {
						// recorded on the operation's handle, not on the hook session
						if !cc.IsInvoke() && len(cc.Args) > 0 && onHookSession(cc.Args[0]) {
							continue
						}
						return true
					}
					if call, ok := ref.(*ssa.Call); ok && sinkOK(call, depth+1, seen) {
						return true
					}
				}
			case *ssa.Phi:
				if sinkOK(ref, depth+1, seen) {
					return true
				}
			case *ssa.MakeInterface:
				if sinkOK(ref, depth+1, seen) {
					return true
				}
			case *ssa.ChangeInterface:
				if sinkOK(ref, depth+1, seen) {
					return true
				}
			case *ssa.Extract:
				if sinkOK(ref, depth+1, seen) {
					return true
				}
			case *ssa.FieldAddr:
				// v is a *DB: v.Error loaded and sunk
				if fieldVar(ref.X.Type(), ref.Field) == errF {
					for _, r2 := range *ref.Referrers() {
						if ld, ok := r2.(*ssa.UnOp); ok && sinkOK(ld, depth+1, seen) {
							return true
						}
					}
				}
			case *ssa.MakeClosure:
				// captured by a closure: look at the closure's uses of the free variable
				for i, b := range ref.Bindings {
					if b == v {
						fv := ref.Fn.(*ssa.Function).FreeVars[i]
						if sinkOK(fv, depth+1, seen) {
							return true
						}
					}
				}
			case *ssa.UnOp:
				if sinkOK(ref, depth+1, seen) {
					return true
				}
			}
		}
		return false
	}

	for _, fn := range p.SSAFuncs() {
		root := rootSSA(fn)
		if root.Pkg == nil {
			continue
		}
		pp := root.Pkg.Pkg.Path()
		if pp != pkgGorm && pp != pkgCallbacks {
			continue
		}
		if only != nil && !only[ssaFuncName(root)] {
			continue
		}
		forEachInstrFlat(fn, func(in ssa.Instruction) {
			ci, ok := in.(ssa.CallInstruction)
			if !ok {
				return
			}
			cc := ci.Common()
			var callee *types.Func
			if cc.IsInvoke() {
				callee = cc.Method
			} else if sc := cc.StaticCallee(); sc != nil {
				if o, ok := sc.Object().(*types.Func); ok {
					callee = o
				}
			}
			if callee == nil {
				return
			}
			kind := ""
			sig := callee.Type().(*types.Signature)
			if k, _, ok := p.driverCallee(callee); ok && k != DrvClose && k != DrvStmtCtx && k != DrvConn {
				kind = "driver " + callee.Name()
			} else if hookSet[callee] {
				kind = "hook " + callee.Name()
			} else if sig.Recv() != nil && (types.Identical(sig.Recv().Type(), rowsI) || namedOf(sig.Recv().Type()) == "database/sql.Rows") && (callee.Name() == "Scan" || callee.Name() == "Close" || callee.Name() == "Err") {
				kind = "rows." + callee.Name()
			} else if sig.Recv() != nil && types.Identical(sig.Recv().Type(), spI) {
				kind = "savepoint " + callee.Name()
			} else if sc := cc.StaticCallee(); sc != nil && finishers[sc] && pp == pkgCallbacks {
				kind = "finisher " + callee.Name()
			} else if sc := cc.StaticCallee(); sc != nil && finishers[sc] && pp == pkgGorm && (root.Name() != callee.Name()) {
				kind = "finisher " + callee.Name()
			}
			if kind == "" {
				return
			}
			name := ssaFuncName(fn)
			c.TouchName(name)
			// named exemptions
			switch {
			case root.Name() == "Transaction" && fn.Parent() != nil && (callee.Name() == "Rollback" || callee.Name() == "RollbackTo"):
				r.IsExempt("gorm.(*DB).Transaction$rollback")
				return
			case root.Name() == "CommitOrRollbackTransaction" && (callee.Name() == "Commit" || callee.Name() == "Rollback"):
				r.IsExempt("callbacks.CommitOrRollbackTransaction$finish")
				return
			}
			// deferred calls: result unavailable
			if _, isDefer := in.(*ssa.Defer); isDefer {
				if root.Name() == "Connection" {
					r.IsExempt("gorm.(*DB).Connection$close")
					return
				}
				r.Bad(name, kind+" (deferred)", in.Pos(), "the error of a deferred "+kind+" is discarded")
				return
			}
			if _, isGo := in.(*ssa.Go); isGo {
				return
			}
			call := in.(*ssa.Call)
			res := sig.Results()
			var errVal ssa.Value
			hasErr := false
			switch {
			case strings.HasPrefix(kind, "finisher"):
				errVal, hasErr = call, true
			case res.Len() == 1 && isErr(res.At(0).Type()):
				errVal, hasErr = call, true
			case res.Len() > 1:
				for i := 0; i < res.Len(); i++ {
					if isErr(res.At(i).Type()) {
						hasErr = true
						for _, ref := range *call.Referrers() {
							if ex, ok := ref.(*ssa.Extract); ok && ex.Index == i {
								errVal = ex
							}
						}
					}
				}
			}
			if !hasErr {
				return
			}
			if errVal == nil {
				r.Bad(name, kind, in.Pos(), "the error result of "+kind+" is discarded (blank identifier): a failing step is reported as success")
				return
			}
			ok2 := sinkOK(errVal, 0, map[ssa.Value]bool{})
			if !ok2 && strings.HasPrefix(kind, "finisher") {
				// finishers whose result is the receiver of a further chain/finisher call are judged at the end of the chain
				for _, ref := range *call.Referrers() {
					if c2, ok := ref.(ssa.CallInstruction); ok && len(c2.Common().Args) > 0 && c2.Common().Args[0] == ssa.Value(call) {
						ok2 = true
					}
				}
			}
			r.Check(ok2, name, kind, in.Pos(), "error reaches AddError / an Error field / the caller", "the error of "+kind+" is dropped: it neither reaches AddError, an Error field, nor a returned error")
		})
	}
}

func isNamedResult(a *ssa.Alloc) bool {
	fn := a.Parent()
	if fn == nil {
		return false
	}
	res := fn.Signature.Results()
	for i := 0; i < res.Len(); i++ {
		if res.At(i).Name() != "" && res.At(i).Name() == a.Comment {
			return true
		}
	}
	return false
}

func namedOf(t types.Type) string {
	if pt, ok := t.(*types.Pointer); ok {
		t = pt.Elem()
	}
	if n, ok := t.(*types.Named); ok && n.Obj().Pkg() != nil {
		return n.Obj().Pkg().Path() + "." + n.Obj().Name()
	}
	return ""
}

// hookClosureSet: the function literals passed to callbacks.callMethod.
func hookClosureSet(p *Program) map[*ssa.Function]bool {
	out := map[*ssa.Function]bool{}
	cm := p.SSAFunc(p.FuncDecl(pkgCallbacks, "callMethod").Obj)
	for _, fn := range p.SSAFuncs() {
		if fn.Blocks == nil {
			continue
		}
		forEachInstrFlat(fn, func(in ssa.Instruction) {
			ci, ok := in.(ssa.CallInstruction)
			if !ok || ci.Common().StaticCallee() != cm {
				return
			}
			for _, a := range ci.Common().Args {
				switch x := a.(type) {
				case *ssa.MakeClosure:
					if f, ok := x.Fn.(*ssa.Function); ok {
						out[f] = true
					}
				case *ssa.Function:
					out[x] = true
				}
			}
		})
	}
	return out
}

// checkIdlePathsKeepPool: CommitOrRollbackTransaction touches the statement's pool only on paths that
// finished an implicit transaction (shared by C04.pool-kept).
func checkIdlePathsKeepPool(c *Ctx, r *Rule) {
	p := c.P
	f := p.FuncDecl(pkgCallbacks, "CommitOrRollbackTransaction")
	c.Touch(f)
	info := f.Pkg.TypesInfo
	dbT := p.Named(pkgGorm, "DB")
	commitM, rollbackM := p.Method(dbT, "Commit"), p.Method(dbT, "Rollback")
	poolF := p.Field(p.Named(pkgGorm, "Statement"), "ConnPool")
	paths, ok := p.EnumPaths(f, nil, 4096)
	if !ok {
		r.Unknown(f.Name(), "paths", f.Body.Pos(), "too many paths")
	}
	n := 0
	for _, pr := range paths {
		finished := pathCountCalls(info, pr, func(ce *ast.CallExpr) bool {
			fn, _ := typeutil.Callee(info, ce).(*types.Func)
			return fn == commitM || fn == rollbackM
		})
		if finished > 0 {
			continue
		}
		touched := false
		for _, nd := range pr.Nodes {
			if as, ok := nd.(*ast.AssignStmt); ok {
				for _, l := range as.Lhs {
					if fieldSel(info, l, poolF) {
						touched = true
					}
				}
			}
		}
		n++
		r.Check(!touched, f.Name(), "idle path to "+p.Pos(pr.Exit), pr.Exit, "pool untouched when no implicit transaction was finished", "the statement's pool is reset although this operation finished no implicit transaction: inside a Transaction block the handle is re-pointed at the connection pool and its next write is not rolled back with the block")
	}
	if n == 0 {
		r.Bad(f.Name(), "idle paths", f.Body.Pos(), "no path without Commit/Rollback through CommitOrRollbackTransaction")
	}
}
