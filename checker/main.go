// gormverif: repository-specific static analyser deciding structural
// necessary conditions of the properties in /verif/properties.jsonl on the
// current working tree of /repo.  See /verif/DESIGN.md.
package main

import (
	"encoding/json"
	"fmt"
	"os"
	"path/filepath"
	"runtime/debug"
	"sort"
	"time"
)

type propertyCheck struct {
	ID  string
	Run func(c *Ctx)
}

var registry = map[string]func(c *Ctx){}

func register(id string, run func(c *Ctx), explanation string, assumptions ...string) {
	registry[id] = run
	propertyExplanation[id] = explanation
	extraAssumptions[id] = assumptions
}

func verifDir() string {
	if d := os.Getenv("VERIF_DIR"); d != "" {
		return d
	}
	exe, err := os.Executable()
	if err == nil {
		d := filepath.Dir(filepath.Dir(exe))
		if _, err := os.Stat(filepath.Join(d, "properties.jsonl")); err == nil {
			return d
		}
	}
	return "/verif"
}

func repoDir() string {
	if d := os.Getenv("GORM_REPO"); d != "" {
		return d
	}
	return "/repo"
}

func usage() {
	fmt.Fprintln(os.Stderr, `usage:
  gormverif check <id> [--tier quick|thorough] [--repo DIR] [--no-evidence]
  gormverif replay <path>
  gormverif list
  gormverif selftest        (guard engine unit tests on synthetic snippets)
  gormverif dump <what>     (debug helpers)`)
	os.Exit(2)
}

func main() {
	if len(os.Args) < 2 {
		usage()
	}
	switch os.Args[1] {
	case "list":
		ids := make([]string, 0, len(registry))
		for id := range registry {
			ids = append(ids, id)
		}
		sort.Strings(ids)
		for _, id := range ids {
			fmt.Println(id)
		}
	case "check":
		if len(os.Args) < 3 {
			usage()
		}
		id := os.Args[2]
		tier := os.Getenv("VERIF_TIER")
		if tier == "" {
			tier = "quick"
		}
		repo := repoDir()
		writeEv := true
		for i := 3; i < len(os.Args); i++ {
			switch os.Args[i] {
			case "--tier":
				i++
				tier = os.Args[i]
			case "--repo":
				i++
				repo = os.Args[i]
			case "--no-evidence":
				writeEv = false
			default:
				usage()
			}
		}
		os.Exit(runCheck(id, tier, repo, writeEv))
	case "replay":
		if len(os.Args) < 3 {
			usage()
		}
		os.Exit(runReplay(os.Args[2]))
	case "mutants":
		if len(os.Args) < 3 {
			usage()
		}
		bad := 0
		for _, e := range runMutants(os.Args[2], repoDir()) {
			if e.Status != "killed" {
				bad++
			}
		}
		if bad > 0 {
			os.Exit(2)
		}
	case "neutral":
		os.Exit(runNeutral(repoDir()))
	case "selftest":
		os.Exit(runSelftest())
	case "dump":
		if len(os.Args) < 3 {
			usage()
		}
		runDump(os.Args[2:])
	default:
		usage()
	}
}

func runCheck(id, tier, repo string, writeEv bool) (exit int) {
	start := time.Now()
	run, ok := registry[id]
	if !ok {
		fmt.Printf("CHECKER-ERROR property=%s unknown property (not claimed)\n", id)
		return 2
	}
	if tier != "quick" && tier != "thorough" {
		fmt.Printf("CHECKER-ERROR property=%s unknown tier %q\n", id, tier)
		return 2
	}
	defer func() {
		if r := recover(); r != nil {
			if fe, ok := r.(fatalError); ok {
				fmt.Printf("CHECKER-ERROR property=%s %s\n", id, fe.msg)
			} else {
				fmt.Printf("CHECKER-ERROR property=%s panic: %v\n%s\n", id, r, debug.Stack())
			}
			exit = 2
		}
	}()
	p := loadProgram(repo)
	c := &Ctx{P: p, Property: id, Tier: tier}
	run(c)
	var mutants []mutantEvidence
	if tier == "thorough" {
		mutants = runMutants(id, repo)
	}
	out := finish(c, verifDir(), start, mutants, writeEv)
	return out.exit
}

func runReplay(path string) int {
	b, err := os.ReadFile(path)
	if err != nil {
		fmt.Println("replay:", err)
		return 2
	}
	var rf struct {
		Property   string     `json:"property"`
		Obligation Obligation `json:"obligation"`
	}
	if err := json.Unmarshal(b, &rf); err != nil {
		fmt.Println("replay:", err)
		return 2
	}
	run, ok := registry[rf.Property]
	if !ok {
		fmt.Println("replay: unknown property", rf.Property)
		return 2
	}
	exit := 0
	func() {
		defer func() {
			if r := recover(); r != nil {
				fmt.Printf("CHECKER-ERROR property=%s %v\n", rf.Property, r)
				exit = 2
			}
		}()
		p := loadProgram(repoDir())
		c := &Ctx{P: p, Property: rf.Property, Tier: "quick"}
		run(c)
		found := false
		for _, r := range c.Rules {
			for _, o := range r.Obls {
				if o.Key == rf.Obligation.Key {
					found = true
					fmt.Printf("obligation %s\n  rule: %s\n  at: %s\n  verdict on current tree: %s\n  %s\n", o.Key, r.Desc, o.Pos, o.Verdict, o.Msg)
					for _, w := range o.Witness {
						fmt.Printf("    %s\n", w)
					}
					if o.Verdict == Violation {
						fmt.Printf("VIOLATION property=%s replay=%s\n", rf.Property, path)
						exit = 1
					}
				}
			}
		}
		if !found {
			fmt.Printf("obligation %s no longer exists on the current tree (construct removed or renamed)\n", rf.Obligation.Key)
		}
	}()
	return exit
}
