package main

func init() {
	addMutants(
		Mutant{Name: "c14-prepare-error-arm-keeps-lock", Property: "C14", Rule: "C14.locks", Edits: []Edit{{"prepare_stmt.go",
			"\t\t\tdelete(db.Stmts, query)\n\t\t}\n\t\tdb.Mux.Unlock()\n\t\treturn Stmt{}, err", "\t\t\tdelete(db.Stmts, query)\n\t\t}\n\t\treturn Stmt{}, err"}}},
		Mutant{Name: "c14-prepare-double-unlock", Property: "C14", Rule: "C14.locks", Edits: []Edit{{"prepare_stmt.go",
			"\tif db.Stmts == nil {\n\t\tdb.Mux.Unlock()\n\t\treturn Stmt{}, ErrInvalidDB\n\t}", "\tif db.Stmts == nil {\n\t\tdb.Mux.Unlock()\n\t\tdb.Mux.Unlock()\n\t\treturn Stmt{}, ErrInvalidDB\n\t}"}}},
		Mutant{Name: "c14-wait-for-prepared-under-read-lock", Property: "C14", Rule: "C14.no-block", Edits: []Edit{{"prepare_stmt.go",
			"\t\tdb.Mux.RUnlock()\n\t\t// wait for other goroutines prepared\n\t\t<-stmt.prepared\n", "\t\t// wait for other goroutines prepared\n\t\t<-stmt.prepared\n\t\tdb.Mux.RUnlock()\n"}}},
		Mutant{Name: "c14-prepare-under-lock", Property: "C14", Rule: "C14.no-block", Edits: []Edit{{"prepare_stmt.go",
			"\tdb.Stmts[query] = &cacheStmt\n\tdb.Mux.Unlock()\n\n\t// prepare completed\n\tdefer close(cacheStmt.prepared)\n", "\tdb.Stmts[query] = &cacheStmt\n\n\t// prepare completed\n\tdefer close(cacheStmt.prepared)\n"},
			{"prepare_stmt.go", "\tstmt, err := conn.PrepareContext(ctx, query)\n\tif err != nil {\n\t\tcacheStmt.prepareErr = err\n\t\tdb.Mux.Lock()\n", "\tstmt, err := conn.PrepareContext(ctx, query)\n\tdb.Mux.Unlock()\n\tif err != nil {\n\t\tcacheStmt.prepareErr = err\n\t\tdb.Mux.Lock()\n"}}},
		Mutant{Name: "c14-session-unlocked-snapshot-again", Property: "C14", Rule: "C14.map", Edits: []Edit{{"gorm.go",
			"\t\t\tpreparedStmt.Mux.RLock()\n\t\t\tstmts := preparedStmt.Stmts\n\t\t\tpreparedStmt.Mux.RUnlock()\n", "\t\t\tstmts := preparedStmt.Stmts\n"}}, Note: "reverts fix c335837"},
		Mutant{Name: "c14-evict-without-lock", Property: "C14", Rule: "C14.map", Edits: []Edit{{"prepare_stmt.go",
			"\t\t\tdb.Mux.Lock()\n\t\t\tdefer db.Mux.Unlock()\n\t\t\tgo stmt.Close()\n", "\t\t\tgo stmt.Close()\n"}}},
		Mutant{Name: "c14-reset-under-read-lock", Property: "C14", Rule: "C14.map", Edits: []Edit{{"prepare_stmt.go",
			"func (sdb *PreparedStmtDB) Reset() {\n\tsdb.Mux.Lock()\n\tdefer sdb.Mux.Unlock()", "func (sdb *PreparedStmtDB) Reset() {\n\tsdb.Mux.RLock()\n\tdefer sdb.Mux.RUnlock()"}}},
		Mutant{Name: "c14-no-deferred-close-of-prepared", Property: "C14", Rule: "C14.inprogress", Edits: []Edit{{"prepare_stmt.go", "\tdefer close(cacheStmt.prepared)\n", ""},
			{"prepare_stmt.go", "\tdb.Mux.Lock()\n\tcacheStmt.Stmt = stmt\n\tdb.Mux.Unlock()\n", "\tdb.Mux.Lock()\n\tcacheStmt.Stmt = stmt\n\tdb.Mux.Unlock()\n\tclose(cacheStmt.prepared)\n"}},
			Note: "closes only on the success path: waiters of a failed prepare hang"},
		Mutant{Name: "c14-failed-prepare-stays-cached", Property: "C14", Rule: "C14.inprogress", Edits: []Edit{{"prepare_stmt.go",
			"\t\tif cur, ok := db.Stmts[query]; ok && cur == &cacheStmt {\n\t\t\tdelete(db.Stmts, query)\n\t\t}\n", ""}}},
		Mutant{Name: "c14-failed-prepare-error-not-recorded", Property: "C14", Rule: "C14.inprogress", Edits: []Edit{{"prepare_stmt.go", "\t\tcacheStmt.prepareErr = err\n", ""}}},
		Mutant{Name: "c14-insert-into-closed-cache", Property: "C14", Rule: "C14.inprogress", Edits: []Edit{{"prepare_stmt.go",
			"\tif db.Stmts == nil {\n\t\tdb.Mux.Unlock()\n\t\treturn Stmt{}, ErrInvalidDB\n\t}\n", ""}}},
		Mutant{Name: "c14-cache-hit-ignores-prepare-error", Property: "C14", Rule: "C14.inprogress", Edits: []Edit{{"prepare_stmt.go",
			"\t\tdb.Mux.Unlock()\n\t\t// wait for other goroutines prepared\n\t\t<-stmt.prepared\n\t\tif stmt.prepareErr != nil {\n\t\t\treturn Stmt{}, stmt.prepareErr\n\t\t}\n", "\t\tdb.Mux.Unlock()\n\t\t// wait for other goroutines prepared\n\t\t<-stmt.prepared\n"}}},
		Mutant{Name: "c14-badconn-arm-does-not-close", Property: "C14", Rule: "C14.evict", Edits: []Edit{{"prepare_stmt.go",
			"\t\t\tdefer db.Mux.Unlock()\n\n\t\t\tgo stmt.Close()\n", "\t\t\tdefer db.Mux.Unlock()\n\n"}}},
		Mutant{Name: "c14-tx-badconn-arm-keeps-entry", Property: "C14", Rule: "C14.evict", Edits: []Edit{{"prepare_stmt.go",
			"\t\trows, err = tx.Tx.StmtContext(ctx, stmt.Stmt).QueryContext(ctx, args...)\n\t\tif errors.Is(err, driver.ErrBadConn) {\n\t\t\ttx.PreparedStmtDB.Mux.Lock()\n\t\t\tdefer tx.PreparedStmtDB.Mux.Unlock()\n\n\t\t\tgo stmt.Close()\n\t\t\t// evict only the statement that failed, the entry may have been replaced meanwhile\n\t\t\tif cur, ok := tx.PreparedStmtDB.Stmts[query]; ok && cur.Stmt == stmt.Stmt {\n\t\t\t\tdelete(tx.PreparedStmtDB.Stmts, query)\n\t\t\t}\n\t\t}",
			"\t\trows, err = tx.Tx.StmtContext(ctx, stmt.Stmt).QueryContext(ctx, args...)\n\t\tif errors.Is(err, driver.ErrBadConn) {\n\t\t\tgo stmt.Close()\n\t\t}"}}},
		Mutant{Name: "c14-close-keeps-map", Property: "C14", Rule: "C14.evict", Edits: []Edit{{"prepare_stmt.go", "\tdb.Stmts = nil\n", ""}}},
		Mutant{Name: "c14-reset-closes-before-prepared", Property: "C14", Rule: "C14.evict", Edits: []Edit{{"prepare_stmt.go",
			"\tfor _, stmt := range sdb.Stmts {\n\t\tgo func(s *Stmt) {\n\t\t\t// make sure the stmt must finish preparation first\n\t\t\t<-s.prepared\n", "\tfor _, stmt := range sdb.Stmts {\n\t\tgo func(s *Stmt) {\n"}}},
		Mutant{Name: "c14-tx-executes-cached-stmt-directly", Property: "C14", Rule: "C14.tx", Edits: []Edit{{"prepare_stmt.go",
			"result, err = tx.Tx.StmtContext(ctx, stmt.Stmt).ExecContext(ctx, args...)", "result, err = stmt.ExecContext(ctx, args...)"}}},
		Mutant{Name: "c14-tx-prepares-as-non-transaction", Property: "C14", Rule: "C14.tx", Edits: []Edit{{"prepare_stmt.go",
			"func (tx *PreparedStmtTX) QueryRowContext(ctx context.Context, query string, args ...interface{}) *sql.Row {\n\tstmt, err := tx.PreparedStmtDB.prepare(ctx, tx.Tx, true, query)",
			"func (tx *PreparedStmtTX) QueryRowContext(ctx context.Context, query string, args ...interface{}) *sql.Row {\n\tstmt, err := tx.PreparedStmtDB.prepare(ctx, tx.Tx, false, query)"}}},
		Mutant{Name: "c14-begintx-fresh-cache", Property: "C14", Rule: "C14.tx", Edits: []Edit{{"prepare_stmt.go",
			"tx, err := beginner.BeginTx(ctx, opt)\n\t\treturn &PreparedStmtTX{PreparedStmtDB: db, Tx: tx}, err", "tx, err := beginner.BeginTx(ctx, opt)\n\t\treturn &PreparedStmtTX{PreparedStmtDB: NewPreparedStmtDB(db.ConnPool), Tx: tx}, err"}}},
	)
}

func init() {
	addMutants(
		Mutant{Name: "c14-entry-stmt-published-without-lock", Property: "C14", Rule: "C14.inprogress", Edits: []Edit{{"prepare_stmt.go",
			"\tdb.Mux.Lock()\n\tcacheStmt.Stmt = stmt\n\tdb.Mux.Unlock()\n", "\tcacheStmt.Stmt = stmt\n"}}},
	)
}
