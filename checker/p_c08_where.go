package main

// C08.where-kept: the automatically added soft-delete filter lives inside the statement's WHERE clause and
// the marker entry says "the filter is there".  They stay in step only if nobody replaces or deletes the
// WHERE entry (or the marker) of Statement.Clauses by key: the entries are written through AddClause
// (merging), copied by clone, and rewritten by the soft-delete query modifier, which writes both.  Any
// other function that stores or deletes Clauses["WHERE"] must store or delete the marker as well.

import (
	"go/ast"
	"go/types"
	"sort"
	"strings"
)

func checkC08WhereKept(c *Ctx) {
	p := c.P
	r := c.Rule("C08.where-kept", "WHO-WRITES(Statement.Clauses[\"WHERE\"] / marker by key): only together, or through AddClause/clone", 8)
	stmtT := p.Named(pkgGorm, "Statement")
	clausesF := p.Field(stmtT, "Clauses")
	r.Exempt("gorm.(*Statement).AddClause", "the merging writer of every clause: MergeClause of clause.Where extends the existing expression list")
	r.Exempt("gorm.(*Statement).clone", "copies every entry, marker included")
	// the marker key: the constant key stored with an empty clause.Clause by the query modifier
	marker := ""
	qm := p.MethodDecl(pkgGorm, "SoftDeleteQueryClause", "ModifyStatement")
	ast.Inspect(qm.Body, func(n ast.Node) bool {
		if as, ok := n.(*ast.AssignStmt); ok && len(as.Lhs) == 1 && len(as.Rhs) == 1 {
			if ix, ok := unparen(as.Lhs[0]).(*ast.IndexExpr); ok && fieldSel(qm.Pkg.TypesInfo, ix.X, clausesF) {
				if cl, ok := unparen(as.Rhs[0]).(*ast.CompositeLit); ok && len(cl.Elts) == 0 {
					if k, ok := constString(qm.Pkg.TypesInfo, ix.Index); ok {
						marker = k
					}
				}
			}
		}
		return true
	})
	if marker == "" {
		r.Unknown(qm.Name(), "marker", qm.Body.Pos(), "the soft-delete query modifier no longer stores a marker entry")
		return
	}
	type write struct {
		f    *FuncSrc
		node ast.Node
		key  string // constant key, "" when dynamic
		kind string
	}
	var writes []write
	for _, f := range p.FuncsOf(pkgGorm, pkgCallbacks, pkgClause, pkgSchema, pkgMigrator) {
		info := f.Pkg.TypesInfo
		ast.Inspect(f.Body, func(n ast.Node) bool {
			if _, ok := n.(*ast.FuncLit); ok {
				return false
			}
			switch x := n.(type) {
			case *ast.AssignStmt:
				for _, l := range x.Lhs {
					if ix, ok := unparen(l).(*ast.IndexExpr); ok && fieldSel(info, ix.X, clausesF) {
						k, _ := constString(info, ix.Index)
						writes = append(writes, write{f, x, k, "store"})
					}
				}
			case *ast.CallExpr:
				if id, ok := x.Fun.(*ast.Ident); ok && id.Name == "delete" && len(x.Args) == 2 && fieldSel(info, x.Args[0], clausesF) {
					if _, isB := info.Uses[id].(*types.Builtin); isB {
						k, _ := constString(info, x.Args[1])
						writes = append(writes, write{f, x, k, "delete"})
					}
				}
			}
			return true
		})
	}
	sort.Slice(writes, func(i, j int) bool { return writes[i].node.Pos() < writes[j].node.Pos() })
	byRoot := map[*FuncSrc][]write{}
	for _, w := range writes {
		byRoot[rootFunc(w.f)] = append(byRoot[rootFunc(w.f)], w)
	}
	for _, w := range writes {
		root := rootFunc(w.f)
		c.Touch(root)
		desc := w.kind + " Clauses[" + map[bool]string{true: "<dynamic>", false: w.key}[w.key == ""] + "]"
		if r.IsExempt(root.Name()) {
			r.OK(root.Name(), desc, w.node.Pos(), "exempt: "+root.Name())
			continue
		}
		touchesWhere := w.key == "WHERE" || w.key == "" || strings.EqualFold(w.key, marker)
		if !touchesWhere {
			r.OK(root.Name(), desc, w.node.Pos(), "another clause")
			continue
		}
		// the same function writes the other half too
		hasWhere, hasMarker := false, false
		for _, o := range byRoot[root] {
			if o.key == "WHERE" {
				hasWhere = true
			}
			if o.key == marker {
				hasMarker = true
			}
		}
		// a regroup rewrites the entry it has just read, keeping every expression (clause.And(old...))
		if w.key == "WHERE" && w.kind == "store" {
			if st, hasAnd := findRegroup(p, root); st != nil && ast.Node(st) == w.node && hasAnd {
				r.OK(root.Name(), desc, w.node.Pos(), "regroup: the entry read is stored back with all its expressions wrapped into one AND unit")
				continue
			}
		}
		r.Check(w.key != "" && hasWhere && hasMarker, root.Name(), desc, w.node.Pos(), "WHERE entry and marker written together", "the WHERE clause (or the soft-delete marker) of a statement is replaced or deleted by key without the other half: the filter the soft-delete modifier added is dropped while the marker that suppresses re-adding it stays (or the other way round) - later finishers on this statement see soft-deleted rows")
	}
}
