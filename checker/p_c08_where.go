package main

// C08.where-kept: the automatically added soft-delete filter lives inside the statement's WHERE clause and
// the marker entry says "the filter is there".  They stay in step only if nobody replaces or deletes the
// WHERE entry (or the marker) of Statement.Clauses by key: the entries are written through AddClause
// (merging), copied by clone, and rewritten by the soft-delete query modifier, which writes both.  Any
// other function that stores or deletes Clauses["WHERE"] must store or delete the marker as well.

import (
	"go/ast"
	"go/types"
	"sort"
	"strings"

	"golang.org/x/tools/go/types/typeutil"
)

func checkC08WhereKept(c *Ctx) {
	p := c.P
	r := c.Rule("C08.where-kept", "WHO-WRITES(Statement.Clauses[\"WHERE\"] / marker by key): only together, or through AddClause/clone", 8)
	stmtT := p.Named(pkgGorm, "Statement")
	clausesF := p.Field(stmtT, "Clauses")
	r.Exempt("gorm.(*Statement).AddClause", "the merging writer of every clause: MergeClause of clause.Where extends the existing expression list")
	r.Exempt("gorm.(*Statement).clone", "copies every entry, marker included")
	// the marker key: the constant key stored with an empty clause.Clause by the query modifier
	marker := ""
	qm := p.MethodDecl(pkgGorm, "SoftDeleteQueryClause", "ModifyStatement")
	ast.Inspect(qm.Body, func(n ast.Node) bool {
		if as, ok := n.(*ast.AssignStmt); ok && len(as.Lhs) == 1 && len(as.Rhs) == 1 {
			if ix, ok := unparen(as.Lhs[0]).(*ast.IndexExpr); ok && fieldSel(qm.Pkg.TypesInfo, ix.X, clausesF) {
				if cl, ok := unparen(as.Rhs[0]).(*ast.CompositeLit); ok && len(cl.Elts) == 0 {
					if k, ok := constString(qm.Pkg.TypesInfo, ix.Index); ok {
						marker = k
					}
				}
			}
		}
		return true
	})
	if marker == "" {
		r.Unknown(qm.Name(), "marker", qm.Body.Pos(), "the soft-delete query modifier no longer stores a marker entry")
		return
	}
	type write struct {
		f    *FuncSrc
		node ast.Node
		key  string // constant key, "" when dynamic
		kind string
	}
	var writes []write
	for _, f := range p.FuncsOf(pkgGorm, pkgCallbacks, pkgClause, pkgSchema, pkgMigrator) {
		info := f.Pkg.TypesInfo
		ast.Inspect(f.Body, func(n ast.Node) bool {
			if _, ok := n.(*ast.FuncLit); ok {
				return false
			}
			switch x := n.(type) {
			case *ast.AssignStmt:
				for _, l := range x.Lhs {
					if ix, ok := unparen(l).(*ast.IndexExpr); ok && fieldSel(info, ix.X, clausesF) {
						k, _ := constString(info, ix.Index)
						writes = append(writes, write{f, x, k, "store"})
					}
				}
			case *ast.CallExpr:
				if id, ok := x.Fun.(*ast.Ident); ok && id.Name == "delete" && len(x.Args) == 2 && fieldSel(info, x.Args[0], clausesF) {
					if _, isB := info.Uses[id].(*types.Builtin); isB {
						k, _ := constString(info, x.Args[1])
						writes = append(writes, write{f, x, k, "delete"})
					}
				}
			}
			return true
		})
	}
	sort.Slice(writes, func(i, j int) bool { return writes[i].node.Pos() < writes[j].node.Pos() })
	byRoot := map[*FuncSrc][]write{}
	for _, w := range writes {
		byRoot[rootFunc(w.f)] = append(byRoot[rootFunc(w.f)], w)
	}
	for _, w := range writes {
		root := rootFunc(w.f)
		c.Touch(root)
		desc := w.kind + " Clauses[" + map[bool]string{true: "<dynamic>", false: w.key}[w.key == ""] + "]"
		if r.IsExempt(root.Name()) {
			r.OK(root.Name(), desc, w.node.Pos(), "exempt: "+root.Name())
			continue
		}
		touchesWhere := w.key == "WHERE" || w.key == "" || strings.EqualFold(w.key, marker)
		if !touchesWhere {
			r.OK(root.Name(), desc, w.node.Pos(), "another clause")
			continue
		}
		// the same function writes the other half too
		hasWhere, hasMarker := false, false
		for _, o := range byRoot[root] {
			if o.key == "WHERE" {
				hasWhere = true
			}
			if o.key == marker {
				hasMarker = true
			}
		}
		// a regroup rewrites the entry it has just read, keeping every expression (clause.And(old...))
		if w.key == "WHERE" && w.kind == "store" {
			if st, hasAnd := findRegroup(p, root); st != nil && ast.Node(st) == w.node && hasAnd {
				r.OK(root.Name(), desc, w.node.Pos(), "regroup: the entry read is stored back with all its expressions wrapped into one AND unit")
				continue
			}
		}
		r.Check(w.key != "" && hasWhere && hasMarker, root.Name(), desc, w.node.Pos(), "WHERE entry and marker written together", "the WHERE clause (or the soft-delete marker) of a statement is replaced or deleted by key without the other half: the filter the soft-delete modifier added is dropped while the marker that suppresses re-adding it stays (or the other way round) - later finishers on this statement see soft-deleted rows")
	}
}

// C08.group-subject: whether a unit of the WHERE clause is put in parentheses is decided (in
// clause.buildExprs) from the raw SQL text of the unit, obtained through a resolver func(Expression)
// (string, bool).  The soft-delete regroup wraps the user's conditions as And(Or(raw)): a singleton
// AndConditions around a singleton OrConditions (clause.And keeps that wrapper on purpose).  The resolver
// therefore has to look through singleton AndConditions / OrConditions wrappers; if it does not, the text
// `a OR b` inside the wrappers is not seen, no parentheses are written and the filter binds to the last
// alternative only (`a OR b AND deleted_at IS NULL`).
func checkC08GroupSubject(c *Ctx) {
	p := c.P
	r := c.Rule("C08.group-subject", "the raw-text resolver of the parenthesisation decisions looks through singleton And/Or wrappers", 2)
	exprI := p.Iface(pkgClause, "Expression")
	wrappers := []*types.Named{p.Named(pkgClause, "AndConditions"), p.Named(pkgClause, "OrConditions")}
	raws := []*types.Named{p.Named(pkgClause, "Expr"), p.Named(pkgClause, "NamedExpr")}
	n := 0
	for _, f := range p.FuncsOf(pkgClause) {
		if f.Obj == nil || f.Parent != nil {
			continue
		}
		sig := f.Obj.Type().(*types.Signature)
		if sig.Recv() != nil || sig.Params().Len() != 1 || sig.Results().Len() != 2 {
			continue
		}
		if !types.Identical(sig.Params().At(0).Type().Underlying(), exprI) || !types.Identical(sig.Results().At(0).Type(), types.Typ[types.String]) || !types.Identical(sig.Results().At(1).Type(), types.Typ[types.Bool]) {
			continue
		}
		info := f.Pkg.TypesInfo
		// the cases of its type switch
		cases := map[*types.Named]*ast.CaseClause{}
		ast.Inspect(f.Body, func(nd ast.Node) bool {
			ts, ok := nd.(*ast.TypeSwitchStmt)
			if !ok {
				return true
			}
			for _, st := range ts.Body.List {
				cc := st.(*ast.CaseClause)
				for _, te := range cc.List {
					if tv, ok := info.Types[te]; ok {
						if nt, ok := tv.Type.(*types.Named); ok {
							cases[nt] = cc
						}
					}
				}
			}
			return true
		})
		isResolver := true
		for _, rt := range raws {
			if cases[rt] == nil {
				isResolver = false
			}
		}
		if !isResolver {
			continue
		}
		n++
		c.Touch(f)
		for _, w := range wrappers {
			cc := cases[w]
			recurses := false
			if cc != nil {
				for _, st := range cc.Body {
					ast.Inspect(st, func(x ast.Node) bool {
						if ce, ok := x.(*ast.CallExpr); ok {
							if fn, _ := typeutil.Callee(info, ce).(*types.Func); fn == f.Obj {
								recurses = true
							}
						}
						return true
					})
				}
			}
			r.Check(recurses, f.Name(), "looks through a singleton "+w.Obj().Name(), f.Body.Pos(), "case "+w.Obj().Name()+" with one member resolves to the member's text", "the raw text of a unit wrapped in a singleton "+w.Obj().Name()+" is not seen by the parenthesisation decisions: the soft-delete regroup And(Or(`a OR b`)) is rendered without parentheses and the filter applies to the last alternative only (`a OR b AND deleted_at IS NULL` shows soft-deleted rows)")
		}
	}
	if n == 0 {
		r.Bad("clause", "resolver", 0, "no raw-text resolver func(Expression) (string, bool) with cases for Expr and NamedExpr found; rule lost its anchor")
	}
}

// C08.clause-probe: the model's soft-delete behaviour is attached by probing each field's type for the
// clause interfaces (QueryClausesInterface, UpdateClausesInterface, DeleteClausesInterface, ...).  The probe
// value must be built from the field's *indirect* type: a field declared as a pointer (`*gorm.DeletedAt`)
// implements the interfaces only after one level of indirection.  Sibling rule over every place where a
// value made with reflect.New(<field type>) is type-asserted to an interface declared in the library.
func checkC08ClauseProbe(c *Ctx) {
	p := c.P
	r := c.Rule("C08.clause-probe", "SIBLINGS(capability probes of a field's type): reflect.New over Field.IndirectFieldType", 2)
	fieldT := p.Named(pkgSchema, "Field")
	indF := p.Field(fieldT, "IndirectFieldType")
	ftF := p.Field(fieldT, "FieldType")
	reflectNew := p.StdFunc("reflect", "New")
	isRepoIface := func(t types.Type) bool {
		nt, ok := t.(*types.Named)
		if !ok || nt.Obj().Pkg() == nil {
			return false
		}
		if _, isI := nt.Underlying().(*types.Interface); !isI {
			return false
		}
		pp := nt.Obj().Pkg().Path()
		return pp == pkgGorm || pp == pkgSchema || pp == pkgMigrator || pp == pkgClause || pp == pkgCallbacks
	}
	for _, f := range p.FuncsOf(pkgGorm, pkgSchema, pkgMigrator, pkgCallbacks) {
		info := f.Pkg.TypesInfo
		// resolve an expression to the reflect.New call it comes from (through .Interface() and single-def locals)
		var origin func(e ast.Expr, depth int) *ast.CallExpr
		origin = func(e ast.Expr, depth int) *ast.CallExpr {
			if depth > 4 {
				return nil
			}
			switch x := unparen(e).(type) {
			case *ast.CallExpr:
				if fn, _ := typeutil.Callee(info, x).(*types.Func); fn == reflectNew {
					return x
				}
				if sel, ok := x.Fun.(*ast.SelectorExpr); ok && sel.Sel.Name == "Interface" && len(x.Args) == 0 {
					return origin(sel.X, depth+1)
				}
			case *ast.Ident:
				if ds := localDefs(f, x.Name, x.Pos()); len(ds) == 1 && ds[0].rhs != nil {
					return origin(ds[0].rhs, depth+1)
				}
			}
			return nil
		}
		seen := map[*ast.CallExpr]bool{}
		ast.Inspect(f.Body, func(n ast.Node) bool {
			if _, ok := n.(*ast.FuncLit); ok {
				return false
			}
			ta, ok := n.(*ast.TypeAssertExpr)
			if !ok || ta.Type == nil {
				return true
			}
			tv, ok := info.Types[ta.Type]
			if !ok || !isRepoIface(tv.Type) {
				return true
			}
			nw := origin(ta.X, 0)
			if nw == nil || seen[nw] || len(nw.Args) != 1 {
				return true
			}
			// only probes of a schema.Field's type
			arg := unparen(nw.Args[0])
			isInd, isFT := fieldSel(info, arg, indF), fieldSel(info, arg, ftF)
			if !isInd && !isFT {
				return true
			}
			seen[nw] = true
			c.Touch(f)
			r.Check(isInd, rootFunc(f).Name(), "probe value for "+tv.Type.(*types.Named).Obj().Name(), nw.Pos(), "reflect.New(field.IndirectFieldType)", "a field's type is probed for a capability interface with a value of the declared type instead of the indirect type: a field declared as a pointer (e.g. `*gorm.DeletedAt`) is not recognised, the model silently loses its soft-delete (or data-type / serializer) behaviour")
			return true
		})
	}
}
