package main

func init() {
	addMutants(
		Mutant{Name: "c17-remove-does-not-compile", Property: "C17", Rule: "C17.register", Edits: []Edit{{"callbacks.go",
			"\tc.remove = true\n\tc.processor.callbacks = append(c.processor.callbacks, c)\n\treturn c.processor.compile()", "\tc.remove = true\n\tc.processor.callbacks = append(c.processor.callbacks, c)\n\tc.processor.compile()\n\treturn nil"}}},
		Mutant{Name: "c17-replace-forgets-flag", Property: "C17", Rule: "C17.register", Edits: []Edit{{"callbacks.go", "\tc.replace = true\n", ""}}},
		Mutant{Name: "c17-processor-after-stores-before", Property: "C17", Rule: "C17.sides", Edits: []Edit{{"callbacks.go",
			"func (p *processor) After(name string) *callback {\n\treturn &callback{after: name, processor: p}", "func (p *processor) After(name string) *callback {\n\treturn &callback{before: name, processor: p}"}}},
		Mutant{Name: "c17-callback-before-stores-after", Property: "C17", Rule: "C17.sides", Edits: []Edit{{"callbacks.go",
			"func (c *callback) Before(name string) *callback {\n\tc.before = name", "func (c *callback) Before(name string) *callback {\n\tc.after = name"}}},
		Mutant{Name: "c17-compile-swallows-sort-error", Property: "C17", Rule: "C17.compile", Edits: []Edit{{"callbacks.go",
			"\t\tp.db.Logger.Error(context.Background(), \"Got error when compile callbacks, got %v\", err)\n\t}\n\treturn\n}", "\t\tp.db.Logger.Error(context.Background(), \"Got error when compile callbacks, got %v\", err)\n\t}\n\treturn nil\n}"}}},
		Mutant{Name: "c17-compile-keeps-removed", Property: "C17", Rule: "C17.compile", Edits: []Edit{{"callbacks.go",
			"\tif len(removedMap) > 0 {\n\t\tcallbacks = removeCallbacks(callbacks, removedMap)\n\t}\n", ""}}},
		Mutant{Name: "c17-after-star-appends-unconditionally", Property: "C17", Rule: "C17.once", Edits: []Edit{{"callbacks.go",
			"\t\t\tif c.after == \"*\" && len(sorted) > 0 {\n\t\t\t\tif curIdx := getRIndex(sorted, c.name); curIdx == -1 {\n\t\t\t\t\tsorted = append(sorted, c.name)\n\t\t\t\t}", "\t\t\tif c.after == \"*\" && len(sorted) > 0 {\n\t\t\t\t{\n\t\t\t\t\tsorted = append(sorted, c.name)\n\t\t\t\t}"}}},
		Mutant{Name: "c17-before-conflict-test-flipped", Property: "C17", Rule: "C17.conflict", Edits: []Edit{{"callbacks.go",
			"\t\t\t\t} else if curIdx > sortedIdx {\n\t\t\t\t\treturn fmt.Errorf(\"conflicting callback %s with before %s\", c.name, c.before)", "\t\t\t\t} else if curIdx < sortedIdx {\n\t\t\t\t\treturn fmt.Errorf(\"conflicting callback %s with before %s\", c.name, c.before)"}}},
		Mutant{Name: "c17-before-inserted-behind-named", Property: "C17", Rule: "C17.conflict", Edits: []Edit{{"callbacks.go",
			"sorted = append(sorted[:sortedIdx], append([]string{c.name}, sorted[sortedIdx:]...)...)", "sorted = append(sorted[:sortedIdx+1], append([]string{c.name}, sorted[sortedIdx+1:]...)...)"}}},
		Mutant{Name: "c17-removed-handlers-still-run", Property: "C17", Rule: "C17.handlers", Edits: []Edit{{"callbacks.go",
			"\t\tif idx := getRIndex(names, name); !cs[idx].remove {\n\t\t\tfns = append(fns, cs[idx].handler)\n\t\t}", "\t\tif idx := getRIndex(names, name); idx >= 0 {\n\t\t\tfns = append(fns, cs[idx].handler)\n\t\t}"}}},
		Mutant{Name: "n55-callback-register-with-local-processor", Property: "*", Rule: "NEUTRAL", Edits: []Edit{{"callbacks.go",
			"\tc.name = name\n\tc.handler = fn\n\tc.processor.callbacks = append(c.processor.callbacks, c)\n\treturn c.processor.compile()\n}\n\nfunc (c *callback) Remove", "\tc.handler = fn\n\tc.name = name\n\tc.processor.callbacks = append(c.processor.callbacks, c)\n\treturn c.processor.compile()\n}\n\nfunc (c *callback) Remove"}}},
		Mutant{Name: "n56-sorter-after-conflict-operands-swapped", Property: "*", Rule: "NEUTRAL", Edits: []Edit{{"callbacks.go",
			"\t\t\t\t} else if curIdx < sortedIdx {\n\t\t\t\t\treturn fmt.Errorf(\"conflicting callback %s with before %s\", c.name, c.after)", "\t\t\t\t} else if sortedIdx > curIdx {\n\t\t\t\t\treturn fmt.Errorf(\"conflicting callback %s with before %s\", c.name, c.after)"}}},
	)
}

func init() {
	addMutants(
		Mutant{Name: "c17-sorter-without-recursion-bound", Property: "C17", Rule: "C17.recursion-bounded", Edits: []Edit{{"callbacks.go",
			"\t\tif depth++; depth > 2*len(cs)+2 {\n\t\t\treturn fmt.Errorf(\"conflicting callback %s with circular before/after\", c.name)\n\t\t}\n", "\t\tdepth++\n"}}, Note: "reverts fix 64c738b"},
		Mutant{Name: "c17-after-arm-overwrites-before", Property: "C17", Rule: "C17.keep-constraints", Edits: []Edit{{"callbacks.go",
			"\t\t\t\tif after.before == \"\" {\n\t\t\t\t\tafter.before = c.name\n\t\t\t\t}", "\t\t\t\tafter.before = c.name"}}},
		Mutant{Name: "n66-recursion-bound-as-visited-counter", Property: "*", Rule: "NEUTRAL", Edits: []Edit{{"callbacks.go",
			"\t\tif depth++; depth > 2*len(cs)+2 {", "\t\tdepth += 1\n\t\tif limit := 2*len(cs) + 2; depth > limit {"}}},
	)
}
