package main

// Loading of the program under analysis and the lookup helpers every rule
// uses.  Everything is resolved through go/types; nothing is matched by
// text or line number.

import (
	"fmt"
	"go/ast"
	"go/token"
	"go/types"
	"os"
	"path/filepath"
	"sort"
	"strings"

	"golang.org/x/tools/go/callgraph"
	"golang.org/x/tools/go/callgraph/cha"
	"golang.org/x/tools/go/callgraph/vta"
	"golang.org/x/tools/go/cfg"
	"golang.org/x/tools/go/packages"
	"golang.org/x/tools/go/ssa"
	"golang.org/x/tools/go/ssa/ssautil"
)

const (
	pkgGorm      = "gorm.io/gorm"
	pkgCallbacks = "gorm.io/gorm/callbacks"
	pkgClause    = "gorm.io/gorm/clause"
	pkgSchema    = "gorm.io/gorm/schema"
	pkgMigrator  = "gorm.io/gorm/migrator"
	pkgLogger    = "gorm.io/gorm/logger"
	pkgUtils     = "gorm.io/gorm/utils"
	pkgUtilTests = "gorm.io/gorm/utils/tests"
)

var repoPkgs = []string{pkgGorm, pkgCallbacks, pkgClause, pkgSchema, pkgMigrator, pkgLogger, pkgUtils, pkgUtilTests}

// FuncSrc is one source-level function: a declaration or a function literal.
type FuncSrc struct {
	Pkg    *packages.Package
	Decl   *ast.FuncDecl // nil for literals
	Lit    *ast.FuncLit  // nil for declarations
	Obj    *types.Func   // nil for literals
	Parent *FuncSrc      // enclosing function for literals
	Body   *ast.BlockStmt
	Type   *ast.FuncType
	name   string

	cfg     *cfg.CFG
	parents map[ast.Node]ast.Node
	guards  *guardState
}

func (f *FuncSrc) Name() string { return f.name }

// Program is the loaded, type-checked repository.
type Program struct {
	RepoDir string
	Fset    *token.FileSet
	Pkgs    map[string]*packages.Package
	All     []*packages.Package // every package incl. dependencies (for SSA)

	Funcs    []*FuncSrc // all functions and literals of the 8 packages, source order
	byObj    map[*types.Func]*FuncSrc
	byLit    map[*ast.FuncLit]*FuncSrc
	ssaProg  *ssa.Program
	ssaPkgs  map[string]*ssa.Package
	cg       *callgraph.Graph
	ssaFuncs []*ssa.Function // functions of the 8 packages incl. anonymous ones
}

type fatalError struct{ msg string }

func fatalf(format string, args ...interface{}) {
	panic(fatalError{fmt.Sprintf(format, args...)})
}

func loadProgram(repo string) *Program {
	abs, err := filepath.Abs(repo)
	if err != nil {
		fatalf("repo path: %v", err)
	}
	env := []string{}
	for _, e := range os.Environ() {
		if strings.HasPrefix(e, "GOFLAGS=") || strings.HasPrefix(e, "GOWORK=") || strings.HasPrefix(e, "GOPROXY=") || strings.HasPrefix(e, "GOSUMDB=") {
			continue
		}
		env = append(env, e)
	}
	env = append(env, "GOFLAGS=-mod=mod", "GOPROXY=off", "GOSUMDB=off", "GOWORK=off")
	conf := &packages.Config{
		Mode:  packages.LoadAllSyntax,
		Dir:   abs,
		Tests: false,
		Env:   env,
	}
	pkgs, err := packages.Load(conf, "./...")
	if err != nil {
		fatalf("packages.Load: %v", err)
	}
	p := &Program{RepoDir: abs, Pkgs: map[string]*packages.Package{}, byObj: map[*types.Func]*FuncSrc{}, byLit: map[*ast.FuncLit]*FuncSrc{}}
	nerr := 0
	packages.Visit(pkgs, nil, func(pk *packages.Package) {
		for _, e := range pk.Errors {
			fmt.Fprintf(os.Stderr, "load error: %s: %v\n", pk.PkgPath, e)
			nerr++
		}
		p.All = append(p.All, pk)
	})
	if nerr > 0 {
		fatalf("%d package load/type errors; no verdict", nerr)
	}
	for _, pk := range pkgs {
		p.Pkgs[pk.PkgPath] = pk
		p.Fset = pk.Fset
	}
	for _, want := range repoPkgs {
		if p.Pkgs[want] == nil {
			fatalf("anchor package %s not loaded (got %d packages)", want, len(pkgs))
		}
	}
	if len(pkgs) < 8 {
		fatalf("only %d packages loaded, expected >= 8", len(pkgs))
	}
	p.indexFuncs()
	return p
}

func (p *Program) indexFuncs() {
	paths := make([]string, 0, len(p.Pkgs))
	for k := range p.Pkgs {
		paths = append(paths, k)
	}
	sort.Strings(paths)
	for _, path := range paths {
		pk := p.Pkgs[path]
		for _, file := range pk.Syntax {
			for _, d := range file.Decls {
				switch d := d.(type) {
				case *ast.FuncDecl:
					if d.Body == nil {
						continue
					}
					obj, _ := pk.TypesInfo.Defs[d.Name].(*types.Func)
					fs := &FuncSrc{Pkg: pk, Decl: d, Obj: obj, Body: d.Body, Type: d.Type, name: funcDisplayName(obj)}
					p.Funcs = append(p.Funcs, fs)
					if obj != nil {
						p.byObj[obj] = fs
					}
					p.indexLits(fs, d.Body)
				case *ast.GenDecl:
					// function literals in package-level var initialisers
					holder := &FuncSrc{Pkg: pk, name: pk.Types.Name() + ".init"}
					ast.Inspect(d, func(n ast.Node) bool {
						if lit, ok := n.(*ast.FuncLit); ok {
							p.addLit(holder, lit)
							return false
						}
						return true
					})
				}
			}
		}
	}
}

func (p *Program) indexLits(parent *FuncSrc, body ast.Node) {
	ast.Inspect(body, func(n ast.Node) bool {
		if lit, ok := n.(*ast.FuncLit); ok {
			p.addLit(parent, lit)
			return false
		}
		return true
	})
}

func (p *Program) addLit(parent *FuncSrc, lit *ast.FuncLit) {
	n := 1
	for _, f := range p.Funcs {
		if f.Parent == parent {
			n++
		}
	}
	fs := &FuncSrc{Pkg: parent.Pkg, Lit: lit, Parent: parent, Body: lit.Body, Type: lit.Type, name: fmt.Sprintf("%s$%d", parent.name, n)}
	p.Funcs = append(p.Funcs, fs)
	p.byLit[lit] = fs
	p.indexLits(fs, lit.Body)
}

func funcDisplayName(obj *types.Func) string {
	if obj == nil {
		return "?"
	}
	sig := obj.Type().(*types.Signature)
	pkg := ""
	if obj.Pkg() != nil {
		pkg = obj.Pkg().Name() + "."
	}
	if r := sig.Recv(); r != nil {
		t := r.Type()
		ptr := ""
		if pt, ok := t.(*types.Pointer); ok {
			t = pt.Elem()
			ptr = "*"
		}
		tn := "?"
		if nt, ok := t.(*types.Named); ok {
			tn = nt.Obj().Name()
		}
		return fmt.Sprintf("%s(%s%s).%s", pkg, ptr, tn, obj.Name())
	}
	return pkg + obj.Name()
}

// ---- lookups (anchors) ----

func (p *Program) Pkg(path string) *packages.Package {
	pk := p.Pkgs[path]
	if pk == nil {
		fatalf("anchor: package %s not found", path)
	}
	return pk
}

func (p *Program) Lookup(path, name string) types.Object {
	obj := p.Pkg(path).Types.Scope().Lookup(name)
	if obj == nil {
		fatalf("anchor: %s.%s not found", path, name)
	}
	return obj
}

func (p *Program) Named(path, name string) *types.Named {
	tn, ok := p.Lookup(path, name).(*types.TypeName)
	if !ok {
		fatalf("anchor: %s.%s is not a type", path, name)
	}
	n, ok := tn.Type().(*types.Named)
	if !ok {
		fatalf("anchor: %s.%s is not a named type", path, name)
	}
	return n
}

func (p *Program) Iface(path, name string) *types.Interface {
	n := p.Named(path, name)
	it, ok := n.Underlying().(*types.Interface)
	if !ok {
		fatalf("anchor: %s.%s is not an interface", path, name)
	}
	return it
}

// StdNamed resolves a named type from a dependency package (e.g. database/sql.DB).
func (p *Program) StdNamed(path, name string) *types.Named {
	for _, pk := range p.All {
		if pk.PkgPath == path {
			if o := pk.Types.Scope().Lookup(name); o != nil {
				if n, ok := o.Type().(*types.Named); ok {
					return n
				}
			}
		}
	}
	fatalf("anchor: %s.%s not found among dependencies", path, name)
	return nil
}

func (p *Program) StdFunc(path, name string) *types.Func {
	for _, pk := range p.All {
		if pk.PkgPath == path {
			if o, ok := pk.Types.Scope().Lookup(name).(*types.Func); ok {
				return o
			}
		}
	}
	fatalf("anchor: func %s.%s not found among dependencies", path, name)
	return nil
}

// Field returns the field object of a named struct type.
func (p *Program) Field(n *types.Named, name string) *types.Var {
	st, ok := n.Underlying().(*types.Struct)
	if !ok {
		fatalf("anchor: %s is not a struct", n)
	}
	for i := 0; i < st.NumFields(); i++ {
		if st.Field(i).Name() == name {
			return st.Field(i)
		}
	}
	fatalf("anchor: field %s.%s not found", n, name)
	return nil
}

func (p *Program) FieldOpt(n *types.Named, name string) *types.Var {
	st, ok := n.Underlying().(*types.Struct)
	if !ok {
		return nil
	}
	for i := 0; i < st.NumFields(); i++ {
		if st.Field(i).Name() == name {
			return st.Field(i)
		}
	}
	return nil
}

// Method returns the declared method (value or pointer receiver) of a named type.
func (p *Program) Method(n *types.Named, name string) *types.Func {
	for i := 0; i < n.NumMethods(); i++ {
		if n.Method(i).Name() == name {
			return n.Method(i)
		}
	}
	if it, ok := n.Underlying().(*types.Interface); ok {
		for i := 0; i < it.NumMethods(); i++ {
			if it.Method(i).Name() == name {
				return it.Method(i)
			}
		}
	}
	fatalf("anchor: method %s.%s not found", n, name)
	return nil
}

func (p *Program) MethodOpt(n *types.Named, name string) *types.Func {
	for i := 0; i < n.NumMethods(); i++ {
		if n.Method(i).Name() == name {
			return n.Method(i)
		}
	}
	return nil
}

// FuncDecl returns the source of a package-level function.
func (p *Program) FuncDecl(path, name string) *FuncSrc {
	fn, ok := p.Lookup(path, name).(*types.Func)
	if !ok {
		fatalf("anchor: %s.%s is not a function", path, name)
	}
	return p.Src(fn)
}

// MethodDecl returns the source of a method of a named type in the repo.
func (p *Program) MethodDecl(path, typ, method string) *FuncSrc {
	return p.Src(p.Method(p.Named(path, typ), method))
}

func (p *Program) Src(fn *types.Func) *FuncSrc {
	fs := p.byObj[fn]
	if fs == nil {
		fatalf("anchor: no source for %s", fn.FullName())
	}
	return fs
}

func (p *Program) SrcOpt(fn *types.Func) *FuncSrc { return p.byObj[fn] }

func (p *Program) LitSrc(l *ast.FuncLit) *FuncSrc { return p.byLit[l] }

// Lits returns the function literals directly nested in f (not transitively).
func (p *Program) Lits(f *FuncSrc) []*FuncSrc {
	var out []*FuncSrc
	for _, g := range p.Funcs {
		if g.Parent == f {
			out = append(out, g)
		}
	}
	return out
}

// AllLits returns literals nested at any depth.
func (p *Program) AllLits(f *FuncSrc) []*FuncSrc {
	var out []*FuncSrc
	for _, g := range p.Lits(f) {
		out = append(out, g)
		out = append(out, p.AllLits(g)...)
	}
	return out
}

func (p *Program) FuncsOf(paths ...string) []*FuncSrc {
	var out []*FuncSrc
	for _, f := range p.Funcs {
		for _, path := range paths {
			if f.Pkg.PkgPath == path {
				out = append(out, f)
			}
		}
	}
	return out
}

// Pos renders a position relative to the repository root.
func (p *Program) Pos(pos token.Pos) string {
	if !pos.IsValid() {
		return "-"
	}
	ps := p.Fset.Position(pos)
	rel, err := filepath.Rel(p.RepoDir, ps.Filename)
	if err != nil || strings.HasPrefix(rel, "..") {
		rel = ps.Filename
	}
	return fmt.Sprintf("%s:%d:%d", rel, ps.Line, ps.Column)
}

func (p *Program) Line(pos token.Pos) int { return p.Fset.Position(pos).Line }

// ---- SSA / call graph (built lazily; only rules that must identify a value use them) ----

func (p *Program) SSA() *ssa.Program {
	if p.ssaProg != nil {
		return p.ssaProg
	}
	roots := make([]*packages.Package, 0, len(p.Pkgs))
	for _, path := range repoPkgs {
		roots = append(roots, p.Pkgs[path])
	}
	prog, pkgs := ssautil.AllPackages(roots, ssa.InstantiateGenerics)
	prog.Build()
	p.ssaProg = prog
	p.ssaPkgs = map[string]*ssa.Package{}
	for i, sp := range pkgs {
		if sp == nil {
			fatalf("ssa: package %s not built", roots[i].PkgPath)
		}
		p.ssaPkgs[roots[i].PkgPath] = sp
	}
	// collect functions of the repo packages including anonymous ones
	seen := map[*ssa.Function]bool{}
	var add func(fn *ssa.Function)
	add = func(fn *ssa.Function) {
		if fn == nil || seen[fn] || fn.Blocks == nil {
			return
		}
		seen[fn] = true
		p.ssaFuncs = append(p.ssaFuncs, fn)
		for _, a := range fn.AnonFuncs {
			add(a)
		}
	}
	for _, path := range repoPkgs {
		sp := p.ssaPkgs[path]
		names := make([]string, 0, len(sp.Members))
		for n := range sp.Members {
			names = append(names, n)
		}
		sort.Strings(names)
		for _, n := range names {
			switch m := sp.Members[n].(type) {
			case *ssa.Function:
				add(m)
			case *ssa.Type:
				for _, t := range []types.Type{m.Type(), types.NewPointer(m.Type())} {
					ms := prog.MethodSets.MethodSet(t)
					for i := 0; i < ms.Len(); i++ {
						fn := prog.MethodValue(ms.At(i))
						if fn != nil && fn.Synthetic == "" && fn.Pkg == sp {
							add(fn)
						}
					}
				}
			}
		}
	}
	sort.SliceStable(p.ssaFuncs, func(i, j int) bool { return p.ssaFuncs[i].Pos() < p.ssaFuncs[j].Pos() })
	return prog
}

// srcOfSSA maps an SSA function of the repository back to its source-level function (nil if synthetic).
func (p *Program) srcOfSSA(fn *ssa.Function) *FuncSrc {
	switch n := fn.Syntax().(type) {
	case *ast.FuncLit:
		return p.byLit[n]
	case *ast.FuncDecl:
		if o, ok := fn.Object().(*types.Func); ok {
			return p.byObj[o]
		}
	}
	return nil
}

func (p *Program) SSAFuncs() []*ssa.Function { p.SSA(); return p.ssaFuncs }

func (p *Program) SSAFunc(fn *types.Func) *ssa.Function {
	f := p.SSA().FuncValue(fn)
	if f == nil {
		fatalf("ssa: no function for %s", fn.FullName())
	}
	return f
}

// SSAOf maps a source function (declaration or literal) to its SSA function.
func (p *Program) SSAOf(f *FuncSrc) *ssa.Function {
	if f.Obj != nil {
		return p.SSAFunc(f.Obj)
	}
	for _, sf := range p.SSAFuncs() {
		if sf.Syntax() == f.Lit {
			return sf
		}
	}
	fatalf("ssa: no function for literal %s", f.name)
	return nil
}

func (p *Program) CallGraph() *callgraph.Graph {
	if p.cg == nil {
		prog := p.SSA()
		p.cg = vta.CallGraph(ssautil.AllFunctions(prog), cha.CallGraph(prog))
	}
	return p.cg
}

// InRepo reports whether an SSA function belongs to one of the 8 packages.
func (p *Program) InRepo(fn *ssa.Function) bool {
	if fn == nil {
		return false
	}
	pk := fn.Pkg
	if pk == nil && fn.Parent() != nil {
		return p.InRepo(fn.Parent())
	}
	if pk == nil {
		if o := fn.Object(); o != nil && o.Pkg() != nil {
			return strings.HasPrefix(o.Pkg().Path(), pkgGorm)
		}
		return false
	}
	return strings.HasPrefix(pk.Pkg.Path(), pkgGorm)
}

func ssaFuncName(fn *ssa.Function) string {
	if fn == nil {
		return "?"
	}
	s := fn.String()
	s = strings.ReplaceAll(s, "gorm.io/gorm/", "")
	s = strings.ReplaceAll(s, "gorm.io/gorm", "gorm")
	return s
}
