package main

func init() {
	addMutants(
		// C01/C02.merge-unconditional
		Mutant{Name: "c01-orderby-merge-only-when-new-columns", Property: "C01", Rule: "C01.merge-unconditional", Edits: []Edit{{"clause/order_by.go",
			"\t\tcopiedColumns := make([]OrderByColumn, len(v.Columns))\n\t\tcopy(copiedColumns, v.Columns)\n\t\torderBy.Columns = append(copiedColumns, orderBy.Columns...)", "\t\tif len(orderBy.Columns) > 0 {\n\t\t\tcopiedColumns := make([]OrderByColumn, len(v.Columns))\n\t\t\tcopy(copiedColumns, v.Columns)\n\t\t\torderBy.Columns = append(copiedColumns, orderBy.Columns...)\n\t\t}"}}},
		Mutant{Name: "c02-where-merge-skipped-for-single-new-unit", Property: "C02", Rule: "C02.merge-unconditional", Edits: []Edit{{"clause/group_by.go",
			"\t\tcopiedHaving := make([]Expression, len(v.Having))\n\t\tcopy(copiedHaving, v.Having)\n\t\tgroupBy.Having = append(copiedHaving, groupBy.Having...)", "\t\tif len(groupBy.Columns) == 0 {\n\t\t\tcopiedHaving := make([]Expression, len(v.Having))\n\t\t\tcopy(copiedHaving, v.Having)\n\t\t\tgroupBy.Having = append(copiedHaving, groupBy.Having...)\n\t\t}"}}},
		Mutant{Name: "n128-having-merge-skipped-when-nothing-earlier", Property: "*", Rule: "NEUTRAL", Edits: []Edit{{"clause/group_by.go",
			"\t\tcopiedHaving := make([]Expression, len(v.Having))\n\t\tcopy(copiedHaving, v.Having)\n\t\tgroupBy.Having = append(copiedHaving, groupBy.Having...)", "\t\tif len(v.Having) > 0 {\n\t\t\tcopiedHaving := make([]Expression, len(v.Having))\n\t\t\tcopy(copiedHaving, v.Having)\n\t\t\tgroupBy.Having = append(copiedHaving, groupBy.Having...)\n\t\t}"}}},
		// C02.inline-and
		Mutant{Name: "c02-first-inline-condition-only-if-absent", Property: "C02", Rule: "C02.inline-and", Edits: []Edit{{"finisher_api.go",
			"func (db *DB) Take(dest interface{}, conds ...interface{}) (tx *DB) {\n\ttx = db.Limit(1)\n\tif len(conds) > 0 {\n\t\tif exprs := tx.Statement.BuildCondition(conds[0], conds[1:]...); len(exprs) > 0 {\n\t\t\ttx.Statement.AddClause(clause.Where{Exprs: exprs})", "func (db *DB) Take(dest interface{}, conds ...interface{}) (tx *DB) {\n\ttx = db.Limit(1)\n\tif len(conds) > 0 {\n\t\tif exprs := tx.Statement.BuildCondition(conds[0], conds[1:]...); len(exprs) > 0 {\n\t\t\ttx.Statement.AddClauseIfNotExists(clause.Where{Exprs: exprs})"}}},
		// C03.value-owned
		Mutant{Name: "c03-json-value-from-a-pooled-buffer", Property: "C03", Rule: "C03.value-owned", Edits: []Edit{
			{"schema/serializer.go", "// Value implements serializer interface\nfunc (GobSerializer) Value(ctx context.Context, field *Field, dst reflect.Value, fieldValue interface{}) (interface{}, error) {\n\tbuf := new(bytes.Buffer)\n", "var gobBuffers = sync.Pool{New: func() interface{} { return new(bytes.Buffer) }}\n\n// Value implements serializer interface\nfunc (GobSerializer) Value(ctx context.Context, field *Field, dst reflect.Value, fieldValue interface{}) (interface{}, error) {\n\tbuf := gobBuffers.Get().(*bytes.Buffer)\n\tbuf.Reset()\n\tdefer gobBuffers.Put(buf)\n"}}},
		// C04.err-unchanged
		Mutant{Name: "c04-nested-rollback-error-replaces-result", Property: "C04", Rule: "C04.err-unchanged", Edits: []Edit{{"finisher_api.go",
			"\t\t\t\t\tdb.RollbackTo(fmt.Sprintf(\"sp%d\", spID))\n", "\t\t\t\t\tif rb := db.RollbackTo(fmt.Sprintf(\"sp%d\", spID)); rb.Error != nil {\n\t\t\t\t\t\terr = rb.Error\n\t\t\t\t\t}\n"}}},
		// C05.nested-unconditional
		Mutant{Name: "c05-nested-create-error-compared-with-parent", Property: "C05", Rule: "C05.nested-unconditional", Edits: []Edit{{"callbacks/associations.go",
			"\treturn db.AddError(tx.Create(values).Error)", "\tif err := tx.Create(values).Error; err != db.Error {\n\t\treturn db.AddError(err)\n\t}\n\treturn db.Error"}}},
		Mutant{Name: "n129-nested-create-error-checked-against-nil", Property: "*", Rule: "NEUTRAL", Edits: []Edit{{"callbacks/associations.go",
			"\treturn db.AddError(tx.Create(values).Error)", "\tif err := tx.Create(values).Error; err != nil {\n\t\treturn db.AddError(err)\n\t}\n\treturn nil"}}},
		// C07.cache-append
		Mutant{Name: "c07-cached-embedded-schema-fields-extended", Property: "C07", Rule: "C07.cache-append", Edits: []Edit{
			{"schema/serializer.go", "func GetSerializer(name string) (serializer SerializerInterface, ok bool) {\n", "var serializerNames sync.Map\n\nfunc knownSerializerNames() []string {\n\tv, _ := serializerNames.LoadOrStore(\"names\", make([]string, 0, 8))\n\treturn append(v.([]string), \"json\")\n}\n\nfunc GetSerializer(name string) (serializer SerializerInterface, ok bool) {\n\t_ = knownSerializerNames\n"}}},
		// C09.scopes-drained
		Mutant{Name: "c09-scopes-run-once", Property: "C09", Rule: "C09.scopes-drained", Edits: []Edit{{"callbacks.go",
			"\tfor len(db.Statement.scopes) > 0 {\n\t\tdb = db.executeScopes()\n\t}", "\tif len(db.Statement.scopes) > 0 {\n\t\tdb = db.executeScopes()\n\t}"}}},
		Mutant{Name: "n130-scopes-loop-with-explicit-break", Property: "*", Rule: "NEUTRAL", Edits: []Edit{{"callbacks.go",
			"\tfor len(db.Statement.scopes) > 0 {\n\t\tdb = db.executeScopes()\n\t}", "\tfor {\n\t\tif len(db.Statement.scopes) == 0 {\n\t\t\tbreak\n\t\t}\n\t\tdb = db.executeScopes()\n\t}"}}},
		// C10.set-removed
		Mutant{Name: "c10-set-clause-kept-after-returning-update", Property: "C10", Rule: "C10.set-removed", Edits: []Edit{{"callbacks/update.go",
			"\t\t\t\t\tdefer delete(db.Statement.Clauses, \"SET\")\n", "\t\t\t\t\tif !supportReturning {\n\t\t\t\t\t\tdefer delete(db.Statement.Clauses, \"SET\")\n\t\t\t\t\t}\n"}}},
		// ---- batch B
		// C11.unscoped-nested
		Mutant{Name: "c11-preload-session-unscoped-only-without-joins", Property: "C11", Rule: "C11.unscoped-nested", Edits: []Edit{{"callbacks/preload.go",
			"\ttx.Statement.Unscoped = db.Statement.Unscoped\n\treturn tx\n", "\ttx.Statement.Unscoped = db.Statement.Unscoped && len(db.Statement.Joins) == 0\n\treturn tx\n"}}},
		Mutant{Name: "n131-preload-session-unscoped-set-by-if", Property: "*", Rule: "NEUTRAL", Edits: []Edit{{"callbacks/preload.go",
			"\ttx.Statement.Unscoped = db.Statement.Unscoped\n\treturn tx\n", "\tif db.Statement.Unscoped {\n\t\ttx.Statement.Unscoped = true\n\t}\n\treturn tx\n"}}},
		// C13.rollback-on-error
		Mutant{Name: "c13-empty-slice-error-commits", Property: "C13", Rule: "C13.rollback-on-error", Edits: []Edit{{"callbacks/transaction.go",
			"\t\t\tif db.Error != nil {\n\t\t\t\tdb.Rollback()", "\t\t\tif db.Error != nil && db.Error != gorm.ErrEmptySlice {\n\t\t\t\tdb.Rollback()"}}},
		Mutant{Name: "n132-commit-arm-first", Property: "*", Rule: "NEUTRAL", Edits: []Edit{{"callbacks/transaction.go",
			"\t\t\tif db.Error != nil {\n\t\t\t\tdb.Rollback()\n\t\t\t} else {\n\t\t\t\tdb.Commit()\n\t\t\t}", "\t\t\tif db.Error == nil {\n\t\t\t\tdb.Commit()\n\t\t\t} else {\n\t\t\t\tdb.Rollback()\n\t\t\t}"}}},
		// C12.target-keys-kept
		Mutant{Name: "c12-explicit-default-values-allocated-unless-restricted", Property: "C12", Rule: "C12.target-keys-kept", Edits: []Edit{{"callbacks/create.go",
			"\t\t\t\t\t\t\tif len(defaultValueFieldsHavingValue[field]) == 0 {\n", "\t\t\t\t\t\t\tif len(defaultValueFieldsHavingValue[field]) == 0 && (i == 0 || restricted) {\n"}}},
		Mutant{Name: "n133-explicit-default-values-allocated-when-nil-or-first-row", Property: "*", Rule: "NEUTRAL", Edits: []Edit{{"callbacks/create.go",
			"\t\t\t\t\t\t\tif len(defaultValueFieldsHavingValue[field]) == 0 {\n", "\t\t\t\t\t\t\tif i == 0 || defaultValueFieldsHavingValue[field] == nil {\n"}}},
		// C14.begin-no-leak
		Mutant{Name: "c14-begun-pool-dropped-when-context-done", Property: "C14", Rule: "C14.begin-no-leak", Edits: []Edit{{"prepare_stmt.go",
			"\tif tx, ok := connPool.(Tx); ok {\n\t\treturn &PreparedStmtTX{PreparedStmtDB: db, Tx: tx}, nil\n\t}", "\tif tx, ok := connPool.(Tx); ok {\n\t\tif ctx.Err() != nil {\n\t\t\treturn nil, ctx.Err()\n\t\t}\n\t\treturn &PreparedStmtTX{PreparedStmtDB: db, Tx: tx}, nil\n\t}"}}},
		Mutant{Name: "n134-begun-pool-rolled-back-when-context-done", Property: "*", Rule: "NEUTRAL", Edits: []Edit{{"prepare_stmt.go",
			"\tif tx, ok := connPool.(Tx); ok {\n\t\treturn &PreparedStmtTX{PreparedStmtDB: db, Tx: tx}, nil\n\t}", "\tif tx, ok := connPool.(Tx); ok {\n\t\tif ctx.Err() != nil {\n\t\t\tif rerr := tx.Rollback(); rerr != nil {\n\t\t\t\treturn nil, rerr\n\t\t\t}\n\t\t\treturn nil, ctx.Err()\n\t\t}\n\t\treturn &PreparedStmtTX{PreparedStmtDB: db, Tx: tx}, nil\n\t}"}}},
		// C15.pluck-select
		Mutant{Name: "c15-pluck-select-replaces-when-distinct", Property: "C15", Rule: "C15.pluck-select", Edits: []Edit{{"finisher_api.go",
			"\t\ttx.Statement.AddClauseIfNotExists(clause.Select{\n\t\t\tDistinct: tx.Statement.Distinct,\n\t\t\tColumns:  []clause.Column{{Name: column, Raw: len(fields) != 1}},\n\t\t})", "\t\tsel := clause.Select{\n\t\t\tDistinct: tx.Statement.Distinct,\n\t\t\tColumns:  []clause.Column{{Name: column, Raw: len(fields) != 1}},\n\t\t}\n\t\tif sel.Distinct {\n\t\t\ttx.Statement.AddClause(sel)\n\t\t} else {\n\t\t\ttx.Statement.AddClauseIfNotExists(sel)\n\t\t}"}}},
		Mutant{Name: "n135-pluck-select-literal-in-a-local", Property: "*", Rule: "NEUTRAL", Edits: []Edit{{"finisher_api.go",
			"\t\ttx.Statement.AddClauseIfNotExists(clause.Select{\n\t\t\tDistinct: tx.Statement.Distinct,\n\t\t\tColumns:  []clause.Column{{Name: column, Raw: len(fields) != 1}},\n\t\t})", "\t\tsel := clause.Select{\n\t\t\tDistinct: tx.Statement.Distinct,\n\t\t\tColumns:  []clause.Column{{Name: column, Raw: len(fields) != 1}},\n\t\t}\n\t\ttx.Statement.AddClauseIfNotExists(sel)"}}},
		// C19.foc-handle
		Mutant{Name: "c19-first-or-create-inserts-on-the-query-session", Property: "C19", Rule: "C19.foc-handle", Edits: []Edit{{"finisher_api.go",
			"\t\treturn tx.Create(dest)\n\t} else if len(db.Statement.assigns) > 0 {", "\t\treturn result.Session(&Session{}).Create(dest)\n\t} else if len(db.Statement.assigns) > 0 {"}}},
		Mutant{Name: "n136-first-or-create-insert-result-in-a-local", Property: "*", Rule: "NEUTRAL", Edits: []Edit{{"finisher_api.go",
			"\t\treturn tx.Create(dest)\n\t} else if len(db.Statement.assigns) > 0 {", "\t\tcreated := tx.Create(dest)\n\t\treturn created\n\t} else if len(db.Statement.assigns) > 0 {"}}},
		// C20.check-expr
		Mutant{Name: "c20-named-check-takes-the-last-element", Property: "C20", Rule: "C20.check-expr", Edits: []Edit{{"schema/constraint.go",
			"Constraint: strings.Join(names[1:], \",\"), Field: field}", "Constraint: names[len(names)-1], Field: field}"}}},
		Mutant{Name: "n137-named-check-expression-by-trimming-the-name", Property: "*", Rule: "NEUTRAL", Edits: []Edit{{"schema/constraint.go",
			"Constraint: strings.Join(names[1:], \",\"), Field: field}", "Constraint: strings.TrimPrefix(chk, names[0]+\",\"), Field: field}"}}},
	)
}
