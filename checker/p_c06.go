package main

// C06 — reusable handles are never changed by the chains and queries derived from them.
// (C16.carry and C07.immutability reuse these rules.)

import (
	"go/ast"
	"go/token"
	"go/types"
	"sort"
	"strings"

	"golang.org/x/tools/go/ssa"
	"golang.org/x/tools/go/types/typeutil"
)

func init() {
	register("C06", checkC06,
		"Structural clauses of C06 (copy-on-derive discipline) decided for every method/site of the current source: (recv) no exported *DB method (nor the joins helper) stores, map-updates or element-stores through memory rooted at its receiver, directly or through a callee that writes through the corresponding parameter (SSA stores + inter-procedural write summaries), except the transaction-control/AddError/Association/Use methods listed as exemptions; (clone) Statement.clone copies every per-chain field of Statement, maps by fresh make + range copy, in-place-extended slices by exact-length copy; (instance) getInstance's fresh statement keeps ConnPool/Context/SkipHooks (Unscoped under PropagateUnscoped) and a fresh Clauses map, and Session writes Context/SkipHooks/ConnPool only after replacing the statement by a clone; (merge-alias) no MergeClause appends onto or stores into a slice it did not create in that call; (build-pure) no Build/NegationBuild/buildExprs stores into a slice reachable from its receiver or parameters; (execute-reset) Execute resets SQL/Vars/BuildClauses, Update/Count pair temporary clause writes with deferred restores. NOT decided: equality of SQL/Vars with an isolated replay; aliasing through caller-supplied slices with spare capacity; handles passed as arguments.")
}

// statementFieldPolicy: per-execution fields exempt from copy obligations.
var stmtPerExecution = map[string]string{
	"DB":           "rebound to the deriving handle by the caller of clone",
	"BuildClauses": "set and reset inside one Execute",
	"CurDestIndex": "set and reset inside one hook dispatch",
	"SQL":          "copied only when non-empty (raw SQL), checked by checkCloneSQL",
	"Vars":         "copied together with SQL when raw SQL is present, checked by checkCloneSQL",
	"Settings":     "sync.Map copied entry by entry with Range/Store",
}

func exportedDBMethods(p *Program) []*types.Func {
	dbT := p.Named(pkgGorm, "DB")
	var out []*types.Func
	for i := 0; i < dbT.NumMethods(); i++ {
		m := dbT.Method(i)
		if !m.Exported() {
			continue
		}
		sig := m.Type().(*types.Signature)
		if _, ok := sig.Recv().Type().(*types.Pointer); !ok {
			continue
		}
		out = append(out, m)
	}
	sort.Slice(out, func(i, j int) bool { return out[i].Name() < out[j].Name() })
	return out
}

func checkC06(c *Ctx) {
	p := c.P
	checkC06Recv(c, c.Rule("C06.recv", "exported *DB methods never write through their receiver (stores, map updates, element stores, mutating callees)", 55))
	rcl := c.Rule("C06.clone", "Statement.clone copies every per-chain field; maps fresh+range, extended slices exact-length copies; raw SQL/Vars whenever present", 20)
	checkC06Clone(c, rcl, nil)
	checkCloneSQL(c, rcl)
	checkC06Instance(c, c.Rule("C06.instance", "getInstance keeps ConnPool/Context/SkipHooks and a fresh Clauses map; Session mutates the statement only after cloning it", 8))
	checkC06FreshHandle(c)
	checkC06ArgHandles(c)
	checkC06StmtSlices(c)
	checkC06MergeAlias(c, c.Rule("C06.merge-alias", "MergeClause never appends onto / stores into a slice not created in that call", 16))
	checkC06BuildPure(c, c.Rule("C06.build-pure", "Build/NegationBuild/buildExprs never store into a slice reachable from receiver or parameters", 30))
	checkC06ExecuteReset(c, c.Rule("C06.execute-reset", "Execute resets per-execution state; temporary clause writes in Update/Count are paired with deferred restores; AfterQuery trims FROM joins unconditionally", 6))
	_ = p
}

// ---- C06.recv ----

func checkC06Recv(c *Ctx, r *Rule) {
	p := c.P
	for sym, why := range map[string]string{
		"AddError":    "records the error on the instance it is called on, by contract",
		"Commit":      "transaction control acts on the handle",
		"Rollback":    "transaction control acts on the handle",
		"SavePoint":   "transaction control acts on the handle (swaps and restores the pool)",
		"RollbackTo":  "transaction control acts on the handle (swaps and restores the pool)",
		"Transaction": "transaction control: nested blocks set save points on the handle",
		"Association": "caches Schema/ReflectValue derived from Model on the handle, restores Table",
		"Use":         "plugin registration on the shared Config",
	} {
		r.Exempt("gorm.(*DB)."+sym, why)
	}
	// Session builds the derived handle around the parent's statement pointer; its stores to
	// Statement fields are decided path-sensitively by C06.instance ("only after the statement
	// was replaced by a clone").  For its callers it is therefore trusted here, and its own
	// witnesses on Statement fields are delegated to that rule.
	sessFn := p.SSAFunc(p.Method(p.Named(pkgGorm, "DB"), "Session"))
	eff := p.Effects(sessFn)
	full := p.Effects()
	stmtFields := map[string]bool{}
	{
		st := p.Named(pkgGorm, "Statement").Underlying().(*types.Struct)
		for i := 0; i < st.NumFields(); i++ {
			stmtFields[st.Field(i).Name()] = true
		}
	}
	var targets []*ssa.Function
	for _, m := range exportedDBMethods(p) {
		targets = append(targets, p.SSAFunc(m))
	}
	targets = append(targets, p.SSAFunc(p.FuncDecl(pkgGorm, "joins").Obj))
	for _, fn := range targets {
		name := ssaFuncName(fn)
		name = strings.TrimPrefix(name, "(*gorm.DB).")
		sym := "gorm.(*DB)." + fn.Name()
		if fn.Signature.Recv() == nil {
			sym = "gorm." + fn.Name()
		}
		c.TouchName(sym)
		if r.IsExempt(sym) {
			continue
		}
		var witness []string
		src := eff
		if fn == sessFn {
			src = full
		}
		if ws, bad := src.WritesThrough(fn, 0); bad {
			for _, w := range ws {
				if fn == sessFn && w.Via == "" {
					rest := strings.TrimPrefix(w.Path, fn.Params[0].Name()+".Statement.")
					if rest != w.Path && stmtFields[rest] {
						continue // delegated to C06.instance
					}
				}
				via := ""
				if w.Via != "" {
					via = " via " + w.Via
				}
				witness = append(witness, p.Pos(w.Instr.Pos())+": writes "+w.Path+via)
			}
		}
		// external mutators called on receiver-rooted addresses (sync.Map.Store, strings.Builder.Write*, ...)
		forEachInstr(fn, func(owner *ssa.Function, in ssa.Instruction) {
			ci, ok := in.(ssa.CallInstruction)
			if !ok {
				return
			}
			cc := ci.Common()
			callee := cc.StaticCallee()
			if callee == nil || p.InRepo(callee) || callee.Signature.Recv() == nil || len(cc.Args) == 0 {
				return
			}
			if _, isPtr := callee.Signature.Recv().Type().(*types.Pointer); !isPtr {
				return
			}
			if readOnlyExternal[callee.Name()] {
				return
			}
			for _, pth := range valuePaths(cc.Args[0]) {
				root, ok := pureRoot(pth)
				if !ok || paramIndexByName(fn, root) != 0 || !strings.ContainsAny(pth, ".[") {
					continue
				}
				tag := fn.Name() + ":" + lastSeg(pth) + "." + callee.Name()
				if tag == "Session:cacheStore.Store" {
					r.Exempt("gorm.(*DB).Session:cacheStore.Store", "publishes the shared prepared-statement cache in the synchronised Config.cacheStore; not per-chain state")
					r.IsExempt("gorm.(*DB).Session:cacheStore.Store")
					continue
				}
				witness = append(witness, p.Pos(in.Pos())+": calls mutating "+callee.String()+" on "+pth)
			}
		})
		r.Check(len(witness) == 0, sym, "receiver read-only", fn.Pos(), "no write through the receiver", "the method writes through its receiver: a chain derived from a reusable handle changes the handle itself", witness...)
	}
}

func lastSeg(p string) string {
	if i := strings.LastIndex(p, "."); i >= 0 {
		return p[i+1:]
	}
	return p
}

// forEachInstr visits fn and its anonymous functions.
func forEachInstr(fn *ssa.Function, visit func(owner *ssa.Function, in ssa.Instruction)) {
	for _, b := range fn.Blocks {
		for _, in := range b.Instrs {
			visit(fn, in)
		}
	}
	for _, a := range fn.AnonFuncs {
		forEachInstr(a, visit)
	}
}

// ---- C06.clone ----

// checkC06Clone checks Statement.clone; when only != nil, only those fields are checked (C16.carry).
func checkC06Clone(c *Ctx, r *Rule, only map[string]bool) {
	p := c.P
	stmtT := p.Named(pkgGorm, "Statement")
	clone := p.MethodDecl(pkgGorm, "Statement", "clone")
	c.Touch(clone)
	info := clone.Pkg.TypesInfo
	recv := recvName(clone)
	lits := litsOfType(info, clone.Body, stmtT, false)
	if len(lits) != 1 {
		r.Unknown(clone.Name(), "literal", clone.Body.Pos(), "expected exactly one Statement literal in clone")
		return
	}
	lit := lits[0]
	// name of the new statement variable
	newVar := ""
	ast.Inspect(clone.Body, func(n ast.Node) bool {
		if as, ok := n.(*ast.AssignStmt); ok && len(as.Lhs) == 1 && len(as.Rhs) == 1 {
			if containsNode(as.Rhs[0], lit) {
				if id, ok := as.Lhs[0].(*ast.Ident); ok {
					newVar = id.Name
				}
			}
		}
		return true
	})
	// which slice fields are extended in place anywhere?
	extended := inPlaceExtendedFields(p, stmtT)

	st := stmtT.Underlying().(*types.Struct)
	for i := 0; i < st.NumFields(); i++ {
		f := st.Field(i)
		name := f.Name()
		if only != nil && !only[name] {
			continue
		}
		if why, ok := stmtPerExecution[name]; ok {
			if only == nil {
				r.Exempt("Statement."+name, why)
				r.IsExempt("Statement." + name)
			}
			continue
		}
		desc := "field " + name
		val := compositeField(lit, name)
		src := recv + "." + name
		_, isMap := f.Type().Underlying().(*types.Map)
		_, isSlice := f.Type().Underlying().(*types.Slice)
		switch {
		case isMap && name != "ColumnMapping":
			// fresh map in the literal + range copy
			fresh := false
			if cl, ok := unparen(val).(*ast.CompositeLit); ok && val != nil && len(cl.Elts) == 0 {
				fresh = true
			}
			cn := rangeCopyNode(info, clone.Body, src, newVar+"."+name)
			copied := cn != nil
			why := ""
			if copied {
				copied, why = copyUnconditional(info, clone.Body, cn, recv, name)
			}
			r.Check(fresh && copied, clone.Name(), desc, lit.Pos(), "fresh map filled by a range over "+src, "map field "+name+" is not deep-copied by clone on every derivation (need a fresh map filled from "+src+"): derived chains share and mutate the parent's map, or lose the entries "+why)
		case isSlice && extended[name] != "":
			cn := sliceCopyNode(info, clone.Body, src, newVar+"."+name)
			okc := cn != nil
			why := ""
			if okc {
				okc, why = copyUnconditional(info, clone.Body, cn, recv, name)
			}
			r.Check(okc, clone.Name(), desc, lit.Pos(), "exact-length copy (extended in place by "+extended[name]+")", "slice field "+name+" is extended in place by "+extended[name]+" but clone does not make an exact-length copy on every derivation: a derived chain can overwrite a sibling's elements or loses them "+why)
		default:
			okc := val != nil && canon(info, val) == src
			if !okc && newVar != "" {
				// assigned after the literal, or (slices) copied into an exact-length fresh slice
				okc = hasAssign(info, clone.Body, newVar+"."+name, src) || (isSlice && hasSliceCopy(info, clone.Body, src, newVar+"."+name))
			}
			r.Check(okc, clone.Name(), desc, lit.Pos(), "copied from "+src, "Statement."+name+" is not carried over by clone: the value is lost by any Session/WithContext/chain derivation")
		}
	}
}

// checkCloneSQL: raw SQL text and its bound values travel with the statement whenever they are present.
func checkCloneSQL(c *Ctx, r *Rule) {
	p := c.P
	clone := p.MethodDecl(pkgGorm, "Statement", "clone")
	info := clone.Pkg.TypesInfo
	recv := recvName(clone)
	var sqlCopy, varsCopy ast.Node
	ast.Inspect(clone.Body, func(n ast.Node) bool {
		switch x := n.(type) {
		case *ast.CallExpr:
			if sel, ok := x.Fun.(*ast.SelectorExpr); ok && sel.Sel.Name == "WriteString" && strings.HasSuffix(canon(info, sel.X), ".SQL") && len(x.Args) == 1 && canon(info, x.Args[0]) == recv+".SQL.String()" {
				sqlCopy = x
			}
			if id, ok := x.Fun.(*ast.Ident); ok && (id.Name == "append" || id.Name == "copy") && len(x.Args) == 2 && strings.HasSuffix(canon(info, x.Args[0]), ".Vars") && canon(info, x.Args[1]) == recv+".Vars" && !strings.HasPrefix(canon(info, x.Args[0]), recv+".") {
				varsCopy = x
			}
		}
		return true
	})
	for _, it := range []struct {
		name string
		node ast.Node
	}{{"SQL", sqlCopy}, {"Vars", varsCopy}} {
		okc := it.node != nil
		why := "no copy found"
		if okc {
			okc, why = copyUnconditional(info, clone.Body, it.node, recv, "SQL", "Vars")
		}
		r.Check(okc, clone.Name(), "field "+it.name+" (raw SQL)", clone.Body.Pos(), "copied whenever raw SQL is present", "Statement."+it.name+" of a raw statement is not carried over by clone on every derivation: Raw(..).Session/WithContext, or a raw sub-query, loses its text or bound values ("+why+")")
	}
}

func containsNode(root ast.Node, target ast.Node) bool {
	found := false
	ast.Inspect(root, func(n ast.Node) bool {
		if n == target {
			found = true
		}
		return !found
	})
	return found
}

// hasRangeCopy: for k, v := range <src> { <dst>[k] = v }
func hasRangeCopy(info *types.Info, body ast.Node, src, dst string) bool {
	return rangeCopyNode(info, body, src, dst) != nil
}

func rangeCopyNode(info *types.Info, body ast.Node, src, dst string) ast.Node {
	var node ast.Node
	found := false
	ast.Inspect(body, func(n ast.Node) bool {
		rs, ok := n.(*ast.RangeStmt)
		if !ok || canon(info, rs.X) != src {
			return true
		}
		k, _ := rs.Key.(*ast.Ident)
		v, _ := rs.Value.(*ast.Ident)
		if k == nil || v == nil {
			return true
		}
		for _, s := range rs.Body.List {
			if as, ok := s.(*ast.AssignStmt); ok && len(as.Lhs) == 1 && len(as.Rhs) == 1 {
				if ix, ok := as.Lhs[0].(*ast.IndexExpr); ok && canon(info, ix.X) == dst && canon(info, ix.Index) == k.Name && canon(info, as.Rhs[0]) == v.Name {
					found = true
					node = rs
				}
			}
		}
		return true
	})
	if !found {
		return nil
	}
	return node
}

// copyUnconditional: every `if` enclosing node inside body tests only the source itself (emptiness /
// nil-ness of a receiver field named in allowed); a copy that also depends on anything else - a mode
// flag, another field - is lost on some derivations.
func copyUnconditional(info *types.Info, body ast.Node, node ast.Node, recv string, allowed ...string) (bool, string) {
	parents := parentMap(body)
	for cur := node; cur != nil; cur = parents[cur] {
		ifs, ok := parents[cur].(*ast.IfStmt)
		if !ok || cur == ast.Node(ifs.Cond) || cur == ifs.Init {
			continue
		}
		bad := ""
		ast.Inspect(ifs.Cond, func(x ast.Node) bool {
			switch e := x.(type) {
			case *ast.SelectorExpr:
				pth := canon(info, e)
				ok := false
				for _, a := range allowed {
					if pth == recv+"."+a || strings.HasPrefix(pth, recv+"."+a+".") {
						ok = true
					}
				}
				if !ok {
					bad = pth
				}
				return false
			case *ast.Ident:
				if _, isVar := info.Uses[e].(*types.Var); isVar && e.Name != recv {
					bad = e.Name
				}
			}
			return true
		})
		if bad != "" {
			return false, "guarded by " + exprStr(ifs.Cond) + " (mentions " + bad + ")"
		}
	}
	return true, ""
}

// hasSliceCopy: <dst> = make(T, len(<src>)); copy(<dst>, <src>)   (or append onto a fresh empty make)
func hasSliceCopy(info *types.Info, body ast.Node, src, dst string) bool {
	return sliceCopyNode(info, body, src, dst) != nil
}

func sliceCopyNode(info *types.Info, body ast.Node, src, dst string) ast.Node {
	var node ast.Node
	madeExact, copied := false, false
	ast.Inspect(body, func(n ast.Node) bool {
		switch n := n.(type) {
		case *ast.AssignStmt:
			if len(n.Lhs) == 1 && len(n.Rhs) == 1 && canon(info, n.Lhs[0]) == dst {
				if call, ok := unparen(n.Rhs[0]).(*ast.CallExpr); ok {
					if id, ok := call.Fun.(*ast.Ident); ok && id.Name == "make" && len(call.Args) >= 2 {
						if canon(info, call.Args[1]) == "len("+src+")" && len(call.Args) == 2 {
							madeExact = true
						}
					}
				}
			}
		case *ast.CallExpr:
			if id, ok := n.Fun.(*ast.Ident); ok && id.Name == "copy" && len(n.Args) == 2 {
				if canon(info, n.Args[0]) == dst && canon(info, n.Args[1]) == src {
					copied = true
					node = n
				}
			}
		}
		return true
	})
	if madeExact && copied {
		return node
	}
	return nil
}

func hasAssign(info *types.Info, body ast.Node, dst, src string) bool {
	found := false
	ast.Inspect(body, func(n ast.Node) bool {
		if as, ok := n.(*ast.AssignStmt); ok && len(as.Lhs) == 1 && len(as.Rhs) == 1 {
			if canon(info, as.Lhs[0]) == dst && canon(info, as.Rhs[0]) == src {
				found = true
			}
		}
		return true
	})
	return found
}

// inPlaceExtendedFields finds slice fields F of t with a statement  X.F = append(X.F, ...)  that is
// neither dominated by a fresh assignment to X.F in the same function nor by a len(X.F) == 0 fact.
func inPlaceExtendedFields(p *Program, t *types.Named) map[string]string {
	out := map[string]string{}
	st := t.Underlying().(*types.Struct)
	fields := map[*types.Var]bool{}
	for i := 0; i < st.NumFields(); i++ {
		if _, ok := st.Field(i).Type().Underlying().(*types.Slice); ok {
			fields[st.Field(i)] = true
		}
	}
	for _, f := range p.FuncsOf(pkgGorm, pkgCallbacks) {
		info := f.Pkg.TypesInfo
		ast.Inspect(f.Body, func(n ast.Node) bool {
			if _, ok := n.(*ast.FuncLit); ok {
				return false
			}
			as, ok := n.(*ast.AssignStmt)
			if !ok || len(as.Lhs) != 1 || len(as.Rhs) != 1 {
				return true
			}
			sel, ok := unparen(as.Lhs[0]).(*ast.SelectorExpr)
			if !ok {
				return true
			}
			s := info.Selections[sel]
			if s == nil || !fields[asVar(s.Obj())] {
				return true
			}
			call, ok := unparen(as.Rhs[0]).(*ast.CallExpr)
			if !ok {
				return true
			}
			id, ok := call.Fun.(*ast.Ident)
			if !ok || id.Name != "append" || len(call.Args) < 1 {
				return true
			}
			lp := canon(info, as.Lhs[0])
			if canon(info, call.Args[0]) != lp {
				return true
			}
			facts, live := p.Guards(f, freshAssignEvents).At(as.Pos())
			if !live {
				return true
			}
			if facts.Has(fTrue("len("+lp+") == 0")) || facts.Has(fEvent("assigned:"+lp)) {
				return true
			}
			if _, dup := out[s.Obj().Name()]; !dup {
				out[s.Obj().Name()] = f.Name()
			}
			return true
		})
	}
	return out
}

func asVar(o types.Object) *types.Var { v, _ := o.(*types.Var); return v }

// freshAssignEvents emits E:assigned:<path> when a selector path is assigned something other than append(path, ...).
var freshAssignEvents = &GuardConfig{Name: "fresh-assign", Events: func(info *types.Info, n ast.Node) []string {
	as, ok := n.(*ast.AssignStmt)
	if !ok || len(as.Lhs) != len(as.Rhs) {
		return nil
	}
	var out []string
	for i, l := range as.Lhs {
		lp, ok := selectorPath(info, l)
		if !ok || !strings.Contains(lp, ".") {
			continue
		}
		if call, ok := unparen(as.Rhs[i]).(*ast.CallExpr); ok {
			if id, ok := call.Fun.(*ast.Ident); ok && id.Name == "append" && len(call.Args) > 0 && canon(info, call.Args[0]) == lp {
				continue
			}
		}
		out = append(out, "assigned:"+lp)
	}
	return out
}}

// ---- C06.instance ----

func checkC06Instance(c *Ctx, r *Rule) {
	p := c.P
	stmtT := p.Named(pkgGorm, "Statement")
	gi := p.MethodDecl(pkgGorm, "DB", "getInstance")
	c.Touch(gi)
	info := gi.Pkg.TypesInfo
	recv := recvName(gi)
	lits := litsOfType(info, gi.Body, stmtT, false)
	// the literal may live in a constructor helper called from getInstance: its field values are read with
	// the helper's parameters replaced by the arguments of the call
	subst := map[string]string{}
	if len(lits) == 0 {
		for _, call := range callsIn(gi) {
			fn, _ := typeutil.Callee(info, call).(*types.Func)
			if fn == nil || fn.Pkg() == nil || fn.Pkg().Path() != pkgGorm {
				continue
			}
			hs := p.SrcOpt(fn)
			if hs == nil {
				continue
			}
			hl := litsOfType(hs.Pkg.TypesInfo, hs.Body, stmtT, false)
			sig := fn.Type().(*types.Signature)
			if len(hl) != 1 || sig.Variadic() || sig.Params().Len() != len(call.Args) {
				continue
			}
			lits = hl
			for i := 0; i < sig.Params().Len(); i++ {
				subst[sig.Params().At(i).Name()] = canon(info, call.Args[i])
			}
			c.Touch(hs)
			break
		}
	}
	if len(lits) != 1 {
		r.Bad(gi.Name(), "literal", gi.Body.Pos(), "getInstance (or a constructor it calls) no longer builds the fresh statement from exactly one Statement literal: that ConnPool/Context/SkipHooks are carried over cannot be seen")
	} else {
		lit := lits[0]
		for _, name := range []string{"ConnPool", "Context", "SkipHooks"} {
			v := compositeField(lit, name)
			got := ""
			if v != nil {
				got = substIdents(canon(info, v), subst)
			}
			r.Check(v != nil && got == recv+".Statement."+name, gi.Name(), "fresh statement keeps "+name, lit.Pos(), "copied from the parent statement", "getInstance's fresh statement does not take "+name+" from the parent: a chain started from a Session/transaction handle loses it")
		}
		cl := compositeField(lit, "Clauses")
		fresh := false
		if m, ok := unparen(cl).(*ast.CompositeLit); ok && cl != nil && len(m.Elts) == 0 {
			fresh = true
		}
		r.Check(fresh, gi.Name(), "fresh Clauses map", lit.Pos(), "empty map literal", "getInstance does not give the new statement its own Clauses map")
		// Unscoped under PropagateUnscoped
		found := false
		ast.Inspect(gi.Body, func(n ast.Node) bool {
			as, ok := n.(*ast.AssignStmt)
			if !ok || len(as.Lhs) != 1 {
				return true
			}
			if strings.HasSuffix(canon(info, as.Lhs[0]), ".Statement.Unscoped") && canon(info, as.Rhs[0]) == recv+".Statement.Unscoped" {
				facts, live := p.Guards(gi, nil).At(as.Pos())
				if live && facts.Has(fTrue(recv+".Config.PropagateUnscoped")) {
					found = true
				}
			}
			return true
		})
		r.Check(found, gi.Name(), "Unscoped under PropagateUnscoped", lit.Pos(), "propagated when configured", "getInstance does not propagate Unscoped under PropagateUnscoped")
		// other arm calls clone
		cloneM := p.Method(stmtT, "clone")
		calls := false
		for _, call := range callsIn(gi) {
			if fn, _ := typeutil.Callee(info, call).(*types.Func); fn == cloneM {
				if sel, ok := call.Fun.(*ast.SelectorExpr); ok && canon(info, sel.X) == recv+".Statement" {
					calls = true
				}
			}
		}
		r.Check(calls, gi.Name(), "clone arm", gi.Body.Pos(), "clone == 2 arm copies the parent statement with clone()", "getInstance never clones the parent statement")
	}

	checkSessionStores(c, r, nil)
}

// checkSessionStores: Session stores to Statement fields only after tx.Statement was replaced by a clone
// (only != nil restricts the rule to the named fields; used by C18 for Context).
func checkSessionStores(c *Ctx, r *Rule, only map[string]bool) {
	p := c.P
	stmtT := p.Named(pkgGorm, "Statement")
	sess := p.MethodDecl(pkgGorm, "DB", "Session")
	c.Touch(sess)
	sinfo := sess.Pkg.TypesInfo
	dbT := p.Named(pkgGorm, "DB")
	stmtField := p.Field(dbT, "Statement")
	cloneM := p.Method(stmtT, "clone")
	conf := &GuardConfig{Name: "session-clone", Events: func(info *types.Info, n ast.Node) []string {
		as, ok := n.(*ast.AssignStmt)
		if !ok || len(as.Lhs) != 1 || len(as.Rhs) != 1 {
			return nil
		}
		if !fieldSel(info, as.Lhs[0], stmtField) {
			return nil
		}
		if call, ok := unparen(as.Rhs[0]).(*ast.CallExpr); ok {
			if fn, _ := typeutil.Callee(info, call).(*types.Func); fn == cloneM {
				return []string{"cloned:" + canon(info, as.Lhs[0])}
			}
		}
		return nil
	}}
	gs := p.Guards(sess, conf)
	n := 0
	ast.Inspect(sess.Body, func(nd ast.Node) bool {
		as, ok := nd.(*ast.AssignStmt)
		if !ok {
			return true
		}
		for _, l := range as.Lhs {
			sel, ok := unparen(l).(*ast.SelectorExpr)
			if !ok {
				continue
			}
			s := sinfo.Selections[sel]
			if s == nil || s.Kind() != types.FieldVal {
				continue
			}
			// a field of Statement reached through X.Statement
			base := canon(sinfo, sel.X)
			if !strings.HasSuffix(base, ".Statement") {
				continue
			}
			if tv, ok := sinfo.Types[sel.X]; !ok || !p.isNamedPtr(tv.Type, stmtT) {
				continue
			}
			if only != nil && !only[sel.Sel.Name] {
				continue
			}
			n++
			facts, live := gs.At(as.Pos())
			r.Check(live && facts.Has(fEvent("cloned:"+base)), sess.Name(), "store Statement."+sel.Sel.Name, as.Pos(), "statement was replaced by a clone first", "Session writes Statement."+sel.Sel.Name+" on a statement that may still be shared with the parent handle")
		}
		return true
	})
	if n == 0 {
		r.Bad(sess.Name(), "stores", sess.Body.Pos(), "Session no longer stores Context/SkipHooks/ConnPool on a statement; rule lost its anchor")
	}
}

// ---- C06.merge-alias ----

func clauseImplementations(p *Program, method string) []*ssa.Function {
	p.SSA()
	var out []*ssa.Function
	for _, fn := range p.SSAFuncs() {
		if fn.Name() != method || fn.Signature.Recv() == nil || fn.Parent() != nil {
			continue
		}
		out = append(out, fn)
	}
	return out
}

func freshSliceOrigin(paths []string) (bool, string) {
	for _, pth := range paths {
		base := pth
		for strings.HasSuffix(base, "+append") {
			base = strings.TrimSuffix(base, "+append")
		}
		if base == "makeslice" || base == "const:nil" || strings.HasPrefix(base, "alloc:") {
			continue
		}
		return false, pth
	}
	return true, ""
}

func checkC06MergeAlias(c *Ctx, r *Rule) {
	p := c.P
	clauseT := p.Named(pkgClause, "Clause")
	for _, fn := range clauseImplementations(p, "MergeClause") {
		// signature MergeClause(*clause.Clause)
		if fn.Signature.Params().Len() != 1 || !p.isNamedPtr(fn.Signature.Params().At(0).Type(), clauseT) {
			continue
		}
		name := ssaFuncName(fn)
		c.TouchName(name)
		var witness []string
		forEachInstr(fn, func(owner *ssa.Function, in ssa.Instruction) {
			switch in := in.(type) {
			case *ssa.Call:
				if b, ok := in.Call.Value.(*ssa.Builtin); ok && b.Name() == "append" && len(in.Call.Args) > 0 {
					if okf, bad := freshSliceOrigin(valuePaths(in.Call.Args[0])); !okf {
						witness = append(witness, p.Pos(in.Pos())+": append onto "+bad+" (not created in this call)")
					}
				}
			case *ssa.Store:
				if ia, ok := in.Addr.(*ssa.IndexAddr); ok {
					if okf, bad := freshSliceOrigin(valuePaths(ia.X)); !okf {
						witness = append(witness, p.Pos(in.Pos())+": element store into "+bad)
					}
				}
			}
		})
		r.Check(len(witness) == 0, name, "no in-place append/store", fn.Pos(), "only fresh slices are extended", "MergeClause extends or writes a slice it shares with the parent clause or the argument: with spare capacity a sibling chain's clause is overwritten", witness...)
	}
}

// ---- C06.build-pure ----

func checkC06BuildPure(c *Ctx, r *Rule) {
	p := c.P
	var fns []*ssa.Function
	for _, fn := range p.SSAFuncs() {
		if fn.Pkg == nil || fn.Pkg.Pkg.Path() != pkgClause || fn.Parent() != nil {
			continue
		}
		if fn.Name() == "Build" || fn.Name() == "NegationBuild" || fn.Name() == "buildExprs" {
			fns = append(fns, fn)
		}
	}
	// soft-delete modifiers' Build methods live in package gorm
	for _, fn := range p.SSAFuncs() {
		if fn.Pkg != nil && fn.Pkg.Pkg.Path() == pkgGorm && fn.Name() == "Build" && fn.Parent() == nil && fn.Signature.Recv() != nil {
			if strings.HasPrefix(fn.Signature.Recv().Type().String(), "gorm.io/gorm.SoftDelete") {
				fns = append(fns, fn)
			}
		}
	}
	for _, fn := range fns {
		name := ssaFuncName(fn)
		c.TouchName(name)
		var witness []string
		forEachInstr(fn, func(owner *ssa.Function, in ssa.Instruction) {
			st, ok := in.(*ssa.Store)
			if !ok {
				return
			}
			ia, ok := st.Addr.(*ssa.IndexAddr)
			if !ok {
				return
			}
			if _, isSlice := ia.X.Type().Underlying().(*types.Slice); !isSlice {
				return
			}
			for _, pth := range valuePaths(ia.X) {
				if root, ok := pureRoot(pth); ok {
					for f := fn; f != nil; f = f.Parent() {
						if paramIndexByName(f, root) >= 0 {
							witness = append(witness, p.Pos(st.Pos())+": stores into element of "+pth)
						}
					}
				}
			}
		})
		r.Check(len(witness) == 0, name, "no element store into shared slices", fn.Pos(), "rendering does not write shared expression lists", "SQL generation writes into a slice shared with the handle's clause: concurrent or later chains of the same handle observe the change (data race / reordered conditions)", witness...)
	}
}

// ---- C06.execute-reset ----

func checkC06ExecuteReset(c *Ctx, r *Rule) {
	p := c.P
	stmtT := p.Named(pkgGorm, "Statement")
	exec := p.MethodDecl(pkgGorm, "processor", "Execute")
	c.Touch(exec)
	info := exec.Pkg.TypesInfo
	// locate the loop over the compiled callbacks
	procT := p.Named(pkgGorm, "processor")
	fnsF := p.Field(procT, "fns")
	var loop *ast.RangeStmt
	ast.Inspect(exec.Body, func(n ast.Node) bool {
		if rs, ok := n.(*ast.RangeStmt); ok && fieldSel(info, rs.X, fnsF) {
			loop = rs
		}
		return true
	})
	if loop == nil {
		r.Unknown(exec.Name(), "fns loop", exec.Body.Pos(), "cannot find the loop over processor.fns")
		return
	}
	gs := p.Guards(exec, nil)
	resetFn := p.Method(p.StdNamed("strings", "Builder"), "Reset")
	sqlF := p.Field(stmtT, "SQL")
	varsF := p.Field(stmtT, "Vars")
	bcF := p.Field(stmtT, "BuildClauses")
	mentionsDryRun := func(n ast.Node) bool {
		e, ok := n.(ast.Expr)
		return ok && strings.Contains(canon(info, e), ".Config.DryRun")
	}
	okd, bad := gs.MustPass(loop.X.Pos(), mentionsDryRun)
	r.Check(okd, exec.Name(), "DryRun decision after callbacks", loop.Pos(), "every path after the callbacks decides on DryRun", "a path from the callback loop to the exit at "+p.Pos(bad)+" skips the DryRun/reset decision")
	var resetPos, varsPos, bcPos token.Pos
	ast.Inspect(exec.Body, func(n ast.Node) bool {
		switch n := n.(type) {
		case *ast.CallExpr:
			if fn, _ := typeutil.Callee(info, n).(*types.Func); fn == resetFn && n.Pos() > loop.End() {
				if sel, ok := n.Fun.(*ast.SelectorExpr); ok && fieldSel(info, sel.X, sqlF) {
					resetPos = n.Pos()
				}
			}
		case *ast.AssignStmt:
			if len(n.Lhs) == 1 && n.Pos() > loop.End() && isNilIdent(info, n.Rhs[0]) {
				if fieldSel(info, n.Lhs[0], varsF) {
					varsPos = n.Pos()
				}
				if fieldSel(info, n.Lhs[0], bcF) {
					bcPos = n.Pos()
				}
			}
		}
		return true
	})
	r.Check(resetPos.IsValid() && varsPos.IsValid(), exec.Name(), "SQL.Reset + Vars=nil", loop.Pos(), "both resets present after the callbacks", "Execute does not reset SQL and Vars after running the callbacks: the next finisher on the same instance appends to the old statement")
	if resetPos.IsValid() && varsPos.IsValid() {
		fa, _ := gs.At(resetPos)
		fb, _ := gs.At(varsPos)
		same := true
		for f := range fa {
			if strings.HasPrefix(f, "F:") || strings.HasPrefix(f, "T:") {
				if !fb.Has(f) {
					same = false
				}
			}
		}
		r.Check(same, exec.Name(), "PAIR(SQL.Reset, Vars=nil)", resetPos, "reset together", "SQL is reset on a path where Vars is kept (or vice versa): text and bound values get out of step")
	}
	if bcPos.IsValid() {
		facts, _ := gs.At(bcPos)
		r.Check(localFact(exec, facts, true, bcPos, defIsConstBool), exec.Name(), "BuildClauses reset", bcPos, "reset only when set by this Execute", "BuildClauses is cleared although it was supplied by the caller")
	} else {
		r.Bad(exec.Name(), "BuildClauses reset", loop.Pos(), "Execute sets BuildClauses from the processor but never resets it")
	}

	// Update: PAIR(AddClause(set), deferred delete(Clauses, "SET"))
	execs, _ := executorSet(p)
	addClause := p.Method(stmtT, "AddClause")
	setT := p.Named(pkgClause, "Set")
	clausesF := p.Field(stmtT, "Clauses")
	for f, reg := range execs {
		if reg.Pipeline != "update" || f != reg.Fn {
			continue
		}
		finfo := f.Pkg.TypesInfo
		conf := &GuardConfig{Name: "defer-delete", Events: func(info *types.Info, n ast.Node) []string {
			d, ok := n.(*ast.DeferStmt)
			if !ok {
				return nil
			}
			if id, ok := d.Call.Fun.(*ast.Ident); ok && id.Name == "delete" && len(d.Call.Args) == 2 && fieldSel(info, d.Call.Args[0], clausesF) {
				if k, ok := constString(info, d.Call.Args[1]); ok {
					return []string{"defer-delete:" + k}
				}
			}
			return nil
		}}
		for _, call := range callsIn(f) {
			fn, _ := typeutil.Callee(finfo, call).(*types.Func)
			if fn != addClause || len(call.Args) != 1 {
				continue
			}
			tv, ok := finfo.Types[call.Args[0]]
			if !ok || !types.Identical(tv.Type, setT) {
				continue
			}
			c.Touch(f)
			facts, live := p.Guards(f, conf).At(call.Pos())
			r.Check(live && facts.Has(fEvent("defer-delete:SET")), f.Name(), "computed SET removed after execution", call.Pos(), "deferred delete(Clauses, \"SET\") registered before the clause is added", "the update executor adds the computed SET clause to the statement without removing it afterwards: a later update on the same instance reuses stale assignments")
		}
	}

	checkCountRestores(c, r)

	// AfterQuery trims the FROM joins before any guard
	aq := p.FuncDecl(pkgCallbacks, "AfterQuery")
	c.Touch(aq)
	{
		ainfo := aq.Pkg.TypesInfo
		found := false
		ast.Inspect(aq.Body, func(n ast.Node) bool {
			as, ok := n.(*ast.AssignStmt)
			if !ok || len(as.Lhs) != 1 {
				return true
			}
			ix, ok := as.Lhs[0].(*ast.IndexExpr)
			if !ok || !fieldSel(ainfo, ix.X, clausesF) {
				return true
			}
			if k, ok := constString(ainfo, ix.Index); ok && k == "FROM" {
				facts, live := p.Guards(aq, nil).At(as.Pos())
				bad := false
				if live {
					for f := range facts {
						if strings.Contains(f, ".Error") || strings.Contains(f, "SkipHooks") || strings.Contains(f, "RowsAffected") || strings.Contains(f, ".Schema") {
							bad = true
						}
					}
				}
				found = live && !bad
			}
			return true
		})
		r.Check(found, aq.Name(), "FROM joins trimmed unconditionally", aq.Body.Pos(), "FROM restored regardless of errors/hooks", "AfterQuery restores the FROM clause only under an error/hook/schema guard: after a failed query the handle keeps the generated joins")
	}
}

func hasFactPrefix(f factSet, prefix string) bool {
	for k := range f {
		if strings.HasPrefix(k, prefix) {
			return true
		}
	}
	return false
}

func enclosingDefer(f *FuncSrc, call *ast.CallExpr) (*ast.DeferStmt, bool) {
	var found *ast.DeferStmt
	ast.Inspect(f.Body, func(n ast.Node) bool {
		if d, ok := n.(*ast.DeferStmt); ok && d.Call == call {
			found = d
		}
		return true
	})
	return found, found != nil
}

// checkCountRestores: Count's temporary SELECT / ORDER BY changes are paired with deferred restores on the
// statement they were made on (shared by C06.execute-reset and C15.count-restore).
func checkCountRestores(c *Ctx, r *Rule) {
	p := c.P
	stmtT := p.Named(pkgGorm, "Statement")
	clausesF := p.Field(stmtT, "Clauses")
	addClause := p.Method(stmtT, "AddClause")
	// Count: temporary SELECT / ORDER BY changes are paired with deferred restores
	count := p.MethodDecl(pkgGorm, "DB", "Count")
	c.Touch(count)
	{
		cinfo := count.Pkg.TypesInfo
		conf := &GuardConfig{Name: "count-defers", Events: func(info *types.Info, n ast.Node) []string {
			d, ok := n.(*ast.DeferStmt)
			if !ok {
				return nil
			}
			var out []string
			// defer delete(X.Clauses, K)
			if id, ok := d.Call.Fun.(*ast.Ident); ok && id.Name == "delete" && len(d.Call.Args) == 2 && fieldSel(info, d.Call.Args[0], clausesF) {
				if k, ok := constString(info, d.Call.Args[1]); ok {
					out = append(out, "restore:"+k, "restore:"+k+"@"+canon(info, d.Call.Args[0]))
				}
			}
			// defer func() { X.Clauses[K] = saved }()
			if lit, ok := d.Call.Fun.(*ast.FuncLit); ok {
				ast.Inspect(lit.Body, func(x ast.Node) bool {
					if as, ok := x.(*ast.AssignStmt); ok && len(as.Lhs) == 1 {
						if ix, ok := as.Lhs[0].(*ast.IndexExpr); ok && fieldSel(info, ix.X, clausesF) {
							if k, ok := constString(info, ix.Index); ok {
								out = append(out, "restore:"+k, "restore:"+k+"@"+canon(info, ix.X))
							}
						}
					}
					// ... or func() { delete(X.Clauses, K) }()
					if ce, ok := x.(*ast.CallExpr); ok {
						if id, ok := ce.Fun.(*ast.Ident); ok && id.Name == "delete" && len(ce.Args) == 2 && fieldSel(info, ce.Args[0], clausesF) {
							if k, ok := constString(info, ce.Args[1]); ok {
								out = append(out, "restore:"+k, "restore:"+k+"@"+canon(info, ce.Args[0]))
							}
						}
					}
					return true
				})
			}
			return out
		}}
		gs := p.Guards(count, conf)
		selT := p.Named(pkgClause, "Select")
		for _, call := range callsIn(count) {
			fn, _ := typeutil.Callee(cinfo, call).(*types.Func)
			if fn == addClause && len(call.Args) == 1 {
				if tv, ok := cinfo.Types[call.Args[0]]; ok && types.Identical(tv.Type, selT) {
					facts, live := gs.At(call.Pos())
					r.Check(live && facts.Has(fEvent("restore:SELECT")), count.Name(), "temporary SELECT restored", call.Pos(), "deferred restore registered first", "Count replaces the SELECT clause without a deferred restore: the handle keeps count(*) for later queries")
					// ... on the statement the temporary clause is added to
					if sel, ok := call.Fun.(*ast.SelectorExpr); ok {
						base := canon(cinfo, sel.X) + ".Clauses"
						r.Check(live && facts.Has(fEvent("restore:SELECT@"+base)), count.Name(), "temporary SELECT restored on the same statement", call.Pos(), "restore acts on "+base, "the deferred restore of the temporary SELECT clause acts on another statement's clause map than the one count(*) is added to ("+base+"): when the two differ (a Session chain) the statement Count returns keeps `SELECT count(*)` and every reader chained on it counts instead of selecting rows")
					}
				}
			}
			if id, ok := call.Fun.(*ast.Ident); ok && id.Name == "delete" && len(call.Args) == 2 && fieldSel(cinfo, call.Args[0], clausesF) {
				if k, ok := constString(cinfo, call.Args[1]); ok && count.Body.Pos() < call.Pos() {
					if _, isDefer := enclosingDefer(count, call); isDefer {
						continue
					}
					okr, _ := gs.MustPass(call.Pos(), func(n ast.Node) bool {
						d, ok := n.(*ast.DeferStmt)
						if !ok {
							return false
						}
						for _, e := range conf.Events(cinfo, d) {
							if e == "restore:"+k {
								return true
							}
						}
						return false
					})
					r.Check(okr, count.Name(), "temporary delete of "+k+" restored", call.Pos(), "deferred restore follows on every path", "Count deletes the "+k+" clause without restoring it")
				}
			}
		}
	}

}
