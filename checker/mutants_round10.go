package main

func init() {
	addMutants(
		// C01.args-used
		Mutant{Name: "c01-having-drops-args-for-plain-strings", Property: "C01", Rule: "C01.args-used", Edits: []Edit{{"chainable_api.go",
			"func (db *DB) Having(query interface{}, args ...interface{}) (tx *DB) {\n\ttx = db.getInstance()\n", "func (db *DB) Having(query interface{}, args ...interface{}) (tx *DB) {\n\ttx = db.getInstance()\n\tif s, ok := query.(string); ok && !strings.Contains(s, \"?\") {\n\t\ttx.Statement.AddClause(clause.GroupBy{Having: tx.Statement.BuildCondition(s)})\n\t\treturn\n\t}\n"}}},
		Mutant{Name: "n121-table-raw-test-in-a-local", Property: "*", Rule: "NEUTRAL", Edits: []Edit{{"chainable_api.go",
			"\tif strings.Contains(name, \" \") || strings.Contains(name, \"`\") || len(args) > 0 {", "\tisExpr := strings.Contains(name, \" \") || strings.Contains(name, \"`\") || len(args) > 0\n\tif isExpr {"}}},
		// C02.nil-agree
		Mutant{Name: "c02-eq-ignores-typed-nil", Property: "C02", Rule: "C02.nil-agree", Edits: []Edit{{"clause/expression.go",
			"\t\tif eqNil(eq.Value) {\n\t\t\tbuilder.WriteString(\" IS NULL\")", "\t\tif eq.Value == nil {\n\t\t\tbuilder.WriteString(\" IS NULL\")"}}},
		// C03.fresh-row
		Mutant{Name: "c03-row-scanned-into-last-element", Property: "C03", Rule: "C03.fresh-row", Edits: []Edit{{"scan.go",
			"\t\t\t\t} else {\n\t\t\t\t\telem = reflect.New(reflectValueType)\n\t\t\t\t}\n\n\t\t\t\tdb.scanIntoStruct(rows, elem, values, fields, joinFields)", "\t\t\t\t} else if isArrayKind && int(db.RowsAffected) < reflectValue.Len() && !isPtr {\n\t\t\t\t\telem = reflectValue.Index(int(db.RowsAffected)).Addr()\n\t\t\t\t} else {\n\t\t\t\t\telem = reflect.New(reflectValueType)\n\t\t\t\t}\n\n\t\t\t\tdb.scanIntoStruct(rows, elem, values, fields, joinFields)"}}},
		// C04.conn-release
		Mutant{Name: "c04-connection-closed-explicitly-after-the-block", Property: "C04", Rule: "C04.conn-release", Edits: []Edit{{"finisher_api.go",
			"\tdefer conn.Close()\n\ttx.Statement.ConnPool = conn\n\treturn fc(tx)", "\ttx.Statement.ConnPool = conn\n\terr = fc(tx)\n\tconn.Close()\n\treturn err"}}},
		Mutant{Name: "n122-connection-deferred-close-in-a-closure", Property: "*", Rule: "NEUTRAL", Edits: []Edit{{"finisher_api.go",
			"\tdefer conn.Close()\n\ttx.Statement.ConnPool = conn\n\treturn fc(tx)", "\tdefer conn.Close()\n\ttx.Statement.ConnPool = conn\n\terr = fc(tx)\n\treturn err"}}},
		// C05.err-overwrite
		Mutant{Name: "c05-after-update-results-in-one-variable", Property: "C05", Rule: "C05.err-overwrite", Edits: []Edit{{"callbacks/create.go",
			"\t\t\tif db.Statement.Schema.AfterCreate {\n\t\t\t\tif i, ok := value.(AfterCreateInterface); ok {\n\t\t\t\t\tcalled = true\n\t\t\t\t\tdb.AddError(i.AfterCreate(tx))\n\t\t\t\t}\n\t\t\t}\n\n\t\t\tif db.Statement.Schema.AfterSave {\n\t\t\t\tif i, ok := value.(AfterSaveInterface); ok {\n\t\t\t\t\tcalled = true\n\t\t\t\t\tdb.AddError(i.AfterSave(tx))\n\t\t\t\t}\n\t\t\t}\n\t\t\treturn called",
			"\t\t\tvar hookErr error\n\t\t\tif db.Statement.Schema.AfterCreate {\n\t\t\t\tif i, ok := value.(AfterCreateInterface); ok {\n\t\t\t\t\tcalled = true\n\t\t\t\t\thookErr = i.AfterCreate(tx)\n\t\t\t\t}\n\t\t\t}\n\n\t\t\tif db.Statement.Schema.AfterSave {\n\t\t\t\tif i, ok := value.(AfterSaveInterface); ok {\n\t\t\t\t\tcalled = true\n\t\t\t\t\thookErr = i.AfterSave(tx)\n\t\t\t\t}\n\t\t\t}\n\t\t\tdb.AddError(hookErr)\n\t\t\treturn called"}}},
		Mutant{Name: "n123-after-create-errors-through-a-checked-local", Property: "*", Rule: "NEUTRAL", Edits: []Edit{{"callbacks/create.go",
			"\t\t\t\tif i, ok := value.(AfterCreateInterface); ok {\n\t\t\t\t\tcalled = true\n\t\t\t\t\tdb.AddError(i.AfterCreate(tx))\n\t\t\t\t}", "\t\t\t\tif i, ok := value.(AfterCreateInterface); ok {\n\t\t\t\t\tcalled = true\n\t\t\t\t\thookErr := i.AfterCreate(tx)\n\t\t\t\t\tdb.AddError(hookErr)\n\t\t\t\t}"}}},
		// C08.assoc-unscoped
		Mutant{Name: "c08-association-delete-on-a-new-statement", Property: "C08", Rule: "C08.assoc-unscoped", Edits: []Edit{{"association.go",
			"func (association *Association) Delete(values ...interface{}) error {\n\tif association.Error == nil {\n\t\tvar (\n\t\t\treflectValue  = association.DB.Statement.ReflectValue\n\t\t\trel           = association.Relationship", "func (association *Association) Delete(values ...interface{}) error {\n\tif association.Error == nil {\n\t\tassociation.DB = association.DB.Session(&Session{NewDB: true}).Model(association.DB.Statement.Model)\n\t\tvar (\n\t\t\treflectValue  = association.DB.Statement.ReflectValue\n\t\t\trel           = association.Relationship"}}},
		// C09.session-flags
		Mutant{Name: "c09-session-drops-allow-global-update", Property: "C09", Rule: "C09.session-flags", Edits: []Edit{{"gorm.go",
			"\tif config.AllowGlobalUpdate {\n\t\ttxConfig.AllowGlobalUpdate = true\n\t}\n\n", ""}}},
		Mutant{Name: "c09-skip-default-transaction-turns-on-global-update", Property: "C09", Rule: "C09.session-flags", Edits: []Edit{{"gorm.go",
			"\tif config.SkipDefaultTransaction {\n\t\ttx.Config.SkipDefaultTransaction = true\n\t}", "\tif config.SkipDefaultTransaction {\n\t\ttx.Config.SkipDefaultTransaction = true\n\t\ttx.Config.AllowGlobalUpdate = true\n\t}"}}},
		Mutant{Name: "n124-session-flag-copied-by-assignment-of-the-option", Property: "*", Rule: "NEUTRAL", Edits: []Edit{{"gorm.go",
			"\tif config.FullSaveAssociations {\n\t\ttxConfig.FullSaveAssociations = true\n\t}", "\tif config.FullSaveAssociations {\n\t\ttxConfig.FullSaveAssociations = config.FullSaveAssociations\n\t}"}}},
		// C10.block-keeps-chain
		Mutant{Name: "c10-begin-new-statement-for-batches", Property: "C10", Rule: "C10.block-keeps-chain", Edits: []Edit{{"finisher_api.go",
			"\t\ttx  = db.getInstance().Session(&Session{Context: db.Statement.Context, NewDB: db.clone == 1})", "\t\ttx  = db.getInstance().Session(&Session{Context: db.Statement.Context, NewDB: true})"}}},
	)
}

func init() {
	addMutants(
		// C11.key-verbatim
		Mutant{Name: "c11-identity-key-trimmed", Property: "C11", Rule: "C11.key-verbatim", Edits: []Edit{{"utils/utils.go",
			"\treturn strings.Join(results, \"_\")", "\treturn strings.TrimSpace(strings.Join(results, \"_\"))"}}},
		Mutant{Name: "n125-identity-key-join-in-a-local", Property: "*", Rule: "NEUTRAL", Edits: []Edit{{"utils/utils.go",
			"\treturn strings.Join(results, \"_\")", "\tkey := strings.Join(results, \"_\")\n\treturn key"}}},
		// C12.chain-result
		Mutant{Name: "c12-association-select-result-discarded", Property: "C12", Rule: "C12.chain-result", Edits: []Edit{{"callbacks/associations.go",
			"\tif len(selects) > 0 {\n\t\ttx = tx.Select(selects)\n\t}", "\tif len(selects) > 0 {\n\t\ttx.Select(selects)\n\t}"}}},
		// C13.assoc-distinct
		Mutant{Name: "c13-many2many-saves-the-full-list", Property: "C13", Rule: "C13.assoc-distinct", Edits: []Edit{{"callbacks/associations.go",
			"\t\t\t\t\t\tsaveAssociations(db, rel, distinctElems, selectColumns, restricted, nil)", "\t\t\t\t\t\tsaveAssociations(db, rel, elems, selectColumns, restricted, nil)"}}},
		// C14.tx-nil-guard
		Mutant{Name: "c14-tx-rollback-without-typed-nil-test", Property: "C14", Rule: "C14.tx-nil-guard", Edits: []Edit{{"prepare_stmt.go",
			"func (tx *PreparedStmtTX) Rollback() error {\n\tif tx.Tx != nil && !reflect.ValueOf(tx.Tx).IsNil() {", "func (tx *PreparedStmtTX) Rollback() error {\n\tif tx.Tx != nil && tx.PreparedStmtDB != nil {"}}},
		Mutant{Name: "n126-tx-commit-typed-nil-test-as-early-return", Property: "*", Rule: "NEUTRAL", Edits: []Edit{{"prepare_stmt.go",
			"func (tx *PreparedStmtTX) Commit() error {\n\tif tx.Tx != nil && !reflect.ValueOf(tx.Tx).IsNil() {\n\t\treturn tx.Tx.Commit()\n\t}\n\treturn ErrInvalidTransaction", "func (tx *PreparedStmtTX) Commit() error {\n\tif tx.Tx == nil || reflect.ValueOf(tx.Tx).IsNil() {\n\t\treturn ErrInvalidTransaction\n\t}\n\treturn tx.Tx.Commit()"}}},
		// C15.finder-conds
		Mutant{Name: "c15-take-ignores-conditions-of-maps", Property: "C15", Rule: "C15.finder-conds", Edits: []Edit{{"finisher_api.go",
			"func (db *DB) Take(dest interface{}, conds ...interface{}) (tx *DB) {\n\ttx = db.Limit(1)\n\tif len(conds) > 0 {", "func (db *DB) Take(dest interface{}, conds ...interface{}) (tx *DB) {\n\ttx = db.Limit(1)\n\tif len(conds) > 0 && dest != nil {"}}},
		// C16.donothing-wins
		Mutant{Name: "c16-donothing-only-without-where", Property: "C16", Rule: "C16.donothing-wins", Edits: []Edit{{"clause/on_conflict.go",
			"\tif onConflict.DoNothing {", "\tif onConflict.DoNothing && len(onConflict.Where.Exprs) == 0 {"}}},
		// C17.side-writers
		Mutant{Name: "c17-compile-clears-before-of-matched-callbacks", Property: "C17", Rule: "C17.side-writers", Edits: []Edit{{"callbacks.go",
			"\t\tif callback.remove {\n\t\t\tremovedMap[callback.name] = true\n\t\t}", "\t\tif callback.remove {\n\t\t\tremovedMap[callback.name] = true\n\t\t\tcallback.before = \"\"\n\t\t}"}}},
		// C19.batch-tx
		Mutant{Name: "c19-batches-in-a-transaction-unless-dry-run", Property: "C19", Rule: "C19.batch-tx", Edits: []Edit{{"finisher_api.go",
			"\t\tif tx.SkipDefaultTransaction || reflectLen <= batchSize {", "\t\tif tx.DryRun && tx.Error != nil || reflectLen <= batchSize {"}}},
		Mutant{Name: "n127-batch-transaction-test-reordered", Property: "*", Rule: "NEUTRAL", Edits: []Edit{{"finisher_api.go",
			"\t\tif tx.SkipDefaultTransaction || reflectLen <= batchSize {", "\t\tif reflectLen <= batchSize || tx.SkipDefaultTransaction {"}}},
		// C20.index-lookup
		Mutant{Name: "c20-lookindex-matches-the-index-class", Property: "C20", Rule: "C20.index-lookup", Edits: []Edit{{"schema/index.go",
			"\t\t\tif index.Name == name {\n\t\t\t\treturn index\n\t\t\t}", "\t\t\tif index.Name == name || index.Class == name {\n\t\t\t\treturn index\n\t\t\t}"}}},
	)
}
