package main

func init() {
	addMutants(
		Mutant{Name: "c02-where-merge-drops-earlier-conditions", Property: "C02", Rule: "C02.merge", Edits: []Edit{{"clause/where.go", "\t\tcopy(exprs, w.Exprs)\n", ""}}},
		Mutant{Name: "c02-where-merge-drops-new-conditions", Property: "C02", Rule: "C02.merge", Edits: []Edit{{"clause/where.go", "\t\tcopy(exprs[len(w.Exprs):], where.Exprs)\n", ""}}},
		Mutant{Name: "c02-groupby-merge-loses-earlier-having", Property: "C02", Rule: "C02.merge", Edits: []Edit{{"clause/group_by.go",
			"\t\tcopiedHaving := make([]Expression, len(v.Having))\n\t\tcopy(copiedHaving, v.Having)\n\t\tgroupBy.Having = append(copiedHaving, groupBy.Having...)", "\t\tif len(groupBy.Having) == 0 {\n\t\t\tcopiedHaving := make([]Expression, len(v.Having))\n\t\t\tcopy(copiedHaving, v.Having)\n\t\t\tgroupBy.Having = copiedHaving\n\t\t}"}}},
		Mutant{Name: "c02-orderby-merge-replaces", Property: "C02", Rule: "C02.merge", Edits: []Edit{{"clause/order_by.go",
			"\t\tcopiedColumns := make([]OrderByColumn, len(v.Columns))\n\t\tcopy(copiedColumns, v.Columns)\n\t\torderBy.Columns = append(copiedColumns, orderBy.Columns...)", "\t\t_ = v"}}},
		Mutant{Name: "c02-not-ignores-namedexpr-again", Property: "C02", Rule: "C02.siblings", Edits: []Edit{{"clause/where.go",
			"\tcase Expr:\n\t\treturn e.SQL, true\n\tcase NamedExpr:\n\t\treturn e.SQL, true\n\tcase AndConditions:", "\tcase Expr:\n\t\treturn e.SQL, true\n\tcase AndConditions:"}}, Note: "reverts fix 88177f4"},
		Mutant{Name: "c02-buildexprs-ignores-namedexpr", Property: "C02", Rule: "C02.siblings", Edits: []Edit{{"clause/where.go",
			"\t\t\tcase NamedExpr:\n\t\t\t\tsql := strings.ToUpper(v.SQL)\n\t\t\t\twrapInParentheses = strings.Contains(sql, AndWithSpace) || strings.Contains(sql, OrWithSpace)\n", ""}}},
		Mutant{Name: "c02-not-adds-clause-for-empty-condition", Property: "C02", Rule: "C02.empty", Edits: []Edit{{"chainable_api.go",
			"\tif conds := tx.Statement.BuildCondition(query, args...); len(conds) > 0 {\n\t\ttx.Statement.AddClause(clause.Where{Exprs: []clause.Expression{clause.Not(conds...)}})\n\t}", "\tconds := tx.Statement.BuildCondition(query, args...)\n\ttx.Statement.AddClause(clause.Where{Exprs: []clause.Expression{clause.Not(conds...)}})"}}},
	)
}

func init() {
	addMutants(
		Mutant{Name: "c02-or-arm-ignores-namedexpr-again", Property: "C02", Rule: "C02.siblings", Edits: []Edit{{"clause/where.go",
			"\t\t\tcase OrConditions:\n\t\t\t\tif len(v.Exprs) == 1 {\n\t\t\t\t\tif rawSQL, ok := rawExprSQL(v.Exprs[0]); ok {\n\t\t\t\t\t\tsql := strings.ToUpper(rawSQL)",
			"\t\t\tcase OrConditions:\n\t\t\t\tif len(v.Exprs) == 1 {\n\t\t\t\t\tif e, ok := v.Exprs[0].(Expr); ok {\n\t\t\t\t\t\tsql := strings.ToUpper(e.SQL)"}}, Note: "reverts fix 618e290"},
		Mutant{Name: "c02-or-arm-looks-for-and-only", Property: "C02", Rule: "C02.siblings", Edits: []Edit{{"clause/where.go",
			"\t\t\tcase OrConditions:\n\t\t\t\tif len(v.Exprs) == 1 {\n\t\t\t\t\tif rawSQL, ok := rawExprSQL(v.Exprs[0]); ok {\n\t\t\t\t\t\tsql := strings.ToUpper(rawSQL)\n\t\t\t\t\t\twrapInParentheses = strings.Contains(sql, AndWithSpace) || strings.Contains(sql, OrWithSpace)",
			"\t\t\tcase OrConditions:\n\t\t\t\tif len(v.Exprs) == 1 {\n\t\t\t\t\tif rawSQL, ok := rawExprSQL(v.Exprs[0]); ok {\n\t\t\t\t\t\twrapInParentheses = strings.Contains(strings.ToUpper(rawSQL), AndWithSpace)"}},
			Note: "seed S19 (C02r2) rebased onto the fixed tree"},
	)
}
