package main

// C07.field-meta: the metadata of a schema.Field is written only while its schema is still private to
// the parsing goroutine.  ParseWithSpecialTableName publishes the schema with LoadOrStore *before* the
// relation phase, and getOrParse hands a published schema to other parsers without waiting for its
// initialisation (it has to, relations can be cyclic).  Any store into a Field after that point - of the
// own schema or of a related one - can therefore run concurrently with another goroutine reading the same
// Field during its own first use.  Stores are accepted (1) in ParseWithSpecialTableName when the store is
// not reachable from the publication, (2) in functions all of whose static call sites are of kind (1) or
// lie in such functions again ("construction-only"), (3) under a named exemption.

import (
	"go/ast"
	"go/token"
	"go/types"
	"sort"

	"golang.org/x/tools/go/ssa"
	"golang.org/x/tools/go/types/typeutil"
)

func checkC07FieldMeta(c *Ctx) {
	p := c.P
	r := c.Rule("C07.field-meta", "WHO-WRITES(schema.Field metadata): only code that runs before the schema is published in the cache", 20)
	r.Exempt("schema.(*Schema).buildMany2ManyRelation", "writes the fields of the join-table schema it has just synthesised for this relation (reflect.StructOf type private to the relation)")
	r.Exempt("gorm.(*DB).SetupJoinTable", "documented set-up API that rewires a join table before the models are used; not on the concurrent path")
	r.Exempt("schema.(*Schema).ParseIndexes", "runs only from migrator entry points (ParseIndexes/LookIndex); schema migration is not among the operations C07 quantifies over")
	fieldT := p.Named(pkgSchema, "Field")
	parse := p.FuncDecl(pkgSchema, "ParseWithSpecialTableName")
	c.Touch(parse)
	pinfo := parse.Pkg.TypesInfo
	loadOrStore := p.Method(p.StdNamed("sync", "Map"), "LoadOrStore")
	var publish *ast.CallExpr
	for _, call := range callsIn(parse) {
		if fn, _ := typeutil.Callee(pinfo, call).(*types.Func); fn == loadOrStore {
			publish = call
		}
	}
	if publish == nil {
		r.Unknown(parse.Name(), "publication", parse.Body.Pos(), "no LoadOrStore publication found in ParseWithSpecialTableName")
		return
	}
	gs := p.Guards(parse, nil)
	// prePublication: the node containing pos is not reachable from the publication
	prePublication := func(pos token.Pos) bool {
		return !gs.Reaches(publish.Pos(), func(n ast.Node) bool { return n.Pos() <= pos && pos < n.End() })
	}

	// static call sites per callee (root functions)
	p.SSA()
	type site struct {
		caller *ssa.Function
		pos    token.Pos
	}
	sites := map[*ssa.Function][]site{}
	for _, fn := range p.SSAFuncs() {
		if fn.Parent() != nil || fn.Blocks == nil {
			continue
		}
		forEachInstr(fn, func(owner *ssa.Function, in ssa.Instruction) {
			if ci, ok := in.(ssa.CallInstruction); ok {
				if sc := ci.Common().StaticCallee(); sc != nil {
					sites[rootSSA(sc)] = append(sites[rootSSA(sc)], site{fn, in.Pos()})
				}
			}
		})
	}
	parseSSA := p.SSAFunc(parse.Obj)
	// greatest fixpoint: construction-only functions
	consOnly := map[*ssa.Function]bool{}
	for fn, ss := range sites {
		if len(ss) > 0 && fn.Pkg != nil && fn.Pkg.Pkg.Path() == pkgSchema {
			consOnly[fn] = true
		}
	}
	delete(consOnly, parseSSA)
	for changed := true; changed; {
		changed = false
		for fn := range consOnly {
			for _, s := range sites[fn] {
				ok := false
				switch {
				case s.caller == parseSSA:
					ok = s.pos.IsValid() && prePublication(s.pos)
				case consOnly[s.caller]:
					ok = true
				}
				if !ok {
					delete(consOnly, fn)
					changed = true
					break
				}
			}
		}
	}

	type store struct {
		f    *FuncSrc
		lhs  ast.Expr
		pos  token.Pos
		name string
	}
	var stores []store
	for _, f := range p.Funcs {
		info := f.Pkg.TypesInfo
		ast.Inspect(f.Body, func(n ast.Node) bool {
			if _, ok := n.(*ast.FuncLit); ok {
				return false
			}
			var lhs []ast.Expr
			switch x := n.(type) {
			case *ast.AssignStmt:
				lhs = x.Lhs
			case *ast.IncDecStmt:
				lhs = []ast.Expr{x.X}
			}
			for _, l := range lhs {
				sel, ok := unparen(l).(*ast.SelectorExpr)
				if !ok {
					continue
				}
				sl := info.Selections[sel]
				if sl == nil || sl.Kind() != types.FieldVal {
					continue
				}
				rt := sl.Recv()
				if pt, ok := rt.(*types.Pointer); ok {
					rt = pt.Elem()
				}
				if nt, ok := rt.(*types.Named); ok && nt == fieldT {
					stores = append(stores, store{f, l, n.Pos(), sel.Sel.Name})
				}
			}
			return true
		})
	}
	sort.Slice(stores, func(i, j int) bool { return stores[i].pos < stores[j].pos })
	for _, st := range stores {
		root := rootFunc(st.f)
		c.Touch(root)
		desc := "store " + exprStr(st.lhs)
		if r.IsExempt(root.Name()) {
			r.OK(root.Name(), desc, st.pos, "exempt: "+root.Name())
			continue
		}
		pos := st.pos
		if st.f != root {
			// a literal: judged at the place where the outermost literal stands
			lit := st.f
			for lit.Parent != root {
				lit = lit.Parent
			}
			pos = lit.Lit.Pos()
		}
		switch {
		case root == parse:
			r.Check(prePublication(pos), root.Name(), desc, st.pos, "before the schema is published (LoadOrStore)", "Field metadata is written after the schema was published in the cache: another goroutine that obtained the schema through getOrParse reads it concurrently")
		case root.Obj != nil && consOnly[p.SSAFunc(root.Obj)]:
			r.OK(root.Name(), desc, st.pos, "construction-only: every static call site lies before the publication")
		default:
			r.Bad(root.Name(), desc, st.pos, "metadata of a Field of a published schema (the relation's other side, or the own schema after publication) is written without synchronisation while other goroutines may be reading it during their own first use of a related model: data race on cold cache")
		}
	}
}
