package main

import (
	"fmt"
	"go/ast"
	"go/types"
	"sort"

	"golang.org/x/tools/go/ssa"
)

func runDump(args []string) {
	p := loadProgram(repoDir())
	switch args[0] {
	case "regs":
		for _, r := range p.Registrations() {
			fmt.Printf("%-7s %2d %-38s fn=%s factory=%v match=%q ba=%v\n", r.Pipeline, r.Index, r.Name, r.Fn.Name(), r.Factory != nil, r.Matched, r.BeforeAfter)
		}
	case "driver":
		for _, s := range p.DriverSites() {
			fmt.Printf("%-9s %-28s %-40s %s iface=%v\n", s.Kind, s.Callee.Name(), s.F.Name(), p.Pos(s.Call.Pos()), s.Iface)
		}
	case "facts":
		// facts <pkgpath> <funcname> : facts at each call site
		for _, f := range p.Funcs {
			if f.Pkg.PkgPath == args[1] && f.Name() == args[2] {
				gs := p.Guards(f, nil)
				for _, call := range callsIn(f) {
					facts, ok := gs.At(call.Pos())
					fmt.Printf("%s %s ok=%v\n", p.Pos(call.Pos()), exprStr(call.Fun), ok)
					l := facts.List()
					sort.Strings(l)
					for _, x := range l {
						fmt.Printf("     %s\n", x)
					}
				}
			}
		}
	case "appends":
		dumpAppends(p, args[1])
	case "fieldstores":
		// stores into fields of schema.Field anywhere in the repo
		ft := p.Named(pkgSchema, "Field")
		for _, f := range p.Funcs {
			info := f.Pkg.TypesInfo
			ast.Inspect(f.Body, func(n ast.Node) bool {
				if _, ok := n.(*ast.FuncLit); ok {
					return false
				}
				as, ok := n.(*ast.AssignStmt)
				if !ok {
					return true
				}
				for _, l := range as.Lhs {
					sel, ok := unparen(l).(*ast.SelectorExpr)
					if !ok {
						continue
					}
					sl := info.Selections[sel]
					if sl == nil || sl.Kind() != types.FieldVal {
						continue
					}
					rt := sl.Recv()
					if pt, ok := rt.(*types.Pointer); ok {
						rt = pt.Elem()
					}
					if nt, ok := rt.(*types.Named); ok && nt == ft {
						fmt.Printf("%-50s %-40s %s\n", f.Name(), exprStr(l), p.Pos(as.Pos()))
					}
				}
				return true
			})
		}
	case "funcs":
		for _, f := range p.Funcs {
			fmt.Println(f.Pkg.PkgPath, f.Name())
		}
	}
}

func dumpAppends(p *Program, name string) {
	for _, fn := range p.SSAFuncs() {
		if ssaFuncName(fn) != name {
			continue
		}
		forEachInstr(fn, func(owner *ssa.Function, in ssa.Instruction) {
			switch in := in.(type) {
			case *ssa.Call:
				if b, ok := in.Call.Value.(*ssa.Builtin); ok && b.Name() == "append" {
					fmt.Println("append", p.Pos(in.Pos()), valuePaths(in.Call.Args[0]))
				}
			case *ssa.Store:
				fmt.Println("store", p.Pos(in.Pos()), in.Addr.Name(), valuePaths(in.Addr), "<-", valuePaths(in.Val))
			}
		})
	}
}
