package main

// Provenance of boolean locals: rules never rely on the *name* of a local
// variable (isZero, ok, called ...); they ask whether a fact on some simple
// identifier holds whose definition has the required shape.

import (
	"go/ast"
	"go/token"
	"go/types"
	"strings"

	"golang.org/x/tools/go/types/typeutil"
)

type localDef struct {
	rhs ast.Expr
	idx int // index among the results of rhs (0 when rhs has a single value)
}

// localDefs returns the definitions/assignments of the variable named name that is visible at pos.
func localDefs(f *FuncSrc, name string, pos token.Pos) []localDef {
	var out []localDef
	root := rootFunc(f)
	if root.Body == nil {
		return nil
	}
	info := f.Pkg.TypesInfo
	var obj types.Object
	if sc := f.Pkg.Types.Scope().Innermost(pos); sc != nil {
		_, obj = sc.LookupParent(name, pos)
	}
	same := func(id *ast.Ident) bool {
		if obj == nil {
			return true
		}
		return info.Defs[id] == obj || info.Uses[id] == obj
	}
	ast.Inspect(root.Body, func(n ast.Node) bool {
		switch x := n.(type) {
		case *ast.AssignStmt:
			for i, l := range x.Lhs {
				id, ok := l.(*ast.Ident)
				if !ok || id.Name != name || !same(id) {
					continue
				}
				switch {
				case len(x.Rhs) == len(x.Lhs):
					out = append(out, localDef{x.Rhs[i], 0})
				case len(x.Rhs) == 1:
					out = append(out, localDef{x.Rhs[0], i})
				}
			}
		case *ast.ValueSpec:
			for i, id := range x.Names {
				if id.Name != name || !same(id) {
					continue
				}
				switch {
				case len(x.Values) == len(x.Names):
					out = append(out, localDef{x.Values[i], 0})
				case len(x.Values) == 1:
					out = append(out, localDef{x.Values[0], i})
				}
			}
		}
		return true
	})
	return out
}

// localFact: facts contain T:<id> (pol=true) or F:<id> (pol=false) for a simple identifier id, every
// definition of which in the enclosing function satisfies pred.
func localFact(f *FuncSrc, facts factSet, pol bool, pos token.Pos, pred func(info *types.Info, d localDef) bool) bool {
	prefix := "F:"
	if pol {
		prefix = "T:"
	}
	info := f.Pkg.TypesInfo
	for fact := range facts {
		if !strings.HasPrefix(fact, prefix) {
			continue
		}
		name := fact[2:]
		if name == "" || strings.ContainsAny(name, " .()[]=<>!&|\"") {
			continue
		}
		defs := localDefs(f, name, pos)
		if len(defs) == 0 {
			continue
		}
		all := true
		for _, d := range defs {
			if !pred(info, d) {
				all = false
			}
		}
		if all {
			return true
		}
	}
	return false
}

// defIsZeroOfValueOf: the second result of a call through a func-typed field named ValueOf (schema.Field.ValueOf).
func defIsZeroOfValueOf(info *types.Info, d localDef) bool {
	ce, ok := unparen(d.rhs).(*ast.CallExpr)
	if !ok || d.idx != 1 {
		return false
	}
	sel, ok := ce.Fun.(*ast.SelectorExpr)
	if !ok || sel.Sel.Name != "ValueOf" {
		return false
	}
	s := info.Selections[sel]
	return s != nil && s.Kind() == types.FieldVal
}

// defIsMapLookupOK: the comma-ok result of indexing a map selected by field fld (optionally with constant key).
func defIsMapLookupOK(fld *types.Var, key string) func(info *types.Info, d localDef) bool {
	return func(info *types.Info, d localDef) bool {
		ix, ok := unparen(d.rhs).(*ast.IndexExpr)
		if !ok || d.idx != 1 || !fieldSel(info, ix.X, fld) {
			return false
		}
		if key == "" {
			return true
		}
		k, ok := constString(info, ix.Index)
		return ok && k == key
	}
}

// defIsResultOf: result idx of a call to fn.
func defIsResultOf(fn *types.Func, idx int) func(info *types.Info, d localDef) bool {
	return func(info *types.Info, d localDef) bool {
		ce, ok := unparen(d.rhs).(*ast.CallExpr)
		if !ok || d.idx != idx {
			return false
		}
		c, _ := typeutil.Callee(info, ce).(*types.Func)
		return c == fn
	}
}

// defIsCallOfVar: result 0 of a call of the function-typed variable named v (e.g. a callback parameter).
func defIsCallOfVar(v string) func(info *types.Info, d localDef) bool {
	return func(info *types.Info, d localDef) bool {
		ce, ok := unparen(d.rhs).(*ast.CallExpr)
		if !ok || d.idx != 0 {
			return false
		}
		id, ok := unparen(ce.Fun).(*ast.Ident)
		if !ok || id.Name != v {
			return false
		}
		_, isVar := info.Uses[id].(*types.Var)
		return isVar
	}
}

// defIsBoolLiteralThenSet: a flag initialised with a boolean constant.
func defIsConstBool(info *types.Info, d localDef) bool {
	_, ok := constBool(info, d.rhs)
	return ok
}

// chainNodes returns the call expression together with the defining expressions of the locals its
// receiver chain is rooted at (x := a.B(..); x.C(..) is the chain a.B(..).C(..)).
func chainNodes(f *FuncSrc, call *ast.CallExpr) []ast.Node {
	out := []ast.Node{call}
	seen := map[string]bool{}
	var follow func(e ast.Expr, depth int)
	follow = func(e ast.Expr, depth int) {
		if depth > 6 {
			return
		}
		for {
			switch x := unparen(e).(type) {
			case *ast.CallExpr:
				if sel, ok := x.Fun.(*ast.SelectorExpr); ok {
					e = sel.X
					continue
				}
				return
			case *ast.SelectorExpr:
				e = x.X
				continue
			case *ast.Ident:
				if _, isVar := f.Pkg.TypesInfo.Uses[x].(*types.Var); !isVar || seen[x.Name] {
					return
				}
				seen[x.Name] = true
				// only single-definition locals extend the chain: with several definitions "some
				// definition has the property" would not mean the value used here has it
				if ds := localDefs(f, x.Name, x.Pos()); len(ds) == 1 {
					out = append(out, ds[0].rhs)
					follow(ds[0].rhs, depth+1)
				}
				return
			default:
				return
			}
		}
	}
	follow(call, 0)
	return out
}
