package main

// Table-driven self-tests of the guard-fact engine, the implication analysis
// and the path enumerator on synthetic Go snippets (type-checked in memory,
// no imports).  Run: gormverif selftest

import (
	"fmt"
	"go/ast"
	"go/importer"
	"go/parser"
	"go/token"
	"go/types"
	"strings"

	"golang.org/x/tools/go/packages"
)

type guardCase struct {
	name   string
	src    string   // body of package p; the function under test is f
	marker string   // the site is the call of a function with this name
	want   []string // facts that must hold at the site
	absent []string // facts that must NOT hold
}

const selftestPrelude = `package p
type DB struct{ Error error; DryRun bool; Stmt *Stmt }
type Stmt struct{ SkipHooks bool; N int }
func site()  {}
func other() {}
func kill(db *DB) {}
func cond() bool { return true }
`

var guardCases = []guardCase{
	{"if-form", `func f(db *DB) { if db.Error == nil { site() } }`, "site", []string{"N:db.Error"}, nil},
	{"early-return", `func f(db *DB) { if db.Error != nil { return }; site() }`, "site", []string{"N:db.Error"}, nil},
	{"and", `func f(db *DB) { if db.Error == nil && !db.DryRun { site() } }`, "site", []string{"N:db.Error", "F:db.DryRun"}, nil},
	{"or-early-return", `func f(db *DB) { if db.DryRun || db.Error != nil { return }; site() }`, "site", []string{"N:db.Error", "F:db.DryRun"}, nil},
	{"or-true-gives-nothing-atomic", `func f(db *DB) { if db.DryRun || db.Error != nil { site() } }`, "site", []string{"T:db.DryRun || db.Error != nil"}, []string{"T:db.DryRun", "NN:db.Error"}},
	{"single-assignment-bool", `func f(db *DB) { ok := !db.DryRun && db.Error == nil; if !ok { return }; site() }`, "site", []string{"N:db.Error", "F:db.DryRun"}, nil},
	{"bool-reassigned-no-implication", `func f(db *DB) { ok := !db.DryRun; ok = cond(); if !ok { return }; site() }`, "site", nil, []string{"F:db.DryRun"}},
	{"tagless-switch", `func f(db *DB) { switch { case db.Error != nil: return; case db.DryRun: return }; site() }`, "site", []string{"N:db.Error", "F:db.DryRun"}, nil},
	{"tagged-switch", `func f(db *DB) { switch db.Stmt.N { case 1: site() } }`, "site", []string{"T:db.Stmt.N == 1"}, nil},
	{"kill-by-assignment", `func f(db *DB) { if db.Error != nil { return }; db.Error = nil; db = nil; site() }`, "site", nil, []string{"N:db.Error"}},
	{"kill-prefix", `func f(db *DB) { if db.Stmt.SkipHooks { return }; db.Stmt = nil; site() }`, "site", nil, []string{"F:db.Stmt.SkipHooks"}},
	{"shadowed-name-does-not-kill", `func f(db *DB) { ok := cond(); if !ok { return }; { ok := cond(); _ = ok }; site() }`, "site", []string{"T:ok"}, nil},
	{"join-loses-one-sided-fact", `func f(db *DB) { if cond() { if db.Error != nil { return } }; site() }`, "site", nil, []string{"N:db.Error"}},
	{"called-fact", `func f(db *DB) { other(); site() }`, "site", []string{"C:p.other"}, nil},
	{"called-fact-one-branch", `func f(db *DB) { if cond() { other() }; site() }`, "site", nil, []string{"C:p.other"}},
	{"short-circuit-rhs", `func f(db *DB) bool { return db.Error == nil && sitev() }
func sitev() bool { return true }`, "sitev", []string{"N:db.Error"}, nil},
	{"len-canonical", `func f(xs []int) { if len(xs) > 0 { site() } }`, "site", []string{"F:len(xs) == 0"}, nil},
	{"append-makes-nonempty", `func f(xs []int) { xs = append(xs, 1); site() }`, "site", []string{"F:len(xs) == 0"}, nil},
	{"implication-at-merge", `func f(db *DB) { if db.Error == nil || db.DryRun { other() }; if db.DryRun { site() } }`, "site", []string{"C:p.other"}, nil},
	{"implication-survives-loop", `func f(db *DB, n int) { if db.Stmt != nil { other() }; for i := 0; i < n; i++ { cond() }; if db.Stmt != nil { site() } }`, "site", []string{"C:p.other"}, nil},
	{"implication-killed", `func f(db *DB) { if db.Stmt != nil { other() }; db.Stmt = &Stmt{}; if db.Stmt != nil { site() } }`, "site", nil, []string{"C:p.other"}},
	{"predicate-helper-inlined", `func pred(d *DB) bool { return d.Error == nil && !d.DryRun }
func f(db *DB) { if pred(db) { site() } }`, "site", []string{"N:db.Error", "F:db.DryRun"}, nil},
	{"predicate-helper-negated", `func skip(d *DB) bool { return d.DryRun || d.Error != nil }
func f(db *DB) { if skip(db) { return }; site() }`, "site", []string{"N:db.Error", "F:db.DryRun"}, nil},
	{"predicate-fact-killed", `func pred(d *DB) bool { return d.Error == nil }
func f(db *DB) { if !pred(db) { return }; kill(db); site() }`, "site", nil, []string{"N:db.Error"}},
	{"if-init-snapshot-of-path", `func f(db *DB) { if e := db.Error; e != nil { return }; site() }`, "site", []string{"N:db.Error"}, nil},
	{"if-init-snapshot-killed", `func f(db *DB) { if e := db.Error; e != nil { return }; kill(db); site() }`, "site", nil, []string{"N:db.Error"}},
	{"snapshot-local-of-path", `func f(db *DB) { err := db.Error; if err != nil { return }; site() }`, "site", []string{"N:db.Error", "N:err"}, nil},
	{"snapshot-stale-after-write", `func f(db *DB) { err := db.Error; db.Error = nil; db = nil; if err != nil { return }; site() }`, "site", []string{"N:err"}, []string{"N:db.Error"}},
	{"call-kills-config", `func f(db *DB) { if db.Error != nil { return }; kill(db); site() }`, "site", nil, []string{"N:db.Error"}},
}

func typecheckSnippet(src string) (*packages.Package, *token.FileSet, error) {
	fset := token.NewFileSet()
	file, err := parser.ParseFile(fset, "snippet.go", selftestPrelude+src, 0)
	if err != nil {
		return nil, nil, err
	}
	info := &types.Info{Types: map[ast.Expr]types.TypeAndValue{}, Defs: map[*ast.Ident]types.Object{}, Uses: map[*ast.Ident]types.Object{}, Selections: map[*ast.SelectorExpr]*types.Selection{}, Implicits: map[ast.Node]types.Object{}, Scopes: map[ast.Node]*types.Scope{}}
	conf := types.Config{Importer: importer.Default()}
	pkg, err := conf.Check("p", fset, []*ast.File{file}, info)
	if err != nil {
		return nil, nil, err
	}
	return &packages.Package{PkgPath: "p", Types: pkg, TypesInfo: info, Syntax: []*ast.File{file}, Fset: fset}, fset, nil
}

func snippetFunc(pk *packages.Package, name string) *FuncSrc {
	for _, d := range pk.Syntax[0].Decls {
		if fd, ok := d.(*ast.FuncDecl); ok && fd.Name.Name == name {
			obj, _ := pk.TypesInfo.Defs[fd.Name].(*types.Func)
			return &FuncSrc{Pkg: pk, Decl: fd, Obj: obj, Body: fd.Body, Type: fd.Type, name: "p." + name}
		}
	}
	return nil
}

func runSelftest() int {
	fails := 0
	p := &Program{}
	conf := &GuardConfig{Name: "selftest", CallKills: func(info *types.Info, call *ast.CallExpr) []string {
		if calleeName(info, call) == "p.kill" && len(call.Args) == 1 {
			if pth, ok := selectorPath(info, call.Args[0]); ok {
				return []string{pth + ".Error"}
			}
		}
		return nil
	}}
	for _, tc := range guardCases {
		pk, fset, err := typecheckSnippet(tc.src)
		if err != nil {
			fmt.Printf("FAIL %-34s snippet does not type-check: %v\n", tc.name, err)
			fails++
			continue
		}
		p.Fset = fset
		p.byObj = map[*types.Func]*FuncSrc{}
		for _, d := range pk.Syntax[0].Decls {
			if fd, ok := d.(*ast.FuncDecl); ok && fd.Body != nil {
				if sf := snippetFunc(pk, fd.Name.Name); sf != nil && sf.Obj != nil {
					p.byObj[sf.Obj] = sf
				}
			}
		}
		f := snippetFunc(pk, "f")
		var site *ast.CallExpr
		for _, call := range callsIn(f) {
			if id, ok := call.Fun.(*ast.Ident); ok && id.Name == tc.marker {
				site = call
			}
		}
		if site == nil {
			fmt.Printf("FAIL %-34s no site\n", tc.name)
			fails++
			continue
		}
		guardCache = map[string]*guardState{}
		facts, live := p.Guards(f, conf).At(site.Pos())
		ok := live
		var problems []string
		for _, w := range tc.want {
			if !facts.Has(w) {
				ok = false
				problems = append(problems, "missing "+w)
			}
		}
		for _, a := range tc.absent {
			if facts.Has(a) {
				ok = false
				problems = append(problems, "unexpected "+a)
			}
		}
		if ok {
			fmt.Printf("ok   %-34s\n", tc.name)
		} else {
			fails++
			fmt.Printf("FAIL %-34s %s | facts: %s\n", tc.name, strings.Join(problems, "; "), strings.Join(facts.List(), ", "))
		}
	}
	// path enumeration
	type pathCase struct {
		name      string
		src       string
		wantPaths int
		mustFact  string // a fact every path that calls site() must carry
	}
	pcases := []pathCase{
		{"paths: split false(A&&B)", `func f(db *DB) { if db.Error == nil && !db.DryRun { site(); return }; other() }`, 3, "N:db.Error"},
		{"paths: infeasible pruned", `func f(db *DB) { a := db.DryRun; if a { other() }; if !a { site() } }`, 2, "F:db.DryRun"},
		{"paths: comma-ok atoms", `func f(m map[string]int) { _, ok := m["k"]; if ok { site() } }`, 2, `T:has(m["k"])`},
	}
	for _, pc := range pcases {
		pk, fset, err := typecheckSnippet(pc.src)
		if err != nil {
			fmt.Printf("FAIL %-34s %v\n", pc.name, err)
			fails++
			continue
		}
		p.Fset = fset
		p.RepoDir = ""
		f := snippetFunc(pk, "f")
		paths, ok := p.EnumPaths(f, nil, 100)
		good := ok && len(paths) == pc.wantPaths
		for _, pr := range paths {
			calls := false
			for _, n := range pr.Nodes {
				if containsCallTo(pk.TypesInfo, n, "p.site") != nil {
					calls = true
				}
			}
			if calls && !pr.Facts.Has(pc.mustFact) {
				good = false
			}
		}
		if good {
			fmt.Printf("ok   %-34s (%d paths)\n", pc.name, len(paths))
		} else {
			fails++
			fmt.Printf("FAIL %-34s got %d paths\n", pc.name, len(paths))
			for _, pr := range paths {
				fmt.Printf("       %s\n", strings.Join(pr.Facts.List(), ", "))
			}
		}
	}
	if fails > 0 {
		fmt.Printf("selftest: %d failures\n", fails)
		return 1
	}
	fmt.Println("selftest: all ok")
	return 0
}
