package main

func init() {
	addMutants(
		Mutant{Name: "c08-update-clauses-not-applied", Property: "C08", Rule: "C08.apply", Edits: []Edit{{"callbacks/update.go",
			"\t\tif db.Statement.Schema != nil {\n\t\t\tfor _, c := range db.Statement.Schema.UpdateClauses {\n\t\t\t\tdb.Statement.AddClause(c)\n\t\t\t}\n\t\t}\n\n", ""}}},
		Mutant{Name: "c08-delete-clauses-applied-after-build", Property: "C08", Rule: "C08.apply", Edits: []Edit{
			{"callbacks/delete.go", "\t\tif db.Statement.Schema != nil {\n\t\t\tfor _, c := range db.Statement.Schema.DeleteClauses {\n\t\t\t\tdb.Statement.AddClause(c)\n\t\t\t}\n\t\t}\n\n\t\tif db.Statement.SQL.Len() == 0 {", "\t\tif db.Statement.SQL.Len() == 0 {"},
			{"callbacks/delete.go", "\t\tcheckMissingWhereConditions(db)\n\n\t\tif !db.DryRun && db.Error == nil {\n\t\t\tok, mode := hasReturning(db, supportReturning)", "\t\tif db.Statement.Schema != nil {\n\t\t\tfor _, c := range db.Statement.Schema.DeleteClauses {\n\t\t\t\tdb.Statement.AddClause(c)\n\t\t\t}\n\t\t}\n\t\tcheckMissingWhereConditions(db)\n\n\t\tif !db.DryRun && db.Error == nil {\n\t\t\tok, mode := hasReturning(db, supportReturning)"}}},
		Mutant{Name: "c08-query-clauses-only-without-joins", Property: "C08", Rule: "C08.apply", Edits: []Edit{{"callbacks/query.go",
			"\tif db.Statement.Schema != nil {\n\t\tfor _, c := range db.Statement.Schema.QueryClauses {", "\tif db.Statement.Schema != nil && len(db.Statement.Joins) == 0 {\n\t\tfor _, c := range db.Statement.Schema.QueryClauses {"}}},
		Mutant{Name: "c08-join-on-without-filter", Property: "C08", Rule: "C08.apply", Edits: []Edit{{"callbacks/query.go",
			"\t\t\t\t\t\t\t\tfor _, c := range relation.FieldSchema.QueryClauses {\n\t\t\t\t\t\t\t\t\tonStmt.AddClause(c)\n\t\t\t\t\t\t\t\t}\n", ""}}},
		Mutant{Name: "c08-association-jointable-filter-dropped", Property: "C08", Rule: "C08.apply", Edits: []Edit{{"association.go",
			"\t\t\tfor _, queryClause := range association.Relationship.JoinTable.QueryClauses {\n\t\t\t\tjoinStmt.AddClause(queryClause)\n\t\t\t}\n", ""}}},
		Mutant{Name: "c08-rowquery-bypasses-buildquerysql", Property: "C08", Rule: "C08.apply", Edits: []Edit{{"callbacks/row.go",
			"\t\tBuildQuerySQL(db)\n", "\t\tif db.Statement.SQL.Len() == 0 {\n\t\t\tdb.Statement.AddClauseIfNotExists(clause.From{})\n\t\t\tdb.Statement.AddClauseIfNotExists(clause.Select{})\n\t\t\tdb.Statement.Build(db.Statement.BuildClauses...)\n\t\t}\n"},
			{"callbacks/row.go", "import (\n\t\"gorm.io/gorm\"\n)", "import (\n\t\"gorm.io/gorm\"\n\t\"gorm.io/gorm/clause\"\n)"}}},
		Mutant{Name: "c08-preloaddb-forces-unscoped", Property: "C08", Rule: "C08.unscoped-writers", Edits: []Edit{{"callbacks/preload.go",
			"\ttx.Statement.ReflectValue = reflectValue\n\ttx.Statement.Unscoped = db.Statement.Unscoped\n\treturn tx", "\ttx.Statement.ReflectValue = reflectValue\n\ttx.Statement.Unscoped = true\n\treturn tx"}}},
		Mutant{Name: "c08-preload-loses-unscoped", Property: "C08", Rule: "C08.unscoped-writers", Edits: []Edit{{"callbacks/preload.go",
			"\t\t\t\ttx.Statement.ReflectValue = db.Statement.ReflectValue\n\t\t\t\ttx.Statement.Unscoped = db.Statement.Unscoped\n", "\t\t\t\ttx.Statement.ReflectValue = db.Statement.ReflectValue\n"}}},
		Mutant{Name: "c08-association-delete-always-unscoped", Property: "C08", Rule: "C08.unscoped-writers", Edits: []Edit{{"callbacks/delete.go",
			"\t\t\t\tif db.Statement.Unscoped {\n\t\t\t\t\ttx = tx.Unscoped()\n\t\t\t\t}", "\t\t\t\ttx = tx.Unscoped()"}}},
		Mutant{Name: "c08-filter-before-regroup", Property: "C08", Rule: "C08.regroup", Edits: []Edit{
			{"soft_delete.go", "\tif _, ok := stmt.Clauses[\"soft_delete_enabled\"]; !ok && !stmt.Statement.Unscoped {\n\t\tif c, ok := stmt.Clauses[\"WHERE\"]; ok {",
				"\tif _, ok := stmt.Clauses[\"soft_delete_enabled\"]; !ok && !stmt.Statement.Unscoped {\n\t\tstmt.AddClause(clause.Where{Exprs: []clause.Expression{\n\t\t\tclause.Eq{Column: clause.Column{Table: clause.CurrentTable, Name: sd.Field.DBName}, Value: sd.ZeroValue},\n\t\t}})\n\t\tif c, ok := stmt.Clauses[\"WHERE\"]; ok {"},
			{"soft_delete.go", "\t\t}\n\n\t\tstmt.AddClause(clause.Where{Exprs: []clause.Expression{\n\t\t\tclause.Eq{Column: clause.Column{Table: clause.CurrentTable, Name: sd.Field.DBName}, Value: sd.ZeroValue},\n\t\t}})\n\t\tstmt.Clauses[\"soft_delete_enabled\"] = clause.Clause{}", "\t\t}\n\n\t\tstmt.Clauses[\"soft_delete_enabled\"] = clause.Clause{}"}}},
		Mutant{Name: "c08-regroup-removed", Property: "C08", Rule: "C08.regroup", Edits: []Edit{{"soft_delete.go",
			"\t\t\t\t\tif orCond, ok := expr.(clause.OrConditions); ok && len(orCond.Exprs) == 1 {\n\t\t\t\t\t\twhere.Exprs = []clause.Expression{clause.And(where.Exprs...)}\n\t\t\t\t\t\tc.Expression = where\n\t\t\t\t\t\tstmt.Clauses[\"WHERE\"] = c\n\t\t\t\t\t\tbreak\n\t\t\t\t\t}",
			"\t\t\t\t\tif orCond, ok := expr.(clause.OrConditions); ok && len(orCond.Exprs) == 1 {\n\t\t\t\t\t\tbreak\n\t\t\t\t\t}"}}},
		Mutant{Name: "c08-filter-even-when-unscoped", Property: "C08", Rule: "C08.regroup", Edits: []Edit{{"soft_delete.go",
			"if _, ok := stmt.Clauses[\"soft_delete_enabled\"]; !ok && !stmt.Statement.Unscoped {", "if _, ok := stmt.Clauses[\"soft_delete_enabled\"]; !ok {"}}},
		Mutant{Name: "c08-soft-delete-without-filter", Property: "C08", Rule: "C08.delete-rewrite", Edits: []Edit{{"soft_delete.go",
			"\t\tSoftDeleteQueryClause(sd).ModifyStatement(stmt)\n\t\tstmt.AddClauseIfNotExists(clause.Update{})", "\t\tstmt.AddClauseIfNotExists(clause.Update{})"}}},
		Mutant{Name: "c08-soft-delete-also-when-unscoped", Property: "C08", Rule: "C08.delete-rewrite", Edits: []Edit{{"soft_delete.go",
			"func (sd SoftDeleteDeleteClause) ModifyStatement(stmt *Statement) {\n\tif stmt.SQL.Len() == 0 && !stmt.Statement.Unscoped {", "func (sd SoftDeleteDeleteClause) ModifyStatement(stmt *Statement) {\n\tif stmt.SQL.Len() == 0 {"}}},
		Mutant{Name: "c08-update-modifier-no-filter", Property: "C08", Rule: "C08.delete-rewrite", Edits: []Edit{{"soft_delete.go",
			"func (sd SoftDeleteUpdateClause) ModifyStatement(stmt *Statement) {\n\tif stmt.SQL.Len() == 0 && !stmt.Statement.Unscoped {\n\t\tSoftDeleteQueryClause(sd).ModifyStatement(stmt)\n\t}", "func (sd SoftDeleteUpdateClause) ModifyStatement(stmt *Statement) {"}}},
		Mutant{Name: "c08-delete-executor-rebuilds-over-rewrite", Property: "C08", Rule: "C08.delete-rewrite", Edits: []Edit{{"callbacks/delete.go",
			"\t\tif db.Statement.SQL.Len() == 0 {\n\t\t\tdb.Statement.SQL.Grow(100)", "\t\tif db.Statement.SQL.Len() == 0 || db.Statement.Unscoped {\n\t\t\tdb.Statement.SQL.Grow(100)"}}},
	)
}
