package main

func init() {
	addMutants(
		Mutant{Name: "c09-update-guard-inside-build-block", Property: "C09", Rule: "C09.dominates", Edits: []Edit{{"callbacks/update.go",
			"\t\t\tdb.Statement.Build(db.Statement.BuildClauses...)\n\t\t}\n\n\t\tcheckMissingWhereConditions(db)\n",
			"\t\t\tcheckMissingWhereConditions(db)\n\t\t\tdb.Statement.Build(db.Statement.BuildClauses...)\n\t\t}\n"}}},
		Mutant{Name: "c09-delete-error-tested-before-guard", Property: "C09", Rule: "C09.dominates", Edits: []Edit{{"callbacks/delete.go",
			"\t\tcheckMissingWhereConditions(db)\n\n\t\tif !db.DryRun && db.Error == nil {",
			"\t\tif db.Error != nil {\n\t\t\treturn\n\t\t}\n\t\tcheckMissingWhereConditions(db)\n\n\t\tif !db.DryRun {"}}},
		Mutant{Name: "c09-guard-counts-softdelete-filter", Property: "C09", Rule: "C09.decision", Edits: []Edit{{"callbacks/helper.go", "withCondition = len(whereClause.Exprs) > 1", "withCondition = len(whereClause.Exprs) > 0"}}},
		Mutant{Name: "c09-guard-wrong-marker", Property: "C09", Rule: "C09.decision", Edits: []Edit{{"callbacks/helper.go", `db.Statement.Clauses["soft_delete_enabled"]; withSoftDelete`, `db.Statement.Clauses["soft_delete"]; withSoftDelete`}}},
		Mutant{Name: "c09-guard-allowglobal-inverted", Property: "C09", Rule: "C09.decision", Edits: []Edit{{"callbacks/helper.go", "if !db.AllowGlobalUpdate && db.Error == nil {", "if db.AllowGlobalUpdate && db.Error == nil {"}}},
		Mutant{Name: "c09-guard-ignores-marker", Property: "C09", Rule: "C09.decision", Edits: []Edit{{"callbacks/helper.go",
			"\t\t\tif _, withSoftDelete := db.Statement.Clauses[\"soft_delete_enabled\"]; withSoftDelete {\n\t\t\t\twhereClause, _ := where.Expression.(clause.Where)\n\t\t\t\twithCondition = len(whereClause.Exprs) > 1\n\t\t\t}\n",
			"\t\t\twhereClause, _ := where.Expression.(clause.Where)\n\t\t\twithCondition = len(whereClause.Exprs) > 0\n"}}},
		Mutant{Name: "c09-or-nil-check-instead-of-len", Property: "C09", Rule: "C09.empty", Edits: []Edit{{"chainable_api.go",
			"if conds := tx.Statement.BuildCondition(query, args...); len(conds) > 0 {\n\t\ttx.Statement.AddClause(clause.Where{Exprs: []clause.Expression{clause.Or(",
			"if conds := tx.Statement.BuildCondition(query, args...); conds != nil {\n\t\ttx.Statement.AddClause(clause.Where{Exprs: []clause.Expression{clause.Or("}}},
		Mutant{Name: "c09-update-pk-where-unconditional", Property: "C09", Rule: "C09.empty", Edits: []Edit{{"callbacks/update.go",
			"if value, isZero := field.ValueOf(stmt.Context, stmt.ReflectValue); !isZero {\n\t\t\t\t\tstmt.AddClause(",
			"if value, isZero := field.ValueOf(stmt.Context, stmt.ReflectValue); !isZero || stmt.Unscoped {\n\t\t\t\t\tstmt.AddClause("}}},
		Mutant{Name: "c09-delete-pk-where-unguarded", Property: "C09", Rule: "C09.empty", Edits: []Edit{{"callbacks/delete.go",
			"\t\t\t\tif len(values) > 0 {\n\t\t\t\t\tdb.Statement.AddClause(clause.Where{Exprs: []clause.Expression{clause.IN{Column: column, Values: values}}})\n\t\t\t\t}\n\n\t\t\t\tif db.Statement.ReflectValue.CanAddr()",
			"\t\t\t\tdb.Statement.AddClause(clause.Where{Exprs: []clause.Expression{clause.IN{Column: column, Values: values}}})\n\n\t\t\t\tif db.Statement.ReflectValue.CanAddr()"}}},
		Mutant{Name: "c09-buildcondition-empty-string-kept", Property: "C09", Rule: "C09.empty", Edits: []Edit{{"statement.go",
			"\t\t\tif s == \"\" && len(args) == 0 {\n\t\t\t\treturn nil\n\t\t\t}\n\n", ""}}},
		Mutant{Name: "c09-softdelete-marker-not-stored", Property: "C09", Rule: "C09.marker", Edits: []Edit{{"soft_delete.go", "\t\tstmt.Clauses[\"soft_delete_enabled\"] = clause.Clause{}\n", ""}}},
	)
}

func init() {
	addMutants(
		Mutant{Name: "c09-delete-guard-before-key-conditions", Property: "C09", Rule: "C09.order", Edits: []Edit{
			{"callbacks/delete.go", "\t\tcheckMissingWhereConditions(db)\n\n\t\tif !db.DryRun && db.Error == nil {\n\t\t\tok, mode := hasReturning(db, supportReturning)", "\t\tif !db.DryRun && db.Error == nil {\n\t\t\tok, mode := hasReturning(db, supportReturning)"},
			{"callbacks/delete.go", "\t\tif db.Statement.SQL.Len() == 0 {\n\t\t\tdb.Statement.SQL.Grow(100)", "\t\tcheckMissingWhereConditions(db)\n\n\t\tif db.Statement.SQL.Len() == 0 {\n\t\t\tdb.Statement.SQL.Grow(100)"}},
			Note: "db.Delete(&user) with a primary key is rejected: the guard runs before the key condition is added"},
	)
}
