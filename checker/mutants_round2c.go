package main

// Hand mutants and behaviour-preserving edits for the rules added after seed round 2 (batch C).

func init() {
	addMutants(
		Mutant{Name: "c19-getinstance-skips-clone-in-dry-run", Property: "C19", Rule: "C19.readers", Edits: []Edit{{"gorm.go",
			"\t\t} else {\n\t\t\t// with clone statement\n\t\t\ttx.Statement = db.Statement.clone()\n\t\t\ttx.Statement.DB = tx\n", "\t\t} else if db.DryRun {\n\t\t\ttx.Statement = db.Statement.clone()\n\t\t\ttx.Statement.DB = tx\n\t\t\ttx.Statement.Vars = nil\n\t\t} else {\n\t\t\t// with clone statement\n\t\t\ttx.Statement = db.Statement.clone()\n\t\t\ttx.Statement.DB = tx\n"}},
			Note: "dry-run chains share the parent's statement"},
		Mutant{Name: "c19-addclause-differs-in-dry-run", Property: "C19", Rule: "C19.readers", Edits: []Edit{{"statement.go",
			"func (stmt *Statement) AddClauseIfNotExists(v clause.Interface) {\n\tif c, ok := stmt.Clauses[v.Name()]; !ok || c.Expression == nil {", "func (stmt *Statement) AddClauseIfNotExists(v clause.Interface) {\n\tif c, ok := stmt.Clauses[v.Name()]; !ok || c.Expression == nil || stmt.DB.DryRun {"}}},
		Mutant{Name: "c18-session-context-before-clone", Property: "C18", Rule: "C18.derive", Edits: []Edit{{"gorm.go",
			"\tif config.Context != nil || config.PrepareStmt || config.SkipHooks {\n\t\ttx.Statement = tx.Statement.clone()\n\t\ttx.Statement.DB = tx\n\t}\n\n\tif config.Context != nil {\n\t\ttx.Statement.Context = config.Context\n\t}\n",
			"\tif config.Context != nil {\n\t\ttx.Statement.Context = config.Context\n\t}\n\n\tif config.Context != nil || config.PrepareStmt || config.SkipHooks {\n\t\ttx.Statement = tx.Statement.clone()\n\t\ttx.Statement.DB = tx\n\t}\n"}}},
		Mutant{Name: "c20-comparer-ignores-parsed-default", Property: "C20", Rule: "C20.default-agree", Edits: []Edit{{"migrator/migrator.go",
			"currentDefaultNotNull := field.HasDefaultValue && (field.DefaultValueInterface != nil || !strings.EqualFold(field.DefaultValue, \"NULL\"))", "currentDefaultNotNull := field.HasDefaultValue && field.DefaultValue != \"\" && !strings.EqualFold(field.DefaultValue, \"NULL\")"}}},
		Mutant{Name: "c20-writer-skips-default-for-not-null", Property: "C20", Rule: "C20.default-agree", Edits: []Edit{{"migrator/migrator.go",
			"\tif field.HasDefaultValue && (field.DefaultValueInterface != nil || field.DefaultValue != \"\") {", "\tif field.HasDefaultValue && !field.NotNull && (field.DefaultValueInterface != nil || field.DefaultValue != \"\") {"}}},

		Mutant{Name: "c07-relation-phase-writes-field-meta", Property: "C07", Rule: "C07.field-meta", Edits: []Edit{{"schema/relationship.go",
			"func (schema *Schema) parseRelation(field *Field) *Relationship {\n\tvar (", "func (schema *Schema) parseRelation(field *Field) *Relationship {\n\tfield.IgnoreMigration = field.IgnoreMigration || field.Comment == \"-\"\n\tvar ("}},
			Note: "parseRelation runs after the schema was published"},
		Mutant{Name: "c07-autoincrement-flags-set-after-publication", Property: "C07", Rule: "C07.field-meta", Edits: []Edit{
			{"schema/schema.go", "\t\t\t\tfield.HasDefaultValue = true\n\t\t\t\tfield.AutoIncrement = true\n", ""},
			{"schema/schema.go", "\tif _, embedded := schema.cacheStore.Load(embeddedCacheKey); !embedded {\n\t\tfor _, field := range schema.Fields {", "\tif pf := schema.PrioritizedPrimaryField; pf != nil && (pf.GORMDataType == Int || pf.GORMDataType == Uint) {\n\t\tif _, ok := pf.TagSettings[\"AUTOINCREMENT\"]; !ok {\n\t\t\tpf.HasDefaultValue = true\n\t\t\tpf.AutoIncrement = true\n\t\t}\n\t}\n\tif _, embedded := schema.cacheStore.Load(embeddedCacheKey); !embedded {\n\t\tfor _, field := range schema.Fields {"}}},
		Mutant{Name: "n27-autoincrement-flags-in-helper-before-publication", Property: "*", Rule: "NEUTRAL", Edits: []Edit{
			{"schema/schema.go", "\t\t\t\tfield.HasDefaultValue = true\n\t\t\t\tfield.AutoIncrement = true\n", "\t\t\t\tmarkAutoIncrement(field)\n"},
			{"schema/schema.go", "// Parse get data type from dialector\n", "func markAutoIncrement(field *Field) {\n\tfield.HasDefaultValue = true\n\tfield.AutoIncrement = true\n}\n\n// Parse get data type from dialector\n"}}},
		Mutant{Name: "c06-clone-preloads-copied-only-with-schema", Property: "C06", Rule: "C06.clone", Edits: []Edit{{"statement.go",
			"\tfor k, p := range stmt.Preloads {\n\t\tnewStmt.Preloads[k] = p\n\t}\n", "\tif stmt.Schema != nil {\n\t\tfor k, p := range stmt.Preloads {\n\t\t\tnewStmt.Preloads[k] = p\n\t\t}\n\t}\n"}}},
		Mutant{Name: "c06-clone-joins-copied-unless-unscoped", Property: "C06", Rule: "C06.clone", Edits: []Edit{{"statement.go",
			"\tif len(stmt.Joins) > 0 {\n\t\tnewStmt.Joins = make(", "\tif len(stmt.Joins) > 0 && !stmt.Unscoped {\n\t\tnewStmt.Joins = make("}}},
		Mutant{Name: "c19-clone-raw-sql-dropped-with-skiphooks", Property: "C19", Rule: "C19.keep", Edits: []Edit{{"statement.go",
			"\tif stmt.SQL.Len() > 0 {\n\t\tnewStmt.SQL.WriteString(", "\tif stmt.SQL.Len() > 0 && !stmt.SkipHooks {\n\t\tnewStmt.SQL.WriteString("}}},
		Mutant{Name: "c06-clone-raw-vars-not-copied", Property: "C06", Rule: "C06.clone", Edits: []Edit{{"statement.go",
			"\t\tnewStmt.Vars = append(newStmt.Vars, stmt.Vars...)\n", ""}}},
		Mutant{Name: "n28-clone-guards-spelled-differently", Property: "*", Rule: "NEUTRAL", Edits: []Edit{
			{"statement.go", "\tif stmt.SQL.Len() > 0 {\n\t\tnewStmt.SQL.WriteString(", "\tif stmt.SQL.Len() != 0 {\n\t\tnewStmt.SQL.WriteString("},
			{"statement.go", "\tif len(stmt.Joins) > 0 {\n\t\tnewStmt.Joins = make([]join, len(stmt.Joins))", "\tif stmt.Joins != nil {\n\t\tnewStmt.Joins = make([]join, len(stmt.Joins))"}}},
		Mutant{Name: "n24-dry-run-guard-through-predicate", Property: "*", Rule: "NEUTRAL", Edits: []Edit{
			{"callbacks/raw.go", "\tif db.Error == nil && !db.DryRun {", "\tif shouldSend(db) {"},
			{"callbacks/raw.go", "func RawExec(db *gorm.DB) {", "func shouldSend(db *gorm.DB) bool { return db.Error == nil && !db.DryRun }\n\nfunc RawExec(db *gorm.DB) {"}}},
		Mutant{Name: "n25-default-emission-restructured", Property: "*", Rule: "NEUTRAL", Edits: []Edit{{"migrator/migrator.go",
			"\tif field.HasDefaultValue && (field.DefaultValueInterface != nil || field.DefaultValue != \"\") {\n\t\tif field.DefaultValueInterface != nil {",
			"\tif !field.HasDefaultValue {\n\t\treturn\n\t}\n\tif field.DefaultValueInterface != nil || field.DefaultValue != \"\" {\n\t\tif field.DefaultValueInterface != nil {"}}},
		Mutant{Name: "n26-session-context-store-inside-clone-arm", Property: "*", Rule: "NEUTRAL", Edits: []Edit{{"gorm.go",
			"\tif config.Context != nil || config.PrepareStmt || config.SkipHooks {\n\t\ttx.Statement = tx.Statement.clone()\n\t\ttx.Statement.DB = tx\n\t}\n\n\tif config.Context != nil {\n\t\ttx.Statement.Context = config.Context\n\t}\n",
			"\tif config.Context != nil || config.PrepareStmt || config.SkipHooks {\n\t\ttx.Statement = tx.Statement.clone()\n\t\ttx.Statement.DB = tx\n\t\tif config.Context != nil {\n\t\t\ttx.Statement.Context = config.Context\n\t\t}\n\t}\n"}}},
	)
}
