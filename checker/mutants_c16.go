package main

func init() {
	addMutants(
		Mutant{Name: "c16-clone-drops-attrs-again", Property: "C16", Rule: "C16.carry", Edits: []Edit{{"statement.go", "\t\tattrs:                stmt.attrs,\n", ""}}, Note: "reverts fix fddbe69"},
		Mutant{Name: "c16-clone-drops-assigns-again", Property: "C16", Rule: "C16.carry", Edits: []Edit{{"statement.go", "\t\tassigns:              stmt.assigns,\n", ""}}, Note: "reverts fix fddbe69"},
		Mutant{Name: "c16-attrs-stored-on-receiver", Property: "C16", Rule: "C16.carry", Edits: []Edit{{"chainable_api.go", "tx = db.getInstance()\n\ttx.Statement.attrs = attrs", "tx = db.getInstance()\n\tdb.Statement.attrs = attrs"}}},
		Mutant{Name: "c16-firstorinit-saves", Property: "C16", Rule: "C16.init-readonly", Edits: []Edit{{"finisher_api.go",
			"\t\tif len(tx.Statement.attrs) > 0 {\n\t\t\ttx.assignInterfacesToValue(tx.Statement.attrs...)\n\t\t}\n\t}\n\n\t// initialize with attrs, conds\n\tif len(tx.Statement.assigns) > 0 {\n\t\ttx.assignInterfacesToValue(tx.Statement.assigns...)\n\t}\n\treturn\n}",
			"\t\tif len(tx.Statement.attrs) > 0 {\n\t\t\ttx.assignInterfacesToValue(tx.Statement.attrs...)\n\t\t}\n\t}\n\n\t// initialize with attrs, conds\n\tif len(tx.Statement.assigns) > 0 {\n\t\ttx.assignInterfacesToValue(tx.Statement.assigns...)\n\t\ttx.Session(&Session{NewDB: true}).Save(dest)\n\t}\n\treturn\n}"}}},
		Mutant{Name: "c16-firstorcreate-create-and-update", Property: "C16", Rule: "C16.one-write", Edits: []Edit{{"finisher_api.go",
			"\t\treturn tx.Create(dest)\n\t} else if len(db.Statement.assigns) > 0 {", "\t\ttx.Create(dest)\n\t\treturn tx.Model(dest).Updates(map[string]interface{}{})\n\t} else if len(db.Statement.assigns) > 0 {"}}},
		Mutant{Name: "c16-firstorcreate-ignores-lookup-error", Property: "C16", Rule: "C16.one-write", Edits: []Edit{{"finisher_api.go",
			"\tif result.Error != nil {\n\t\ttx.Error = result.Error\n\t\treturn tx\n\t}\n\n\tif result.RowsAffected == 0 {", "\tif result.RowsAffected == 0 {"}}},
		Mutant{Name: "c16-firstorcreate-updates-without-assigns", Property: "C16", Rule: "C16.one-write", Edits: []Edit{{"finisher_api.go",
			"\t} else if len(db.Statement.assigns) > 0 {\n\t\texprs := tx.Statement.BuildCondition(db.Statement.assigns[0], db.Statement.assigns[1:]...)", "\t} else {\n\t\texprs := tx.Statement.BuildCondition(db.Statement.assigns[0], db.Statement.assigns[1:]...)"}}},
		Mutant{Name: "c16-save-fallback-plain-create", Property: "C16", Rule: "C16.save", Edits: []Edit{{"finisher_api.go",
			"return tx.Session(&Session{SkipHooks: true}).Clauses(clause.OnConflict{UpdateAll: true}).Create(value)", "return tx.Session(&Session{SkipHooks: true}).Clauses(clause.OnConflict{UpdateAll: false}).Create(value)"}}},
		Mutant{Name: "c16-save-fallback-in-dryrun", Property: "C16", Rule: "C16.save", Edits: []Edit{{"finisher_api.go",
			"updateTx.Error == nil && updateTx.RowsAffected == 0 && !updateTx.DryRun && !selectedUpdate", "updateTx.Error == nil && updateTx.RowsAffected == 0 && !selectedUpdate"}}},
		Mutant{Name: "c16-save-fallback-after-error", Property: "C16", Rule: "C16.save", Edits: []Edit{{"finisher_api.go",
			"updateTx.Error == nil && updateTx.RowsAffected == 0 && !updateTx.DryRun && !selectedUpdate", "updateTx.RowsAffected == 0 && !updateTx.DryRun && !selectedUpdate"}}},
		Mutant{Name: "c16-save-slice-overrides-user-onconflict", Property: "C16", Rule: "C16.save", Edits: []Edit{{"finisher_api.go",
			"\t\tif _, ok := tx.Statement.Clauses[\"ON CONFLICT\"]; !ok {\n\t\t\ttx = tx.Clauses(clause.OnConflict{UpdateAll: true})\n\t\t}", "\t\ttx = tx.Clauses(clause.OnConflict{UpdateAll: true})"}}},
	)
}
