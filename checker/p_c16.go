package main

// C16 — Save, upsert and FirstOrCreate/FirstOrInit converge to the documented state.

import (
	"go/ast"
	"go/types"
	"strings"

	"golang.org/x/tools/go/ssa"
	"golang.org/x/tools/go/types/typeutil"
)

func init() {
	register("C16", checkC16,
		"Structural clauses of C16 decided on every path/site of the current source: (carry) Statement.clone carries attrs and assigns, and Attrs/Assign store them on the instance obtained from getInstance, so they survive a Session/WithContext placed anywhere in the chain; (init-readonly) in the static call closure of FirstOrInit inside package gorm the only pipeline accessor used is Query(), and the executors registered on the query pipeline issue only query-type driver calls, so FirstOrInit cannot reach an INSERT/UPDATE/DELETE pipeline; (one-write) path enumeration over FirstOrCreate: at most one write finisher per path, Create only under RowsAffected == 0 of the lookup, Updates only when a row was found and assigns is non-empty, no write after a lookup error; (save) Save's fallback Create is guarded by Error == nil, RowsAffected == 0, !DryRun and no user selection and carries OnConflict{UpdateAll: true}, the slice arm adds the same clause unless the user supplied ON CONFLICT, the zero-key arm goes to the create pipeline. NOT decided: convergence of table contents, OnConflict expansion per column, idempotence of a double Save.")
}

var writeFinishers = map[string]bool{"Create": true, "CreateInBatches": true, "Save": true, "Update": true, "Updates": true, "UpdateColumn": true, "UpdateColumns": true, "Delete": true, "Exec": true}

func checkC16(c *Ctx) {
	p := c.P
	checkC16NameLookup(c)
	checkC16KeyAll(c)
	checkC16RuleCopy(c)
	checkC16DoNothingWins(c)
	checkC16BlockKeepsChain(c, c.Rule("C16.block-keeps-chain", "the handle a transaction block receives keeps the chain's statement unless the receiver is a root handle (nested arm and Begin agree)", 2))
	dbT := p.Named(pkgGorm, "DB")

	// ---- C16.carry ----
	rc := c.Rule("C16.carry", "attrs/assigns survive clone; Attrs/Assign store on the getInstance instance", 4)
	checkC06Clone(c, rc, map[string]bool{"attrs": true, "assigns": true})
	stmtT := p.Named(pkgGorm, "Statement")
	for _, pair := range [][2]string{{"Attrs", "attrs"}, {"Assign", "assigns"}} {
		m := p.MethodDecl(pkgGorm, "DB", pair[0])
		c.Touch(m)
		fld := p.Field(stmtT, pair[1])
		found := false
		for _, st := range p.FieldStores(fld) {
			if st.Fn != p.SSAFunc(m.Obj) || st.Val == nil {
				continue
			}
			ap := valuePaths(st.Addr)
			vp := valuePaths(st.Val)
			recv := st.Fn.Params[0].Name()
			if len(ap) == 1 && ap[0] == recv+".getInstance().Statement."+pair[1] && len(vp) == 1 && vp[0] == st.Fn.Params[1].Name() {
				found = true
			}
		}
		rc.Check(found, m.Name(), "stores "+pair[1]+" on the new instance", m.Body.Pos(), "stored on getInstance()'s statement", pair[0]+" does not store its arguments on the statement of the instance it returns")
	}

	// ---- C16.attrs-only-when-missing ----
	// "return the first match unchanged, or else a record built from the conditions plus Attrs":
	// Attrs (and the condition values) are applied only under RowsAffected == 0 of the lookup.
	ra2 := c.Rule("C16.attrs-only-when-missing", "FirstOrInit/FirstOrCreate apply conditions and Attrs only when the lookup matched nothing", 4)
	attrsF := p.Field(stmtT, "attrs")
	aitv := p.Method(dbT, "assignInterfacesToValue")
	for _, name := range []string{"FirstOrInit", "FirstOrCreate"} {
		f := p.MethodDecl(pkgGorm, "DB", name)
		c.Touch(f)
		info := f.Pkg.TypesInfo
		n := 0
		for _, call := range callsIn(f) {
			if fn, _ := typeutil.Callee(info, call).(*types.Func); fn != aitv || len(call.Args) != 1 {
				continue
			}
			arg := unparen(call.Args[0])
			isAttrs := fieldSel(info, arg, attrsF)
			isConds := strings.HasSuffix(canon(info, arg), ".Exprs")
			if !isAttrs && !isConds {
				continue // assigns: applied in both cases
			}
			n++
			facts, live := p.Guards(f, nil).At(call.Pos())
			okf := false
			for fc := range facts {
				if strings.HasPrefix(fc, "T:") && strings.HasSuffix(fc, ".RowsAffected == 0") {
					okf = true
				}
			}
			what := "Attrs"
			if isConds {
				what = "condition values"
			}
			ra2.Check(live && okf, f.Name(), what+" applied only when nothing matched", call.Pos(), "under RowsAffected == 0", name+" writes "+what+" into the destination without a dominating RowsAffected == 0 test: a record that WAS found is returned modified (Attrs must only initialise a missing record)")
		}
		ra2.Check(n >= 2, f.Name(), "initialises a missing record", f.Body.Pos(), "conditions and Attrs are applied", name+" no longer initialises a missing record from conditions and Attrs")
	}

	// "return the FIRST match": both lookups fetch one row ordered by the primary key, like First does
	{
		limitM, orderM, findM := p.Method(dbT, "Limit"), p.Method(dbT, "Order"), p.Method(dbT, "Find")
		pkConst := p.Lookup(pkgClause, "PrimaryKey")
		for _, name := range []string{"FirstOrInit", "FirstOrCreate"} {
			f := p.MethodDecl(pkgGorm, "DB", name)
			info := f.Pkg.TypesInfo
			nLook := 0
			for _, call := range callsIn(f) {
				if fn, _ := typeutil.Callee(info, call).(*types.Func); fn != findM {
					continue
				}
				nLook++
				limited, ordered := false, false
				for _, nd := range chainNodes(f, call) {
					ast.Inspect(nd, func(x ast.Node) bool {
						ce, ok := x.(*ast.CallExpr)
						if !ok {
							return true
						}
						switch fn, _ := typeutil.Callee(info, ce).(*types.Func); fn {
						case limitM:
							if len(ce.Args) == 1 {
								if tv, ok := info.Types[ce.Args[0]]; ok && tv.Value != nil && tv.Value.String() == "1" {
									limited = true
								}
							}
						case orderM:
							ast.Inspect(ce, func(y ast.Node) bool {
								if se, ok := y.(*ast.SelectorExpr); ok && info.Uses[se.Sel] == pkConst {
									ordered = true
								}
								if id, ok := y.(*ast.Ident); ok && info.Uses[id] == pkConst {
									ordered = true
								}
								return true
							})
						}
						return true
					})
				}
				ra2.Check(limited && ordered, f.Name(), "lookup returns the first match", call.Pos(), "Limit(1) ordered by the primary key", name+" looks the record up without "+map[bool]string{true: "ordering by the primary key", false: "Limit(1)"}[limited]+": with several matching rows it returns whichever the database yields first, not the first match (and differs from First / its sibling on the same chain)")
			}
			if nLook == 0 {
				ra2.Bad(f.Name(), "lookup", f.Body.Pos(), name+" no longer looks the record up with Find")
			}
		}
	}

	// ---- C16.init-readonly ----
	ri := c.Rule("C16.init-readonly", "REACH(FirstOrInit -> pipeline accessors) within package gorm is {Query}; query executors issue only query-type driver calls", 3)
	cbT := p.Named(pkgGorm, "callbacks")
	accessors := map[*ssa.Function]string{}
	for i := 0; i < cbT.NumMethods(); i++ {
		m := cbT.Method(i)
		sig := m.Type().(*types.Signature)
		if sig.Results().Len() == 1 && sig.Params().Len() == 0 {
			accessors[p.SSAFunc(m)] = m.Name()
		}
	}
	foi := p.SSAFunc(p.Method(dbT, "FirstOrInit"))
	seen := map[*ssa.Function]bool{}
	used := map[string][]string{}
	var visit func(fn *ssa.Function, via string)
	visit = func(fn *ssa.Function, via string) {
		if seen[fn] || fn.Blocks == nil {
			return
		}
		seen[fn] = true
		forEachInstr(fn, func(owner *ssa.Function, in ssa.Instruction) {
			ci, ok := in.(ssa.CallInstruction)
			if !ok {
				return
			}
			callee := ci.Common().StaticCallee()
			if callee == nil {
				return
			}
			if name, ok := accessors[callee]; ok {
				used[name] = append(used[name], ssaFuncName(fn)+" at "+p.Pos(in.Pos()))
				return
			}
			if callee.Pkg != nil && callee.Pkg.Pkg.Path() == pkgGorm {
				visit(callee, ssaFuncName(fn))
			}
		})
	}
	visit(foi, "")
	c.TouchName("gorm.(*DB).FirstOrInit")
	for name, where := range used {
		ri.Check(name == "Query", "gorm.(*DB).FirstOrInit", "reaches pipeline "+name, foi.Pos(), "query pipeline only", "FirstOrInit can reach the "+name+" pipeline: it must never write", where...)
	}
	ri.Check(len(used["Query"]) > 0, "gorm.(*DB).FirstOrInit", "reaches Query", foi.Pos(), "runs the query pipeline", "FirstOrInit no longer reaches the query pipeline; rule lost its anchor")
	execs, _ := executorSet(p)
	nq := 0
	for _, s := range p.DriverSites() {
		reg := execs[s.F]
		if reg == nil || reg.Pipeline != "query" || s.Kind != DrvStmt {
			continue
		}
		nq++
		okq := strings.HasPrefix(s.Callee.Name(), "Query")
		ri.Check(okq, s.F.Name(), "query pipeline driver call "+s.Callee.Name(), s.Call.Pos(), "query-type call", "an executor of the query pipeline issues "+s.Callee.Name()+": read finishers (and FirstOrInit) could modify the database")
	}
	if nq == 0 {
		ri.Bad("callbacks", "query driver site", foi.Pos(), "no driver call found in the query pipeline")
	}

	// ---- C16.one-write ----
	ro := c.Rule("C16.one-write", "path enumeration over FirstOrCreate: <= 1 write finisher per path, each under its documented guard", 4)
	foc := p.MethodDecl(pkgGorm, "DB", "FirstOrCreate")
	c.Touch(foc)
	{
		info := foc.Pkg.TypesInfo
		isWrite := func(ce *ast.CallExpr) string {
			fn, _ := typeutil.Callee(info, ce).(*types.Func)
			if fn == nil || !writeFinishers[fn.Name()] {
				return ""
			}
			sig := fn.Type().(*types.Signature)
			if sig.Recv() == nil || !p.isNamedPtr(sig.Recv().Type(), dbT) {
				return ""
			}
			return fn.Name()
		}
		paths, ok := p.EnumPaths(foc, nil, 20000)
		if !ok {
			ro.Unknown(foc.Name(), "paths", foc.Body.Pos(), "too many paths")
		}
		// name of the lookup result: the variable tested with RowsAffected == 0
		nCreate, nUpdate := 0, 0
		for _, pr := range paths {
			var writes []string
			for _, n := range pr.Nodes {
				ast.Inspect(n, func(x ast.Node) bool {
					if _, isLit := x.(*ast.FuncLit); isLit {
						return false
					}
					if ce, ok := x.(*ast.CallExpr); ok {
						if w := isWrite(ce); w != "" {
							writes = append(writes, w)
						}
					}
					return true
				})
			}
			desc := "path to " + p.Pos(pr.Exit)
			if len(writes) > 1 {
				ro.Bad(foc.Name(), desc, pr.Exit, "a path through FirstOrCreate performs "+strings.Join(writes, "+")+": more than one write", "facts: "+strings.Join(pr.Facts.List(), ", "))
				continue
			}
			if len(writes) == 0 {
				continue
			}
			hasErr := true // a write needs an established "lookup error is nil"
			notFound, found, hasAssigns := false, false, false
			for f := range pr.Facts {
				if strings.HasPrefix(f, "N:") && strings.HasSuffix(f, ".Error") {
					hasErr = false
				}
				if strings.HasPrefix(f, "T:") && strings.HasSuffix(f, ".RowsAffected == 0") {
					notFound = true
				}
				if strings.HasPrefix(f, "F:") && strings.HasSuffix(f, ".RowsAffected == 0") {
					found = true
				}
				if strings.HasPrefix(f, "F:len(") && strings.HasSuffix(f, ".assigns) == 0") {
					hasAssigns = true
				}
			}
			switch writes[0] {
			case "Create":
				nCreate++
				ro.Check(notFound && !hasErr, foc.Name(), desc+" (Create)", pr.Exit, "Create only when the lookup matched nothing and did not fail", "FirstOrCreate creates a record on a path where the lookup did not report RowsAffected == 0 (or failed)", "facts: "+strings.Join(pr.Facts.List(), ", "))
			case "Updates", "Update", "UpdateColumns", "UpdateColumn":
				nUpdate++
				ro.Check(found && hasAssigns && !hasErr, foc.Name(), desc+" ("+writes[0]+")", pr.Exit, "update only for a found record with Assign values", "FirstOrCreate updates on a path where no record was found, the lookup failed, or no Assign values exist", "facts: "+strings.Join(pr.Facts.List(), ", "))
			default:
				ro.Bad(foc.Name(), desc, pr.Exit, "FirstOrCreate performs an unexpected write: "+writes[0])
			}
		}
		ro.Check(nCreate > 0, foc.Name(), "create path exists", foc.Body.Pos(), "some path creates", "FirstOrCreate never creates")
		ro.Check(nUpdate > 0, foc.Name(), "assign-update path exists", foc.Body.Pos(), "some path applies Assign to a found record", "FirstOrCreate never applies Assign to an existing record")
	}

	// ---- C16.save ----
	rs := c.Rule("C16.save", "Save: guarded update-all upsert fallback; slice arm upserts; zero-key arm creates", 4)
	save := p.MethodDecl(pkgGorm, "DB", "Save")
	c.Touch(save)
	{
		info := save.Pkg.TypesInfo
		gs := p.Guards(save, nil)
		createM := p.Method(dbT, "Create")
		clausesM := p.Method(dbT, "Clauses")
		ocT := p.Named(pkgClause, "OnConflict")
		hasUpdateAll := func(n ast.Node) bool {
			ok := false
			ast.Inspect(n, func(x ast.Node) bool {
				ce, isCall := x.(*ast.CallExpr)
				if !isCall {
					return true
				}
				if fn, _ := typeutil.Callee(info, ce).(*types.Func); fn == clausesM {
					for _, a := range ce.Args {
						for _, lit := range litsOfType(info, a, ocT, false) {
							if v := compositeField(lit, "UpdateAll"); v != nil {
								if b, isC := constBool(info, v); isC && b {
									ok = true
								}
							}
						}
					}
				}
				return true
			})
			return ok
		}
		nFallback := 0
		for _, call := range callsIn(save) {
			fn, _ := typeutil.Callee(info, call).(*types.Func)
			if fn != createM {
				continue
			}
			nFallback++
			facts, live := gs.At(call.Pos())
			var miss []string
			if !live {
				miss = append(miss, "site not live")
			}
			need := map[string]bool{"error nil": false, "rows 0": false, "not dryrun": false, "no selection": false}
			for f := range facts {
				switch {
				case strings.HasPrefix(f, "N:") && strings.HasSuffix(f, ".Error"):
					need["error nil"] = true
				case strings.HasPrefix(f, "T:") && strings.HasSuffix(f, ".RowsAffected == 0"):
					need["rows 0"] = true
				case strings.HasPrefix(f, "F:") && strings.HasSuffix(f, ".Config.DryRun"):
					need["not dryrun"] = true
				case strings.HasPrefix(f, "T:len(") && strings.HasSuffix(f, ".Statement.Selects) == 0"):
					need["no selection"] = true
				case strings.HasPrefix(f, "F:") && !strings.ContainsAny(f[2:], " .("):
					// a boolean local: false(v) where v := len(X.Statement.Selects) != 0 (or > 0)
					if def := localBoolDef(save, f[2:]); def != nil {
						cs := canon(info, def)
						if strings.HasPrefix(cs, "len(") && (strings.HasSuffix(cs, ".Statement.Selects) != 0") || strings.HasSuffix(cs, ".Statement.Selects) > 0")) {
							need["no selection"] = true
						}
					}
				}
			}
			for k, v := range need {
				if !v {
					miss = append(miss, k)
				}
			}
			rs.Check(len(miss) == 0, save.Name(), "fallback Create guard", call.Pos(), "only after an update that matched nothing, without error, not in DryRun, without user selection", "Save's insert fallback is not guarded by: "+strings.Join(miss, ", "), "facts: "+strings.Join(facts.List(), ", "))
			upAll := false
			for _, nd := range chainNodes(save, call) {
				if hasUpdateAll(nd) {
					upAll = true
				}
			}
			rs.Check(upAll, save.Name(), "fallback Create is an update-all upsert", call.Pos(), "OnConflict{UpdateAll: true}", "Save's insert fallback is a plain Create: saving an existing key would fail instead of storing the full value")
		}
		// the zero-key arm: Create when ANY primary field is blank - the zero test is applied to the range
		// variable of a loop over all primary fields (a composite key with one blank part is not "stored")
		{
			createAcc := p.Method(p.Named(pkgGorm, "callbacks"), "Create")
			parents := parentMap(save.Body)
			nZero := 0
			for _, call := range callsIn(save) {
				if fn, _ := typeutil.Callee(info, call).(*types.Func); fn != createAcc {
					continue
				}
				// enclosing if whose condition is the zero flag of a ValueOf call
				for cur := ast.Node(call); cur != nil; cur = parents[cur] {
					ifs, ok := parents[cur].(*ast.IfStmt)
					if !ok || cur != ast.Node(ifs.Body) {
						continue
					}
					as, ok := ifs.Init.(*ast.AssignStmt)
					if !ok || len(as.Rhs) != 1 {
						continue
					}
					vo, ok := unparen(as.Rhs[0]).(*ast.CallExpr)
					if !ok {
						continue
					}
					vsel, ok := vo.Fun.(*ast.SelectorExpr)
					if !ok || vsel.Sel.Name != "ValueOf" {
						continue
					}
					nZero++
					all := false
					if pfID, ok := unparen(vsel.X).(*ast.Ident); ok {
						for up := ast.Node(ifs); up != nil; up = parents[up] {
							if rg, ok := parents[up].(*ast.RangeStmt); ok {
								if v, ok := rg.Value.(*ast.Ident); ok && info.Defs[v] == info.Uses[pfID] && strings.HasSuffix(canon(info, rg.X), ".Schema.PrimaryFields") {
									all = true
								}
							}
						}
					}
					rs.Check(all, save.Name(), "zero-key arm tests every primary field", ifs.Pos(), "range over Schema.PrimaryFields", "Save decides 'never stored' from one primary field only: a composite-key value with another key part blank goes to the UPDATE path and overwrites every row sharing the set part instead of being inserted")
					break
				}
			}
			rs.Check(nZero >= 1, save.Name(), "zero-key arm exists", save.Body.Pos(), "blank key goes to the create pipeline", "Save no longer sends a value with a blank primary key to the create pipeline")
		}
		checkDoNothingScanMode(c, rs)
		rs.Check(nFallback > 0, save.Name(), "fallback exists", save.Body.Pos(), "update-then-upsert fallback present", "Save has no insert fallback")
		// slice arm: adds OnConflict{UpdateAll:true} unless user supplied ON CONFLICT
		okSlice := false
		ast.Inspect(save.Body, func(n ast.Node) bool {
			as, ok := n.(*ast.AssignStmt)
			if !ok || len(as.Rhs) != 1 || !hasUpdateAll(as.Rhs[0]) {
				return true
			}
			facts, live := gs.At(as.Pos())
			if live && localFact(save, facts, false, as.Pos(), defIsMapLookupOK(p.Field(stmtT, "Clauses"), "ON CONFLICT")) {
				okSlice = true
			}
			return true
		})
		rs.Check(okSlice, save.Name(), "slice arm upserts unless ON CONFLICT given", save.Body.Pos(), "adds OnConflict{UpdateAll: true} when the user gave none", "Save's slice arm does not add an update-all ON CONFLICT clause (or overrides the user's)")
		// zero-key arm: create pipeline directly
		accCreate := p.Method(p.Named(pkgGorm, "callbacks"), "Create")
		okZero := false
		for _, call := range callsIn(save) {
			fn, _ := typeutil.Callee(info, call).(*types.Func)
			if fn != accCreate {
				continue
			}
			facts, live := gs.At(call.Pos())
			if live && localFact(save, facts, true, call.Pos(), defIsZeroOfValueOf) {
				okZero = true
			}
		}
		rs.Check(okZero, save.Name(), "zero primary key goes to the create pipeline", save.Body.Pos(), "create pipeline under isZero", "Save does not send a value with a zero primary key to the create pipeline")
	}
}

// localBoolDef returns the initialiser of a local variable named name that is assigned exactly once in f.
func localBoolDef(f *FuncSrc, name string) ast.Expr {
	var def ast.Expr
	n := 0
	ast.Inspect(f.Body, func(x ast.Node) bool {
		if as, ok := x.(*ast.AssignStmt); ok && len(as.Lhs) == len(as.Rhs) {
			for i, l := range as.Lhs {
				if id, ok := l.(*ast.Ident); ok && id.Name == name {
					n++
					def = as.Rhs[i]
				}
			}
		}
		return true
	})
	if n == 1 {
		return def
	}
	return nil
}
