package main

func init() {
	addMutants(
		Mutant{Name: "c10-map-create-ignores-create-permission", Property: "C10", Rule: "C10.flags", Edits: []Edit{{"callbacks/helper.go",
			"\tvalues.Columns = make([]clause.Column, 0, len(mapValue))\n\tselectColumns, restricted := stmt.SelectAndOmitColumns(true, false)", "\tvalues.Columns = make([]clause.Column, 0, len(mapValue))\n\tselectColumns, restricted := stmt.SelectAndOmitColumns(false, false)"}}},
		Mutant{Name: "c10-assignments-ignore-update-permission", Property: "C10", Rule: "C10.flags", Edits: []Edit{{"callbacks/update.go",
			"\t\tselectColumns, restricted = stmt.SelectAndOmitColumns(false, true)", "\t\tselectColumns, restricted = stmt.SelectAndOmitColumns(false, false)"}}},
		Mutant{Name: "c10-upsert-expansion-create-only", Property: "C10", Rule: "C10.flags", Edits: []Edit{{"callbacks/create.go",
			"\t\t\t\tselectColumns, restricted := stmt.SelectAndOmitColumns(true, true)", "\t\t\t\tselectColumns, restricted := stmt.SelectAndOmitColumns(true, false)"}}},
		Mutant{Name: "c10-after-associations-wrong-phase-flags", Property: "C10", Rule: "C10.flags", Edits: []Edit{{"callbacks/associations.go",
			"func SaveAfterAssociations(create bool) func(db *gorm.DB) {\n\treturn func(db *gorm.DB) {\n\t\tif db.Error == nil && db.Statement.Schema != nil {\n\t\t\tselectColumns, restricted := db.Statement.SelectAndOmitColumns(create, !create)",
			"func SaveAfterAssociations(create bool) func(db *gorm.DB) {\n\treturn func(db *gorm.DB) {\n\t\tif db.Error == nil && db.Statement.Schema != nil {\n\t\t\tselectColumns, restricted := db.Statement.SelectAndOmitColumns(true, false)"}}},
		Mutant{Name: "c10-create-column-emitted-before-lookup", Property: "C10", Rule: "C10.emit", Edits: []Edit{{"callbacks/create.go",
			"\t\t\t\tif v, ok := selectColumns[db]; (ok && v) || (!ok && (!restricted || field.AutoCreateTime > 0 || field.AutoUpdateTime > 0)) {\n\t\t\t\t\tvalues.Columns = append(values.Columns, clause.Column{Name: db})\n\t\t\t\t}",
			"\t\t\t\tvalues.Columns = append(values.Columns, clause.Column{Name: db})"}}},
		Mutant{Name: "c10-default-db-value-columns-unfiltered", Property: "C10", Rule: "C10.emit", Edits: []Edit{{"callbacks/create.go",
			"\t\t\t\t\tif v, ok := selectColumns[field.DBName]; (ok && v) || (!ok && !restricted) {\n\t\t\t\t\t\tif rvOfvalue, isZero := field.ValueOf(stmt.Context, rv); !isZero {\n\t\t\t\t\t\t\tif len(defaultValueFieldsHavingValue[field]) == 0 {\n\t\t\t\t\t\t\t\tdefaultValueFieldsHavingValue[field] = make([]interface{}, rValLen)\n\t\t\t\t\t\t\t}\n\t\t\t\t\t\t\tdefaultValueFieldsHavingValue[field][i] = rvOfvalue\n\t\t\t\t\t\t}\n\t\t\t\t\t}",
			"\t\t\t\t\tif rvOfvalue, isZero := field.ValueOf(stmt.Context, rv); !isZero {\n\t\t\t\t\t\tif len(defaultValueFieldsHavingValue[field]) == 0 {\n\t\t\t\t\t\t\tdefaultValueFieldsHavingValue[field] = make([]interface{}, rValLen)\n\t\t\t\t\t\t}\n\t\t\t\t\t\tdefaultValueFieldsHavingValue[field][i] = rvOfvalue\n\t\t\t\t\t}"}},
			Note: "two cooperating sites: the accumulator is filled without the lookup, the later emission trusts the accumulator"},
		Mutant{Name: "c10-update-map-key-unfiltered", Property: "C10", Rule: "C10.emit", Edits: []Edit{{"callbacks/update.go",
			"\t\t\tif v, ok := selectColumns[k]; (ok && v) || (!ok && !restricted) {\n\t\t\t\tset = append(set, clause.Assignment{Column: clause.Column{Name: k}, Value: kv})\n\t\t\t}", "\t\t\tset = append(set, clause.Assignment{Column: clause.Column{Name: k}, Value: kv})"}}},
		Mutant{Name: "c10-slice-of-map-columns-unfiltered", Property: "C10", Rule: "C10.emit", Edits: []Edit{{"callbacks/helper.go",
			"\t\t\t\tif v, ok := selectColumns[k]; (ok && v) || (!ok && !restricted) {\n\t\t\t\t\tresult[k] = make([]interface{}, len(mapValues))\n\t\t\t\t\tcolumns = append(columns, k)\n\t\t\t\t} else {\n\t\t\t\t\tcontinue\n\t\t\t\t}",
			"\t\t\t\tif v, ok := selectColumns[k]; (ok && v) || (!ok && !restricted) || len(columns) == 0 {\n\t\t\t\t\tresult[k] = make([]interface{}, len(mapValues))\n\t\t\t\t}\n\t\t\t\tif result[k] == nil {\n\t\t\t\t\tcontinue\n\t\t\t\t}\n\t\t\t\tcolumns = append(columns, k)"}}},
		Mutant{Name: "c10-not-updatable-not-enforced", Property: "C10", Rule: "C10.perm", Edits: []Edit{{"statement.go",
			"\t\t\tif requireCreate && !field.Creatable {\n\t\t\t\tresults[name] = false\n\t\t\t} else if requireUpdate && !field.Updatable {\n\t\t\t\tresults[name] = false\n\t\t\t}", "\t\t\tif requireCreate && !field.Creatable {\n\t\t\t\tresults[name] = false\n\t\t\t}"}}},
		Mutant{Name: "c10-permission-before-select-processing", Property: "C10", Rule: "C10.perm", Edits: []Edit{
			{"statement.go", "\tif stmt.Schema != nil {\n\t\tfor _, field := range stmt.Schema.FieldsByName {\n\t\t\tname := field.DBName\n\t\t\tif name == \"\" {\n\t\t\t\tname = field.Name\n\t\t\t}\n\n\t\t\tif requireCreate && !field.Creatable {\n\t\t\t\tresults[name] = false\n\t\t\t} else if requireUpdate && !field.Updatable {\n\t\t\t\tresults[name] = false\n\t\t\t}\n\t\t}\n\t}\n\n", ""},
			{"statement.go", "\t// select columns\n\tfor _, column := range stmt.Selects {", "\tif stmt.Schema != nil {\n\t\tfor _, field := range stmt.Schema.FieldsByName {\n\t\t\tname := field.DBName\n\t\t\tif name == \"\" {\n\t\t\t\tname = field.Name\n\t\t\t}\n\n\t\t\tif requireCreate && !field.Creatable {\n\t\t\t\tresults[name] = false\n\t\t\t} else if requireUpdate && !field.Updatable {\n\t\t\t\tresults[name] = false\n\t\t\t}\n\t\t}\n\t}\n\n\t// select columns\n\tfor _, column := range stmt.Selects {"}}},
		Mutant{Name: "c10-autotime-ignores-skiphooks", Property: "C10", Rule: "C10.skip-hooks", Edits: []Edit{{"callbacks/update.go",
			"\t\tif !stmt.SkipHooks && stmt.Schema != nil {\n\t\t\tfor _, dbName := range stmt.Schema.DBNames {", "\t\tif stmt.Schema != nil {\n\t\t\tfor _, dbName := range stmt.Schema.DBNames {"}}},
		Mutant{Name: "c10-updatecolumn-runs-hooks", Property: "C10", Rule: "C10.skip-hooks", Edits: []Edit{{"finisher_api.go",
			"\ttx.Statement.Dest = map[string]interface{}{column: value}\n\ttx.Statement.SkipHooks = true\n", "\ttx.Statement.Dest = map[string]interface{}{column: value}\n"}}},
		Mutant{Name: "c10-save-star-overrides-user-select", Property: "C10", Rule: "C10.save", Edits: []Edit{{"finisher_api.go",
			"\t\tif !selectedUpdate {\n\t\t\ttx.Statement.Selects = append(tx.Statement.Selects, \"*\")\n\t\t}", "\t\ttx.Statement.Selects = append(tx.Statement.Selects, \"*\")"}}},
	)
}

func init() {
	addMutants(
		Mutant{Name: "c10-omitted-column-passes-filter", Property: "C10", Rule: "C10.emit", Edits: []Edit{{"callbacks/helper.go",
			"\t\tif v, ok := selectColumns[k]; (ok && v) || (!ok && !restricted) {\n\t\t\tvalues.Columns = append(values.Columns, clause.Column{Name: k})", "\t\tif v, ok := selectColumns[k]; ok || !restricted || v {\n\t\t\tvalues.Columns = append(values.Columns, clause.Column{Name: k})"}},
			Note: "an entry that is present with value false (Omit / permission tag) now enables the emission"},
	)
}
