package main

// Effect summaries over SSA: which parameters a function writes through
// (stores / map updates / element stores on memory reachable from the
// parameter by field selections, loads and indexing only).

import (
	"go/types"
	"regexp"
	"strings"

	"golang.org/x/tools/go/ssa"
)

var purePathRe = regexp.MustCompile(`^[A-Za-z_][A-Za-z_0-9]*((\.[A-Za-z_][A-Za-z_0-9]*)|(\[[^\]]*\]))*$`)

// pureRoot returns the root identifier if path is made of field selections / indexing only.
func pureRoot(path string) (string, bool) {
	if strings.HasPrefix(path, "const:") || strings.HasPrefix(path, "global:") || strings.HasPrefix(path, "alloc:") ||
		strings.HasPrefix(path, "call:") || strings.HasPrefix(path, "free:") || strings.HasPrefix(path, "func:") {
		return "", false
	}
	if !purePathRe.MatchString(path) {
		return "", false
	}
	i := strings.IndexAny(path, ".[")
	if i < 0 {
		return path, true
	}
	return path[:i], true
}

// WriteSite is a store through memory rooted at a parameter.
type WriteSite struct {
	Fn    *ssa.Function
	Instr ssa.Instruction
	Path  string // access path written
	Via   string // callee through which the write happens ("" if direct)
}

type effectSummaries struct {
	p       *Program
	writes  map[*ssa.Function]map[int][]WriteSite // fn -> param index -> witnesses
	trusted map[*ssa.Function]bool                // functions whose writes are decided by another rule
}

var effCache = map[string]*effectSummaries{}

// Effects computes write summaries; functions in trusted are treated as non-writing
// (their own obligations are decided by a dedicated rule).
func (p *Program) Effects(trusted ...*ssa.Function) *effectSummaries {
	key := ""
	for _, t := range trusted {
		key += t.String() + ";"
	}
	if e, ok := effCache[key]; ok && e.p == p {
		return e
	}
	e := &effectSummaries{p: p, writes: map[*ssa.Function]map[int][]WriteSite{}, trusted: map[*ssa.Function]bool{}}
	for _, t := range trusted {
		e.trusted[t] = true
	}
	e.compute()
	effCache[key] = e
	return e
}

func paramIndexByName(fn *ssa.Function, name string) int {
	for i, prm := range fn.Params {
		if prm.Name() == name {
			return i
		}
	}
	return -1
}

// readOnlyExternal lists external methods that do not mutate their receiver.
var readOnlyExternal = map[string]bool{
	"Load": true, "Range": true, "Len": true, "String": true, "Cap": true, "RLock": true, "RUnlock": true,
	"Lock": true, "Unlock": true, // synchronisation, not data
	"Kind": true, "Type": true, "IsValid": true, "IsNil": true, "Interface": true, "Elem": true, "CanAddr": true, "Index": true,
	"Error": true, "Name": true,
}

func isPointerLike(t types.Type) bool {
	switch t.Underlying().(type) {
	case *types.Pointer, *types.Map, *types.Slice, *types.Chan, *types.Interface, *types.Signature:
		return true
	}
	return false
}

// directWrites lists the stores in fn whose target is purely rooted at some name (parameter or free variable binding).
func directWrites(fn *ssa.Function) []WriteSite {
	var out []WriteSite
	for _, b := range fn.Blocks {
		for _, in := range b.Instrs {
			switch in := in.(type) {
			case *ssa.Store:
				// ignore stores into local allocs
				for _, pth := range valuePaths(in.Addr) {
					if _, ok := pureRoot(pth); ok && strings.ContainsAny(pth, ".[") {
						out = append(out, WriteSite{Fn: fn, Instr: in, Path: pth})
					}
				}
			case *ssa.MapUpdate:
				for _, pth := range valuePaths(in.Map) {
					if _, ok := pureRoot(pth); ok {
						out = append(out, WriteSite{Fn: fn, Instr: in, Path: pth + "[k]"})
					}
				}
			case ssa.CallInstruction:
				// builtin delete(m, k) removes an entry of m; copy(dst, src) writes dst's elements
				// (also when deferred or started with go)
				if bi, ok := in.Common().Value.(*ssa.Builtin); ok && len(in.Common().Args) >= 1 {
					switch bi.Name() {
					case "delete":
						for _, pth := range valuePaths(in.Common().Args[0]) {
							if _, ok := pureRoot(pth); ok {
								out = append(out, WriteSite{Fn: fn, Instr: in, Path: pth + "[k]"})
							}
						}
					case "copy":
						for _, pth := range valuePaths(in.Common().Args[0]) {
							if _, ok := pureRoot(pth); ok && strings.ContainsAny(pth, ".[") {
								out = append(out, WriteSite{Fn: fn, Instr: in, Path: pth + "[i]"})
							}
						}
					}
				}
			}
		}
	}
	return out
}

func (e *effectSummaries) compute() {
	p := e.p
	funcs := p.SSAFuncs()
	add := func(fn *ssa.Function, idx int, w WriteSite) bool {
		if e.trusted[fn] {
			return false
		}
		m := e.writes[fn]
		if m == nil {
			m = map[int][]WriteSite{}
			e.writes[fn] = m
		}
		first := len(m[idx]) == 0
		if len(m[idx]) < 12 {
			dup := false
			for _, o := range m[idx] {
				if o.Instr == w.Instr && o.Path == w.Path {
					dup = true
				}
			}
			if !dup {
				m[idx] = append(m[idx], w)
			}
		}
		return first
	}
	// direct writes
	for _, fn := range funcs {
		for _, w := range directWrites(fn) {
			if !pathExternal(fn, w.Path) {
				continue
			}
			root, _ := pureRoot(w.Path)
			owner := fn
			// a closure writing through a captured parameter counts for the declaring function
			for owner != nil {
				if idx := paramIndexByName(owner, root); idx >= 0 {
					add(owner, idx, w)
					break
				}
				owner = owner.Parent()
			}
		}
	}
	// propagate through calls
	for changed, iter := true, 0; changed && iter < 20; iter++ {
		changed = false
		for _, fn := range funcs {
			for _, b := range fn.Blocks {
				for _, in := range b.Instrs {
					ci, ok := in.(ssa.CallInstruction)
					if !ok {
						continue
					}
					cc := ci.Common()
					callee := cc.StaticCallee()
					if callee == nil {
						continue
					}
					cw := e.writes[callee]
					if len(cw) == 0 {
						continue
					}
					for idx := range cw {
						if idx >= len(cc.Args) {
							continue
						}
						arg := cc.Args[idx]
						if !isPointerLike(arg.Type()) {
							continue
						}
						for _, pth := range valuePaths(arg) {
							root, ok := pureRoot(pth)
							if !ok {
								continue
							}
							owner := fn
							for owner != nil {
								if pi := paramIndexByName(owner, root); pi >= 0 {
									if add(owner, pi, WriteSite{Fn: fn, Instr: in, Path: pth, Via: ssaFuncName(callee)}) {
										changed = true
									}
									break
								}
								owner = owner.Parent()
							}
						}
					}
				}
			}
		}
	}
}

// WritesThrough reports whether fn (or a callee) writes through parameter idx.
func (e *effectSummaries) WritesThrough(fn *ssa.Function, idx int) ([]WriteSite, bool) {
	w := e.writes[fn][idx]
	return w, len(w) > 0
}

// pathExternal reports whether a write to path (rooted at a parameter of fn or an
// enclosing function) reaches memory visible to the caller: it does when some step of the
// path dereferences a pointer, slice or map.  Writing a direct field of a struct *value*
// parameter only changes the callee's copy.
func pathExternal(fn *ssa.Function, path string) bool {
	root, ok := pureRoot(path)
	if !ok {
		return false
	}
	var t types.Type
	for f := fn; f != nil && t == nil; f = f.Parent() {
		for _, prm := range f.Params {
			if prm.Name() == root {
				t = prm.Type()
			}
		}
	}
	if t == nil {
		return true // unknown root: be conservative
	}
	rest := path[len(root):]
	for len(rest) > 0 {
		switch u := t.Underlying().(type) {
		case *types.Pointer:
			// the next step goes through the pointer
			if rest[0] == '.' {
				t = u.Elem()
				// fallthrough to field selection below with external = true
				name := rest[1:]
				if i := strings.IndexAny(name, ".["); i >= 0 {
					name = name[:i]
				}
				return true && name != ""
			}
			return true
		case *types.Slice, *types.Map:
			return true
		case *types.Struct:
			if rest[0] != '.' {
				return true
			}
			name := rest[1:]
			if i := strings.IndexAny(name, ".["); i >= 0 {
				name = name[:i]
			}
			var ft types.Type
			for i := 0; i < u.NumFields(); i++ {
				if u.Field(i).Name() == name {
					ft = u.Field(i).Type()
				}
			}
			if ft == nil {
				return true
			}
			t = ft
			rest = rest[1+len(name):]
		case *types.Array:
			if rest[0] != '[' {
				return true
			}
			j := strings.Index(rest, "]")
			if j < 0 {
				return true
			}
			t = u.Elem()
			rest = rest[j+1:]
		default:
			return true
		}
	}
	return false
}
