package main

func init() {
	addMutants(
		Mutant{Name: "c03-reversed-backfill-counts-up", Property: "C03", Rule: "C03.backfill-order", Edits: []Edit{{"callbacks/create.go",
			"\t\t\t\t\t\t\tdb.AddError(pkField.Set(db.Statement.Context, rv, insertID))\n\t\t\t\t\t\t\tinsertID -= pkField.AutoIncrementIncrement", "\t\t\t\t\t\t\tdb.AddError(pkField.Set(db.Statement.Context, rv, insertID))\n\t\t\t\t\t\t\tinsertID += pkField.AutoIncrementIncrement"}}},
		Mutant{Name: "c03-forward-backfill-runs-backwards", Property: "C03", Rule: "C03.backfill-order", Edits: []Edit{{"callbacks/create.go",
			"\t\t\t\t} else {\n\t\t\t\t\tfor i := 0; i < db.Statement.ReflectValue.Len(); i++ {", "\t\t\t\t} else {\n\t\t\t\t\tfor i := db.Statement.ReflectValue.Len() - 1; i >= 0; i-- {"}}},
		Mutant{Name: "c03-id-advances-for-keyed-records", Property: "C03", Rule: "C03.backfill-order", Edits: []Edit{{"callbacks/create.go",
			"\t\t\t\t\t\tif _, isZero := pkField.ValueOf(db.Statement.Context, rv); isZero {\n\t\t\t\t\t\t\tdb.AddError(pkField.Set(db.Statement.Context, rv, insertID))\n\t\t\t\t\t\t\tinsertID += pkField.AutoIncrementIncrement\n\t\t\t\t\t\t}", "\t\t\t\t\t\tif _, isZero := pkField.ValueOf(db.Statement.Context, rv); isZero {\n\t\t\t\t\t\t\tdb.AddError(pkField.Set(db.Statement.Context, rv, insertID))\n\t\t\t\t\t\t}\n\t\t\t\t\t\tinsertID += pkField.AutoIncrementIncrement"}}},
		Mutant{Name: "c03-map-slice-preadjust-always", Property: "C03", Rule: "C03.backfill-order", Edits: []Edit{{"callbacks/create.go",
			"\t\t\tif config.LastInsertIDReversed {\n\t\t\t\tinsertID -= int64(len(mapValues)-1) * schema.DefaultAutoIncrementIncrement\n\t\t\t}", "\t\t\tinsertID -= int64(len(mapValues)-1) * schema.DefaultAutoIncrementIncrement"}}},
		Mutant{Name: "c03-default-value-not-written-back", Property: "C03", Rule: "C03.fill-pair", Edits: []Edit{{"callbacks/create.go",
			"\t\t\t\t\t\tvalues.Values[0][idx] = field.DefaultValueInterface\n\t\t\t\t\t\tstmt.AddError(field.Set(stmt.Context, stmt.ReflectValue, field.DefaultValueInterface))", "\t\t\t\t\t\tvalues.Values[0][idx] = field.DefaultValueInterface"}}},
		Mutant{Name: "c03-auto-time-set-but-cell-keeps-zero", Property: "C03", Rule: "C03.fill-pair", Edits: []Edit{{"callbacks/create.go",
			"\t\t\t\t\t\t} else if field.AutoCreateTime > 0 || field.AutoUpdateTime > 0 {\n\t\t\t\t\t\t\tstmt.AddError(field.Set(stmt.Context, rv, curTime))\n\t\t\t\t\t\t\tvalues.Values[i][idx], _ = field.ValueOf(stmt.Context, rv)", "\t\t\t\t\t\t} else if field.AutoCreateTime > 0 || field.AutoUpdateTime > 0 {\n\t\t\t\t\t\t\tstmt.AddError(field.Set(stmt.Context, rv, curTime))"}}},
		Mutant{Name: "c03-slice-cell-rereads-first-record", Property: "C03", Rule: "C03.fill-pair", Edits: []Edit{{"callbacks/create.go",
			"\t\t\t\t\t} else if field.AutoUpdateTime > 0 && updateTrackTime {\n\t\t\t\t\t\tstmt.AddError(field.Set(stmt.Context, rv, curTime))\n\t\t\t\t\t\tvalues.Values[i][idx], _ = field.ValueOf(stmt.Context, rv)", "\t\t\t\t\t} else if field.AutoUpdateTime > 0 && updateTrackTime {\n\t\t\t\t\t\tstmt.AddError(field.Set(stmt.Context, rv, curTime))\n\t\t\t\t\t\tvalues.Values[i][idx], _ = field.ValueOf(stmt.Context, reflect.Indirect(stmt.ReflectValue.Index(0)))"}}},
		Mutant{Name: "c03-scan-sets-from-neighbour-column", Property: "C03", Rule: "C03.scan-set", Edits: []Edit{{"scan.go",
			"\t\t\tdb.AddError(field.Set(db.Statement.Context, reflectValue, values[idx]))", "\t\t\tdb.AddError(field.Set(db.Statement.Context, reflectValue, values[len(values)-1-idx]))"}}},
		Mutant{Name: "c03-map-scan-leaves-invalid-columns", Property: "C03", Rule: "C03.map-complete", Edits: []Edit{{"scan.go",
			"\t\t} else {\n\t\t\tmapValue[column] = nil\n\t\t}", "\t\t}"}}},

		Mutant{Name: "n46-backfill-loops-share-step-local", Property: "*", Rule: "NEUTRAL", Edits: []Edit{
			{"callbacks/create.go", "\t\t\t\t\t\t_, isZero := pkField.ValueOf(db.Statement.Context, rv)\n\t\t\t\t\t\tif isZero {\n\t\t\t\t\t\t\tdb.AddError(pkField.Set(db.Statement.Context, rv, insertID))\n\t\t\t\t\t\t\tinsertID -= pkField.AutoIncrementIncrement\n\t\t\t\t\t\t}", "\t\t\t\t\t\tif _, blank := pkField.ValueOf(db.Statement.Context, rv); blank {\n\t\t\t\t\t\t\tdb.AddError(pkField.Set(db.Statement.Context, rv, insertID))\n\t\t\t\t\t\t\tinsertID -= pkField.AutoIncrementIncrement\n\t\t\t\t\t\t}"}}},
		Mutant{Name: "n47-fill-default-order-swapped", Property: "*", Rule: "NEUTRAL", Edits: []Edit{
			{"callbacks/create.go", "\t\t\t\t\t\tvalues.Values[0][idx] = field.DefaultValueInterface\n\t\t\t\t\t\tstmt.AddError(field.Set(stmt.Context, stmt.ReflectValue, field.DefaultValueInterface))", "\t\t\t\t\t\tstmt.AddError(field.Set(stmt.Context, stmt.ReflectValue, field.DefaultValueInterface))\n\t\t\t\t\t\tvalues.Values[0][idx] = field.DefaultValueInterface"}}},
	)
}
