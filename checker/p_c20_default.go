package main

// C20.default-agree: the DDL writer (FullDataTypeOf) and the column comparer (MigrateColumn) agree on when
// a field "has a default".  Decided on the truth tables of the two conditions for the case both mention
// explicitly: a field whose default was parsed into DefaultValueInterface.  If the comparer counts such a
// field as having a non-NULL default but the writer emits no DEFAULT for it, a freshly migrated column
// differs from the model on every later run (AutoMigrate alters it again and again) and a NOT NULL column
// with such a default cannot be added to a populated table.

import (
	"go/ast"
	"go/token"
	"go/types"
	"strings"
)

func checkC20Default(c *Ctx) {
	p := c.P
	r := c.Rule("C20.default-agree", "FullDataTypeOf emits DEFAULT and MigrateColumn expects a default for every field with a parsed default value", 2)
	fieldT := p.Named(pkgSchema, "Field")
	hasF := p.Field(fieldT, "HasDefaultValue")
	ifaceF := p.Field(fieldT, "DefaultValueInterface")

	// atoms of a formula that stand for "HasDefaultValue" and "DefaultValueInterface == nil"
	atomsOf := func(info *types.Info, bf boolFormula) (has, ifaceNil string) {
		for name, e := range bf.exprs {
			switch x := unparen(e).(type) {
			case *ast.SelectorExpr:
				if fieldSel(info, x, hasF) {
					has = name
				}
			case *ast.BinaryExpr:
				if (x.Op == token.EQL || x.Op == token.NEQ) && ((fieldSel(info, x.X, ifaceF) && isNilIdent(info, x.Y)) || (fieldSel(info, x.Y, ifaceF) && isNilIdent(info, x.X))) {
					ifaceNil = name
				}
			}
		}
		return
	}

	// writer: every path through FullDataTypeOf that is consistent with HasDefaultValue && DefaultValueInterface != nil
	// passes a DEFAULT emission (path enumeration with compound conditions split into alternatives)
	fdt := p.MethodDecl(pkgMigrator, "Migrator", "FullDataTypeOf")
	c.Touch(fdt)
	{
		info := fdt.Pkg.TypesInfo
		hasC, ifaceC := map[string]bool{}, map[string]bool{}
		emitNodes := map[ast.Node]bool{}
		ast.Inspect(fdt.Body, func(n ast.Node) bool {
			switch x := n.(type) {
			case *ast.SelectorExpr:
				if fieldSel(info, x, hasF) {
					hasC[canon(info, x)] = true
				}
				if fieldSel(info, x, ifaceF) {
					ifaceC[canon(info, x)] = true
				}
			case *ast.AssignStmt:
				if len(x.Rhs) == 1 {
					ast.Inspect(x.Rhs[0], func(y ast.Node) bool {
						if bl, ok := y.(*ast.BasicLit); ok && bl.Kind == token.STRING && strings.Contains(strings.ToUpper(bl.Value), " DEFAULT ") {
							emitNodes[x] = true
						}
						return true
					})
				}
			}
			return true
		})
		if len(emitNodes) == 0 {
			r.Bad(fdt.Name(), "DEFAULT emission", fdt.Body.Pos(), "FullDataTypeOf no longer emits a DEFAULT clause; rule lost its anchor")
		} else {
			paths, ok := p.EnumPaths(fdt, nil, 4096)
			if !ok {
				r.Unknown(fdt.Name(), "paths", fdt.Body.Pos(), "too many paths through FullDataTypeOf")
			}
			bad := ""
			nCons := 0
			for _, pr := range paths {
				consistent := true
				for h := range hasC {
					if pr.Facts.Has(fFalse(h)) {
						consistent = false
					}
				}
				for i := range ifaceC {
					if pr.Facts.Has(fNil(i)) {
						consistent = false
					}
				}
				if !consistent {
					continue
				}
				nCons++
				emits := false
				for _, nd := range pr.Nodes {
					if emitNodes[nd] {
						emits = true
					}
				}
				if !emits && bad == "" {
					bad = strings.Join(pr.Facts.List(), ", ")
				}
			}
			r.Check(bad == "" && nCons > 0, fdt.Name(), "DEFAULT emitted for a parsed default value", fdt.Body.Pos(), "every path consistent with HasDefaultValue && DefaultValueInterface != nil passes a DEFAULT emission", "a field whose default value was parsed (DefaultValueInterface != nil, e.g. default:'' or default:0) gets no DEFAULT in the column definition on some path, while MigrateColumn still expects one: the column is altered on every AutoMigrate run and a NOT NULL column with that default cannot be added", "path without emission: "+bad)
		}
	}

	// comparer
	mc := p.MethodDecl(pkgMigrator, "Migrator", "MigrateColumn")
	c.Touch(mc)
	{
		info := mc.Pkg.TypesInfo
		n := 0
		check := func(e ast.Expr) {
			mentionsHas, mentionsIface := false, false
			ast.Inspect(e, func(x ast.Node) bool {
				if se, ok := x.(*ast.SelectorExpr); ok {
					if fieldSel(info, se, hasF) {
						mentionsHas = true
					}
					if fieldSel(info, se, ifaceF) {
						mentionsIface = true
					}
				}
				return true
			})
			if !mentionsHas || !mentionsIface {
				return
			}
			n++
			bf := boolTable(info, e)
			has, ifaceNil := atomsOf(info, bf)
			okR := false
			if has != "" && ifaceNil != "" {
				okR, _ = bf.forAll(map[string]bool{has: true, ifaceNil: false}, true)
			}
			r.Check(okR, mc.Name(), "a parsed default value counts as a non-NULL default", e.Pos(), "HasDefaultValue && DefaultValueInterface != nil => current default is not NULL", "MigrateColumn does not count a parsed default value as a default although FullDataTypeOf emits one: the column is altered (default dropped) on every AutoMigrate run")
		}
		ast.Inspect(mc.Body, func(nd ast.Node) bool {
			switch x := nd.(type) {
			case *ast.AssignStmt:
				for _, rhs := range x.Rhs {
					if isBoolType(info, rhs) {
						check(rhs)
					}
				}
			case *ast.IfStmt:
				check(x.Cond)
			}
			return true
		})
		if n == 0 {
			r.Bad(mc.Name(), "default comparison", mc.Body.Pos(), "MigrateColumn no longer derives 'has a non-NULL default' from HasDefaultValue/DefaultValueInterface; rule lost its anchor")
		}
	}
}
